(* C01 — executable model of the store's multi-fraction life: rotation, sealing, the loader's
   start-up over several fractions, and crashes at every operation boundary of these.
   NO proofs in this file.

   Mirrors (default configuration: SkipSortDocs = false, KeepMetaFile = false, SkipFsync = false):
     fracmanager/fracmanager.go  rotate                 -> create_prog on a fresh fraction id
                                 seal -> proxyFrac.Seal -> seal_prog (frac.Seal + Active.Release)
                                 Load                   -> startup (phase 3: seal every replayed
                                                           fraction but the last, or rotate when none)
     frac/active.go              NewActive/mustOpenFile -> create_prog / open_ops (.meta first, dir fsync each)
                                 Release                -> LUnl NMeta; LUnl NDocs
     frac/active_sealer.go       Seal, writeSortedDocs, syncRename, writeDocBlocksInOrder
                                                        -> seal_prog, seal_docs (bodies read through
                                                           DocsPositions: first position of an ID)
     fracmanager/loader.go       makeInfos (temp files ignored), filterInfos, load,
                                 removeFractionFiles    -> classify, phase1_ops, replay_frac, remove_ops
     frac/sealed.go              fetch/search through .index + .sdocs -> rfetch / rsearch (RSealed)
     fracmanager/fetcher.go      FetchDocs (a later fraction's non-nil answer overwrites) -> mfetch
   The single-fraction write path and replay are those of Model.v (do_bulk, crash_in, replay).

   Abstractions (stated in the check's trusted base):
     * a sealed-form file (._sdocs/.sdocs/._index/.index) is not modelled byte by byte: it is the
       list of documents it was built from, a flag "every byte is in the file" and a flag "fsynced
       since the last write"; all writes that fill one file are ONE abstract write (LSW) that a crash
       may tear; a sealed fraction whose .index or .sdocs is incomplete cannot be loaded (Panic);
     * fraction names are numbers in creation order (ULIDs grow with time);
     * a crash inside the start-up is a crash of every fraction's own operation sequence at its own
       prefix (a superset of the prefixes of the global order);
     * rotation happens only on an active fraction that holds documents; sealing runs while no
       bulk is in flight (the driver seals synchronously; rotate and seal are separate steps, so
       bulks do land in a new fraction while older ones are unsealed);
     * .frac-cache, .immature and retention (.del files) are outside. *)
From Coq Require Import List Bool Arith NArith Lia.
From C01 Require Import Model.
Import ListNotations.
Open Scope nat_scope.

(* ---------- files of one fraction ---------- *)

Record sdoc := SDoc { sd_id : N; sd_body : list N; sd_toks : list N }.
Record sfile := SFile { sf_docs : list sdoc; sf_done : bool; sf_sync : bool }.

Record fdir := FDir { fd_meta : option file; fd_docs : option file;
                      fd_sdt : option sfile; fd_sd : option sfile;
                      fd_ixt : option sfile; fd_ix : option sfile }.
Definition no_fd := FDir None None None None None None.

Inductive fname := NMeta | NDocs | NSdocsTmp | NSdocs | NIndexTmp | NIndex.

Inductive lop :=
| LCreate (f : fname)            (* .meta/.docs: open O_CREATE (content kept); temp files: os.Create *)
| LB (o : fop)                   (* pwrite / fsync / truncate on .docs/.meta; Ack *)
| LSW (f : fname) (ds : list sdoc)   (* all the writes that fill a temp file *)
| LFs (f : fname)
| LRen (a b : fname)
| LDirSync
| LUnl (f : fname).

Definition get_s (fd : fdir) (f : fname) : option sfile :=
  match f with
  | NSdocsTmp => fd_sdt fd | NSdocs => fd_sd fd | NIndexTmp => fd_ixt fd | NIndex => fd_ix fd
  | _ => None
  end.
Definition set_s (fd : fdir) (f : fname) (v : option sfile) : fdir :=
  match f with
  | NSdocsTmp => FDir (fd_meta fd) (fd_docs fd) v (fd_sd fd) (fd_ixt fd) (fd_ix fd)
  | NSdocs => FDir (fd_meta fd) (fd_docs fd) (fd_sdt fd) v (fd_ixt fd) (fd_ix fd)
  | NIndexTmp => FDir (fd_meta fd) (fd_docs fd) (fd_sdt fd) (fd_sd fd) v (fd_ix fd)
  | NIndex => FDir (fd_meta fd) (fd_docs fd) (fd_sdt fd) (fd_sd fd) (fd_ixt fd) v
  | _ => fd
  end.
Definition set_meta (fd : fdir) (v : option file) : fdir :=
  FDir v (fd_docs fd) (fd_sdt fd) (fd_sd fd) (fd_ixt fd) (fd_ix fd).
Definition set_docs (fd : fdir) (v : option file) : fdir :=
  FDir (fd_meta fd) v (fd_sdt fd) (fd_sd fd) (fd_ixt fd) (fd_ix fd).

Definition lapply (fd : fdir) (o : lop) : fdir :=
  match o with
  | LCreate NMeta => match fd_meta fd with Some _ => fd | None => set_meta fd (Some []) end
  | LCreate NDocs => match fd_docs fd with Some _ => fd | None => set_docs fd (Some []) end
  | LCreate f => set_s fd f (Some (SFile [] false false))
  | LB (W FDocs off d) => set_docs fd (option_map (fun x => write_at x off d) (fd_docs fd))
  | LB (W FMeta off d) => set_meta fd (option_map (fun x => write_at x off d) (fd_meta fd))
  | LB (T FDocs n) => set_docs fd (option_map (firstn n) (fd_docs fd))
  | LB (T FMeta n) => set_meta fd (option_map (firstn n) (fd_meta fd))
  | LB _ => fd
  | LSW f ds => match get_s fd f with Some _ => set_s fd f (Some (SFile ds true false)) | None => fd end
  | LFs f => match get_s fd f with
             | Some s => set_s fd f (Some (SFile (sf_docs s) (sf_done s) true))
             | None => fd
             end
  | LRen a b => match get_s fd a with Some s => set_s (set_s fd a None) b (Some s) | None => fd end
  | LDirSync => fd
  | LUnl NMeta => set_meta fd None
  | LUnl NDocs => set_docs fd None
  | LUnl f => set_s fd f None
  end.

Definition lrun (prog : list lop) (fd : fdir) : fdir := fold_left lapply prog fd.

(* the process dies inside the abstract write: part of the bytes are in the file *)
Definition ltorn (fd : fdir) (o : option lop) (torn : bool) : fdir :=
  match o with
  | Some (LSW f ds) =>
      if torn then match get_s fd f with Some _ => set_s fd f (Some (SFile ds false false)) | None => fd end
      else fd
  | _ => fd
  end.

(* power loss: what was not fsynced may be cut back *)
Definition cut_s (o : option sfile) : option sfile :=
  match o with
  | Some s => if sf_sync s then Some s else Some (SFile (sf_docs s) false false)
  | None => None
  end.
Definition lpower (pl : bool) (fd : fdir) : fdir :=
  if pl then FDir (fd_meta fd) (fd_docs fd) (cut_s (fd_sdt fd)) (cut_s (fd_sd fd)) (cut_s (fd_ixt fd)) (cut_s (fd_ix fd))
  else fd.

(* the first j operations of prog completed, operation j+1 possibly torn, then possibly power loss *)
Definition lcrash (fd : fdir) (prog : list lop) (j : nat) (torn pl : bool) : fdir :=
  lpower pl (ltorn (lrun (firstn j prog) fd) (nth_error prog j) torn).

(* FracManager.rotate -> NewActive: .meta first, the directory is fsynced after each creation *)
Definition create_prog : list lop := [LCreate NMeta; LDirSync; LCreate NDocs; LDirSync].

(* frac.Seal (index temp file created first, sorted docs written, fsynced, renamed; index written,
   fsynced, renamed; directory fsynced), then Active.Release (.meta removed, then .docs) *)
Definition seal_prog (ds : list sdoc) : list lop :=
  [LCreate NIndexTmp; LCreate NSdocsTmp; LSW NSdocsTmp ds; LFs NSdocsTmp; LRen NSdocsTmp NSdocs;
   LSW NIndexTmp ds; LFs NIndexTmp; LRen NIndexTmp NIndex; LDirSync; LUnl NMeta; LUnl NDocs].

Definition has {A} (o : option A) : bool := match o with Some _ => true | None => false end.

(* ---------- served fractions ---------- *)

(* RSealed ix sd: IDs, tokens and positions come from the documents .index was built from, bodies
   from those .sdocs was built from *)
Inductive rfrac := RSealed (ix sd : list sdoc) | RActive (p : proc).

Record mproc := MProc { mp_fracs : list (nat * rfrac);   (* FracManager.fracs, in order *)
                        mp_active : nat }.               (* the fraction Append writes to *)

Definition sfind (id : N) (l : list sdoc) : option sdoc := find (fun s => (sd_id s =? id)%N) l.

Definition upd {A} (f : nat -> A) (i : nat) (v : A) : nat -> A := fun j => if Nat.eqb j i then v else f j.

Section WithCodec.
  Variable dec_m : list N -> option (list dmeta).
  Variable dec_d : list N -> option (list N).

  Definition fdisk (fd : fdir) : option disk :=
    match fd_docs fd, fd_meta fd with Some dc, Some mt => Some (Disk dc mt) | _, _ => None end.

  Definition rfetch (fd : fdir) (r : rfrac) (id : N) : fetched :=
    match r with
    | RSealed ix sd =>
        match sfind id ix with
        | None => Absent
        | Some _ => match sfind id sd with Some s => Body (sd_body s) | None => FetchErr end
        end
    | RActive p => match fdisk fd with Some d => fetch dec_d d p id | None => FetchErr end
    end.

  Definition rsearch (r : rfrac) (t : N) : list N :=
    match r with
    | RSealed ix _ => map sd_id (filter (fun s => existsb (N.eqb t) (sd_toks s)) ix)
    | RActive p => search p t
    end.

  (* Fetcher.FetchDocs: every fraction is asked; a later non-nil answer overwrites; an error of
     any fraction fails the request *)
  Fixpoint mfetch_l (dirs : nat -> fdir) (l : list (nat * rfrac)) (id : N) (acc : fetched) : fetched :=
    match l with
    | [] => acc
    | (i, r) :: rest =>
        match rfetch (dirs i) r id with
        | Absent => mfetch_l dirs rest id acc
        | Body b => mfetch_l dirs rest id (Body b)
        | FetchErr => FetchErr
        end
    end.
  Definition mfetch (dirs : nat -> fdir) (mp : mproc) (id : N) : fetched := mfetch_l dirs (mp_fracs mp) id Absent.
  Definition msearch (mp : mproc) (t : N) : list N := flat_map (fun x => rsearch (snd x) t) (mp_fracs mp).

  (* the documents a seal writes: every indexed ID with the body found at its (first) position *)
  Fixpoint seal_metas (d : disk) (p : proc) (ms : list dmeta) : option (list sdoc) :=
    match ms with
    | [] => Some []
    | m :: r =>
        match fetch dec_d d p (m_id m), seal_metas d p r with
        | Body b, Some l => Some (SDoc (m_id m) b (m_toks m) :: l)
        | _, _ => None           (* "writing document to block" error -> logger.Fatal *)
        end
    end.
  Definition seal_docs (d : disk) (p : proc) : option (list sdoc) := seal_metas d p (flat_map snd (idx p)).

  (* ---------- start-up of one fraction ---------- *)

  Inductive fclass := CSkip | CFatal | CSealed | CActive | CSealedDocs.

  (* loader.filterInfos + the branch taken in loader.load *)
  Definition classify (fd : fdir) : fclass :=
    if negb (has (fd_docs fd) || has (fd_sd fd)) then CSkip
    else if negb (has (fd_meta fd) || has (fd_ix fd)) then CFatal
    else if has (fd_sd fd) && has (fd_ix fd) then CSealed
    else if has (fd_meta fd) then CActive
    else CSealedDocs.

  (* loop 1 of loader.load: leftovers of a sealed fraction are removed; an active one is opened *)
  Definition phase1_ops (fd : fdir) : list lop :=
    match classify fd with
    | CSealed => (if has (fd_meta fd) then [LUnl NMeta] else []) ++ (if has (fd_docs fd) then [LUnl NDocs] else [])
    | CActive => [LDirSync] ++ (if has (fd_docs fd) then [] else [LCreate NDocs]) ++ [LDirSync]
    | _ => []
    end.

  (* removeFractionFiles: .index, .docs, .sdocs, .meta (a missing file is skipped silently) *)
  Definition remove_ops (fd : fdir) : list lop :=
    (if has (fd_ix fd) then [LUnl NIndex] else []) ++ (if has (fd_docs fd) then [LUnl NDocs] else []) ++
    (if has (fd_sd fd) then [LUnl NSdocs] else []) ++ (if has (fd_meta fd) then [LUnl NMeta] else []).

  (* Active.Replay + dropUnreplayedTail on an opened active fraction *)
  Definition replay_frac (fd : fdir) : res (list lop * option proc) :=
    match fdisk fd with
    | None => Panic
    | Some d =>
        match replay dec_m (meta d) with
        | Ok (mpos, dpos, ix) =>
            let m' := if mpos <? length (meta d) then firstn mpos (meta d) else meta d in
            let d' := if dpos <? length (docs d) then firstn dpos (docs d) else docs d in
            let ops := map LB (trunc_ops d mpos dpos) in
            if idx_docs_total ix =? 0 then Ok (ops, None)
            else Ok (ops, Some (Proc (length d') (length m') ix))
        | Panic => Panic
        | OutOfFuel => OutOfFuel
        end
    end.

  (* does the fraction come up as a replayed active fraction that holds documents? *)
  Definition nonempty_active (fd : fdir) : bool :=
    match classify fd with
    | CActive => match replay_frac (lrun (phase1_ops fd) fd) with Ok (_, Some _) => true | _ => false end
    | _ => false
    end.

  Inductive fserve := FsNone | FsSealed1 (r : rfrac) | FsActive (r : rfrac).

  Record fplan := FPlan { p1 : list lop; p2 : list lop; p3 : list lop; fs : fserve }.
  Definition fplan_prog (pl : fplan) : list lop := p1 pl ++ p2 pl ++ p3 pl.

  (* seal_it: Load seals every replayed fraction but the last one *)
  Definition fplan_of (fd : fdir) (seal_it : bool) : res fplan :=
    match classify fd with
    | CSkip => Ok (FPlan [] [] [] FsNone)
    | CFatal => Panic                       (* "fraction has valid docs but no .index or .meta file" *)
    | CSealedDocs => Panic                  (* .docs + .index: SkipSortDocs layout, not modelled *)
    | CSealed =>
        match fd_ix fd, fd_sd fd with
        | Some i, Some s =>
            if sf_done i && sf_done s then Ok (FPlan (phase1_ops fd) [] [] (FsSealed1 (RSealed (sf_docs i) (sf_docs s))))
            else Panic                      (* a cut .index / .sdocs cannot be loaded *)
        | _, _ => Panic
        end
    | CActive =>
        let fd1 := lrun (phase1_ops fd) fd in
        match replay_frac fd1 with
        | Ok (ops2, None) => Ok (FPlan (phase1_ops fd) (ops2 ++ remove_ops (lrun ops2 fd1)) [] FsNone)
        | Ok (ops2, Some p) =>
            if seal_it then
              match fdisk (lrun ops2 fd1) with
              | Some d =>
                  match seal_docs d p with
                  | Some ds => Ok (FPlan (phase1_ops fd) ops2 (seal_prog ds) (FsActive (RSealed ds ds)))
                  | None => Panic
                  end
              | None => Panic
              end
            else Ok (FPlan (phase1_ops fd) ops2 [] (FsActive (RActive p)))
        | Panic => Panic
        | OutOfFuel => OutOfFuel
        end
    end.

  (* ---------- the store ---------- *)

  Inductive mhop :=
  | MBulk (b : bulk)                          (* acknowledged bulk into the writable fraction *)
  | MCrashIn (b : bulk) (k t kd km : nat)     (* the process dies inside the bulk (as HCrashIn) *)
  | MPower                                    (* idle process dies *)
  | MRotate                                   (* FracManager.rotate (only when the active fraction holds documents) *)
  | MRotateCrash (j : nat)                    (* ... dies after j operations of the rotation *)
  | MSeal                                     (* FracManager.seal of the oldest rotated-out fraction *)
  | MSealCrash (j : nat) (torn pl : bool)     (* ... dies after j operations of the seal *)
  | MRestart                                  (* (kill and) start the store *)
  | MRestartCrash (cut : list nat) (torn pl : bool).
                                              (* the start-up dies: fraction i has completed cut[i] of its operations *)

  Record mst := MSt { ms_dirs : nat -> fdir; ms_next : nat; ms_proc : option mproc;
                      ms_acked : list bulk; ms_tried : list bulk;       (* ghost *)
                      ms_ops : list (nat * lop) }.                     (* ghost: operations issued, reversed *)

  Definition mst0 := MSt (fun _ => no_fd) 0 None [] [] [].

  Definition tag (i : nat) (l : list lop) : list (nat * lop) := map (pair i) l.

  Definition fs_sealed1 (i : nat) (pl : fplan) : list (nat * rfrac) :=
    match fs pl with FsSealed1 r => [(i, r)] | _ => [] end.
  Definition fs_active (i : nat) (pl : fplan) : list (nat * rfrac) :=
    match fs pl with FsActive r => [(i, r)] | _ => [] end.

  Definition seal_flag (dirs : nat -> fdir) (next i : nat) : bool :=
    nonempty_active (dirs i) && existsb (fun j => nonempty_active (dirs j)) (seq (S i) (next - S i)).

  (* all plans, or the first failure *)
  Fixpoint plans_of (dirs : nat -> fdir) (next : nat) (is : list nat) : res (list (nat * fplan)) :=
    match is with
    | [] => Ok []
    | i :: r =>
        match fplan_of (dirs i) (seal_flag dirs next i), plans_of dirs next r with
        | Ok pl, Ok l => Ok ((i, pl) :: l)
        | Panic, _ => Panic
        | OutOfFuel, _ => OutOfFuel
        | _, Panic => Panic
        | _, OutOfFuel => OutOfFuel
        end
    end.

  Definition is_ractive (x : nat * rfrac) : bool := match snd x with RActive _ => true | _ => false end.

  (* FracManager.Load. Result: operations (global order: loop 1 over all fractions, replay of each
     active one, then the seals / the rotation), directory, next id, process. *)
  Definition startup (dirs : nat -> fdir) (next : nat)
    : res (list (nat * lop) * (nat -> fdir) * nat * mproc) :=
    match plans_of dirs next (seq 0 next) with
    | Ok pls =>
        let ops123 := flat_map (fun x => tag (fst x) (p1 (snd x))) pls ++
                      flat_map (fun x => tag (fst x) (p2 (snd x))) pls ++
                      flat_map (fun x => tag (fst x) (p3 (snd x))) pls in
        let dirs1 := fun i => if i <? next
                              then match find (fun x => Nat.eqb (fst x) i) pls with
                                   | Some x => lrun (fplan_prog (snd x)) (dirs i)
                                   | None => dirs i
                                   end
                              else dirs i in
        let sealed1 := flat_map (fun x => fs_sealed1 (fst x) (snd x)) pls in
        let actives := flat_map (fun x => fs_active (fst x) (snd x)) pls in
        match find is_ractive actives with
        | Some x => Ok (ops123, dirs1, next, MProc (sealed1 ++ actives) (fst x))
        | None =>
            (* nothing to write to: rotate *)
            Ok (ops123 ++ tag next create_prog, upd dirs1 next (lrun create_prog (dirs1 next)), S next,
                MProc (sealed1 ++ actives ++ [(next, RActive (Proc 0 0 []))]) next)
        end
    | Panic => Panic
    | OutOfFuel => OutOfFuel
    end.

  (* the start-up dies: every fraction at its own prefix *)
  Definition startup_crash (dirs : nat -> fdir) (next : nat) (cut : list nat) (torn pl : bool)
    : res ((nat -> fdir) * nat) :=
    match plans_of dirs next (seq 0 next) with
    | Ok pls =>
        let dirs1 := fun i => if i <? next
                              then match find (fun x => Nat.eqb (fst x) i) pls with
                                   | Some x => lcrash (dirs i) (fplan_prog (snd x)) (nth i cut 0) torn pl
                                   | None => dirs i
                                   end
                              else dirs i in
        match find is_ractive (flat_map (fun x => fs_active (fst x) (snd x)) pls) with
        | Some _ => Ok (dirs1, next)
        | None => Ok (upd dirs1 next (lcrash (dirs1 next) create_prog (nth next cut 0) false false), S next)
        end
    | Panic => Panic
    | OutOfFuel => OutOfFuel
    end.

  Fixpoint lookup_r (i : nat) (l : list (nat * rfrac)) : option rfrac :=
    match l with
    | [] => None
    | (j, r) :: rest => if Nat.eqb j i then Some r else lookup_r i rest
    end.
  Fixpoint replace_r (i : nat) (v : rfrac) (l : list (nat * rfrac)) : list (nat * rfrac) :=
    match l with
    | [] => []
    | (j, r) :: rest => if Nat.eqb j i then (j, v) :: rest else (j, r) :: replace_r i v rest
    end.

  (* the oldest rotated-out fraction that is still served from .docs/.meta *)
  Fixpoint pending (a : nat) (l : list (nat * rfrac)) : option (nat * proc) :=
    match l with
    | [] => None
    | (j, RActive p) :: rest => if Nat.eqb j a then pending a rest else Some (j, p)
    | _ :: rest => pending a rest
    end.

  Definition mdown (s : mst) (dirs : nat -> fdir) (next : nat) (tried : list bulk) : mst :=
    MSt dirs next None (ms_acked s) tried (ms_ops s).

  Definition mstep0 (s : mst) (o : mhop) : res mst :=
    match o, ms_proc s with
    | MRestart, _ =>
        match startup (ms_dirs s) (ms_next s) with
        | Ok (ops, dirs, next, mp) => Ok (MSt dirs next (Some mp) (ms_acked s) (ms_tried s) (rev ops ++ ms_ops s))
        | Panic => Panic | OutOfFuel => OutOfFuel
        end
    | MRestartCrash cut torn pl, _ =>
        match startup_crash (ms_dirs s) (ms_next s) cut torn pl with
        | Ok (dirs, next) => Ok (mdown s dirs next (ms_tried s))
        | Panic => Panic | OutOfFuel => OutOfFuel
        end
    | _, None => Ok s          (* operations that need a running process are ignored when there is none *)
    | MBulk b, Some mp =>
        let a := mp_active mp in
        match lookup_r a (mp_fracs mp), fdisk (ms_dirs s a) with
        | Some (RActive p), Some d =>
            match do_bulk dec_m d p b with
            | Ok (d', p') =>
                Ok (MSt (upd (ms_dirs s) a (set_docs (set_meta (ms_dirs s a) (Some (meta d'))) (Some (docs d'))))
                        (ms_next s) (Some (MProc (replace_r a (RActive p') (mp_fracs mp)) a))
                        (ms_acked s ++ [b]) (ms_tried s)
                        ((a, LB Ack) :: rev (tag a (map LB (bulk_ops p b))) ++ ms_ops s))
            | Panic => Panic | OutOfFuel => OutOfFuel
            end
        | _, _ => Panic
        end
    | MCrashIn b k t kd km, Some mp =>
        let a := mp_active mp in
        match lookup_r a (mp_fracs mp), fdisk (ms_dirs s a) with
        | Some (RActive p), Some d =>
            let d' := crash_in d p b k t kd km in
            Ok (mdown s (upd (ms_dirs s) a (set_docs (set_meta (ms_dirs s a) (Some (meta d'))) (Some (docs d'))))
                      (ms_next s) (ms_tried s ++ [b]))
        | _, _ => Panic
        end
    | MPower, Some mp => Ok (mdown s (ms_dirs s) (ms_next s) (ms_tried s))
    | MRotate, Some mp =>
        let a := mp_active mp in
        match lookup_r a (mp_fracs mp) with
        | Some (RActive p) =>
            if idx_docs_total (idx p) =? 0 then Ok s
            else
              let n := ms_next s in
              Ok (MSt (upd (ms_dirs s) n (lrun create_prog (ms_dirs s n))) (S n)
                      (Some (MProc (mp_fracs mp ++ [(n, RActive (Proc 0 0 []))]) n))
                      (ms_acked s) (ms_tried s) (rev (tag n create_prog) ++ ms_ops s))
        | _ => Panic
        end
    | MRotateCrash j, Some mp =>
        let a := mp_active mp in
        match lookup_r a (mp_fracs mp) with
        | Some (RActive p) =>
            if idx_docs_total (idx p) =? 0 then Ok (mdown s (ms_dirs s) (ms_next s) (ms_tried s))
            else
              let n := ms_next s in
              Ok (mdown s (upd (ms_dirs s) n (lcrash (ms_dirs s n) create_prog j false false)) (S n) (ms_tried s))
        | _ => Panic
        end
    | MSeal, Some mp =>
        match pending (mp_active mp) (mp_fracs mp) with
        | None => Ok s
        | Some (i, p) =>
            match fdisk (ms_dirs s i) with
            | Some d =>
                match seal_docs d p with
                | Some ds =>
                    Ok (MSt (upd (ms_dirs s) i (lrun (seal_prog ds) (ms_dirs s i))) (ms_next s)
                            (Some (MProc (replace_r i (RSealed ds ds) (mp_fracs mp)) (mp_active mp)))
                            (ms_acked s) (ms_tried s) (rev (tag i (seal_prog ds)) ++ ms_ops s))
                | None => Panic
                end
            | None => Panic
            end
        end
    | MSealCrash j torn pl, Some mp =>
        match pending (mp_active mp) (mp_fracs mp) with
        | None => Ok (mdown s (ms_dirs s) (ms_next s) (ms_tried s))
        | Some (i, p) =>
            match fdisk (ms_dirs s i) with
            | Some d =>
                match seal_docs d p with
                | Some ds =>
                    Ok (mdown s (upd (ms_dirs s) i (lcrash (ms_dirs s i) (seal_prog ds) j torn pl)) (ms_next s) (ms_tried s))
                | None => Panic
                end
            | None => Panic
            end
        end
    end.

  (* the directory is a finite table: fractions from ms_next on do not exist (this also keeps the
     evaluation of long histories linear) *)
  Definition freeze (dirs : nat -> fdir) (n : nat) : nat -> fdir :=
    let l := map dirs (seq 0 n) in fun i => nth i l no_fd.
  Definition mfreeze (s : mst) : mst :=
    MSt (freeze (ms_dirs s) (ms_next s)) (ms_next s) (ms_proc s) (ms_acked s) (ms_tried s) (ms_ops s).

  Definition mstep (s : mst) (o : mhop) : res mst :=
    match mstep0 s o with
    | Ok s' => Ok (mfreeze s')
    | Panic => Panic
    | OutOfFuel => OutOfFuel
    end.

  Fixpoint mrun_from (s : mst) (h : list mhop) : res mst :=
    match h with
    | [] => Ok s
    | o :: r => match mstep s o with
                | Ok s' => mrun_from s' r
                | Panic => Panic | OutOfFuel => OutOfFuel
                end
    end.
  Definition mrun (h : list mhop) := mrun_from mst0 h.

  Definition mhop_bulk (o : mhop) : list bulk :=
    match o with MBulk b => [b] | MCrashIn b _ _ _ _ => [b] | _ => [] end.
  Definition mhist_bulks (h : list mhop) : list bulk := flat_map mhop_bulk h.

  Definition wf_mhist (h : list mhop) : Prop :=
    Forall (wf_bulk dec_m dec_d) (mhist_bulks h) /\ ids_functional (mhist_bulks h).

End WithCodec.
