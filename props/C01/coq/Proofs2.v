(* C01 — lemmas, part 2: the files of a list of durable bulks, replay and start-up on them. *)
From Coq Require Import List Bool Arith NArith Lia.
From C01 Require Import Model Proofs.
Import ListNotations.
Open Scope nat_scope.

Global Arguments mblock : simpl never.
Global Arguments dblock : simpl never.
Global Arguments block : simpl never.
Global Arguments hdr : simpl never.

Fixpoint dfile (bs : list bulk) : list N :=
  match bs with [] => [] | b :: r => dblock b ++ dfile r end.

(* ext2 : the Ext2 values stored in the meta blocks (irrelevant for replay) *)
Fixpoint mfile (bs : list bulk) (doff : nat) : list N :=
  match bs with [] => [] | b :: r => mblock b doff ++ mfile r (doff + length (dblock b)) end.

Fixpoint index_of (bs : list bulk) (doff : nat) : list ientry :=
  match bs with
  | [] => []
  | b :: r => (doff, map meta_of (b_docs b)) :: index_of r (doff + length (dblock b))
  end.

Lemma dfile_app : forall a b, dfile (a ++ b) = dfile a ++ dfile b.
Proof. induction a; cbn [dfile app]; intros; auto. rewrite IHa, app_assoc. reflexivity. Qed.

Lemma mfile_app : forall a b doff,
  mfile (a ++ b) doff = mfile a doff ++ mfile b (doff + length (dfile a)).
Proof.
  induction a; cbn [mfile dfile app length]; intros.
  - rewrite Nat.add_0_r. reflexivity.
  - rewrite IHa, <- app_assoc, app_length.
    replace (doff + length (dblock a) + length (dfile a0)) with (doff + (length (dblock a) + length (dfile a0))) by lia.
    reflexivity.
Qed.

Lemma index_of_app : forall a b doff,
  index_of (a ++ b) doff = index_of a doff ++ index_of b (doff + length (dfile a)).
Proof.
  induction a; cbn [index_of dfile app length]; intros.
  - rewrite Nat.add_0_r. reflexivity.
  - rewrite IHa, app_length.
    replace (doff + length (dblock a) + length (dfile a0)) with (doff + (length (dblock a) + length (dfile a0))) by lia.
    reflexivity.
Qed.

Lemma mblock_length_pos : forall b doff, 1 <= length (mblock b doff).
Proof. intros. unfold mblock. rewrite block_length. unfold HDR. lia. Qed.

Lemma mfile_length_ge : forall bs doff, length bs <= length (mfile bs doff).
Proof.
  induction bs; cbn [mfile length]; intros; auto. rewrite app_length.
  pose proof (mblock_length_pos a doff). specialize (IHbs (doff + length (dblock a))). lia.
Qed.

Lemma read_mblock_ok : forall pre b e2 rest,
  read_doc_block (pre ++ mblock b e2 ++ rest) (length pre) = RdOk (mblock b e2).
Proof. intros. unfold mblock. apply read_block_ok. Qed.

Lemma read_dblock_ok : forall pre b rest,
  read_doc_block (pre ++ dblock b ++ rest) (length pre) = RdOk (dblock b).
Proof. intros. unfold dblock. apply read_block_ok. Qed.

Lemma payload_mblock : forall b e2, payload (mblock b e2) = b_mpay b.
Proof. intros. reflexivity. Qed.

Lemma payload_dblock : forall b, payload (dblock b) = b_dpay b.
Proof. intros. reflexivity. Qed.

Lemma ext1_mblock : forall b e2, N.to_nat (hdr_ext1 (mblock b e2)) = length (dblock b).
Proof. intros. unfold mblock. rewrite hdr_ext1_block. apply nlen_to_nat. Qed.

Section WithCodec.
  Variable dec_m : list N -> option (list dmeta).
  Variable dec_d : list N -> option (list N).

  Notation wf_bulk := (wf_bulk dec_m dec_d).

  (* Replay over complete blocks followed by an unreadable tail: every block is indexed at the
     position obtained by summing Ext1 — the stored Ext2 (e2) plays no role. *)
  Lemma replay_loop_blocks : forall bs fuel pre e2 tm dpos acc,
    Forall wf_bulk bs -> eof_tail tm -> length bs < fuel ->
    replay_loop dec_m fuel (pre ++ mfile bs e2 ++ tm) (length pre) dpos acc
    = Ok (length pre + length (mfile bs e2), dpos + length (dfile bs), rev acc ++ index_of bs dpos).
  Proof.
    induction bs as [| b r IH]; intros fuel pre e2 tm dpos acc Hwf Htm Hfuel.
    - destruct fuel; [simpl in Hfuel; lia|]. simpl. rewrite Htm.
      rewrite !Nat.add_0_r, app_nil_r. reflexivity.
    - destruct fuel; [simpl in Hfuel; lia|]. cbn [replay_loop mfile].
      inversion Hwf as [| ? ? Hb Hr]; subst.
      rewrite <- app_assoc. rewrite read_mblock_ok, payload_mblock.
      destruct Hb as (_ & _ & Hdm & _). rewrite Hdm. rewrite ext1_mblock.
      replace (pre ++ mblock b e2 ++ mfile r (e2 + length (dblock b)) ++ tm)
        with ((pre ++ mblock b e2) ++ mfile r (e2 + length (dblock b)) ++ tm)
        by (rewrite <- app_assoc; reflexivity).
      replace (length pre + length (mblock b e2)) with (length (pre ++ mblock b e2))
        by (rewrite app_length; reflexivity).
      rewrite IH; auto; [| simpl in Hfuel; lia].
      cbn [rev index_of dfile]. rewrite !app_length, <- !app_assoc. simpl.
      f_equal. f_equal. f_equal; lia.
  Qed.

  Lemma replay_blocks : forall bs tm,
    Forall wf_bulk bs -> eof_tail tm ->
    replay dec_m (mfile bs 0 ++ tm) = Ok (length (mfile bs 0), length (dfile bs), index_of bs 0).
  Proof.
    intros. unfold replay.
    pose proof (replay_loop_blocks bs (S (length (mfile bs 0 ++ tm))) [] 0 tm 0 [] H H0) as R.
    simpl in R. apply R. rewrite app_length. pose proof (mfile_length_ge bs 0). lia.
  Qed.

  Lemma idx_total_zero : forall bs doff, Forall wf_bulk bs ->
    (idx_docs_total (index_of bs doff) =? 0) = true -> bs = [].
  Proof.
    intros bs doff Hwf H. destruct bs as [| b r]; auto. exfalso.
    inversion Hwf as [| ? ? Hb _]; subst. destruct Hb as (Hne & _).
    apply Nat.eqb_eq in H. simpl in H. rewrite map_length in H.
    destruct (b_docs b); [congruence | simpl in H; lia].
  Qed.

  Lemma trunc_if : forall (a t : list N),
    (if length a <? length (a ++ t) then firstn (length a) (a ++ t) else a ++ t) = a.
  Proof.
    intros. destruct (length a <? length (a ++ t)) eqn:E.
    - apply firstn_app_len.
    - apply Nat.ltb_ge in E. rewrite app_length in E.
      destruct t; [apply app_nil_r | simpl in E; lia].
  Qed.

  (* the start-up on complete blocks + tails: both tails are dropped, nothing else changes *)
  Lemma restart_blocks : forall bs tm td,
    Forall wf_bulk bs -> eof_tail tm ->
    exists ops,
      restart dec_m (Disk (dfile bs ++ td) (mfile bs 0 ++ tm))
      = Ok (Disk (dfile bs) (mfile bs 0),
            Proc (length (dfile bs)) (length (mfile bs 0)) (index_of bs 0), ops).
  Proof.
    intros bs tm td Hwf Htm. unfold restart. cbn [meta docs].
    rewrite replay_blocks by auto. rewrite !trunc_if.
    destruct (idx_docs_total (index_of bs 0) =? 0) eqn:E.
    - apply idx_total_zero in E; auto. subst. simpl. eexists; reflexivity.
    - eexists; reflexivity.
  Qed.

  Lemma restart_crash_blocks : forall bs tm td,
    Forall wf_bulk bs -> eof_tail tm ->
    restart_crash dec_m (Disk (dfile bs ++ td) (mfile bs 0 ++ tm))
    = Ok (Disk (dfile bs ++ td) (mfile bs 0)).
  Proof.
    intros. unfold restart_crash. cbn [meta docs]. rewrite replay_blocks by auto.
    rewrite trunc_if. reflexivity.
  Qed.

End WithCodec.
