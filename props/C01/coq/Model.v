(* C01 — executable model of the write path and the replay of an active fraction.
   NO proofs in this file (it must run even when a proof breaks).

   Mirrors (as of /repo after commit 581f818):
     frac/active_writer.go   ActiveWriter.Write     -> bulk_ops / do_bulk
     frac/file_writer.go     FileWriter.Write       -> W (pwrite at the writer offset) ; F (fsync)
     frac/active.go          NewActive              -> restart: writer offsets = file sizes
                             Replay                 -> replay_loop (docsPos += Ext1, Ext2 overridden)
                             dropUnreplayedTail     -> restart: truncate meta, then docs
     disk/doc_blocks_reader.go ReadDocBlock         -> read_doc_block (short read = EOF)
     disk/doc_block.go       header layout          -> hdr
     frac/active_indexer.go  appendWorker           -> index entries (block position, decoded metas)
     frac/meta_data_collector.go AppendMeta         -> in-block offsets (size + 4 per document)
     disk/docs_reader.go     extractDocsFromBlock   -> doc_at
     fracmanager/loader.go   load                   -> restart: a replayed fraction without documents is removed

   Abstractions (stated in the check's trusted base):
     * bytes are N; a file is a list of bytes; 64/32-bit little-endian fields do not wrap
       (the most significant byte position holds the unbounded rest; identical to the real
       encoding for every value below 2^64 resp. 2^32);
     * zstd enters as a pair of decoders (dec_m, dec_d) given from outside (Section variables in
       the proofs, a per-case table in the correspondence run);
     * the concurrent index workers are modelled as sequential in block order (the observables
       compared are independent of that order when equal IDs carry equal documents);
     * DocPos packing (block index << 30 | offset) is not modelled: positions are pairs. *)
From Coq Require Import List Bool Arith NArith Lia.
Import ListNotations.
Open Scope nat_scope.

(* ---------- bytes and little-endian numbers ---------- *)

Definition file := list N.

(* n+1 "bytes", the last one unbounded *)
Fixpoint le_enc (n : nat) (x : N) : list N :=
  match n with
  | 0 => [x]
  | S n' => (x mod 256)%N :: le_enc n' (x / 256)%N
  end.

Fixpoint le_dec (l : list N) : N :=
  match l with
  | [] => 0%N
  | b :: r => (b + 256 * le_dec r)%N
  end.

Definition le64 (x : N) := le_enc 7 x.
Definition le32 (x : N) := le_enc 3 x.

Definition HDR := 33.
Definition codec_zstd : N := 2%N.

(* C : LLLLLLLL : UUUUUUUU : EEEEEEEE (Ext1) : EEEEEEEE (Ext2) *)
Definition hdr (len raw e1 e2 : N) : list N :=
  codec_zstd :: le64 len ++ le64 raw ++ le64 e1 ++ le64 e2.

Definition nlen {A} (l : list A) : N := N.of_nat (length l).

Definition block (pay : list N) (raw e1 e2 : N) : list N := hdr (nlen pay) raw e1 e2 ++ pay.

Definition read_at (f : file) (off n : nat) : list N := firstn n (skipn off f).

Definition hdr_len (h : list N) : N := le_dec (firstn 8 (skipn 1 h)).
Definition hdr_ext1 (h : list N) : N := le_dec (firstn 8 (skipn 17 h)).
Definition payload (blk : list N) : list N := skipn HDR blk.

Inductive rd := RdEOF | RdOk (blk : list N).

(* DocBlocksReader.ReadDocBlock: header first (fewer than 33 bytes = EOF), then FullLen bytes
   (fewer = EOF, "last meta block is partially written") *)
Definition read_doc_block (f : file) (off : nat) : rd :=
  let h := read_at f off HDR in
  if length h <? HDR then RdEOF
  else
    let full := (hdr_len h + 33)%N in
    if (nlen (skipn off f) <? full)%N then RdEOF
    else RdOk (read_at f off (N.to_nat full)).

(* pwrite: overwrite / extend; a gap is zero filled *)
Definition write_at (f : file) (off : nat) (data : list N) : file :=
  firstn off f ++ repeat 0%N (off - length f) ++ data ++ skipn (off + length data) f.

(* ---------- documents, bulks ---------- *)

Record doc := Doc { d_id : N; d_body : list N; d_toks : list N }.

Record dmeta := DMeta { m_id : N; m_size : N; m_toks : list N }.

Definition meta_of (d : doc) : dmeta := DMeta (d_id d) (nlen (d_body d)) (d_toks d).

Definition frame (d : doc) : list N := le32 (nlen (d_body d)) ++ d_body d.
Definition raw_docs (ds : list doc) : list N := concat (map frame ds).

(* One bulk as the store receives it: the documents, and the two compressed payloads with the
   raw lengths recorded in their headers. *)
Record bulk := Bulk { b_docs : list doc; b_dpay : list N; b_draw : N; b_mpay : list N; b_mraw : N }.

Definition dblock (b : bulk) : list N := block (b_dpay b) (b_draw b) 0 0.
(* ActiveWriter.Write: Ext1 = len(docs block), Ext2 = offset of the docs block *)
Definition mblock (b : bulk) (doff : nat) : list N :=
  block (b_mpay b) (b_mraw b) (nlen (dblock b)) (N.of_nat doff).

(* ---------- file operations (what the correspondence run compares with strace) ---------- *)

Inductive fk := FDocs | FMeta.
Inductive fop :=
| W (k : fk) (off : nat) (data : list N)
| F (k : fk)
| T (k : fk) (len : nat)
| Ack.

Record disk := Disk { docs : file; meta : file }.

(* disk with the durable (fsynced) lengths, used only while a bulk is in flight *)
Record sdisk := SDisk { s_docs : file; s_meta : file; s_sd : nat; s_sm : nat }.

Definition sapply (s : sdisk) (o : fop) : sdisk :=
  match o with
  | W FDocs off d => SDisk (write_at (s_docs s) off d) (s_meta s) (s_sd s) (s_sm s)
  | W FMeta off d => SDisk (s_docs s) (write_at (s_meta s) off d) (s_sd s) (s_sm s)
  | F FDocs => SDisk (s_docs s) (s_meta s) (length (s_docs s)) (s_sm s)
  | F FMeta => SDisk (s_docs s) (s_meta s) (s_sd s) (length (s_meta s))
  | T FDocs n => SDisk (firstn n (s_docs s)) (s_meta s) (Nat.min (s_sd s) n) (s_sm s)
  | T FMeta n => SDisk (s_docs s) (firstn n (s_meta s)) (s_sd s) (Nat.min (s_sm s) n)
  | Ack => s
  end.

Definition torn (o : fop) (t : nat) : fop :=
  match o with W k off d => W k off (firstn t d) | _ => Ack end.

(* power loss: every file keeps any length between its durable length and its length *)
Definition power_cut (s : sdisk) (kd km : nat) : disk :=
  Disk (firstn (Nat.max (s_sd s) kd) (s_docs s)) (firstn (Nat.max (s_sm s) km) (s_meta s)).

(* ---------- the process ---------- *)

(* index entry: offset of the docs block in the docs file, decoded metas of the bulk *)
Definition ientry := (nat * list dmeta)%type.

Record proc := Proc { off_d : nat; off_m : nat; idx : list ientry }.

Inductive res (A : Type) := Ok (a : A) | Panic | OutOfFuel.
Arguments Ok {A}. Arguments Panic {A}. Arguments OutOfFuel {A}.

Section WithCodec.
  (* zstd decompression of a meta payload / of a docs payload *)
  Variable dec_m : list N -> option (list dmeta).
  Variable dec_d : list N -> option (list N).

  Definition bulk_ops (p : proc) (b : bulk) : list fop :=
    [W FDocs (off_d p) (dblock b); F FDocs; W FMeta (off_m p) (mblock b (off_d p)); F FMeta].

  (* Active.Append: write both blocks, then hand the metas to the indexer (position = Ext2) *)
  Definition do_bulk (d : disk) (p : proc) (b : bulk) : res (disk * proc) :=
    match dec_m (b_mpay b) with
    | None => Panic                      (* appendWorker: "error decompressing meta" *)
    | Some ms =>
        let s := fold_left sapply (bulk_ops p b) (SDisk (docs d) (meta d) (length (docs d)) (length (meta d))) in
        Ok (Disk (s_docs s) (s_meta s),
            Proc (off_d p + length (dblock b)) (off_m p + length (mblock b (off_d p)))
                 (idx p ++ [(off_d p, ms)]))
    end.

  (* One write of the bulk fails with an I/O error (EFBIG/ENOSPC/EIO), no crash: the first `cut`
     bytes of that write reach the file. in_meta = false: the docs write fails (nothing else is
     attempted); in_meta = true: the docs block is written and fsynced, the meta write fails.
     ActiveWriter.Write then rolls the unit back (commits ce3aaa8, 5db7f73): both writer offsets are
     stored back and both files are truncated to the end of the last complete bulk (meta first,
     then docs); the error is returned: no index entry, no acknowledgement. *)
  Definition fault_writes (p : proc) (b : bulk) (in_meta : bool) (cut : nat) : list fop :=
    if in_meta
    then [W FDocs (off_d p) (dblock b); F FDocs] ++
         (if cut =? 0 then [] else [W FMeta (off_m p) (firstn cut (mblock b (off_d p)))])
    else (if cut =? 0 then [] else [W FDocs (off_d p) (firstn cut (dblock b))]).

  Definition fault_ops (p : proc) (b : bulk) (in_meta : bool) (cut : nat) : list fop :=
    fault_writes p b in_meta cut ++ [T FMeta (off_m p); T FDocs (off_d p)].

  Definition do_fault (d : disk) (p : proc) (b : bulk) (in_meta : bool) (cut : nat) : disk * proc :=
    let s := fold_left sapply (fault_ops p b in_meta cut)
                       (SDisk (docs d) (meta d) (length (docs d)) (length (meta d))) in
    (Disk (s_docs s) (s_meta s), p).

  (* before commit ce3aaa8: nothing is undone, FileWriter keeps the advanced offsets *)
  Definition do_fault_v0 (d : disk) (p : proc) (b : bulk) (in_meta : bool) (cut : nat) : disk * proc :=
    let s := fold_left sapply (fault_writes p b in_meta cut)
                       (SDisk (docs d) (meta d) (length (docs d)) (length (meta d))) in
    (Disk (s_docs s) (s_meta s),
     Proc (off_d p + length (dblock b))
          (if in_meta then off_m p + length (mblock b (off_d p)) else off_m p)
          (idx p)).

  (* the process dies (possibly with power loss) somewhere between the failing write and the end
     of the rollback: a bytes of the docs block and c bytes of the meta block are in the files.
     Bytes of the meta block exist only while the docs block is whole: it is written and fsynced
     before the meta write starts, and the rollback cuts the meta file first. *)
  Definition fault_crash (d : disk) (p : proc) (b : bulk) (a c : nat) : disk :=
    Disk (docs d ++ firstn (if c =? 0 then a else length (dblock b)) (dblock b))
         (meta d ++ firstn c (mblock b (off_d p))).

  (* rollback order before commit 5db7f73 (docs cut first): a whole meta block can outlive its docs block *)
  Definition fault_crash_v0 (d : disk) (p : proc) (b : bulk) (a c : nat) : disk :=
    Disk (docs d ++ firstn a (dblock b)) (meta d ++ firstn c (mblock b (off_d p))).

  (* the process dies inside the bulk: the first k operations completed, operation k+1 (if a
     write) reached the file with its first t bytes, then power is lost *)
  Definition crash_in (d : disk) (p : proc) (b : bulk) (k t kd km : nat) : disk :=
    let ops := bulk_ops p b in
    let s0 := SDisk (docs d) (meta d) (length (docs d)) (length (meta d)) in
    let s1 := fold_left sapply (firstn k ops) s0 in
    let s2 := match nth_error ops k with Some o => sapply s1 (torn o t) | None => s1 end in
    power_cut s2 kd km.

  (* Active.Replay: scan the meta file block by block *)
  Fixpoint replay_loop (fuel : nat) (mf : file) (mpos dpos : nat) (acc : list ientry)
    : res (nat * nat * list ientry) :=
    match fuel with
    | 0 => OutOfFuel
    | S fuel' =>
        match read_doc_block mf mpos with
        | RdEOF => Ok (mpos, dpos, rev acc)
        | RdOk blk =>
            match dec_m (payload blk) with
            | None => Panic
            | Some ms =>
                replay_loop fuel' mf (mpos + length blk) (dpos + N.to_nat (hdr_ext1 blk))
                            ((dpos, ms) :: acc)
            end
        end
    end.

  Definition replay (mf : file) := replay_loop (S (length mf)) mf 0 0 [].

  Definition idx_docs_total (ix : list ientry) : nat :=
    fold_right (fun e n => length (snd e) + n) 0 ix.

  Definition trunc_ops (d : disk) (mpos dpos : nat) : list fop :=
    (if mpos <? length (meta d) then [T FMeta mpos] else []) ++
    (if dpos <? length (docs d) then [T FDocs dpos] else []).

  (* NewActive + Replay + dropUnreplayedTail (the repaired start-up), then loader: a fraction
     that replayed no document is removed and a fresh one created *)
  Definition restart (d : disk) : res (disk * proc * list fop) :=
    match replay (meta d) with
    | Ok (mpos, dpos, ix) =>
        let m' := if mpos <? length (meta d) then firstn mpos (meta d) else meta d in
        let d' := if dpos <? length (docs d) then firstn dpos (docs d) else docs d in
        let ops := trunc_ops d mpos dpos in
        if idx_docs_total ix =? 0
        then Ok (Disk [] [], Proc 0 0 [], ops)
        else Ok (Disk d' m', Proc (length d') (length m') ix, ops)
    | Panic => Panic
    | OutOfFuel => OutOfFuel
    end.

  (* the process dies between the two truncations of dropUnreplayedTail *)
  Definition restart_crash (d : disk) : res disk :=
    match replay (meta d) with
    | Ok (mpos, dpos, ix) =>
        Ok (Disk (docs d) (if mpos <? length (meta d) then firstn mpos (meta d) else meta d))
    | Panic => Panic
    | OutOfFuel => OutOfFuel
    end.

  (* the start-up before commit 581f818: writers positioned at the raw file sizes, nothing cut *)
  Definition restart_v0 (d : disk) : res (disk * proc * list fop) :=
    match replay (meta d) with
    | Ok (mpos, dpos, ix) =>
        if idx_docs_total ix =? 0
        then Ok (Disk [] [], Proc 0 0 [], [])
        else Ok (d, Proc (length (docs d)) (length (meta d)) ix, [])
    | Panic => Panic
    | OutOfFuel => OutOfFuel
    end.

  (* ---------- reading ---------- *)

  Inductive fetched := Absent | Body (b : list N) | FetchErr.

  (* position of the document inside the decoded block: sizes of the preceding documents + 4 each *)
  Fixpoint find_in_metas (id : N) (ms : list dmeta) (off : nat) : option nat :=
    match ms with
    | [] => None
    | m :: r => if (m_id m =? id)%N then Some off
                else find_in_metas id r (off + N.to_nat (m_size m) + 4)
    end.

  (* DocsPositions: the first position registered for an ID wins *)
  Fixpoint find_pos (id : N) (ix : list ientry) : option (nat * nat) :=
    match ix with
    | [] => None
    | (pos, ms) :: r =>
        match find_in_metas id ms 0 with
        | Some off => Some (pos, off)
        | None => find_pos id r
        end
    end.

  (* extractDocsFromBlockFunc *)
  Definition doc_at (raw : list N) (off : nat) : fetched :=
    if length raw <? off + 4 then FetchErr
    else
      let size := le_dec (firstn 4 (skipn off raw)) in
      if (nlen (skipn (off + 4) raw) <? size)%N then FetchErr
      else Body (firstn (N.to_nat size) (skipn (off + 4) raw)).

  Definition fetch (d : disk) (p : proc) (id : N) : fetched :=
    match find_pos id (idx p) with
    | None => Absent
    | Some (pos, off) =>
        match read_doc_block (docs d) pos with
        | RdEOF => FetchErr
        | RdOk blk =>
            match dec_d (payload blk) with
            | None => FetchErr
            | Some raw => doc_at raw off
            end
        end
    end.

  Definition has_tok (t : N) (m : dmeta) : bool := existsb (N.eqb t) (m_toks m).

  (* IDs of the indexed documents that carry token t (with repetitions, in index order) *)
  Definition search (p : proc) (t : N) : list N :=
    flat_map (fun e => map m_id (filter (has_tok t) (snd e))) (idx p).

  (* ---------- histories ---------- *)

  Inductive hop :=
  | HBulk (b : bulk)                          (* acknowledged bulk (needs a running process) *)
  | HCrashIn (b : bulk) (k t kd km : nat)     (* process dies inside the bulk *)
  | HFault (b : bulk) (in_meta : bool) (cut : nat)   (* a write of the bulk fails; no acknowledgement *)
  | HFaultCrash (b : bulk) (a c : nat)        (* ... and the process dies before the rollback is complete *)
  | HPower                                    (* idle process dies (power loss) *)
  | HRestart                                  (* (kill and) start the store *)
  | HRestartCrash.                            (* start-up dies between its two truncations *)

  Record st := St { s_disk : disk; s_proc : option proc;
                    s_acked : list bulk;      (* ghost: acknowledged bulks, in order *)
                    s_tried : list bulk;      (* ghost: bulks interrupted by a crash *)
                    s_ops : list fop }.       (* ghost: file operations issued so far (reversed) *)

  Definition st0 := St (Disk [] []) None [] [] [].

  Definition step (s : st) (o : hop) : res st :=
    match o, s_proc s with
    | HBulk b, Some p =>
        match do_bulk (s_disk s) p b with
        | Ok (d', p') => Ok (St d' (Some p') (s_acked s ++ [b]) (s_tried s)
                                (Ack :: rev (bulk_ops p b) ++ s_ops s))
        | Panic => Panic | OutOfFuel => OutOfFuel
        end
    | HCrashIn b k t kd km, Some p =>
        Ok (St (crash_in (s_disk s) p b k t kd km) None (s_acked s) (s_tried s ++ [b]) (s_ops s))
    | HFault b in_meta cut, Some p =>
        let '(d', p') := do_fault (s_disk s) p b in_meta cut in
        Ok (St d' (Some p') (s_acked s) (s_tried s ++ [b]) (rev (fault_ops p b in_meta cut) ++ s_ops s))
    | HFaultCrash b a c, Some p =>
        Ok (St (fault_crash (s_disk s) p b a c) None (s_acked s) (s_tried s ++ [b]) (s_ops s))
    | HPower, Some p => Ok (St (s_disk s) None (s_acked s) (s_tried s) (s_ops s))
    | HRestart, _ =>
        match restart (s_disk s) with
        | Ok (d', p', ops) => Ok (St d' (Some p') (s_acked s) (s_tried s) (rev ops ++ s_ops s))
        | Panic => Panic | OutOfFuel => OutOfFuel
        end
    | HRestartCrash, _ =>
        match restart_crash (s_disk s) with
        | Ok d' => Ok (St d' None (s_acked s) (s_tried s) (s_ops s))
        | Panic => Panic | OutOfFuel => OutOfFuel
        end
    (* operations that need a running process are ignored when there is none *)
    | _, None => Ok s
    end.

  Fixpoint run_from (s : st) (h : list hop) : res st :=
    match h with
    | [] => Ok s
    | o :: r => match step s o with
                | Ok s' => run_from s' r
                | Panic => Panic | OutOfFuel => OutOfFuel
                end
    end.

  Definition run (h : list hop) := run_from st0 h.

  (* same history on the old start-up *)
  Definition step_v0 (s : st) (o : hop) : res st :=
    match o with
    | HRestart =>
        match restart_v0 (s_disk s) with
        | Ok (d', p', ops) => Ok (St d' (Some p') (s_acked s) (s_tried s) (rev ops ++ s_ops s))
        | Panic => Panic | OutOfFuel => OutOfFuel
        end
    | _ => step s o
    end.

  Fixpoint run_from_v0 (s : st) (h : list hop) : res st :=
    match h with
    | [] => Ok s
    | o :: r => match step_v0 s o with
                | Ok s' => run_from_v0 s' r
                | Panic => Panic | OutOfFuel => OutOfFuel
                end
    end.
  Definition run_v0 (h : list hop) := run_from_v0 st0 h.

  (* ---------- what a bulk must look like for the decoders ---------- *)

  Definition wf_doc (d : doc) : Prop := d_body d <> [].
  Definition wf_bulk (b : bulk) : Prop :=
    b_docs b <> [] /\ Forall wf_doc (b_docs b) /\
    dec_m (b_mpay b) = Some (map meta_of (b_docs b)) /\
    dec_d (b_dpay b) = Some (raw_docs (b_docs b)).

  Definition hop_bulk (o : hop) : list bulk :=
    match o with HBulk b => [b] | HCrashIn b _ _ _ _ => [b] | HFault b _ _ => [b]
               | HFaultCrash b _ _ => [b] | _ => [] end.
  Definition hist_bulks (h : list hop) : list bulk := flat_map hop_bulk h.

  (* equal IDs carry equal documents (a retried bulk repeats its documents unchanged) *)
  Definition ids_functional (bs : list bulk) : Prop :=
    forall b1 b2 d1 d2, In b1 bs -> In b2 bs -> In d1 (b_docs b1) -> In d2 (b_docs b2) ->
      d_id d1 = d_id d2 -> d1 = d2.

  Definition wf_hist (h : list hop) : Prop :=
    Forall wf_bulk (hist_bulks h) /\ ids_functional (hist_bulks h).

  (* same history on the write path before commit ce3aaa8 (failed writes are not rolled back) *)
  Definition step_f0 (s : st) (o : hop) : res st :=
    match o, s_proc s with
    | HFault b in_meta cut, Some p =>
        let '(d', p') := do_fault_v0 (s_disk s) p b in_meta cut in
        Ok (St d' (Some p') (s_acked s) (s_tried s ++ [b]) (rev (fault_writes p b in_meta cut) ++ s_ops s))
    | _, _ => step s o
    end.
  Fixpoint run_from_f0 (s : st) (h : list hop) : res st :=
    match h with
    | [] => Ok s
    | o :: r => match step_f0 s o with
                | Ok s' => run_from_f0 s' r
                | Panic => Panic | OutOfFuel => OutOfFuel
                end
    end.
  Definition run_f0 (h : list hop) := run_from_f0 st0 h.

End WithCodec.


(* ---------- concurrent bulks: the locked unit of ActiveWriter.Write ----------

   ActiveWriter.Write holds a mutex around "reserve a docs offset and write the docs block,
   then reserve a meta offset and write the meta block that describes it". Each FileWriter
   reserves its own offsets atomically, so without the mutex every single write would still be
   fine — but the ORDER of the meta blocks could differ from the order of the docs blocks, and
   Replay derives docs offsets by summing Ext1 in meta order.

   Event level: a bulk consists of two events; a history of concurrent bulks is an interleaving
   of events. With the mutex only interleavings of whole units (`locked`) occur, and these are
   exactly sequences of the atomic step `do_bulk` (HBulk) of the history model above (theorem
   C01_locked_units_sequential). fsyncs are left out here: they do not move offsets. *)

Definition hdr_ext2 (h : list N) : N := le_dec (firstn 8 (skipn 25 h)).

(* i = index of the bulk in the group. A unit of ActiveWriter.Write is
     EvSnap i                         read both writer offsets (the rollback target)
     EvDocs i ; EvMeta i              the two block writes                         (success)
     EvFailDocs i cut ; EvRollback i  the docs write fails after cut bytes         (failure)
     EvDocs i ; EvFailMeta i cut ; EvRollback i   the meta write fails             (failure)
   FileWriter advances its offset by the full length before the write can fail; EvRollback stores
   the snapshot back and cuts the meta file, then the docs file, to it. *)
Inductive ev :=
| EvSnap (i : nat) | EvDocs (i : nat) | EvMeta (i : nat)
| EvFailDocs (i cut : nat) | EvFailMeta (i cut : nat) | EvRollback (i : nat).

Record wst := WSt { w_docs : file; w_meta : file; w_offd : nat; w_offm : nat;
                    w_pend : list (nat * nat);            (* bulk -> docs offset it reserved *)
                    w_snap : list (nat * (nat * nat)) }.  (* bulk -> offsets it snapshotted *)

Definition no_bulk := Bulk [] [] 0 [] 0.

Definition ev_step (cbs : list bulk) (w : wst) (e : ev) : wst :=
  match e with
  | EvSnap i =>
      WSt (w_docs w) (w_meta w) (w_offd w) (w_offm w) (w_pend w) ((i, (w_offd w, w_offm w)) :: w_snap w)
  | EvDocs i =>
      let b := nth i cbs no_bulk in
      WSt (write_at (w_docs w) (w_offd w) (dblock b)) (w_meta w)
          (w_offd w + length (dblock b)) (w_offm w) ((i, w_offd w) :: w_pend w) (w_snap w)
  | EvMeta i =>
      match find (fun x => Nat.eqb (fst x) i) (w_pend w) with
      | Some x =>
          let b := nth i cbs no_bulk in
          WSt (w_docs w) (write_at (w_meta w) (w_offm w) (mblock b (snd x)))
              (w_offd w) (w_offm w + length (mblock b (snd x))) (w_pend w) (w_snap w)
      | None => w
      end
  | EvFailDocs i cut =>
      let b := nth i cbs no_bulk in
      WSt (write_at (w_docs w) (w_offd w) (firstn cut (dblock b))) (w_meta w)
          (w_offd w + length (dblock b)) (w_offm w) (w_pend w) (w_snap w)
  | EvFailMeta i cut =>
      match find (fun x => Nat.eqb (fst x) i) (w_pend w) with
      | Some x =>
          let b := nth i cbs no_bulk in
          WSt (w_docs w) (write_at (w_meta w) (w_offm w) (firstn cut (mblock b (snd x))))
              (w_offd w) (w_offm w + length (mblock b (snd x))) (w_pend w) (w_snap w)
      | None => w
      end
  | EvRollback i =>
      match find (fun x => Nat.eqb (fst x) i) (w_snap w) with
      | Some x =>
          WSt (firstn (fst (snd x)) (w_docs w)) (firstn (snd (snd x)) (w_meta w))
              (fst (snd x)) (snd (snd x)) (w_pend w) (w_snap w)
      | None => w
      end
  end.

Definition run_events (cbs : list bulk) (w : wst) (evs : list ev) : wst :=
  fold_left (ev_step cbs) evs w.

(* one unit, as the mutex (with the snapshot taken inside it) lets it run *)
Inductive cunit := UOk (i : nat) | UFail (i : nat) (in_meta : bool) (cut : nat).

Definition unit_events (u : cunit) : list ev :=
  match u with
  | UOk i => [EvSnap i; EvDocs i; EvMeta i]
  | UFail i false cut => [EvSnap i; EvFailDocs i cut; EvRollback i]
  | UFail i true cut => [EvSnap i; EvDocs i; EvFailMeta i cut; EvRollback i]
  end.

(* the interleavings the mutex allows: whole units, in lock-acquisition order *)
Definition locked (us : list cunit) : list ev := flat_map unit_events us.

(* the bulks that are acknowledged *)
Definition unit_ok (cbs : list bulk) (u : cunit) : list bulk :=
  match u with UOk i => [nth i cbs no_bulk] | UFail _ _ _ => [] end.

(* ---------- the invariant Replay relies on, as a checkable statement ----------
   "the i-th meta block (in file order) describes the docs block that starts at the sum of the
   Ext1 of the blocks before it": (Ext1, Ext2) of every complete meta block, in file order ... *)
Fixpoint meta_exts_loop (fuel : nat) (mf : file) (mpos : nat) : list (N * N) :=
  match fuel with
  | 0 => []
  | S fuel' =>
      match read_doc_block mf mpos with
      | RdEOF => []
      | RdOk blk => (hdr_ext1 blk, hdr_ext2 blk) :: meta_exts_loop fuel' mf (mpos + length blk)
      end
  end.
Definition meta_exts (mf : file) : list (N * N) := meta_exts_loop (S (length mf)) mf 0.

(* ... each recorded docs offset equals the running sum *)
Fixpoint ext_chain_ok (l : list (N * N)) (sum : N) : bool :=
  match l with
  | [] => true
  | (e1, e2) :: r => (e2 =? sum)%N && ext_chain_ok r (sum + e1)
  end.

Definition meta_describes_docs (mf : file) : bool := ext_chain_ok (meta_exts mf) 0.
