(* C01 multi-fraction — lemmas, part 1: the files of one fraction under rotation, sealing and the
   loader's clean-up; every crash state of these programs keeps the fraction's invariant. *)
From Coq Require Import List Bool Arith NArith Lia.
From C01 Require Import Model Proofs Proofs2 Proofs3 Proofs5 ModelMulti.
Import ListNotations.
Open Scope nat_scope.

Definition sdoc_of (d : doc) : sdoc := SDoc (d_id d) (d_body d) (d_toks d).
Definition sdocs_of (bs : list bulk) : list sdoc := flat_map (fun b => map sdoc_of (b_docs b)) bs.
Definition full_s (bs : list bulk) : option sfile := Some (SFile (sdocs_of bs) true true).

(* bs = the durable bulks of the fraction. Three forms:
   skip   : no .docs, no .sdocs, no .index (never completely created, or removed): holds nothing;
   active : .meta/.docs consist of the blocks of bs, an unreadable meta tail and any docs tail may
            follow; no .index; a stale .sdocs (of an interrupted seal) only if the fraction holds bulks;
   sealed : .index and .sdocs complete, durable, built from exactly the documents of bs
            (.meta/.docs may still be there). Temp files are arbitrary in every form. *)
Inductive FInv (fd : fdir) (bs : list bulk) : Prop :=
| FI_skip : fd_docs fd = None -> fd_sd fd = None -> fd_ix fd = None -> bs = [] -> FInv fd bs
| FI_act : forall tm td,
    fd_meta fd = Some (mfile bs 0 ++ tm) -> fd_docs fd = Some (dfile bs ++ td) -> eof_tail tm ->
    fd_ix fd = None -> (bs = [] -> fd_sd fd = None) -> FInv fd bs
| FI_sealed : fd_ix fd = full_s bs -> fd_sd fd = full_s bs -> FInv fd bs.

Definition Safe (fd : fdir) (prog : list lop) (bs : list bulk) : Prop :=
  forall j torn pl, FInv (lcrash fd prog j torn pl) bs.

Lemma lrun_app : forall p1 p2 fd, lrun (p1 ++ p2) fd = lrun p2 (lrun p1 fd).
Proof. intros. unfold lrun. apply fold_left_app. Qed.

Lemma lcrash_all : forall fd prog j, length prog <= j -> lcrash fd prog j false false = lrun prog fd.
Proof.
  intros. unfold lcrash. rewrite firstn_all2 by lia.
  replace (nth_error prog j) with (@None lop) by (symmetry; apply nth_error_None; lia). reflexivity.
Qed.

Lemma safe_final : forall fd prog bs, Safe fd prog bs -> FInv (lrun prog fd) bs.
Proof. intros fd prog bs H. rewrite <- (lcrash_all fd prog (length prog)) by lia. apply H. Qed.

Lemma lcrash_app : forall fd p1 p2 j torn pl,
  lcrash fd (p1 ++ p2) j torn pl =
  if j <? length p1 then lcrash fd p1 j torn pl else lcrash (lrun p1 fd) p2 (j - length p1) torn pl.
Proof.
  intros. unfold lcrash. destruct (j <? length p1) eqn:E.
  - apply Nat.ltb_lt in E. rewrite firstn_app. replace (j - length p1) with 0 by lia.
    cbn [firstn]. rewrite app_nil_r. rewrite nth_error_app1 by lia. reflexivity.
  - apply Nat.ltb_ge in E. rewrite firstn_app, (firstn_all2 p1) by lia.
    rewrite lrun_app. rewrite nth_error_app2 by lia. reflexivity.
Qed.

Lemma safe_app : forall fd p1 p2 bs,
  Safe fd p1 bs -> Safe (lrun p1 fd) p2 bs -> Safe fd (p1 ++ p2) bs.
Proof.
  intros fd p1 p2 bs H1 H2 j torn pl. rewrite lcrash_app.
  destruct (j <? length p1); [apply H1 | apply H2].
Qed.

Lemma safe_nil : forall fd bs, FInv fd bs -> (forall pl, FInv (lpower pl fd) bs) -> Safe fd [] bs.
Proof.
  intros fd bs H Hp j torn pl. unfold lcrash. rewrite firstn_nil.
  replace (nth_error (@nil lop) j) with (@None lop) by (destruct j; reflexivity). cbn. apply Hp.
Qed.

Lemma cut_full : forall bs, cut_s (full_s bs) = full_s bs.
Proof. reflexivity. Qed.

(* power loss keeps the invariant (renamed files are durable; .meta/.docs are not touched) *)
Lemma finv_power : forall fd bs pl, FInv fd bs -> FInv (lpower pl fd) bs.
Proof.
  intros fd bs [|] H; [| exact H]. unfold lpower.
  destruct H as [Hd Hs Hi Hb | tm td Hm Hd Ht Hi Hb | Hi Hs].
  - apply FI_skip; cbn; auto; [rewrite Hs | rewrite Hi]; reflexivity.
  - eapply FI_act; cbn; eauto; [rewrite Hi; reflexivity |]. intro E. rewrite (Hb E). reflexivity.
  - apply FI_sealed; cbn; [rewrite Hi | rewrite Hs]; apply cut_full.
Qed.

Ltac tail_case :=
  rewrite ?firstn_nil;
  try match goal with
      | |- context [nth_error (@nil lop) ?j] =>
          replace (nth_error (@nil lop) j) with (@None lop) by (destruct j; reflexivity)
      end; cbn.

(* ---------- rotation: the files of a fresh fraction ---------- *)

Lemma create_safe : Safe no_fd create_prog [].
Proof.
  intros j torn pl. apply finv_power.
  destruct j as [| [| [| [| j]]]]; cbn; tail_case;
    try (apply FI_skip; reflexivity);
    (eapply FI_act with (tm := []) (td := []); cbn; auto using eof_tail_nil).
Qed.

Lemma create_final : lrun create_prog no_fd = FDir (Some []) (Some []) None None None None.
Proof. reflexivity. Qed.

(* ---------- sealing ---------- *)

(* from the exact active form of a fraction that holds bulks: every crash state is the active form
   (possibly with a new .sdocs) until .index is renamed, and the sealed form from then on *)
Lemma seal_safe : forall fd bs,
  fd_meta fd = Some (mfile bs 0) -> fd_docs fd = Some (dfile bs) -> fd_ix fd = None -> bs <> [] ->
  Safe fd (seal_prog (sdocs_of bs)) bs.
Proof.
  intros [m d sdt sd ixt ix] bs Hm Hd Hi Hne j torn pl. cbn in Hm, Hd, Hi. subst m d ix.
  apply finv_power.
  destruct j as [| [| [| [| [| [| [| [| [| [| [| j]]]]]]]]]]]; destruct torn; cbn; tail_case;
    first [ apply FI_sealed; reflexivity
          | eapply FI_act with (tm := []) (td := []); cbn; rewrite ?app_nil_r;
            auto using eof_tail_nil; intro; contradiction ].
Qed.

Lemma seal_final : forall fd bs,
  fd_ix (lrun (seal_prog (sdocs_of bs)) fd) = full_s bs /\
  fd_sd (lrun (seal_prog (sdocs_of bs)) fd) = full_s bs.
Proof. intros [m d sdt sd ixt ix] bs. cbn. auto. Qed.

(* ---------- operations that touch .meta/.docs only ---------- *)

Definition md_only (o : lop) : bool :=
  match o with
  | LUnl NMeta | LUnl NDocs | LDirSync | LB _ | LCreate NMeta | LCreate NDocs => true
  | _ => false
  end.

Lemma lapply_md_only : forall fd o, md_only o = true ->
  fd_sdt (lapply fd o) = fd_sdt fd /\ fd_sd (lapply fd o) = fd_sd fd /\
  fd_ixt (lapply fd o) = fd_ixt fd /\ fd_ix (lapply fd o) = fd_ix fd.
Proof.
  intros fd o H. destruct o as [f | o | f ds | f | a b | | f]; try discriminate; cbn.
  - destruct f; try discriminate; cbn; [destruct (fd_meta fd) | destruct (fd_docs fd)]; cbn; auto.
  - destruct o as [k off dd | k | k n |]; [destruct k | | destruct k |]; cbn; auto.
  - auto.
  - destruct f; try discriminate; cbn; auto.
Qed.

Lemma lrun_md_only : forall prog fd, forallb md_only prog = true ->
  fd_sd (lrun prog fd) = fd_sd fd /\ fd_ix (lrun prog fd) = fd_ix fd.
Proof.
  induction prog as [| o r IH]; intros fd H; [auto |].
  cbn in H. apply andb_prop in H. destruct H as (Ho & Hr).
  cbn [lrun fold_left]. destruct (IH (lapply fd o) Hr) as (A & B). unfold lrun in *.
  destruct (lapply_md_only fd o Ho) as (_ & C & _ & D). rewrite A, B, C, D. auto.
Qed.

Lemma forallb_firstn : forall A (f : A -> bool) n l, forallb f l = true -> forallb f (firstn n l) = true.
Proof.
  induction n; intros l H; [reflexivity |]. destruct l; [reflexivity |].
  cbn in *. apply andb_prop in H. destruct H as (H1 & H2). rewrite H1, IHn; auto.
Qed.

Lemma ltorn_md_only : forall fd prog j torn, forallb md_only prog = true ->
  ltorn fd (nth_error prog j) torn = fd.
Proof.
  intros fd prog j torn H. destruct (nth_error prog j) as [o |] eqn:E; [| reflexivity].
  apply nth_error_In in E. rewrite forallb_forall in H. specialize (H o E).
  destruct o; try discriminate; reflexivity.
Qed.

(* a sealed fraction stays sealed under any prefix of such a program *)
Lemma sealed_md_safe : forall fd prog bs, forallb md_only prog = true ->
  fd_ix fd = full_s bs -> fd_sd fd = full_s bs -> Safe fd prog bs.
Proof.
  intros fd prog bs H Hi Hs j torn pl. unfold lcrash. rewrite ltorn_md_only by exact H.
  apply finv_power. destruct (lrun_md_only (firstn j prog) fd (forallb_firstn _ _ _ _ H)) as (A & B).
  apply FI_sealed; congruence.
Qed.

(* ---------- replay of an active fraction: the truncations ---------- *)

Lemma trunc_safe : forall fd bs tm td,
  fd_meta fd = Some (mfile bs 0 ++ tm) -> fd_docs fd = Some (dfile bs ++ td) -> eof_tail tm ->
  fd_ix fd = None -> (bs = [] -> fd_sd fd = None) ->
  let ops := map LB (trunc_ops (Disk (dfile bs ++ td) (mfile bs 0 ++ tm)) (length (mfile bs 0)) (length (dfile bs))) in
  Safe fd ops bs /\
  fd_meta (lrun ops fd) = Some (mfile bs 0) /\ fd_docs (lrun ops fd) = Some (dfile bs) /\
  fd_ix (lrun ops fd) = None /\ fd_sd (lrun ops fd) = fd_sd fd.
Proof.
  intros [m d sdt sd ixt ix] bs tm td Hm Hd Ht Hi Hb. cbn in Hm, Hd, Hi, Hb. subst m d ix.
  unfold trunc_ops. cbn [meta docs].
  destruct (length (mfile bs 0) <? length (mfile bs 0 ++ tm)) eqn:Em;
  destruct (length (dfile bs) <? length (dfile bs ++ td)) eqn:Ed; cbn [app map].
  - split.
    + intros j torn pl. apply finv_power.
      destruct j as [| [| j]]; cbn; tail_case; rewrite ?firstn_app_len.
      * eapply FI_act; cbn; eauto.
      * eapply FI_act with (tm := []) (td := td); cbn; rewrite ?app_nil_r; eauto using eof_tail_nil.
      * eapply FI_act with (tm := []) (td := []); cbn; rewrite ?app_nil_r; eauto using eof_tail_nil.
    + cbn. rewrite !firstn_app_len. auto.
  - apply Nat.ltb_ge in Ed. rewrite app_length in Ed.
    assert (td = []) by (destruct td; [reflexivity | simpl in Ed; lia]). subst td.
    split.
    + intros j torn pl. apply finv_power.
      destruct j as [| j]; cbn; tail_case; rewrite ?firstn_app_len.
      * eapply FI_act; cbn; eauto.
      * eapply FI_act with (tm := []) (td := []); cbn; rewrite ?app_nil_r; eauto using eof_tail_nil.
    + cbn. rewrite !firstn_app_len, app_nil_r. auto.
  - apply Nat.ltb_ge in Em. rewrite app_length in Em.
    assert (tm = []) by (destruct tm; [reflexivity | simpl in Em; lia]). subst tm.
    split.
    + intros j torn pl. apply finv_power.
      destruct j as [| j]; cbn; tail_case; rewrite ?firstn_app_len.
      * eapply FI_act; cbn; eauto.
      * eapply FI_act with (tm := []) (td := []); cbn; rewrite ?app_nil_r; eauto using eof_tail_nil.
    + cbn. rewrite !firstn_app_len, app_nil_r. auto.
  - apply Nat.ltb_ge in Em. rewrite app_length in Em.
    assert (tm = []) by (destruct tm; [reflexivity | simpl in Em; lia]). subst tm.
    apply Nat.ltb_ge in Ed. rewrite app_length in Ed.
    assert (td = []) by (destruct td; [reflexivity | simpl in Ed; lia]). subst td.
    split.
    + apply safe_nil; [| intro; apply finv_power]; eapply FI_act; cbn; eauto.
    + cbn. rewrite !app_nil_r. auto.
Qed.

(* removal of a replayed fraction that holds nothing *)
Lemma remove_safe : forall fd,
  fd_meta fd = Some [] -> fd_docs fd = Some [] -> fd_ix fd = None -> fd_sd fd = None ->
  Safe fd (remove_ops fd) [].
Proof.
  intros [m d sdt sd ixt ix] Hm Hd Hi Hs j torn pl. cbn in Hm, Hd, Hi, Hs. subst m d ix sd.
  apply finv_power. unfold remove_ops. cbn.
  destruct j as [| [| j]]; cbn; tail_case.
  - eapply FI_act with (tm := []) (td := []); cbn; auto using eof_tail_nil.
  - apply FI_skip; reflexivity.
  - apply FI_skip; reflexivity.
Qed.
