(* C01 — shape of the generated cases and the two executable verdicts. No proofs. *)
From VLib Require Import CaseLib.
From C01 Require Import Model ModelMulti ModelIntr.
Open Scope nat_scope.

(* ---------- decoders of a case: zstd is replaced by a table built from the case's bulks ---------- *)

Definition bytes_eqb := list_eqb N.eqb.

Definition dec_m_of (bs : list bulk) (pay : list N) : option (list dmeta) :=
  match find (fun b => bytes_eqb (b_mpay b) pay) bs with
  | Some b => Some (map meta_of (b_docs b))
  | None => None
  end.
Definition dec_d_of (bs : list bulk) (pay : list N) : option (list N) :=
  match find (fun b => bytes_eqb (b_dpay b) pay) bs with
  | Some b => Some (raw_docs (b_docs b))
  | None => None
  end.

(* ---------- the history as written by the driver: bulks by index ---------- *)

Inductive ihop :=
| IBulk (i : nat)
| IConc (is : list nat)       (* bulks submitted concurrently, all acknowledged; listed in the order in
                                 which they reserved their docs offsets (= lock order when the writer's
                                 mutex is in place) *)
| IFault (i : nat) (in_meta : bool) (cut : nat) (acked : bool)
                              (* one write of the bulk failed with an I/O error after `cut` bytes;
                                 acked = what the real store answered *)
| IFaultCrash (i : nat) (a c : nat)
                              (* the process died between the failing write and the end of the
                                 rollback: a / c bytes of the docs / meta block are in the files *)
| IGroupBegin | IGroupEnd     (* the operations in between (IBulk / IFault, in lock order) were submitted
                                 concurrently; the store answers once, at the end *)
| IObs                        (* fetch + search in the running store, no restart *)
| ICrashIn (i : nat) (k t kd km : nat)
| IPower
| IRestart
| IRestartCrash
| IStartIntr (polls : nat).   (* (kill and) start the store with a context that reports Done from its
                                 (polls+1)-th poll on (driver: open-interrupted); the real outcome is the
                                 next observation: IIntr (Load returned the cancellation) or IUp/IDied *)

Definition dummy_bulk := Bulk [] [] 0 [] 0.
(* the model's atomic step is the locked unit: concurrent bulks are a sequence of HBulk steps *)
Definition hops_of (bs : list bulk) (o : ihop) : list xhop :=
  match o with
  | IBulk i => [XOp (HBulk (nth i bs dummy_bulk))]
  | IConc is => map (fun i => XOp (HBulk (nth i bs dummy_bulk))) is
  | IFault i fm cut _ => [XOp (HFault (nth i bs dummy_bulk) fm cut)]
  | IFaultCrash i a c => [XOp (HFaultCrash (nth i bs dummy_bulk) a c)]
  | IGroupBegin => []
  | IGroupEnd => []
  | IObs => []
  | ICrashIn i k t kd km => [XOp (HCrashIn (nth i bs dummy_bulk) k t kd km)]
  | IPower => [XOp HPower]
  | IRestart => [XOp HRestart]
  | IRestartCrash => [XOp HRestartCrash]
  | IStartIntr k => [XStartIntr k]
  end.

(* projected file operation, as read from the strace log *)
Inductive pop :=
| PW (k : fk) (off : nat) (h : list N) (len : nat)   (* pwrite: offset, first 33 bytes, length *)
| PF (k : fk)
| PT (k : fk) (len : nat)
| PAck.

Definition proj (o : fop) : pop :=
  match o with
  | W k off d => PW k off (firstn HDR d) (length d)
  | F k => PF k
  | T k n => PT k n
  | Ack => PAck
  end.

Definition fk_eqb (a b : fk) := match a, b with FDocs, FDocs | FMeta, FMeta => true | _, _ => false end.
Definition pop_eqb (a b : pop) : bool :=
  match a, b with
  | PW k o h l, PW k' o' h' l' => fk_eqb k k' && Nat.eqb o o' && bytes_eqb h h' && Nat.eqb l l'
  | PF k, PF k' => fk_eqb k k'
  | PT k n, PT k' n' => fk_eqb k k' && Nat.eqb n n'
  | PAck, PAck => true
  | _, _ => false
  end.

Definition fetched_eqb (a b : fetched) : bool :=
  match a, b with
  | Absent, Absent => true
  | Body x, Body y => bytes_eqb x y
  | FetchErr, FetchErr => true
  | _, _ => false
  end.

(* what the driver saw after one start of the real store *)
Inductive iobs :=
| IDied                                                     (* the store did not come up *)
| IUp (fetches : list (N * fetched)) (searches : list (N * list N))
                         (* per document ID: fetch result; per token: IDs found, sorted, distinct *)
| IIntr (same : bool) (dlen mlen : nat).
                         (* the interrupted start-up returned context.Canceled; same = every file of the data
                            directory is byte-identical to what it was before and no file was created or
                            removed; dlen / mlen = lengths of .docs / .meta afterwards *)

(* ---------- multi-fraction histories (ModelMulti.v) as written by the driver ---------- *)

Inductive imhop :=
| IMBulk (i : nat)
| IMCrashIn (i k t kd km : nat)
| IMPower
| IMRotate
| IMRotateCrash (j : nat)                       (* j operations of the rotation completed *)
| IMSeal
| IMSealCrash (j : nat) (torn pl : bool)        (* j operations of the seal completed (all writes of one temp
                                                   file = one operation), the next one torn, power loss *)
| IMRestart
| IMRestartCrash (c : list nat) (torn pl : bool)
                                                (* the start-up died: c[i] = completed operations on the files of
                                                   fraction i, directory fsyncs not counted *)
| IMStartIntr (polls : nat).                    (* start-up under a context cancelled after `polls` polls *)

(* projected file operation of the multi-fraction driver: fraction number (creation order), file *)
Inductive mpop :=
| MPB (i : nat) (p : pop)                       (* .docs/.meta: pwrite / fsync / truncate; acknowledgement *)
| MPCreate (i : nat) (f : fname)
| MPSW (i : nat) (f : fname)                    (* one or more consecutive writes into a temp file *)
| MPFs (i : nat) (f : fname)
| MPRen (i : nat) (a b : fname)
| MPDirSync
| MPUnl (i : nat) (f : fname).

(* after a start: fetches, searches, and FracManager.fracs in order: (fraction, (sealed, writable)) *)
(* the files of one fraction before and after an interrupted start-up, read from the real directory:
   which of .meta/.docs/.sdocs/.index exist, lengths of .meta/.docs; fc_cm / fc_cd = length of the prefix of the
   .meta file (before) that consists of complete blocks, and the sum of their Ext1 (what a replay keeps);
   fc_prefix = every file that still exists holds a prefix of its old bytes (.sdocs/.index: the same bytes) *)
Record fchg := FChg { fc_ord : nat;
                      fc_b : list bool; fc_bm : nat; fc_bd : nat; fc_cm : nat; fc_cd : nat;
                      fc_a : list bool; fc_am : nat; fc_ad : nat; fc_prefix : bool }.

Inductive imobs :=
| IMDied
| IMUp (fetches : list (N * fetched)) (searches : list (N * list N)) (fracs : list (nat * (bool * bool)))
| IMIntr (files : list fchg).    (* the interrupted start-up returned context.Canceled *)

(* exts: for every child process of the run, (Ext1, Ext2) of the meta blocks found in the real
   .meta file when the child ended, in file order *)
Inductive case :=
| CHist (bs : list bulk) (h : list ihop) (obs : list iobs) (ops : list pop) (exts : list (list (N * N)))
| CMulti (bs : list bulk) (h : list imhop) (obs : list imobs) (ops : list mpop).

(* ---------- sorted distinct ---------- *)
Fixpoint ins (x : N) (l : list N) : list N :=
  match l with
  | [] => [x]
  | y :: r => if (x <? y)%N then x :: l else if (x =? y)%N then l else y :: ins x r
  end.
Definition canon (l : list N) : list N := fold_right ins [] l.

(* ---------- model run with one observation per start ---------- *)

Inductive mobs := MDied | MUp (d : disk) (p : proc) | MIntr (before after : disk).

Section Run.
  Variable bs : list bulk.
  Let dm := dec_m_of bs.
  Let dd := dec_d_of bs.

  Definition is_ack (o : fop) := match o with Ack => true | _ => false end.

  (* file operations of one history step, oldest first; a concurrent group answers once *)
  Definition step_ops (o : ihop) (before after : st) : list fop :=
    let d := rev (firstn (length (s_ops after) - length (s_ops before)) (s_ops after)) in
    match o with
    | IConc _ => match s_proc before with
                 | Some _ => filter (fun x => negb (is_ack x)) d ++ [Ack]
                 | None => d
                 end
    | _ => d
    end.

  Fixpoint run_obs (ing : bool) (s : st) (h : list ihop) : list mobs * option (list fop) :=
    match h with
    | [] => ([], Some [])
    | o :: r =>
        match xrun_from dm s (hops_of bs o) with
        | Ok s' =>
            let ing' := match o with IGroupBegin => true | IGroupEnd => false | _ => ing end in
            let '(l, f) := run_obs ing' s' r in
            let ops := step_ops o s s' in
            let ops := if ing then filter (fun x => negb (is_ack x)) ops else ops in
            let ops := match o, s_proc s with IGroupEnd, Some _ => ops ++ [Ack] | _, _ => ops end in
            let f' := option_map (fun x => ops ++ x) f in
            match o, s_proc s' with
            | IRestart, Some p => (MUp (s_disk s') p :: l, f')
            | IObs, Some p => (MUp (s_disk s') p :: l, f')
            | IStartIntr _, Some p => (MUp (s_disk s') p :: l, f')
            | IStartIntr _, None => (MIntr (s_disk s) (s_disk s') :: l, f')
            | _, _ => (l, f')
            end
        | _ => ([MDied], None)
        end
    end.

  Definition obs_agree (m : mobs) (i : iobs) : bool :=
    match m, i with
    | MDied, IDied => true
    | MUp d p, IUp fs ss =>
        forallb (fun x => fetched_eqb (fetch dd d p (fst x)) (snd x)) fs &&
        forallb (fun x => list_eqb N.eqb (canon (search p (fst x))) (snd x)) ss
    | MIntr b a, IIntr same dlen mlen =>
        Bool.eqb same (bytes_eqb (docs b) (docs a) && bytes_eqb (meta b) (meta a)) &&
        Nat.eqb dlen (length (docs a)) && Nat.eqb mlen (length (meta a))
    | _, _ => false
    end.
End Run.

Fixpoint forall2b {A B} (f : A -> B -> bool) (a : list A) (b : list B) : bool :=
  match a, b with
  | [], [] => true
  | x :: a', y :: b' => f x y && forall2b f a' b'
  | _, _ => false
  end.

Definition chist_agrees (c : case) : bool :=
  match c with
  | CMulti _ _ _ _ => true
  | CHist bs h obs ops exts =>
      let '(mo, fin) := run_obs bs false st0 h in
      forall2b (obs_agree bs) mo obs &&
      forallb (fun o => match o with IFault _ _ _ a => negb a | _ => true end) h &&
      match fin with
      | Some mops => list_eqb pop_eqb (map proj mops) ops
      | None => true
      end
  end.

(* ---------- the property, evaluated on what the real store showed ---------- *)

Definition lookup_f (fs : list (N * fetched)) (id : N) : option fetched :=
  option_map snd (find (fun x => (fst x =? id)%N) fs).
Definition lookup_s (ss : list (N * list N)) (t : N) : option (list N) :=
  option_map snd (find (fun x => (fst x =? t)%N) ss).
Definition memN (x : N) (l : list N) := existsb (N.eqb x) l.

(* document fetchable byte for byte and findable by each of its tokens *)
Definition doc_present (fs : list (N * fetched)) (ss : list (N * list N)) (d : doc) : bool :=
  match lookup_f fs (d_id d) with
  | Some (Body b) => bytes_eqb b (d_body d)
  | _ => false
  end &&
  forallb (fun t => match lookup_s ss t with Some ids => memN (d_id d) ids | None => false end) (d_toks d).

(* document neither fetchable nor findable *)
Definition doc_absent (fs : list (N * fetched)) (ss : list (N * list N)) (d : doc) : bool :=
  match lookup_f fs (d_id d) with
  | Some Absent => true
  | _ => false
  end &&
  forallb (fun t => match lookup_s ss t with Some ids => negb (memN (d_id d) ids) | None => false end) (d_toks d).

Definition bulk_present fs ss (b : bulk) := forallb (doc_present fs ss) (b_docs b).
Definition bulk_absent fs ss (b : bulk) := forallb (doc_absent fs ss) (b_docs b).

Definition memn (x : nat) (l : list nat) := existsb (Nat.eqb x) l.
Definition remn (x : nat) (l : list nat) := filter (fun y => negb (Nat.eqb x y)) l.

(* every ID a search returns belongs to a submitted document that carries the token *)
Definition search_sound (bs : list bulk) (sub : list nat) (ss : list (N * list N)) : bool :=
  forallb (fun x =>
    forallb (fun id =>
      existsb (fun i => existsb (fun d => (d_id d =? id)%N && memN (fst x) (d_toks d))
                                (b_docs (nth i bs dummy_bulk))) sub) (snd x)) ss.

(* walk the history: acked = acknowledged bulks, tried = interrupted ones, pres/abs = interrupted
   bulks already seen wholly present / wholly absent after a start (the verdict must not change
   unless the same bulk is submitted again) *)
Record track := Track { up : bool; acked : list nat; tried : list nat; pres : list nat; abs : list nat }.

(* the checks at one observation; returns the new pres/abs lists *)
Definition obs_ok (bs : list bulk) (tr : track) (fs : list (N * fetched)) (ss : list (N * list N)) : bool :=
  let B i := nth i bs dummy_bulk in
  (* acknowledged bulks: intact *)
  forallb (fun i => bulk_present fs ss (B i)) (acked tr) &&
  (* interrupted / failed bulks: all or nothing, with their own bytes *)
  forallb (fun i => bulk_present fs ss (B i) || bulk_absent fs ss (B i)) (tried tr) &&
  (* ... and the verdict of an earlier observation stands *)
  forallb (fun i => bulk_present fs ss (B i)) (pres tr) &&
  forallb (fun i => bulk_absent fs ss (B i)) (abs tr) &&
  search_sound bs (acked tr ++ tried tr) ss.

Definition obs_track (bs : list bulk) (tr : track) (fs : list (N * fetched)) (ss : list (N * list N)) : track :=
  let B i := nth i bs dummy_bulk in
  Track true (acked tr) (tried tr)
        (filter (fun i => bulk_present fs ss (B i)) (tried tr))
        (filter (fun i => negb (memn i (acked tr)) && bulk_absent fs ss (B i)) (tried tr)).

Fixpoint spec_walk (bs : list bulk) (h : list ihop) (obs : list iobs) (tr : track) : bool :=
  match h with
  | [] => match obs with [] => true | _ => false end
  | IBulk i :: r =>
      if up tr then spec_walk bs r obs (Track true (acked tr ++ [i]) (tried tr) (pres tr) (remn i (abs tr)))
      else spec_walk bs r obs tr
  | IConc is :: r =>
      if up tr then spec_walk bs r obs (Track true (acked tr ++ is) (tried tr) (pres tr)
                                              (filter (fun y => negb (memn y is)) (abs tr)))
      else spec_walk bs r obs tr
  | IFault i _ _ a :: r =>
      (* a bulk whose write failed must not be acknowledged *)
      if up tr then negb a &&
                    spec_walk bs r obs (Track true (acked tr) (tried tr ++ [i]) (pres tr) (remn i (abs tr)))
      else spec_walk bs r obs tr
  | IFaultCrash i _ _ :: r =>
      if up tr then spec_walk bs r obs (Track false (acked tr) (tried tr ++ [i]) (pres tr) (remn i (abs tr)))
      else spec_walk bs r obs tr
  | ICrashIn i _ _ _ _ :: r =>
      if up tr then spec_walk bs r obs (Track false (acked tr) (tried tr ++ [i]) (pres tr) (remn i (abs tr)))
      else spec_walk bs r obs tr
  | IPower :: r => spec_walk bs r obs (Track false (acked tr) (tried tr) (pres tr) (abs tr))
  | IRestartCrash :: r => spec_walk bs r obs (Track false (acked tr) (tried tr) (pres tr) (abs tr))
  | IGroupBegin :: r => spec_walk bs r obs tr
  | IGroupEnd :: r => spec_walk bs r obs tr
  | IObs :: r =>
      if up tr then
        match obs with
        | IUp fs ss :: obs' => obs_ok bs tr fs ss && spec_walk bs r obs' (obs_track bs tr fs ss)
        | _ => false
        end
      else spec_walk bs r obs tr
  | IRestart :: r =>
      match obs with
      | IUp fs ss :: obs' => obs_ok bs tr fs ss && spec_walk bs r obs' (obs_track bs tr fs ss)
      | _ => false        (* the store always comes back up *)
      end
  | IStartIntr _ :: r =>
      match obs with
      (* the start-up was interrupted: it must not have changed, created or removed any file; the store is down *)
      | IIntr same _ _ :: obs' =>
          same && spec_walk bs r obs' (Track false (acked tr) (tried tr) (pres tr) (abs tr))
      (* nobody saw the cancellation: an ordinary start *)
      | IUp fs ss :: obs' => obs_ok bs tr fs ss && spec_walk bs r obs' (obs_track bs tr fs ss)
      | _ => false        (* it must not die *)
      end
  end.

Definition chist_spec_ok (c : case) : bool :=
  match c with
  | CMulti _ _ _ _ => true
  | CHist bs h obs ops exts =>
      spec_walk bs h obs (Track false [] [] [] []) &&
      (* on the real .meta files: every meta block records the docs offset that Replay will derive *)
      forallb (fun l => ext_chain_ok l 0) exts
  end.


(* ====================== multi-fraction cases ====================== *)

Definition fname_eqb (a b : fname) : bool :=
  match a, b with
  | NMeta, NMeta | NDocs, NDocs | NSdocsTmp, NSdocsTmp | NSdocs, NSdocs | NIndexTmp, NIndexTmp | NIndex, NIndex => true
  | _, _ => false
  end.

Definition mpop_eqb (a b : mpop) : bool :=
  match a, b with
  | MPB i p, MPB j q => Nat.eqb i j && pop_eqb p q
  | MPCreate i f, MPCreate j g => Nat.eqb i j && fname_eqb f g
  | MPSW i f, MPSW j g => Nat.eqb i j && fname_eqb f g
  | MPFs i f, MPFs j g => Nat.eqb i j && fname_eqb f g
  | MPRen i a1 b1, MPRen j a2 b2 => Nat.eqb i j && fname_eqb a1 a2 && fname_eqb b1 b2
  | MPDirSync, MPDirSync => true
  | MPUnl i f, MPUnl j g => Nat.eqb i j && fname_eqb f g
  | _, _ => false
  end.

Definition mproj (x : nat * lop) : mpop :=
  let i := fst x in
  match snd x with
  | LCreate f => MPCreate i f
  | LB o => MPB i (proj o)
  | LSW f _ => MPSW i f
  | LFs f => MPFs i f
  | LRen a b => MPRen i a b
  | LDirSync => MPDirSync
  | LUnl f => MPUnl i f
  end.

Definition is_sync (o : lop) : bool := match o with LDirSync => true | _ => false end.

(* position in prog right after its c-th operation that is not a directory fsync *)
Fixpoint pos_of (prog : list lop) (c : nat) : nat :=
  match prog with
  | [] => 0
  | o :: r => match c with
              | 0 => 0
              | S c' => if is_sync o then S (pos_of r c) else S (pos_of r c')
              end
  end.

Inductive mmobs := MMDied | MMUp (dirs : nat -> fdir) (mp : mproc) | MMIntr (dirs : nat -> fdir).

Section MRun.
  Variable bs : list bulk.
  Let dm := dec_m_of bs.
  Let dd := dec_d_of bs.

  (* the driver counts completed operations per fraction without directory fsyncs (they carry no
     file name); the model's own programs give the positions *)
  Definition cut_of (s : mst) (c : list nat) : list nat :=
    match plans_of dm dd (ms_dirs s) (ms_next s) (seq 0 (ms_next s)) with
    | Ok pls =>
        map (fun i => match find (fun x => Nat.eqb (fst x) i) pls with
                      | Some x => pos_of (fplan_prog (snd x)) (nth i c 0)
                      | None => 0
                      end) (seq 0 (ms_next s))
        ++ [pos_of create_prog (nth (ms_next s) c 0)]
    | _ => []
    end.

  Definition mhop_of (s : mst) (o : imhop) : mxhop :=
    match o with
    | IMBulk i => MXOp (MBulk (nth i bs dummy_bulk))
    | IMCrashIn i k t kd km => MXOp (MCrashIn (nth i bs dummy_bulk) k t kd km)
    | IMPower => MXOp MPower
    | IMRotate => MXOp MRotate
    | IMRotateCrash j => MXOp (MRotateCrash j)
    | IMSeal => MXOp MSeal
    | IMSealCrash j torn pl => MXOp (MSealCrash j torn pl)
    | IMRestart => MXOp MRestart
    | IMRestartCrash c torn pl => MXOp (MRestartCrash (cut_of s c) torn pl)
    | IMStartIntr k => MXStartIntr k
    end.

  Fixpoint mrun_obs (s : mst) (h : list imhop) : list mmobs * option (list (nat * lop)) :=
    match h with
    | [] => ([], Some (rev (ms_ops s)))
    | o :: r =>
        match mxstep dm dd s (mhop_of s o) with
        | Ok s' =>
            let '(l, f) := mrun_obs s' r in
            match o, ms_proc s' with
            | IMRestart, Some mp => (MMUp (ms_dirs s') mp :: l, f)
            | IMStartIntr _, Some mp => (MMUp (ms_dirs s') mp :: l, f)
            | IMStartIntr _, None => (MMIntr (ms_dirs s') :: l, f)
            | _, _ => (l, f)
            end
        | _ => ([MMDied], None)
        end
    end.

  Definition is_rsealed (r : rfrac) : bool := match r with RSealed _ _ => true | RActive _ => false end.

  Definition frac_eqb (a b : nat * (bool * bool)) : bool :=
    Nat.eqb (fst a) (fst b) && Bool.eqb (fst (snd a)) (fst (snd b)) && Bool.eqb (snd (snd a)) (snd (snd b)).

  Definition mobs_agree (m : mmobs) (i : imobs) : bool :=
    match m, i with
    | MMDied, IMDied => true
    | MMUp dirs mp, IMUp fs ss fr =>
        forallb (fun x => fetched_eqb (mfetch dd dirs mp (fst x)) (snd x)) fs &&
        forallb (fun x => list_eqb N.eqb (canon (msearch mp (fst x))) (snd x)) ss &&
        list_eqb frac_eqb
          (map (fun x => (fst x, (is_rsealed (snd x), negb (is_rsealed (snd x)) && Nat.eqb (fst x) (mp_active mp))))
               (mp_fracs mp)) fr
    | MMIntr dirs, IMIntr fl =>
        (* the files the interrupted start-up left: which exist, how long .meta/.docs are *)
        forallb (fun c =>
          let fd := dirs (fc_ord c) in
          list_eqb Bool.eqb (fc_a c) [has (fd_meta fd); has (fd_docs fd); has (fd_sd fd); has (fd_ix fd)] &&
          Nat.eqb (fc_am c) (match fd_meta fd with Some x => length x | None => 0 end) &&
          Nat.eqb (fc_ad c) (match fd_docs fd with Some x => length x | None => 0 end)) fl
    | _, _ => false
    end.
End MRun.

Definition cmulti_agrees (bs : list bulk) (h : list imhop) (obs : list imobs) (ops : list mpop) : bool :=
  let '(mo, fin) := mrun_obs bs (mst0) h in
  forall2b (mobs_agree bs) mo obs &&
  match fin with
  | Some mops => list_eqb mpop_eqb (map mproj mops) ops
  | None => true
  end.

(* the property on the real observations: the single-fraction statement (acknowledged bulks intact,
   interrupted bulks all-or-nothing and stable, search sound, the store always comes up) on the
   history with rotation and sealing read as invisible steps and crashes inside them as crashes ... *)
Definition spec_hop (o : imhop) : list ihop :=
  match o with
  | IMBulk i => [IBulk i]
  | IMCrashIn i k t kd km => [ICrashIn i k t kd km]
  | IMPower | IMRotateCrash _ | IMSealCrash _ _ _ => [IPower]
  | IMRotate | IMSeal => []
  | IMRestart => [IRestart]
  | IMRestartCrash _ _ _ => [IRestartCrash]
  | IMStartIntr k => [IStartIntr k]
  end.

(* what an interrupted start-up may do to the files of one fraction ("changes no file", up to what the crash
   model allows anyway): nothing; or the clean-up every start-up performs - cut .meta/.docs back, but never
   below the complete blocks (fc_cm / fc_cd); remove the .meta/.docs left next to a complete sealed form;
   create a missing .docs next to a .meta; remove a fraction whose .meta holds no complete block *)
Definition nthb (l : list bool) (i : nat) : bool := nth i l false.
Definition fchg_ok (c : fchg) : bool :=
  let bm := nthb (fc_b c) 0 in let bd := nthb (fc_b c) 1 in let bs := nthb (fc_b c) 2 in let bi := nthb (fc_b c) 3 in
  let am := nthb (fc_a c) 0 in let ad := nthb (fc_a c) 1 in let as_ := nthb (fc_a c) 2 in let ai := nthb (fc_a c) 3 in
  if list_eqb Bool.eqb (fc_b c) (fc_a c) && Nat.eqb (fc_am c) (fc_bm c) && Nat.eqb (fc_ad c) (fc_bd c) && fc_prefix c
  then true      (* nothing changed *)
  else if negb (am || ad || as_ || ai)
  then (* everything is gone: only a fraction that held nothing *)
       negb (bm || bd || bs || bi) || (Nat.eqb (fc_cm c) 0 && negb (bs && bi))
  else
    fc_prefix c && Bool.eqb as_ bs && Bool.eqb ai bi &&
    (if bm then (am && (fc_cm c <=? fc_am c) && (fc_am c <=? fc_bm c)) || (negb am && bs && bi) else negb am) &&
    (if bd then (ad && (fc_cd c <=? fc_ad c) && (fc_ad c <=? fc_bd c)) || (negb ad && bs && bi)
     else negb ad || (bm && Nat.eqb (fc_ad c) 0)).

Definition to_iobs (o : imobs) : iobs :=
  match o with
  | IMDied => IDied
  | IMUp fs ss _ => IUp fs ss
  | IMIntr fl => IIntr (forallb fchg_ok fl) 0 0
  end.

Fixpoint nodupb (l : list nat) : bool :=
  match l with [] => true | x :: r => negb (memn x r) && nodupb r end.

(* ... and: no fraction is served twice, exactly one fraction is writable, and it is not a sealed one *)
Definition fracs_ok (fr : list (nat * (bool * bool))) : bool :=
  nodupb (map fst fr) &&
  Nat.eqb (length (filter (fun x => snd (snd x)) fr)) 1 &&
  forallb (fun x => negb (fst (snd x) && snd (snd x))) fr.

Definition cmulti_spec_ok (bs : list bulk) (h : list imhop) (obs : list imobs) : bool :=
  spec_walk bs (flat_map spec_hop h) (map to_iobs obs) (Track false [] [] [] []) &&
  forallb (fun o => match o with IMUp _ _ fr => fracs_ok fr | _ => true end) obs.

Definition case_agrees (c : case) : bool :=
  match c with
  | CHist _ _ _ _ _ => chist_agrees c
  | CMulti bs h obs ops => cmulti_agrees bs h obs ops
  end.

Definition case_spec_ok (c : case) : bool :=
  match c with
  | CHist _ _ _ _ _ => chist_spec_ok c
  | CMulti bs h obs ops => cmulti_spec_ok bs h obs
  end.

Definition diff_indices (l : list case) : list nat := bad_indices (fun c => negb (case_agrees c)) l.
Definition specfail_indices (l : list case) : list nat := bad_indices (fun c => negb (case_spec_ok c)) l.
