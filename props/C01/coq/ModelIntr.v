(* C01 — executable model of an INTERRUPTED start-up: the context handed to FracManager.Load
   (cmd/seq-db: signal.NotifyContext(SIGINT, SIGTERM) -> storeapi.NewStore -> FracManager.Load ->
   loader.load -> Active.Replay) is cancelled while the store is still starting.
   NO proofs in this file.

   Mirrors:
     frac/active.go  Replay: the loop polls ctx.Done() ONCE PER ITERATION, before it reads the next meta
                     block (so a fraction with n complete meta blocks polls n+1 times; the last poll
                     precedes the read that reports EOF / the torn tail); a cancelled poll is
                     `return ctx.Err()` - at once: no wg.Wait, no dropUnreplayedTail   -> replay_loop_ctx
     fracmanager/loader.go load: loop 1 (classification, removal of a sealed fraction's leftover
                     .meta/.docs, NewActive of every unsealed one) never looks at the context; loop 2
                     replays the active fractions in name order and returns the first error: the
                     fractions before the interrupted one have been replayed, truncated and (if they
                     hold nothing) removed, the interrupted one and all later ones are untouched   -> intr_walk
     fracmanager/fracmanager.go Load: on an error of loader.load nothing else happens (no sealing, no
                     rotation); the store is not up   -> startup_ctx / mxstep0
   The context is the only thing that is new: `polls` = the number of polls that still see a live
   context (the (polls+1)-th and all later polls see it cancelled). A start-up that polls at most
   `polls` times never notices the cancellation and completes as an ordinary start-up (in particular a
   start-up without any unsealed fraction never polls).

   The seeded variant (round-5 seeds C01-m10 / C15-m9: `break out` instead of `return ctx.Err()`, the
   error returned only after dropUnreplayedTail) is kept as restart_ctx true / xstep_t1 for the
   refutation example. *)
From Coq Require Import List Bool Arith NArith Lia.
From C01 Require Import Model ModelMulti.
Import ListNotations.
Open Scope nat_scope.

(* how a replay under a context ends *)
Inductive rp :=
| RpDone (mpos dpos : nat) (ix : list ientry)      (* EOF / torn tail reached: as replay_loop *)
| RpCancelled (mpos dpos : nat) (nblk : nat).      (* ctx.Done() seen after nblk blocks were handed to the
                                                      index workers; positions behind the last of them *)

Inductive started :=
| StUp (d : disk) (p : proc) (ops : list fop)      (* the start-up completed *)
| StCancelled (d : disk).                          (* Load returned ctx.Err(); the files it leaves *)

Section WithCodec.
  Variable dec_m : list N -> option (list dmeta).
  Variable dec_d : list N -> option (list N).

  (* Active.Replay under a context *)
  Fixpoint replay_loop_ctx (fuel polls : nat) (mf : file) (mpos dpos : nat) (acc : list ientry) : res rp :=
    match fuel with
    | 0 => OutOfFuel
    | S fuel' =>
        match polls with
        | 0 => Ok (RpCancelled mpos dpos (length acc))          (* case <-ctx.Done(): return ctx.Err() *)
        | S polls' =>
            match read_doc_block mf mpos with
            | RdEOF => Ok (RpDone mpos dpos (rev acc))
            | RdOk blk =>
                match dec_m (payload blk) with
                | None => Panic
                | Some ms =>
                    replay_loop_ctx fuel' polls' mf (mpos + length blk) (dpos + N.to_nat (hdr_ext1 blk))
                                    ((dpos, ms) :: acc)
                end
            end
        end
    end.

  Definition replay_ctx (polls : nat) (mf : file) := replay_loop_ctx (S (length mf)) polls mf 0 0 [].

  (* the rest of a completed start-up (Model.restart after its replay) *)
  Definition finish_start (d : disk) (mpos dpos : nat) (ix : list ientry) : started :=
    let m' := if mpos <? length (meta d) then firstn mpos (meta d) else meta d in
    let d' := if dpos <? length (docs d) then firstn dpos (docs d) else docs d in
    let ops := trunc_ops d mpos dpos in
    if idx_docs_total ix =? 0
    then StUp (Disk [] []) (Proc 0 0 []) ops
    else StUp (Disk d' m') (Proc (length d') (length m') ix) ops.

  (* single fraction: NewActive + Replay(ctx) + ...
     seeded = false: the code as it is - a cancelled replay returns at once, the files are not touched;
     seeded = true : the seeded change - the tail clean-up runs with the positions of the PARTIAL replay
                     before the error is returned *)
  Definition restart_ctx (seeded : bool) (polls : nat) (d : disk) : res started :=
    match replay_ctx polls (meta d) with
    | Ok (RpDone mpos dpos ix) => Ok (finish_start d mpos dpos ix)
    | Ok (RpCancelled mpos dpos _) =>
        if seeded
        then Ok (StCancelled (Disk (if dpos <? length (docs d) then firstn dpos (docs d) else docs d)
                                   (if mpos <? length (meta d) then firstn mpos (meta d) else meta d)))
        else Ok (StCancelled d)
    | Panic => Panic
    | OutOfFuel => OutOfFuel
    end.

  (* ---------- single-fraction histories with interrupted start-ups ---------- *)

  Inductive xhop :=
  | XOp (o : hop)
  | XStartIntr (polls : nat).     (* (kill and) start the store with a context that is cancelled after `polls` polls *)

  Definition xstep_gen (seeded : bool) (s : st) (o : xhop) : res st :=
    match o with
    | XOp o => step dec_m s o
    | XStartIntr k =>
        match restart_ctx seeded k (s_disk s) with
        | Ok (StUp d' p' ops) => Ok (St d' (Some p') (s_acked s) (s_tried s) (rev ops ++ s_ops s))
        | Ok (StCancelled d') => Ok (St d' None (s_acked s) (s_tried s) (s_ops s))
        | Panic => Panic
        | OutOfFuel => OutOfFuel
        end
    end.

  Definition xstep := xstep_gen false.
  Definition xstep_t1 := xstep_gen true.

  Fixpoint xrun_gen (seeded : bool) (s : st) (h : list xhop) : res st :=
    match h with
    | [] => Ok s
    | o :: r => match xstep_gen seeded s o with
                | Ok s' => xrun_gen seeded s' r
                | Panic => Panic | OutOfFuel => OutOfFuel
                end
    end.
  Definition xrun_from := xrun_gen false.
  Definition xrun (h : list xhop) := xrun_from st0 h.
  Definition xrun_t1 (h : list xhop) := xrun_gen true st0 h.

  Definition xhop_bulk (o : xhop) : list bulk := match o with XOp o => hop_bulk o | XStartIntr _ => [] end.
  Definition xhist_bulks (h : list xhop) : list bulk := flat_map xhop_bulk h.
  Definition wf_xhist (h : list xhop) : Prop :=
    Forall (wf_bulk dec_m dec_d) (xhist_bulks h) /\ ids_functional (xhist_bulks h).

  (* ---------- the loader under a context ---------- *)

  (* Some n: loader.load replays this fraction (loop 2), its .meta holds n complete blocks *)
  Definition frac_blocks (fd : fdir) : option nat :=
    match classify fd with
    | CActive =>
        match fdisk (lrun (phase1_ops fd) fd) with
        | Some d => match replay dec_m (meta d) with Ok (_, _, ix) => Some (length ix) | _ => None end
        | None => None
        end
    | _ => None
    end.

  (* loop 2 of loader.load. budget = Some k: k more polls see a live context; None: the cancellation has
     been seen, load has returned. Result: per fraction the number of operations of its own plan
     (p1 ++ p2 ++ p3) that were executed - loop 1 (p1) ran for every fraction before loop 2 started; p2
     (truncations, removal of a fraction that holds nothing) only for the fractions whose replay
     completed; p3 (sealing) never - and the budget left. *)
  Fixpoint intr_walk (dirs : nat -> fdir) (pls : list (nat * fplan)) (budget : option nat)
    : list (nat * nat) * option nat :=
    match pls with
    | [] => ([], budget)
    | (i, pl) :: r =>
        match frac_blocks (dirs i), budget with
        | Some n, Some k =>
            if k <=? n
            then ((i, length (p1 pl)) :: fst (intr_walk dirs r None), None)   (* cancelled after k of its n blocks *)
            else let '(l, b) := intr_walk dirs r (Some (k - S n)) in ((i, length (p1 pl) + length (p2 pl)) :: l, b)
        | Some n, None => ((i, length (p1 pl)) :: fst (intr_walk dirs r None), None)
        | None, _ => let '(l, b) := intr_walk dirs r budget in ((i, length (p1 pl) + length (p2 pl)) :: l, b)
        end
    end.

  Definition cut_at (cuts : list (nat * nat)) (i : nat) : nat :=
    match find (fun c => Nat.eqb (fst c) i) cuts with Some c => snd c | None => 0 end.

  (* FracManager.Load under a context. Ok None: nobody saw the cancellation, the start-up completes
     (= startup); Ok (Some dirs'): Load returned the error, the directory it leaves. *)
  Definition startup_ctx (dirs : nat -> fdir) (next polls : nat) : res (option (nat -> fdir)) :=
    match plans_of dec_m dec_d dirs next (seq 0 next) with
    | Ok pls =>
        match intr_walk dirs pls (Some polls) with
        | (_, Some _) => Ok None
        | (cuts, None) =>
            Ok (Some (fun i => if i <? next
                               then match find (fun x => Nat.eqb (fst x) i) pls with
                                    | Some x => lrun (firstn (cut_at cuts i) (fplan_prog (snd x))) (dirs i)
                                    | None => dirs i
                                    end
                               else dirs i))
        end
    | Panic => Panic
    | OutOfFuel => OutOfFuel
    end.

  (* ---------- multi-fraction histories with interrupted start-ups ---------- *)

  Inductive mxhop :=
  | MXOp (o : mhop)
  | MXStartIntr (polls : nat).

  Definition mxstep0 (s : mst) (o : mxhop) : res mst :=
    match o with
    | MXOp o => mstep0 dec_m dec_d s o
    | MXStartIntr k =>
        match startup_ctx (ms_dirs s) (ms_next s) k with
        | Ok None => mstep0 dec_m dec_d s MRestart
        | Ok (Some dirs') => Ok (mdown s dirs' (ms_next s) (ms_tried s))
        | Panic => Panic
        | OutOfFuel => OutOfFuel
        end
    end.

  Definition mxstep (s : mst) (o : mxhop) : res mst :=
    match mxstep0 s o with
    | Ok s' => Ok (mfreeze s')
    | Panic => Panic
    | OutOfFuel => OutOfFuel
    end.

  Fixpoint mxrun_from (s : mst) (h : list mxhop) : res mst :=
    match h with
    | [] => Ok s
    | o :: r => match mxstep s o with
                | Ok s' => mxrun_from s' r
                | Panic => Panic | OutOfFuel => OutOfFuel
                end
    end.
  Definition mxrun (h : list mxhop) := mxrun_from mst0 h.

  Definition mxhop_bulk (o : mxhop) : list bulk := match o with MXOp o => mhop_bulk o | MXStartIntr _ => [] end.
  Definition mxhist_bulks (h : list mxhop) : list bulk := flat_map mxhop_bulk h.
  Definition wf_mxhist (h : list mxhop) : Prop :=
    Forall (wf_bulk dec_m dec_d) (mxhist_bulks h) /\ ids_functional (mxhist_bulks h).

End WithCodec.
