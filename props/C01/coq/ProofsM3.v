(* C01 multi-fraction — lemmas, part 3: list plumbing, the invariant of multi-fraction histories,
   and the start-up over several fractions. *)
From Coq Require Import List Bool Arith NArith Lia.
From C01 Require Import Model Proofs Proofs2 Proofs3 Proofs4 Proofs5 Proofs6 ModelMulti ProofsM1 ProofsM2.
Import ListNotations.
Open Scope nat_scope.

(* ---------- lists of served fractions ---------- *)

Lemma lookup_in : forall l i r, NoDup (map fst l) -> In (i, r) l -> lookup_r i l = Some r.
Proof.
  induction l as [| [j q] l IH]; intros i r Hn Hin; [inversion Hin |].
  cbn [map fst] in Hn. inversion Hn as [| ? ? Hnot Hn']; subst. cbn [lookup_r].
  destruct Hin as [E | Hin].
  - inversion E; subst. rewrite Nat.eqb_refl. reflexivity.
  - destruct (Nat.eqb j i) eqn:E; [| apply IH; auto].
    apply Nat.eqb_eq in E. subst. exfalso. apply Hnot. apply in_map_iff. exists (i, r). auto.
Qed.

Lemma replace_fst : forall l i v, map fst (replace_r i v l) = map fst l.
Proof.
  induction l as [| [j q] l IH]; intros i v; [reflexivity |].
  cbn [replace_r]. destruct (Nat.eqb j i); cbn [map fst]; [| rewrite IH]; reflexivity.
Qed.

Lemma replace_in : forall l i v j r, NoDup (map fst l) -> (exists r0, In (i, r0) l) ->
  (In (j, r) (replace_r i v l) <-> (j = i /\ r = v) \/ (j <> i /\ In (j, r) l)).
Proof.
  induction l as [| [k q] l IH]; intros i v j r Hn (r0 & H0); [inversion H0 |].
  cbn [map fst] in Hn. inversion Hn as [| ? ? Hnot Hn']; subst. cbn [replace_r].
  destruct (Nat.eqb k i) eqn:E.
  - apply Nat.eqb_eq in E. subst k. split.
    + intros [H | H].
      * inversion H; subst. left; auto.
      * right. split; [| right; auto]. intro; subst. apply Hnot. apply in_map_iff. exists (i, r). auto.
    + intros [(-> & ->) | (Hne & [H | H])].
      * left; reflexivity.
      * inversion H; subst. contradiction.
      * right; auto.
  - apply Nat.eqb_neq in E.
    destruct H0 as [H0 | H0]; [inversion H0; subst; contradiction |].
    specialize (IH i v j r Hn' (ex_intro _ r0 H0)). split.
    + intros [H | H].
      * inversion H; subst. right. split; [auto | left; auto].
      * apply IH in H. destruct H as [H | (Hne & H)]; [left; auto | right; split; [auto | right; auto]].
    + intros [H | (Hne & [H | H])].
      * right. apply IH. left; auto.
      * left; auto.
      * right. apply IH. right; auto.
Qed.

Lemma pending_some : forall l a i p, pending a l = Some (i, p) -> In (i, RActive p) l /\ i <> a.
Proof.
  induction l as [| [j q] l IH]; intros a i p H; [discriminate |].
  cbn [pending] in H. destruct q as [ix sd | p0].
  - destruct (IH a i p H). split; [right |]; auto.
  - destruct (Nat.eqb j a) eqn:E.
    + destruct (IH a i p H). split; [right |]; auto.
    + inversion H; subst. apply Nat.eqb_neq in E. split; [left |]; auto.
Qed.

Definition allb (fb : nat -> list bulk) (n : nat) : list bulk := flat_map fb (seq 0 n).

Lemma in_allb : forall fb n x, In x (allb fb n) <-> exists i, i < n /\ In x (fb i).
Proof.
  intros. unfold allb. rewrite in_flat_map. split.
  - intros (i & Hi & Hx). apply in_seq in Hi. exists i. split; [lia | auto].
  - intros (i & Hi & Hx). exists i. split; [apply in_seq; lia | auto].
Qed.

Lemma nodup_app2 : forall (l1 l2 : list nat), NoDup l1 -> NoDup l2 -> (forall x, In x l1 -> ~ In x l2) ->
  NoDup (l1 ++ l2).
Proof.
  induction l1 as [| a l1 IH]; intros l2 H1 H2 Hd; [exact H2 |].
  inversion H1; subst. cbn. constructor.
  - intro Hin. apply in_app_or in Hin. destruct Hin; [contradiction | eapply Hd; [left; reflexivity | eauto]].
  - apply IH; auto. intros x Hx. apply Hd. right; auto.
Qed.

Lemma upd_same : forall A (f : nat -> A) i v, upd f i v i = v.
Proof. intros. unfold upd. rewrite Nat.eqb_refl. reflexivity. Qed.
Lemma upd_other : forall A (f : nat -> A) i v j, j <> i -> upd f i v j = f j.
Proof. intros. unfold upd. destruct (Nat.eqb j i) eqn:E; [apply Nat.eqb_eq in E; contradiction | reflexivity]. Qed.

Section WithCodec.
  Variable dec_m : list N -> option (list dmeta).
  Variable dec_d : list N -> option (list N).
  Notation wf_bulk := (wf_bulk dec_m dec_d).

  (* all bulks that ever occur: well formed, equal IDs carry equal documents *)
  Variable HB : list bulk.
  Hypothesis HBwf : Forall wf_bulk HB.
  Hypothesis HBfun : ids_functional HB.

  Lemma sub_wf : forall bs, incl bs HB -> Forall wf_bulk bs.
  Proof. intros bs Hi. rewrite Forall_forall in *. auto. Qed.
  Lemma sub_fun : forall bs, incl bs HB -> ids_functional bs.
  Proof.
    intros bs Hi b1 b2 d1 d2 H1 H2 H3 H4 H5. exact (HBfun b1 b2 d1 d2 (Hi _ H1) (Hi _ H2) H3 H4 H5).
  Qed.

  Record PInv (dirs : nat -> fdir) (next : nat) (mp : mproc) (fb : nat -> list bulk) : Prop := {
    pi_nodup : NoDup (map fst (mp_fracs mp));
    pi_served : forall i r, In (i, r) (mp_fracs mp) -> i < next /\ Served (dirs i) r (fb i);
    pi_active : exists p, In (mp_active mp, RActive p) (mp_fracs mp);
    pi_all : forall i, fb i <> [] -> exists r, In (i, r) (mp_fracs mp);
    pi_pending : forall i p, In (i, RActive p) (mp_fracs mp) -> i <> mp_active mp -> fb i <> [] }.

  (* fb i = the durable bulks of fraction i *)
  Definition MInv (s : mst) (fb : nat -> list bulk) : Prop :=
    (forall i, incl (fb i) HB) /\
    (forall i, ms_next s <= i -> ms_dirs s i = no_fd /\ fb i = []) /\
    (forall i, FInv (ms_dirs s i) (fb i)) /\
    incl (ms_acked s) (allb fb (ms_next s)) /\
    incl (allb fb (ms_next s)) (ms_acked s ++ ms_tried s) /\
    match ms_proc s with None => True | Some mp => PInv (ms_dirs s) (ms_next s) mp fb end.

  Lemma minv0 : MInv mst0 (fun _ => []).
  Proof.
    unfold MInv, mst0; cbn. repeat split; auto using incl_nil_l.
    intro. apply FI_skip; reflexivity.
  Qed.

  (* ---------- the start-up over all fractions ---------- *)

  Definition plan_ok (dirs : nat -> fdir) (next : nat) (i : nat) (x : nat * fplan) : Prop :=
    fst x = i /\ fplan_of dec_m dec_d (dirs i) (seal_flag dec_m dirs next i) = Ok (snd x).

  Lemma plans_ok : forall dirs next fb,
    (forall i, incl (fb i) HB) -> (forall i, FInv (dirs i) (fb i)) ->
    forall is, exists pls, plans_of dec_m dec_d dirs next is = Ok pls /\ Forall2 (plan_ok dirs next) is pls.
  Proof.
    intros dirs next fb Hin HI. induction is as [| i r (pls & Hp & Hf)].
    - exists []. split; [reflexivity | constructor].
    - destruct (fplan_char dec_m dec_d (dirs i) (fb i) (seal_flag dec_m dirs next i) (HI i)
                  (sub_wf _ (Hin i)) (sub_fun _ (Hin i))) as (pl & Hpl & _).
      exists ((i, pl) :: pls). cbn [plans_of]. rewrite Hpl, Hp. split; [reflexivity |].
      constructor; [split; auto | exact Hf].
  Qed.

  Lemma forall2_in_r : forall dirs next is pls x, Forall2 (plan_ok dirs next) is pls -> In x pls ->
    In (fst x) is /\ fplan_of dec_m dec_d (dirs (fst x)) (seal_flag dec_m dirs next (fst x)) = Ok (snd x).
  Proof.
    intros dirs next is pls x H. induction H as [| i y is pls (Hy1 & Hy2) _ IH]; intros Hin; [inversion Hin |].
    destruct Hin as [<- | Hin].
    - rewrite Hy1. split; [left; reflexivity | exact Hy2].
    - destruct (IH Hin). split; [right |]; auto.
  Qed.

  Lemma forall2_fst : forall dirs next is pls, Forall2 (plan_ok dirs next) is pls -> map fst pls = is.
  Proof. intros dirs next is pls H. induction H as [| i y is pls (Hy1 & _) _ IH]; cbn; [| rewrite Hy1, IH]; auto. Qed.

  Lemma forall2_find : forall dirs next is pls i, Forall2 (plan_ok dirs next) is pls -> In i is ->
    exists pl, find (fun x => Nat.eqb (fst x) i) pls = Some (i, pl) /\ In (i, pl) pls.
  Proof.
    intros dirs next is pls i H. induction H as [| j y is pls (Hy1 & Hy2) _ IH]; intros Hin; [inversion Hin |].
    cbn [find]. destruct (Nat.eqb (fst y) i) eqn:E.
    - apply Nat.eqb_eq in E. destruct y as [k pl]. cbn in E. subst k. exists pl. split; [reflexivity | left; reflexivity].
    - apply Nat.eqb_neq in E. destruct Hin as [-> | Hin]; [contradiction |].
      destruct (IH Hin) as (pl & Hf & Hi). exists pl. split; [exact Hf | right; exact Hi].
  Qed.

  Lemma pls_functional : forall (pls : list (nat * fplan)) i a b,
    NoDup (map fst pls) -> In (i, a) pls -> In (i, b) pls -> a = b.
  Proof.
    induction pls as [| [k q] l IH]; intros i a b Hn Ha Hb; [inversion Ha |].
    cbn [map fst] in Hn. inversion Hn as [| ? ? Hnot Hn']; subst.
    destruct Ha as [Ea | Ha]; destruct Hb as [Eb | Hb].
    - congruence.
    - inversion Ea; subst. exfalso. apply Hnot. apply in_map_iff. exists (i, b). auto.
    - inversion Eb; subst. exfalso. apply Hnot. apply in_map_iff. exists (i, a). auto.
    - eapply IH; eauto.
  Qed.

  (* a per-fraction list of at most one entry, keyed by the fraction *)
  Definition keyed (f : nat * fplan -> list (nat * rfrac)) : Prop :=
    forall x, f x = [] \/ exists r, f x = [(fst x, r)].

  Lemma keyed_incl : forall f pls i, keyed f -> In i (map fst (flat_map f pls)) -> In i (map fst pls).
  Proof.
    intros f pls i Hk Hin. apply in_map_iff in Hin. destruct Hin as ([j r] & <- & Hin).
    apply in_flat_map in Hin. destruct Hin as (x & Hx & Hin).
    destruct (Hk x) as [E | (r' & E)]; rewrite E in Hin; [inversion Hin |].
    destruct Hin as [Hin | []]. inversion Hin; subst. cbn. apply in_map. exact Hx.
  Qed.

  Lemma keyed_nodup : forall f pls, keyed f -> NoDup (map fst pls) -> NoDup (map fst (flat_map f pls)).
  Proof.
    intros f pls Hk. induction pls as [| x l IH]; intros Hn; [constructor |].
    cbn [map fst] in Hn. inversion Hn as [| ? ? Hnot Hn']; subst. cbn [flat_map].
    destruct (Hk x) as [E | (r & E)]; rewrite E; cbn [app map fst]; [auto |].
    constructor; [| auto]. intro Hin. apply Hnot. eapply keyed_incl; eauto.
  Qed.

  Lemma keyed_sealed1 : keyed (fun x => fs_sealed1 (fst x) (snd x)).
  Proof. intros [i pl]. unfold fs_sealed1. cbn. destruct (fs pl); eauto. Qed.
  Lemma keyed_active : keyed (fun x => fs_active (fst x) (snd x)).
  Proof. intros [i pl]. unfold fs_active. cbn. destruct (fs pl); eauto. Qed.

  Lemma in_sealed1 : forall pls i r, In (i, r) (flat_map (fun x => fs_sealed1 (fst x) (snd x)) pls) <->
    exists pl, In (i, pl) pls /\ fs pl = FsSealed1 r.
  Proof.
    intros. rewrite in_flat_map. split.
    - intros ([j pl] & Hx & Hin). unfold fs_sealed1 in Hin. cbn in Hin.
      destruct (fs pl) eqn:E; try (inversion Hin; fail). destruct Hin as [Hin | []]. inversion Hin; subst. eauto.
    - intros (pl & Hx & E). exists (i, pl). split; auto. unfold fs_sealed1. cbn. rewrite E. left; reflexivity.
  Qed.
  Lemma in_active : forall pls i r, In (i, r) (flat_map (fun x => fs_active (fst x) (snd x)) pls) <->
    exists pl, In (i, pl) pls /\ fs pl = FsActive r.
  Proof.
    intros. rewrite in_flat_map. split.
    - intros ([j pl] & Hx & Hin). unfold fs_active in Hin. cbn in Hin.
      destruct (fs pl) eqn:E; try (inversion Hin; fail). destruct Hin as [Hin | []]. inversion Hin; subst. eauto.
    - intros (pl & Hx & E). exists (i, pl). split; auto. unfold fs_active. cbn. rewrite E. left; reflexivity.
  Qed.

  (* what the plans give, fraction by fraction *)
  Lemma plan_facts : forall dirs next fb i pl,
    (forall i, incl (fb i) HB) -> (forall i, FInv (dirs i) (fb i)) ->
    fplan_of dec_m dec_d (dirs i) (seal_flag dec_m dirs next i) = Ok pl ->
    Safe (dirs i) (fplan_prog pl) (fb i) /\
    match fs pl with
    | FsNone => fb i = []
    | FsSealed1 r => Served (lrun (fplan_prog pl) (dirs i)) r (fb i) /\ is_ra r = false
    | FsActive r => Served (lrun (fplan_prog pl) (dirs i)) r (fb i) /\ fb i <> []
    end.
  Proof.
    intros dirs next fb i pl Hin HI Hpl.
    destruct (fplan_char dec_m dec_d (dirs i) (fb i) (seal_flag dec_m dirs next i) (HI i)
                (sub_wf _ (Hin i)) (sub_fun _ (Hin i))) as (pl' & Hpl' & Hs & Hf).
    rewrite Hpl in Hpl'. inversion Hpl'; subst pl'. split; [exact Hs |].
    destruct (fs pl); intuition.
  Qed.

  Lemma find_some_in : forall A (f : A -> bool) l x, find f l = Some x -> In x l /\ f x = true.
  Proof. intros. apply find_some. auto. Qed.

  (* the start-up on any crashed (or running) state *)
  Lemma startup_ok : forall dirs next fb,
    (forall i, incl (fb i) HB) -> (forall i, next <= i -> dirs i = no_fd /\ fb i = []) ->
    (forall i, FInv (dirs i) (fb i)) ->
    exists ops dirs' next' mp,
      startup dec_m dec_d dirs next = Ok (ops, dirs', next', mp) /\
      next <= next' /\
      (forall i, next' <= i -> dirs' i = no_fd /\ fb i = []) /\
      (forall i, FInv (dirs' i) (fb i)) /\
      PInv dirs' next' mp fb.
  Proof.
    intros dirs next fb Hin Hbey HI.
    destruct (plans_ok dirs next fb Hin HI (seq 0 next)) as (pls & Hp & Hf).
    pose proof (forall2_fst _ _ _ _ Hf) as Hfst.
    assert (Hnd : NoDup (map fst pls)) by (rewrite Hfst; apply seq_NoDup).
    unfold startup. rewrite Hp.
    set (dirs1 := fun i => if i <? next
                           then match find (fun x => Nat.eqb (fst x) i) pls with
                                | Some x => lrun (fplan_prog (snd x)) (dirs i)
                                | None => dirs i
                                end
                           else dirs i).
    set (sealed1 := flat_map (fun x => fs_sealed1 (fst x) (snd x)) pls).
    set (actives := flat_map (fun x => fs_active (fst x) (snd x)) pls).
    (* facts about dirs1 *)
    assert (D1 : forall i pl, In (i, pl) pls -> dirs1 i = lrun (fplan_prog pl) (dirs i) /\ i < next).
    { intros i pl Hi. pose proof (forall2_in_r _ _ _ _ _ Hf Hi) as (Hs & _). cbn in Hs. apply in_seq in Hs.
      unfold dirs1. replace (i <? next) with true by (symmetry; apply Nat.ltb_lt; lia).
      destruct (forall2_find _ _ _ _ i Hf ltac:(apply in_seq; lia)) as (pl' & Hfind & Hi').
      rewrite Hfind. cbn. rewrite (pls_functional pls i pl pl' Hnd Hi Hi'). split; [reflexivity | lia]. }
    assert (D2 : forall i, next <= i -> dirs1 i = dirs i).
    { intros i Hi. unfold dirs1. replace (i <? next) with false by (symmetry; apply Nat.ltb_ge; lia). reflexivity. }
    assert (F1 : forall i, FInv (dirs1 i) (fb i)).
    { intros i. destruct (Nat.lt_ge_cases i next) as [Hlt | Hge].
      - destruct (forall2_find _ _ _ _ i Hf ltac:(apply in_seq; lia)) as (pl & _ & Hi).
        destruct (D1 i pl Hi) as (-> & _).
        pose proof (forall2_in_r _ _ _ _ _ Hf Hi) as (_ & Hpl). cbn in Hpl.
        destruct (plan_facts dirs next fb i pl Hin HI Hpl) as (Hs & _). apply safe_final. exact Hs.
      - rewrite D2 by auto. apply HI. }
    (* the served list *)
    assert (NS : NoDup (map fst (sealed1 ++ actives))).
    { rewrite map_app. apply nodup_app2.
      - apply keyed_nodup; [apply keyed_sealed1 | exact Hnd].
      - apply keyed_nodup; [apply keyed_active | exact Hnd].
      - intros i H1 H2. apply in_map_iff in H1. destruct H1 as ([i1 r1] & E1 & H1). cbn in E1. subst i1.
        apply in_map_iff in H2. destruct H2 as ([i2 r2] & E2 & H2). cbn in E2. subst i2.
        apply in_sealed1 in H1. destruct H1 as (pl1 & P1 & Q1).
        apply in_active in H2. destruct H2 as (pl2 & P2 & Q2).
        rewrite (pls_functional pls i pl1 pl2 Hnd P1 P2) in Q1. congruence. }
    assert (SV : forall i r, In (i, r) (sealed1 ++ actives) ->
              i < next /\ Served (dirs1 i) r (fb i) /\ (is_ra r = true -> fb i <> [])).
    { intros i r Hi. apply in_app_or in Hi. destruct Hi as [Hi | Hi].
      - apply in_sealed1 in Hi. destruct Hi as (pl & P & Q).
        destruct (D1 i pl P) as (-> & Hlt).
        pose proof (forall2_in_r _ _ _ _ _ Hf P) as (_ & Hpl). cbn in Hpl.
        destruct (plan_facts dirs next fb i pl Hin HI Hpl) as (_ & Hx). rewrite Q in Hx.
        destruct Hx as (Hsv & Hra). split; [auto | split; [auto |]]. rewrite Hra. discriminate.
      - apply in_active in Hi. destruct Hi as (pl & P & Q).
        destruct (D1 i pl P) as (-> & Hlt).
        pose proof (forall2_in_r _ _ _ _ _ Hf P) as (_ & Hpl). cbn in Hpl.
        destruct (plan_facts dirs next fb i pl Hin HI Hpl) as (_ & Hx). rewrite Q in Hx.
        destruct Hx as (Hsv & Hne). auto. }
    assert (ALL : forall i, fb i <> [] -> exists r, In (i, r) (sealed1 ++ actives)).
    { intros i Hne. destruct (Nat.lt_ge_cases i next) as [Hlt | Hge];
        [| destruct (Hbey i Hge) as (_ & E); contradiction].
      destruct (forall2_find _ _ _ _ i Hf ltac:(apply in_seq; lia)) as (pl & _ & Hi).
      pose proof (forall2_in_r _ _ _ _ _ Hf Hi) as (_ & Hpl). cbn in Hpl.
      destruct (plan_facts dirs next fb i pl Hin HI Hpl) as (_ & Hx).
      destruct (fs pl) as [| r | r] eqn:Q.
      - contradiction.
      - exists r. apply in_or_app. left. apply in_sealed1. eauto.
      - exists r. apply in_or_app. right. apply in_active. eauto. }
    destruct (find is_ractive actives) as [[a ra] |] eqn:Efind.
    - (* a replayed fraction stays the writable one *)
      apply find_some_in in Efind. destruct Efind as (Hina & Hra). unfold is_ractive in Hra. cbn in Hra.
      destruct ra as [? ? | pa]; [discriminate |].
      eexists _, _, _, _. split; [reflexivity |]. split; [lia |].
      split; [intros i Hi; rewrite D2 by auto; apply Hbey; auto |].
      split; [exact F1 |].
      constructor; cbn [mp_fracs mp_active].
      + exact NS.
      + intros i r Hi. destruct (SV i r Hi) as (A & B & _). auto.
      + exists pa. apply in_or_app. right. exact Hina.
      + exact ALL.
      + intros i p Hi _. destruct (SV i _ Hi) as (_ & _ & C). apply C. reflexivity.
    - (* nothing to write to: a fresh fraction *)
      eexists _, _, _, _. split; [reflexivity |]. split; [lia |].
      assert (Dn : dirs1 next = no_fd) by (rewrite D2 by lia; apply Hbey; lia).
      split.
      { intros i Hi. rewrite upd_other by lia. rewrite D2 by lia. apply Hbey. lia. }
      split.
      { intros i. destruct (Nat.eq_dec i next) as [-> | Hne].
        - rewrite upd_same. destruct (Hbey next (le_n _)) as (_ & ->).
          replace (lrun create_prog _) with (lrun create_prog no_fd);
            [apply (safe_final no_fd create_prog []); apply create_safe |].
          f_equal. symmetry. exact Dn.
        - rewrite upd_other by auto. apply F1. }
      assert (NR : forall i r, In (i, r) actives -> is_ra r = false).
      { intros i r Hi. pose proof (find_none _ _ Efind (i, r) Hi) as Hn. unfold is_ractive in Hn. cbn in Hn.
        destruct r; [reflexivity | discriminate]. }
      constructor; cbn [mp_fracs mp_active].
      + rewrite app_assoc, map_app. apply nodup_app2; [exact NS | cbn; constructor; [intros [] | constructor] |].
        intros i Hi Hx. destruct Hx as [Ex | []]. cbn in Ex.
        apply in_map_iff in Hi. destruct Hi as ([j r] & E & Hi). cbn in E. subst j.
        destruct (SV i r Hi) as (Hlt & _). lia.
      + intros i r Hi. rewrite app_assoc in Hi. apply in_app_or in Hi. destruct Hi as [Hi | [Hi | []]].
        * destruct (SV i r Hi) as (A & B & _). split; [lia |]. rewrite upd_other by lia. exact B.
        * assert (E1 : i = next) by (inversion Hi; auto).
          assert (E2 : r = RActive (Proc 0 0 [])) by (inversion Hi; auto).
          rewrite E1, E2. split; [lia |]. rewrite upd_same. destruct (Hbey next (le_n _)) as (_ & ->).
          replace (lrun create_prog _) with (lrun create_prog no_fd) by (f_equal; symmetry; exact Dn).
          cbn. repeat split; auto.
      + exists (Proc 0 0 []). apply in_or_app. right. apply in_or_app. right. left. reflexivity.
      + intros i Hne. destruct (ALL i Hne) as (r & Hr). exists r. rewrite app_assoc. apply in_or_app. left. exact Hr.
      + intros i p Hi Hne. rewrite app_assoc in Hi. apply in_app_or in Hi. destruct Hi as [Hi | [Hi | []]].
        * destruct (SV i _ Hi) as (_ & _ & C). apply C. reflexivity.
        * assert (E1 : i = next) by (inversion Hi; auto). contradiction.
  Qed.

  (* the start-up dies: every fraction at a prefix of its own operations *)
  Lemma startup_crash_ok : forall dirs next fb cut torn pl,
    (forall i, incl (fb i) HB) -> (forall i, next <= i -> dirs i = no_fd /\ fb i = []) ->
    (forall i, FInv (dirs i) (fb i)) ->
    exists dirs' next',
      startup_crash dec_m dec_d dirs next cut torn pl = Ok (dirs', next') /\
      next <= next' /\
      (forall i, next' <= i -> dirs' i = no_fd /\ fb i = []) /\
      (forall i, FInv (dirs' i) (fb i)).
  Proof.
    intros dirs next fb cut torn pl Hin Hbey HI.
    destruct (plans_ok dirs next fb Hin HI (seq 0 next)) as (pls & Hp & Hf).
    pose proof (forall2_fst _ _ _ _ Hf) as Hfst.
    assert (Hnd : NoDup (map fst pls)) by (rewrite Hfst; apply seq_NoDup).
    unfold startup_crash. rewrite Hp.
    set (dirs1 := fun i => if i <? next
                           then match find (fun x => Nat.eqb (fst x) i) pls with
                                | Some x => lcrash (dirs i) (fplan_prog (snd x)) (nth i cut 0) torn pl
                                | None => dirs i
                                end
                           else dirs i).
    assert (D2 : forall i, next <= i -> dirs1 i = dirs i).
    { intros i Hi. unfold dirs1. replace (i <? next) with false by (symmetry; apply Nat.ltb_ge; lia). reflexivity. }
    assert (F1 : forall i, FInv (dirs1 i) (fb i)).
    { intros i. destruct (Nat.lt_ge_cases i next) as [Hlt | Hge].
      - destruct (forall2_find _ _ _ _ i Hf ltac:(apply in_seq; lia)) as (pl0 & Hfind & Hi).
        unfold dirs1. replace (i <? next) with true by (symmetry; apply Nat.ltb_lt; lia). rewrite Hfind. cbn [snd].
        pose proof (forall2_in_r _ _ _ _ _ Hf Hi) as (_ & Hpl). cbn in Hpl.
        destruct (plan_facts dirs next fb i pl0 Hin HI Hpl) as (Hs & _). apply Hs.
      - rewrite D2 by auto. apply HI. }
    destruct (find is_ractive (flat_map (fun x => fs_active (fst x) (snd x)) pls)).
    - eexists _, _. split; [reflexivity |]. split; [lia |].
      split; [intros i Hi; rewrite D2 by auto; apply Hbey; auto | exact F1].
    - eexists _, _. split; [reflexivity |]. split; [lia |].
      assert (Dn : dirs1 next = no_fd) by (rewrite D2 by lia; apply Hbey; lia).
      split.
      { intros i Hi. rewrite upd_other by lia. rewrite D2 by lia. apply Hbey. lia. }
      intros i. destruct (Nat.eq_dec i next) as [-> | Hne].
      + rewrite upd_same. destruct (Hbey next (le_n _)) as (_ & ->).
        replace (lcrash _ create_prog _ false false) with (lcrash no_fd create_prog (nth next cut 0) false false);
          [apply create_safe |].
        f_equal. symmetry. exact Dn.
      + rewrite upd_other by auto. apply F1.
  Qed.

End WithCodec.
