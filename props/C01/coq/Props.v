(* C01 — property theorems. Only statements, each closed by `exact <lemma>`, Print Assumptions
   beneath, and the non-vacuity / refutation examples.

   Reading aid.  `run dec_m h` executes a history h (acknowledged bulks, crashes inside a bulk at
   any operation boundary with a torn write of any length and power loss, idle power loss,
   crashes inside the start-up, starts) on the byte-level model of the docs/meta files;
   `dec_m`/`dec_d` are the (arbitrary) decompressors; `wf_hist` says that every bulk of h decodes
   to its own non-empty documents and that equal IDs carry equal documents; `acked_of h` /
   `tried_of h` are the bulks h acknowledges / interrupts; `fetch`/`search` read through the index
   rebuilt by the last start. Histories may contain writes that fail with an I/O
   error (HFault: the unit is rolled back, commits ce3aaa8/5db7f73) and crashes inside such a failed unit
   or its rollback (HFaultCrash). The write path before ce3aaa8 is kept as run_f0 with the two
   C01_fault_v0_refuted_* examples, the docs-first rollback order as fault_crash_v0 with
   C01_rollback_order_v0_refuted. *)
From Coq Require Import List NArith Arith.
From C01 Require Import Model Proofs Proofs2 Proofs4 Proofs6 Proofs7 CaseDefs Witness.
From C01 Require Import ModelMulti ProofsM4 ProofsM5 WitnessMulti.
From C01 Require Import ModelIntr ProofsX1 ProofsX2 WitnessIntr.
Import ListNotations.

(* The store always comes back up: no history makes a start-up (or anything else) fail — replay
   never reads a header at a non-block boundary and never runs out of fuel. *)
Theorem C01_restart_total :
  forall dec_m dec_d h, wf_hist dec_m dec_d h -> exists s, run dec_m h = Ok s.
Proof. exact restart_total. Qed.
Print Assumptions C01_restart_total.

(* Acknowledged bulks are durable: after ANY history, whenever the store is up, every document of
   every acknowledged bulk is fetched byte for byte and found by each of its tokens. *)
Theorem C01_acked_durable :
  forall dec_m dec_d h s p b d,
    wf_hist dec_m dec_d h -> run dec_m h = Ok s -> s_proc s = Some p ->
    In b (acked_of h) -> In d (b_docs b) ->
    fetch dec_d (s_disk s) p (d_id d) = Body (d_body d) /\
    (forall t, In t (d_toks d) -> In (d_id d) (search p t)).
Proof. exact acked_durable. Qed.
Print Assumptions C01_acked_durable.

(* Interrupted bulks are atomic: what a running store shows is exactly the documents of a list
   `dur` of whole bulks, acked <= dur <= acked + interrupted: bulks in dur are wholly present with
   their own bytes, every other ID is absent and unfindable, fetch never fails, search returns
   nothing else. *)
Theorem C01_unacked_atomic :
  forall dec_m dec_d h s p,
    wf_hist dec_m dec_d h -> run dec_m h = Ok s -> s_proc s = Some p ->
    exists dur,
      incl (acked_of h) dur /\ incl dur (acked_of h ++ tried_of h) /\
      (forall b d, In b dur -> In d (b_docs b) ->
         fetch dec_d (s_disk s) p (d_id d) = Body (d_body d) /\
         (forall t, In t (d_toks d) -> In (d_id d) (search p t))) /\
      (forall id, (forall b d, In b dur -> In d (b_docs b) -> d_id d <> id) ->
         fetch dec_d (s_disk s) p id = Absent /\ (forall t, ~ In id (search p t))) /\
      (forall id, fetch dec_d (s_disk s) p id <> FetchErr) /\
      (forall t id, In id (search p t) ->
         exists b d, In b dur /\ In d (b_docs b) /\ d_id d = id /\ In t (d_toks d)).
Proof. exact durable_char. Qed.
Print Assumptions C01_unacked_atomic.

(* ... and the verdict stands across all later operations: what was fetched stays fetchable with
   the same bytes, what was found stays found, and what was absent stays absent unless a later
   bulk carries that ID. *)
Theorem C01_verdict_stable :
  forall dec_m dec_d h h' s p s' p',
    wf_hist dec_m dec_d (h ++ h') ->
    run dec_m h = Ok s -> s_proc s = Some p ->
    run dec_m (h ++ h') = Ok s' -> s_proc s' = Some p' ->
    (forall id x, fetch dec_d (s_disk s) p id = Body x -> fetch dec_d (s_disk s') p' id = Body x) /\
    (forall t id, In id (search p t) -> In id (search p' t)) /\
    (forall id, fetch dec_d (s_disk s) p id = Absent ->
       (forall b d, In b (hist_bulks h') -> In d (b_docs b) -> d_id d <> id) ->
       fetch dec_d (s_disk s') p' id = Absent /\ (forall t, ~ In id (search p' t))).
Proof. exact verdict_stable. Qed.
Print Assumptions C01_verdict_stable.

(* Replay derives docs offsets by summing Ext1; the Ext2 stored in the meta blocks (e2) is
   irrelevant; an unreadable tail is skipped. *)
Theorem C01_replay_blocks :
  forall dec_m dec_d bs fuel pre e2 tm dpos acc,
    Forall (wf_bulk dec_m dec_d) bs -> eof_tail tm -> length bs < fuel ->
    replay_loop dec_m fuel (pre ++ mfile bs e2 ++ tm) (length pre) dpos acc
    = Ok (length pre + length (mfile bs e2), dpos + length (dfile bs), rev acc ++ index_of bs dpos).
Proof. exact replay_loop_blocks. Qed.
Print Assumptions C01_replay_blocks.

(* Meta order = docs order: in EVERY reachable state (running or crashed) the i-th meta block in
   file order records (Ext2) the docs offset that Replay derives for it, the sum of the Ext1 of the
   blocks before it. `meta_describes_docs` is the executable statement; the correspondence run
   evaluates the same `ext_chain_ok` on the (Ext1, Ext2) pairs read from the real .meta files. *)
Theorem C01_meta_order_invariant :
  forall dec_m dec_d h s,
    wf_hist dec_m dec_d h -> run dec_m h = Ok s -> meta_describes_docs (meta (s_disk s)) = true.
Proof. exact meta_order_invariant. Qed.
Print Assumptions C01_meta_order_invariant.

(* Concurrent bulks, some of which may fail: every interleaving that the writer's mutex allows -
   whole units in any lock order; a unit reads its rollback target INSIDE the lock, then either
   writes "docs block, then the meta block describing it" or fails in its docs or meta write after
   any number of bytes and rolls back - produces, for any group cbs and any consistent files,
   exactly the files and writer offsets of the sequence of atomic bulk steps of the SUCCESSFUL units
   in lock order: a failed unit is the identity whatever ran before it. So a concurrent group is
   covered by the history theorems as consecutive HBulk / HFault steps, and meta order = docs order
   is kept. *)
Theorem C01_locked_units_sequential :
  forall cbs us bs pend snap,
    (exists pend' snap',
      run_events cbs (WSt (dfile bs) (mfile bs 0) (length (dfile bs)) (length (mfile bs 0)) pend snap)
                 (locked us)
      = let bs' := bs ++ flat_map (unit_ok cbs) us in
        WSt (dfile bs') (mfile bs' 0) (length (dfile bs')) (length (mfile bs' 0)) pend' snap') /\
    meta_describes_docs
      (w_meta (run_events cbs
         (WSt (dfile bs) (mfile bs 0) (length (dfile bs)) (length (mfile bs 0)) pend snap)
         (locked us))) = true.
Proof. intros. split; [apply locked_units | apply locked_units_meta_order]. Qed.
Print Assumptions C01_locked_units_sequential.

(* lem:hdr_prefix_eof — a strict prefix of a block, wherever it starts, is reported as EOF *)
Theorem C01_hdr_prefix_eof :
  forall pre pay raw e1 e2 c, c < length (block pay raw e1 e2) ->
    read_doc_block (pre ++ firstn c (block pay raw e1 e2)) (length pre) = RdEOF.
Proof. exact read_block_prefix_eof. Qed.
Print Assumptions C01_hdr_prefix_eof.

(* lem:le64_roundtrip *)
Theorem C01_le64_roundtrip : forall x, le_dec (le64 x) = x.
Proof. exact (le_roundtrip 7). Qed.
Print Assumptions C01_le64_roundtrip.

(* ---------- non-vacuity: the hypotheses are met by concrete histories with a crash, a start,
   further ingestion and a second start; the acknowledged bulks are [wb1; wb3] ---------- *)
Example C01_nonvacuous :
  wf_hist wdm wdd (w_hist 10) /\ acked_of (w_hist 10) = [wb1; wb3] /\ tried_of (w_hist 10) = [wb2] /\
  final_fetch (run wdm (w_hist 0)) 3 = Some (Body (d_body wd3)) /\     (* orphan docs block *)
  final_fetch (run wdm (w_hist 10)) 3 = Some (Body (d_body wd3)) /\    (* torn meta block *)
  final_fetch (run wdm (w_hist 100)) 2 = Some (Body (d_body wd2)) /\   (* unacked, wholly present *)
  final_fetch (run wdm (w_hist 36)) 2 = Some Absent.                    (* unacked, wholly absent *)
Proof.
  split; [apply w_wf |]. split; [reflexivity |]. split; [reflexivity |].
  split; [exact w_repaired_orphan |]. split; [exact w_repaired_torn |]. exact w_repaired_complete_unacked.
Qed.

(* ---------- the start-up before commit 581f818 (restart_v0: writers at the raw file sizes,
   nothing truncated) violates both statements ---------- *)

(* defect #1: crash between the docs write and the meta write, start, further bulk, start:
   the acknowledged document 3 is then served with document 2's bytes *)
Example C01_v0_refuted_orphan_docs :
  wf_hist wdm wdd (w_hist 0) /\
  In wb3 (acked_of (w_hist 0)) /\ In wd3 (b_docs wb3) /\
  final_fetch (run_v0 wdm (w_hist 0)) (d_id wd3) = Some (Body (d_body wd2)) /\
  d_body wd2 <> d_body wd3.
Proof.
  split; [apply w_wf |]. split; [right; left; reflexivity |]. split; [left; reflexivity |].
  split; [exact w_v0_orphan | discriminate].
Qed.

(* defect #2: torn meta write, start, further bulk, start: the second start dies *)
Example C01_v0_refuted_torn_meta :
  exists h, wf_hist wdm wdd h /\ run_v0 wdm h = Panic.
Proof. exists (w_hist 10). split; [apply w_wf | exact w_v0_torn]. Qed.

(* ---------- the locked unit is necessary: an interleaving that splits it (A reserves its docs
   offset first, B's meta block lands first; docs blocks of different size) breaks the invariant,
   and after the next start B's ID is served with A's bytes; the locked interleaving is fine ---------- *)
Example C01_split_unit_refuted :
  meta_describes_docs (w_meta w_split) = false /\
  fetch_after_restart w_split (d_id wd1) = Some (Body (d_body wd4)) /\
  d_body wd4 <> d_body wd1 /\
  meta_describes_docs (w_meta w_locked) = true /\
  fetch_after_restart w_locked (d_id wd1) = Some (Body (d_body wd1)).
Proof.
  destruct w_split_breaks as (A & B). destruct w_locked_fine as (C & D & _).
  split; [exact A |]. split; [exact B |]. split; [discriminate |]. split; [exact C | exact D].
Qed.

(* ---------- I/O faults: the hypotheses of the theorems are met by histories with a failed docs write, a
   failed meta write, and a crash inside the rollback; the later acknowledged bulk stays intact ---------- *)
Example C01_fault_nonvacuous :
  wf_hist wdm wdd (w_fault_hist true 34) /\ wf_hist wdm wdd (w_fault_crash_hist 0 34) /\
  acked_of (w_fault_hist true 34) = [wb1; wb3] /\ tried_of (w_fault_hist true 34) = [wb2] /\
  final_fetch (run wdm (w_fault_hist false 2)) 3 = Some (Body (d_body wd3)) /\
  final_fetch (run wdm (w_fault_hist true 34)) 3 = Some (Body (d_body wd3)) /\
  final_fetch (run wdm (w_fault_hist true 34)) 2 = Some Absent /\
  final_fetch (run wdm (w_fault_crash_hist 0 34)) 3 = Some (Body (d_body wd3)) /\
  final_fetch (run wdm (w_fault_crash_hist 36 34)) 3 = Some (Body (d_body wd3)).
Proof.
  split; [apply w_fault_wf |]. split; [apply w_fault_crash_wf |].
  split; [reflexivity |]. split; [reflexivity |]. exact w_fault_repaired.
Qed.

(* ---------- the write path before commit ce3aaa8 (run_f0): a single write that FAILS
   (EFBIG/ENOSPC/EIO), no crash: FileWriter.Write has advanced its offset and never takes it back,
   so the blocks of later, acknowledged bulks no longer start where Replay (summing Ext1) looks
   for them ---------- *)

(* the docs write of bulk 2 fails after 2 bytes; bulk 3 is acknowledged and readable while the
   store runs; after the next start its document cannot be fetched *)
Example C01_fault_v0_refuted_docs_write :
  wf_hist wdm wdd (w_fault_hist false 2) /\
  In wb3 (acked_of (w_fault_hist false 2)) /\ In wd3 (b_docs wb3) /\
  final_fetch (run_f0 wdm [HRestart; HBulk wb1; HFault wb2 false 2; HBulk wb3]) (d_id wd3) = Some (Body (d_body wd3)) /\
  final_fetch (run_f0 wdm (w_fault_hist false 2)) (d_id wd3) = Some FetchErr.
Proof.
  split; [apply w_fault_wf |]. split; [right; left; reflexivity |]. split; [left; reflexivity |].
  split; [exact w_fault_docs_live | exact (proj1 w_fault_docs_restart)].
Qed.

(* the meta write of bulk 2 fails after 34 bytes; bulk 3 is acknowledged; the next start dies *)
Example C01_fault_v0_refuted_meta_write :
  wf_hist wdm wdd (w_fault_hist true 34) /\ run_f0 wdm (w_fault_hist true 34) = Panic.
Proof. split; [apply w_fault_wf | exact w_fault_meta_restart]. Qed.

(* ---------- the rollback order before commit 5db7f73 (docs file cut first): a COMPLETE meta block
   (write succeeded, its fsync failed) whose docs block is already cut, crash, start, bulk 3, start:
   the acknowledged document 3 is unreadable and document 2's ID returns document 3's bytes.
   With the meta file cut first (current code, `fault_crash`) the same crash point is harmless. ---------- *)
Example C01_rollback_order_v0_refuted :
  final_fetch (run_from wdm w_hazard_state [HRestart; HBulk wb3; HRestart]) (d_id wd3) = Some FetchErr /\
  final_fetch (run_from wdm w_hazard_state [HRestart; HBulk wb3; HRestart]) (d_id wd2) = Some (Body (d_body wd3)) /\
  final_fetch (run wdm (w_fault_crash_hist 39 0)) (d_id wd3) = Some (Body (d_body wd3)) /\
  final_fetch (run wdm (w_fault_crash_hist 0 37)) (d_id wd3) = Some (Body (d_body wd3)).
Proof.
  destruct w_rollback_order_hazard as (A & B). destruct w_rollback_meta_first as (C & D & _).
  split; [exact A |]. split; [exact B |]. split; [exact C | exact D].
Qed.

(* ---------- the rollback target must be read inside the locked unit: if a writer snapshots the
   offsets BEFORE it gets the lock (here: before the bulk ahead of it ran) and then fails, its
   rollback cuts off the blocks of the bulk that was acknowledged meanwhile ---------- *)
Example C01_snapshot_before_lock_refuted :
  (* B acknowledged, A fails; snapshot before the lock: both files are empty again, B is gone *)
  w_docs w_fail_stale = [] /\ w_meta w_fail_stale = [] /\
  fetch_after_restart w_fail_stale (d_id wd1) = Some Absent /\
  (* snapshot inside the unit: B intact, A absent *)
  fetch_after_restart w_fail_locked (d_id wd1) = Some (Body (d_body wd1)) /\
  fetch_after_restart w_fail_locked (d_id wd4) = Some Absent.
Proof.
  destruct w_snapshot_before_lock_breaks as (A & B & C). destruct w_snapshot_inside_fine as (D & E).
  repeat split; assumption.
Qed.

(* ====================== the store's multi-fraction life (ModelMulti.v) ======================

   Reading aid.  `mrun dec_m dec_d h` executes a multi-fraction history h on a list of fractions, each with
   its .meta/.docs (byte level, as above) and its ._sdocs/.sdocs/._index/.index (abstract: the documents
   the file was built from, complete?, fsynced?):
     MBulk b / MCrashIn b k t kd km / MPower     as HBulk / HCrashIn / HPower, on the writable fraction;
     MRotate / MRotateCrash j                    FracManager.rotate: .meta, dir fsync, .docs, dir fsync of a fresh
                                                 fraction; the process dies after j of these operations;
     MSeal / MSealCrash j torn pl                FracManager.seal of the oldest rotated-out fraction (seal_prog: 11
                                                 operations from "create ._index" to "unlink .docs"); the process dies
                                                 after j of them, the next (temp-file write) possibly torn, with or
                                                 without power loss;
     MRestart / MRestartCrash cut torn pl        FracManager.Load over all fractions (classification by file set,
                                                 removal of a sealed fraction's leftover .meta/.docs, replay and
                                                 truncation of every unsealed fraction, removal of those that hold
                                                 nothing, sealing of all replayed fractions but the last, a fresh
                                                 fraction when none is left to write to); the process dies with
                                                 fraction i at operation cut[i] of its own sequence.
   `wf_mhist` = every bulk of h decodes to its own non-empty documents, equal IDs carry equal documents;
   `macked_of h` / `mtried_of h` = the bulks h acknowledges / interrupts; `mfetch` / `msearch` read through
   FracManager.fracs (sealed fractions through the documents their .index/.sdocs were built from, unsealed
   ones through the replayed index). Retention is not part of these histories. *)

(* Acknowledged bulks are durable across rotation, sealing and every crash inside them: after ANY
   multi-fraction history, whenever the store is up, every document of every acknowledged bulk is fetched
   byte for byte and found by each of its tokens, from whichever form its fraction has. *)
Theorem C01_acked_durable_multi :
  forall dec_m dec_d h s mp b d,
    wf_mhist dec_m dec_d h -> mrun dec_m dec_d h = Ok s -> ms_proc s = Some mp ->
    In b (macked_of h) -> In d (b_docs b) ->
    mfetch dec_d (ms_dirs s) mp (d_id d) = Body (d_body d) /\
    (forall t, In t (d_toks d) -> In (d_id d) (msearch mp t)).
Proof. exact macked_durable. Qed.
Print Assumptions C01_acked_durable_multi.

(* Interrupted bulks stay atomic: what a running store shows over ALL its fractions is exactly the
   documents of a list `dur` of whole bulks, acked <= dur <= acked + interrupted; fetch never fails;
   search returns nothing else. *)
Theorem C01_unacked_atomic_multi :
  forall dec_m dec_d h s mp,
    wf_mhist dec_m dec_d h -> mrun dec_m dec_d h = Ok s -> ms_proc s = Some mp ->
    exists dur,
      incl (macked_of h) dur /\ incl dur (macked_of h ++ mtried_of h) /\
      (forall b d, In b dur -> In d (b_docs b) ->
         mfetch dec_d (ms_dirs s) mp (d_id d) = Body (d_body d) /\
         (forall t, In t (d_toks d) -> In (d_id d) (msearch mp t))) /\
      (forall id, (forall b d, In b dur -> In d (b_docs b) -> d_id d <> id) ->
         mfetch dec_d (ms_dirs s) mp id = Absent /\ (forall t, ~ In id (msearch mp t))) /\
      (forall id, mfetch dec_d (ms_dirs s) mp id <> FetchErr) /\
      (forall t id, In id (msearch mp t) ->
         exists b d, In b dur /\ In d (b_docs b) /\ d_id d = id /\ In t (d_toks d)).
Proof. exact mdurable_char. Qed.
Print Assumptions C01_unacked_atomic_multi.

(* The start-up never fails, whatever crashed before (no history makes any step fail); it never loses a
   fraction that holds an acknowledged bulk - every acknowledged document is served by some fraction of
   FracManager.fracs with its own bytes - and never serves a fraction twice (the crash between the .index
   rename and the removal of .meta/.docs leaves both forms: the sealed one is served, see
   C01_multi_nonvacuous). *)
Theorem C01_restart_total_multi :
  forall dec_m dec_d h, wf_mhist dec_m dec_d h ->
    exists s, mrun dec_m dec_d h = Ok s /\
      forall mp, ms_proc s = Some mp ->
        NoDup (map fst (mp_fracs mp)) /\
        (forall b d, In b (macked_of h) -> In d (b_docs b) ->
           exists i r, In (i, r) (mp_fracs mp) /\ rfetch dec_d (ms_dirs s i) r (d_id d) = Body (d_body d)).
Proof. exact mrestart_total. Qed.
Print Assumptions C01_restart_total_multi.

(* Whenever the store is up (in particular after any restart) exactly one entry of FracManager.fracs carries
   the writable fraction's name, it is an unsealed one without .index, its writers stand at the ends of its
   .docs/.meta, and the next bulk (any bulk whose meta payload decodes) is APPENDED: the old bytes of both
   files stay a prefix, and no file of any other fraction changes. *)
Theorem C01_active_after_restart :
  forall dec_m dec_d h s mp,
    wf_mhist dec_m dec_d h -> mrun dec_m dec_d h = Ok s -> ms_proc s = Some mp ->
    exists p dcs mt,
      (forall r, In (mp_active mp, r) (mp_fracs mp) <-> r = RActive p) /\
      fd_docs (ms_dirs s (mp_active mp)) = Some dcs /\ fd_meta (ms_dirs s (mp_active mp)) = Some mt /\
      fd_ix (ms_dirs s (mp_active mp)) = None /\
      off_d p = length dcs /\ off_m p = length mt /\
      (forall b ms, dec_m (b_mpay b) = Some ms ->
         exists s', mstep dec_m dec_d s (MBulk b) = Ok s' /\
           fd_docs (ms_dirs s' (mp_active mp)) = Some (dcs ++ dblock b) /\
           fd_meta (ms_dirs s' (mp_active mp)) = Some (mt ++ mblock b (length dcs)) /\
           (forall i, i <> mp_active mp -> ms_dirs s' i = ms_dirs s i)).
Proof. exact mactive_writable. Qed.
Print Assumptions C01_active_after_restart.

(* ---------- non-vacuity: concrete multi-fraction histories meet the hypotheses; they contain a rotation,
   a crash inside a seal right after the .index rename (both forms of fraction 0 on disk), a crash inside
   the start-up that cleans up, a start-up that seals the older of two unsealed fractions and is
   interrupted inside that seal (torn .index write, power loss), further ingestion and starts ---------- *)
Example C01_multi_nonvacuous :
  wf_mhist wdm wdd wm_hist /\ wf_mhist wdm wdd wm_startup_seal /\
  macked_of wm_hist = [wb1; wb2; wb3] /\
  (* both forms present after the crash ... *)
  mfinal_files (mrun wdm wdd wm_both) 0 = [true; true; true; true] /\
  (* ... the start serves fraction 0 once, sealed, and removes .meta/.docs *)
  mfinal_fracs (mrun wdm wdd (wm_both ++ [MRestart])) = [(0, true); (1, false)] /\
  mfinal_files (mrun wdm wdd (wm_both ++ [MRestart])) 0 = [false; false; true; true] /\
  mfinal_fetch (mrun wdm wdd (wm_both ++ [MRestart])) 1 = Some (Body (d_body wd1)) /\
  (* the clean-up interrupted, further ingestion, start *)
  mfinal_fetch (mrun wdm wdd wm_hist) 1 = Some (Body (d_body wd1)) /\
  mfinal_fetch (mrun wdm wdd wm_hist) 3 = Some (Body (d_body wd3)) /\
  (* the start-up seals the older unsealed fraction; interrupted, it starts over *)
  mfinal_fracs (mrun wdm wdd wm_startup_seal) = [(0, true); (1, true); (3, false)] /\
  mfinal_fetch (mrun wdm wdd wm_startup_seal) 1 = Some (Body (d_body wd1)).
Proof.
  destruct wm_acked as (A & _). destruct wm_both_served_once as (B1 & B2 & B3 & _).
  destruct wm_hist_final as (_ & _ & C1 & _ & C3). destruct wm_startup_seal_final as (_ & D1 & D2 & _).
  split; [exact wm_wf |]. split; [exact wm_wf2 |]. split; [exact A |]. split; [exact wm_both_forms |].
  split; [exact B1 |]. split; [exact B2 |]. split; [exact B3 |]. split; [exact C1 |]. split; [exact C3 |].
  split; [exact D1 | exact D2].
Qed.

(* ====================== interrupted start-ups (ModelIntr.v) ======================

   Reading aid.  cmd/seq-db hands a signal context (SIGINT/SIGTERM) to NewStore -> FracManager.Load ->
   loader.load -> Active.Replay; Replay polls it once per meta block. `XStartIntr k` / `MXStartIntr k` = (kill
   and) start the store with a context whose first k polls see it live and every later poll sees it
   cancelled, for ANY k: cancelled before the first block, between two blocks, before the read that finds
   the end, in any of the unsealed fractions the loader replays one after the other - or never seen
   cancelled (k >= the number of polls of the start-up; then it IS the ordinary start-up). `xrun` / `mxrun`
   execute histories in which these events are interleaved, in any number and order, with all events of
   the histories above (XOp o / MXOp o). Which bulks are acknowledged now depends on the state (an
   interrupted start-up leaves the store down, a completed one up), so the statements use the lists the
   model itself keeps: s_acked / ms_acked grow exactly where a bulk step acknowledges (Model.step HBulk,
   ModelMulti.mstep0 MBulk: `++ [b]`), see the *_acked_sound theorems; s_tried / ms_tried likewise. *)

(* Interrupted start-ups are harmless (single fraction): NO history with interrupted start-ups at any poll
   count, crashes inside bulks, I/O faults, power losses, crashed start-ups and ordinary starts makes any
   step fail (the store always comes back up), and whenever the store is up it shows exactly a list dur
   of whole bulks, acked <= dur <= acked + interrupted: every acknowledged document is fetched byte for
   byte and found by each token, an interrupted bulk is wholly there or wholly absent, fetch never fails,
   search returns nothing else. *)
Theorem C01_interrupted_startup_harmless :
  forall dec_m dec_d h, wf_xhist dec_m dec_d h ->
    exists s, xrun dec_m h = Ok s /\
      forall p, s_proc s = Some p ->
      exists dur,
        incl (s_acked s) dur /\ incl dur (s_acked s ++ s_tried s) /\
        (forall b d, In b dur -> In d (b_docs b) ->
           fetch dec_d (s_disk s) p (d_id d) = Body (d_body d) /\
           (forall t, In t (d_toks d) -> In (d_id d) (search p t))) /\
        (forall id, (forall b d, In b dur -> In d (b_docs b) -> d_id d <> id) ->
           fetch dec_d (s_disk s) p id = Absent /\ (forall t, ~ In id (search p t))) /\
        (forall id, fetch dec_d (s_disk s) p id <> FetchErr) /\
        (forall t id, In id (search p t) ->
           exists b d, In b dur /\ In d (b_docs b) /\ d_id d = id /\ In t (d_toks d)).
Proof. exact xdurable_char. Qed.
Print Assumptions C01_interrupted_startup_harmless.

(* ... and it changes no file: in every reachable state s, for every k, the interrupted start-up does not
   fail and either leaves the store down with BOTH FILES BYTE-IDENTICAL (nothing truncated, nothing
   removed, nothing acknowledged or forgotten, no file operation logged), or nobody saw the cancellation
   and it is exactly the ordinary start-up. *)
Theorem C01_interrupted_startup_keeps_files :
  forall dec_m dec_d h s k, wf_xhist dec_m dec_d h -> xrun dec_m h = Ok s ->
    exists s', xstep dec_m s (XStartIntr k) = Ok s' /\
      ((s_proc s' = None /\ s_disk s' = s_disk s /\ s_acked s' = s_acked s /\ s_tried s' = s_tried s /\
        s_ops s' = s_ops s) \/ step dec_m s HRestart = Ok s').
Proof. exact xintr_reachable. Qed.
Print Assumptions C01_interrupted_startup_keeps_files.

(* the model's list of acknowledged bulks is the right one: a bulk submitted while the store is up is in
   s_acked of every later state *)
Theorem C01_interrupted_acked_sound :
  forall dec_m h1 b h2 s1 p s,
    xrun dec_m h1 = Ok s1 -> s_proc s1 = Some p ->
    xrun dec_m (h1 ++ XOp (HBulk b) :: h2) = Ok s -> In b (s_acked s).
Proof. exact xacked_sound. Qed.
Print Assumptions C01_interrupted_acked_sound.

(* The same over the store's multi-fraction life: interrupted start-ups at any poll count - in the loader:
   before / inside / after the replay of each unsealed fraction - interleaved with rotation, sealing and
   all crashes inside them: no step fails, and whenever the store is up no fraction is served twice and the
   documents shown over all fractions are exactly those of a list dur of whole bulks, acked <= dur <=
   acked + interrupted. *)
Theorem C01_interrupted_startup_harmless_multi :
  forall dec_m dec_d h, wf_mxhist dec_m dec_d h ->
    exists s, mxrun dec_m dec_d h = Ok s /\
      forall mp, ms_proc s = Some mp ->
      NoDup (map fst (mp_fracs mp)) /\
      exists dur,
        incl (ms_acked s) dur /\ incl dur (ms_acked s ++ ms_tried s) /\
        (forall b d, In b dur -> In d (b_docs b) ->
           mfetch dec_d (ms_dirs s) mp (d_id d) = Body (d_body d) /\
           (forall t, In t (d_toks d) -> In (d_id d) (msearch mp t))) /\
        (forall id, (forall b d, In b dur -> In d (b_docs b) -> d_id d <> id) ->
           mfetch dec_d (ms_dirs s) mp id = Absent /\ (forall t, ~ In id (msearch mp t))) /\
        (forall id, mfetch dec_d (ms_dirs s) mp id <> FetchErr) /\
        (forall t id, In id (msearch mp t) ->
           exists b d, In b dur /\ In d (b_docs b) /\ d_id d = id /\ In t (d_toks d)).
Proof. exact mxdurable_char. Qed.
Print Assumptions C01_interrupted_startup_harmless_multi.

(* What an interrupted start-up (one that leaves the store down; mxstep = mfreeze after mxstep0) does to
   the files, in ANY state: no fraction is created, nothing is acknowledged or forgotten, no operation is
   logged, and every fraction is either untouched or has had a prefix of p1 ++ p2 of the plan the ordinary
   start-up executes on it applied (p1 = loop 1 of loader.load: removal of a complete sealed form's leftover
   .meta/.docs, re-opening of an unsealed fraction; p2 = truncation of the unreadable tails / removal of a
   fraction that holds nothing, only for fractions whose replay completed before the cancellation) - never
   an operation of p3 (sealing), never a rotation. These are crash states of the ordinary start-up
   (MRestartCrash), which C01_restart_total_multi already covers. *)
Theorem C01_interrupted_startup_files_multi :
  forall dec_m dec_d s k s',
    mxstep0 dec_m dec_d s (MXStartIntr k) = Ok s' -> ms_proc s' = None ->
    ms_next s' = ms_next s /\ ms_acked s' = ms_acked s /\ ms_tried s' = ms_tried s /\ ms_ops s' = ms_ops s /\
    exists pls, plans_of dec_m dec_d (ms_dirs s) (ms_next s) (seq 0 (ms_next s)) = Ok pls /\
      forall i, (ms_dirs s' i = ms_dirs s i) \/
                (exists pl c, In (i, pl) pls /\ c <= length (p1 pl) + length (p2 pl) /\
                              ms_dirs s' i = lrun (firstn c (p1 pl ++ p2 pl)) (ms_dirs s i)).
Proof. exact mxstep_intr_files. Qed.
Print Assumptions C01_interrupted_startup_files_multi.

Theorem C01_interrupted_acked_sound_multi :
  forall dec_m dec_d h1 b h2 s1 mp s,
    mxrun dec_m dec_d h1 = Ok s1 -> ms_proc s1 = Some mp ->
    mxrun dec_m dec_d (h1 ++ MXOp (MBulk b) :: h2) = Ok s -> In b (ms_acked s).
Proof. exact mxacked_sound. Qed.
Print Assumptions C01_interrupted_acked_sound_multi.

(* ---------- non-vacuity: five acknowledged bulks, unclean stop, a start-up interrupted after k polls, an
   ordinary start (xi_hist k); the same interleaved with a crash inside a bulk, a power loss and further
   ingestion (xi_hist2); two unsealed fractions at an interrupted start-up of the loader (xm_hist k) ---------- *)
Example C01_interrupted_nonvacuous :
  (forall k, wf_xhist xdm xdd (xi_hist k)) /\ (forall k k', wf_xhist xdm xdd (xi_hist2 k k')) /\
  (forall k, wf_mxhist wdm wdd (xm_hist k)) /\
  xfinal_acked (xrun xdm (xi_hist 2)) = xbs /\
  all5 (xfinal_fetch (xrun xdm (xi_hist 0))) = bodies5 /\
  all5 (xfinal_fetch (xrun xdm (xi_hist 2))) = bodies5 /\
  all5 (xfinal_fetch (xrun xdm (xi_hist 5))) = bodies5 /\
  xfinal_up (xrun xdm (firstn 8 (xi_hist 5))) = Some false /\
  xfinal_up (xrun xdm (firstn 8 (xi_hist 6))) = Some true /\
  xm_acked (mxrun wdm wdd (xm_hist 1)) = [wb1; wb2; wb3] /\
  xm_up (mxrun wdm wdd (firstn 6 (xm_hist 3))) = Some false /\
  xm_up (mxrun wdm wdd (firstn 6 (xm_hist 4))) = Some true.
Proof.
  destruct xi_harmless as (A & B & C & D & E & _ & F & _). destruct xm_harmless as (G & _ & H & _ & _ & I & _).
  split; [exact xi_wf |]. split; [exact xi_wf2 |]. split; [exact xm_wf |].
  repeat (split; [assumption |]). assumption.
Qed.

(* ---------- the seeded variant (round-5 seeds C01-m10 / C15-m9; restart_ctx true / xrun_t1): the cancellation
   branch leaves the loop, dropUnreplayedTail runs with the positions of the PARTIAL replay, and only then
   is the cancellation returned. Five acknowledged bulks, the start-up interrupted after 2 blocks: the next
   start serves 2 of them; interrupted before the first block: both files are cut to 0 and the next start
   serves nothing. The history is well formed and acknowledges all five bulks. ---------- *)
Example C01_interrupted_truncating_variant_refuted :
  wf_xhist xdm xdd (xi_hist 2) /\ xfinal_acked (xrun xdm (xi_hist 2)) = [xb1; xb2; xb3; xb4; xb5] /\
  all5 (xfinal_fetch (xrun_t1 xdm (xi_hist 2))) =
    [Some (Body (d_body xd1)); Some (Body (d_body xd2)); Some Absent; Some Absent; Some Absent] /\
  all5 (xfinal_fetch (xrun_t1 xdm (xi_hist 0))) = [Some Absent; Some Absent; Some Absent; Some Absent; Some Absent] /\
  xfinal_lens (xrun_t1 xdm (firstn 8 (xi_hist 0))) = Some (0, 0).
Proof.
  destruct xi_harmless as (A & _). destruct xi_seeded_loses as (B & C & D).
  split; [apply xi_wf |]. split; [exact A |]. split; [exact B |]. split; [exact C | exact D].
Qed.
