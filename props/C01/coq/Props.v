(* C01 — property theorems. *)
From Coq Require Import List NArith.
From C01 Require Import Model Proofs.

Theorem C01_le64_roundtrip : forall x, le_dec (le64 x) = x.
Proof. exact (le_roundtrip 7). Qed.
Print Assumptions C01_le64_roundtrip.
