(* C01 — lemmas, part 4: the invariant of histories. *)
From Coq Require Import List Bool Arith NArith Lia.
From C01 Require Import Model Proofs Proofs2 Proofs3.
Import ListNotations.
Open Scope nat_scope.

(* which bulks a history acknowledges / interrupts, from the up/down flag alone *)
Fixpoint acked_from (up : bool) (h : list hop) : list bulk :=
  match h with
  | [] => []
  | HBulk b :: r => if up then b :: acked_from true r else acked_from false r
  | HCrashIn _ _ _ _ _ :: r => acked_from false r
  | HFault _ _ _ :: r => acked_from up r
  | HFaultCrash _ _ _ :: r => acked_from false r
  | HPower :: r => acked_from false r
  | HRestart :: r => acked_from true r
  | HRestartCrash :: r => acked_from false r
  end.
Fixpoint tried_from (up : bool) (h : list hop) : list bulk :=
  match h with
  | [] => []
  | HBulk b :: r => tried_from up r
  | HCrashIn b _ _ _ _ :: r => if up then b :: tried_from false r else tried_from false r
  | HFault b _ _ :: r => if up then b :: tried_from true r else tried_from false r
  | HFaultCrash b _ _ :: r => if up then b :: tried_from false r else tried_from false r
  | HPower :: r => tried_from false r
  | HRestart :: r => tried_from true r
  | HRestartCrash :: r => tried_from false r
  end.
Definition acked_of (h : list hop) := acked_from false h.
Definition tried_of (h : list hop) := tried_from false h.

Definition is_up (s : st) : bool := match s_proc s with Some _ => true | None => false end.

Section WithCodec.
  Variable dec_m : list N -> option (list dmeta).
  Variable dec_d : list N -> option (list N).
  Notation wf_bulk := (wf_bulk dec_m dec_d).

  (* bs = the durable bulks: both files consist of their blocks, in order; a stopped store may
     have an unreadable meta tail and any docs tail; a running store has none, its writers stand
     at the ends and its index is the index of bs *)
  Definition Inv (s : st) (bs : list bulk) : Prop :=
    Forall wf_bulk bs /\
    incl (s_acked s) bs /\ incl bs (s_acked s ++ s_tried s) /\
    match s_proc s with
    | Some p => s_disk s = Disk (dfile bs) (mfile bs 0) /\
                off_d p = length (dfile bs) /\ off_m p = length (mfile bs 0) /\
                idx p = index_of bs 0
    | None => exists tm td, s_disk s = Disk (dfile bs ++ td) (mfile bs 0 ++ tm) /\ eof_tail tm
    end.

  Lemma inv0 : Inv st0 [].
  Proof.
    unfold Inv, st0; cbn. repeat split; auto using incl_nil_l.
    exists [], []. split; auto using eof_tail_nil.
  Qed.

  Lemma dfile_snoc : forall bs b, dfile (bs ++ [b]) = dfile bs ++ dblock b.
  Proof. intros. rewrite dfile_app. cbn [dfile]. rewrite app_nil_r. reflexivity. Qed.
  Lemma mfile_snoc : forall bs b, mfile (bs ++ [b]) 0 = mfile bs 0 ++ mblock b (length (dfile bs)).
  Proof. intros. rewrite mfile_app. cbn [mfile]. rewrite app_nil_r. reflexivity. Qed.
  Lemma index_snoc : forall bs b,
    index_of (bs ++ [b]) 0 = index_of bs 0 ++ [(length (dfile bs), map meta_of (b_docs b))].
  Proof. intros. rewrite index_of_app. reflexivity. Qed.

  Lemma inv_disk_form : forall s bs, Inv s bs ->
    exists tm td, s_disk s = Disk (dfile bs ++ td) (mfile bs 0 ++ tm) /\ eof_tail tm.
  Proof.
    intros s bs (_ & _ & _ & H). destruct (s_proc s).
    - destruct H as (Hd & _). exists [], []. rewrite !app_nil_r. auto using eof_tail_nil.
    - exact H.
  Qed.

  Lemma step_inv : forall s bs o,
    Inv s bs -> Forall wf_bulk (hop_bulk o) ->
    exists s' ext, step dec_m s o = Ok s' /\ Inv s' (bs ++ ext) /\ incl ext (hop_bulk o).
  Proof.
    intros s bs o HI Hwo.
    pose proof (inv_disk_form s bs HI) as (tm0 & td0 & Hdisk0 & Htm0).
    destruct HI as (Hwf & Hack & Hsub & Hst).
    destruct o as [b | b k t kd km | b fm cut | b a c | | |]; unfold step.
    - (* HBulk *)
      destruct (s_proc s) as [p |] eqn:Ep.
      + destruct Hst as (Hd & Hod & Hom & Hix).
        inversion Hwo as [| ? ? Hb _]; subst.
        pose proof Hb as (_ & _ & Hdm & _).
        rewrite Hd.
        rewrite (do_bulk_end dec_m _ p b (map meta_of (b_docs b))) by (cbn [docs meta]; auto).
        cbn [docs meta].
        eexists. exists [b]. split; [reflexivity |]. split; [| apply incl_refl].
        unfold Inv. cbn [s_acked s_tried s_proc s_disk].
        split; [apply Forall_app; auto |].
        split; [apply incl_app; [apply incl_appl; auto | apply incl_appr, incl_refl] |].
        split.
        { intros x Hx. apply in_app_or in Hx. destruct Hx as [Hx | Hx].
          - apply Hsub in Hx. apply in_app_or in Hx. destruct Hx; apply in_or_app; [left | right]; auto.
            apply in_or_app; auto.
          - apply in_or_app. left. apply in_or_app. right. exact Hx. }
        rewrite dfile_snoc, mfile_snoc, index_snoc, Hix, !app_length. auto.
      + exists s, []. rewrite app_nil_r. split; auto. split; [| apply incl_nil_l].
        unfold Inv. rewrite Ep. auto.
    - (* HCrashIn *)
      destruct (s_proc s) as [p |] eqn:Ep.
      + destruct Hst as (Hd & Hod & Hom & Hix).
        inversion Hwo as [| ? ? Hb _]; subst.
        rewrite Hd.
        destruct (crash_in_form (Disk (dfile bs) (mfile bs 0)) p b k t kd km Hod Hom) as (a & c & Hc & Hac).
        cbn [docs meta] in Hc. rewrite Hc.
        destruct (Nat.lt_ge_cases c (length (mblock b (length (dfile bs))))) as [Hlt | Hge].
        * (* the meta block is incomplete: the bulk is not durable *)
          eexists. exists []. split; [reflexivity |]. split; [| apply incl_nil_l].
          rewrite app_nil_r. unfold Inv. cbn [s_acked s_tried s_proc s_disk].
          split; auto. split; auto.
          split; [intros x Hx; apply Hsub in Hx; rewrite app_assoc; apply in_or_app; auto |].
          exists (firstn c (mblock b (length (dfile bs)))), (firstn a (dblock b)).
          split; auto. unfold mblock. apply eof_tail_prefix. exact Hlt.
        * (* both blocks are complete: the bulk is durable although never acknowledged *)
          assert (Ha : length (dblock b) <= a).
          { destruct Hac as [-> | ?]; auto. pose proof (mblock_length_pos b (length (dfile bs))). lia. }
          rewrite (firstn_ge _ c) by auto. rewrite (firstn_ge _ a) by auto.
          eexists. exists [b]. split; [reflexivity |]. split; [| apply incl_refl].
          unfold Inv. cbn [s_acked s_tried s_proc s_disk].
          split; [apply Forall_app; auto |].
          split; [apply incl_appl; auto |].
          split.
          { intros x Hx. apply in_app_or in Hx. rewrite app_assoc. apply in_or_app.
            destruct Hx as [Hx | Hx]; auto. }
          exists [], []. rewrite !app_nil_r, dfile_snoc, mfile_snoc. split; auto using eof_tail_nil.
      + exists s, []. rewrite app_nil_r. split; auto. split; [| apply incl_nil_l].
        unfold Inv. rewrite Ep. auto.
    - (* HFault: the failed unit is rolled back *)
      destruct (s_proc s) as [p |] eqn:Ep.
      + destruct Hst as (Hd & Hod & Hom & Hix).
        inversion Hwo as [| ? ? Hb _]; subst.
        rewrite (do_fault_id (s_disk s) p b fm cut) by (rewrite Hd; cbn [docs meta]; auto).
        eexists. exists []. split; [reflexivity |]. split; [| apply incl_nil_l].
        rewrite app_nil_r. unfold Inv. cbn [s_acked s_tried s_proc s_disk].
        split; auto. split; auto.
        split; [intros x Hx; apply Hsub in Hx; rewrite app_assoc; apply in_or_app; auto |].
        auto.
      + exists s, []. rewrite app_nil_r. split; auto. split; [| apply incl_nil_l].
        unfold Inv. rewrite Ep. auto.
    - (* HFaultCrash: the process dies inside the failed unit or its rollback *)
      destruct (s_proc s) as [p |] eqn:Ep.
      + destruct Hst as (Hd & Hod & Hom & Hix).
        inversion Hwo as [| ? ? Hb _]; subst.
        unfold fault_crash. rewrite Hd, Hod. cbn [docs meta].
        destruct (Nat.lt_ge_cases c (length (mblock b (length (dfile bs))))) as [Hlt | Hge].
        * (* the meta block is incomplete *)
          eexists. exists []. split; [reflexivity |]. split; [| apply incl_nil_l].
          rewrite app_nil_r. unfold Inv. cbn [s_acked s_tried s_proc s_disk].
          split; auto. split; auto.
          split; [intros x Hx; apply Hsub in Hx; rewrite app_assoc; apply in_or_app; auto |].
          eexists (firstn c (mblock b (length (dfile bs)))), _.
          split; [reflexivity |]. unfold mblock. apply eof_tail_prefix. exact Hlt.
        * (* both blocks are complete and durable although the unit failed *)
          assert (Hc0 : (c =? 0) = false).
          { apply Nat.eqb_neq. pose proof (mblock_length_pos b (length (dfile bs))). lia. }
          rewrite Hc0, firstn_all, (firstn_ge _ c) by auto.
          eexists. exists [b]. split; [reflexivity |]. split; [| apply incl_refl].
          unfold Inv. cbn [s_acked s_tried s_proc s_disk].
          split; [apply Forall_app; auto |].
          split; [apply incl_appl; auto |].
          split.
          { intros x Hx. apply in_app_or in Hx. rewrite app_assoc. apply in_or_app.
            destruct Hx as [Hx | Hx]; auto. }
          exists [], []. rewrite !app_nil_r, dfile_snoc, mfile_snoc. split; auto using eof_tail_nil.
      + exists s, []. rewrite app_nil_r. split; auto. split; [| apply incl_nil_l].
        unfold Inv. rewrite Ep. auto.
    - (* HPower *)
      destruct (s_proc s) as [p |] eqn:Ep.
      + eexists. exists []. split; [reflexivity |]. split; [| apply incl_nil_l].
        rewrite app_nil_r. unfold Inv. cbn [s_acked s_tried s_proc s_disk].
        repeat (split; auto). exists tm0, td0. auto.
      + exists s, []. rewrite app_nil_r. split; auto. split; [| apply incl_nil_l].
        unfold Inv. rewrite Ep. auto.
    - (* HRestart *)
      destruct (restart_blocks dec_m dec_d bs tm0 td0 Hwf Htm0) as (ops & Hr).
      rewrite Hdisk0, Hr.
      eexists. exists []. split; [reflexivity |]. split; [| apply incl_nil_l].
      rewrite app_nil_r. unfold Inv. cbn [s_acked s_tried s_proc s_disk off_d off_m idx].
      repeat (split; auto).
    - (* HRestartCrash *)
      rewrite Hdisk0, (restart_crash_blocks dec_m dec_d bs tm0 td0 Hwf Htm0).
      eexists. exists []. split; [reflexivity |]. split; [| apply incl_nil_l].
      rewrite app_nil_r. unfold Inv. cbn [s_acked s_tried s_proc s_disk].
      repeat (split; auto). exists [], td0. rewrite app_nil_r. auto using eof_tail_nil.
  Qed.

  Lemma run_inv : forall h s bs,
    Inv s bs -> Forall wf_bulk (hist_bulks h) ->
    exists s' ext, run_from dec_m s h = Ok s' /\ Inv s' (bs ++ ext) /\ incl ext (hist_bulks h).
  Proof.
    induction h as [| o r IH]; intros s bs HI Hwf.
    - exists s, []. rewrite app_nil_r. cbn. auto using incl_nil_l.
    - cbn [hist_bulks flat_map] in Hwf. apply Forall_app in Hwf. destruct Hwf as (Hwo & Hwr).
      destruct (step_inv s bs o HI Hwo) as (s1 & e1 & Hs & HI1 & He1).
      destruct (IH s1 (bs ++ e1) HI1 Hwr) as (s2 & e2 & Hr & HI2 & He2).
      exists s2, (e1 ++ e2). cbn [run_from]. rewrite Hs. split; auto.
      rewrite app_assoc. split; auto.
      cbn [hist_bulks flat_map]. apply incl_app; [apply incl_appl | apply incl_appr]; auto.
  Qed.

  (* the ghost fields are what the up/down flag alone predicts *)
  Lemma step_ghost : forall s o s', step dec_m s o = Ok s' ->
    s_acked s' = s_acked s ++ acked_from (is_up s) [o] /\
    s_tried s' = s_tried s ++ tried_from (is_up s) [o] /\
    is_up s' = match o with
               | HBulk _ => is_up s | HFault _ _ _ => is_up s | HRestart => true | _ => false end.
  Proof.
    intros s o s' H. unfold step, is_up in *.
    destruct o as [b | b k t kd km | b fm cut | b a c | | |]; destruct (s_proc s) as [p |] eqn:Ep; cbn.
    - destruct (do_bulk dec_m (s_disk s) p b) as [[d' p'] | |]; inversion H; subst; cbn.
      rewrite app_nil_r. auto.
    - inversion H; subst. rewrite Ep, !app_nil_r. auto.
    - inversion H; subst; cbn. rewrite app_nil_r. auto.
    - inversion H; subst. rewrite Ep, !app_nil_r. auto.
    - destruct (do_fault (s_disk s) p b fm cut) as [d' p']. inversion H; subst; cbn.
      rewrite app_nil_r. auto.
    - inversion H; subst. rewrite Ep, !app_nil_r. auto.
    - inversion H; subst; cbn. rewrite app_nil_r. auto.
    - inversion H; subst. rewrite Ep, !app_nil_r. auto.
    - inversion H; subst; cbn. rewrite !app_nil_r. auto.
    - inversion H; subst. rewrite Ep, !app_nil_r. auto.
    - destruct (restart dec_m (s_disk s)) as [[[d' p'] ops] | |]; inversion H; subst; cbn.
      rewrite !app_nil_r. auto.
    - destruct (restart dec_m (s_disk s)) as [[[d' p'] ops] | |]; inversion H; subst; cbn.
      rewrite !app_nil_r. auto.
    - destruct (restart_crash dec_m (s_disk s)) as [d' | |]; inversion H; subst; cbn.
      rewrite !app_nil_r. auto.
    - destruct (restart_crash dec_m (s_disk s)) as [d' | |]; inversion H; subst; cbn.
      rewrite !app_nil_r. auto.
  Qed.

  Lemma from_cons : forall up o r,
    acked_from up (o :: r) = acked_from up [o] ++
      acked_from (match o with HBulk _ => up | HFault _ _ _ => up | HRestart => true | _ => false end) r /\
    tried_from up (o :: r) = tried_from up [o] ++
      tried_from (match o with HBulk _ => up | HFault _ _ _ => up | HRestart => true | _ => false end) r.
  Proof. intros. destruct o; destruct up; cbn; auto. Qed.

  Lemma run_ghost : forall h s s', run_from dec_m s h = Ok s' ->
    s_acked s' = s_acked s ++ acked_from (is_up s) h /\
    s_tried s' = s_tried s ++ tried_from (is_up s) h.
  Proof.
    induction h as [| o r IH]; intros s s' H.
    - inversion H; subst. cbn. rewrite !app_nil_r. auto.
    - cbn [run_from] in H. destruct (step dec_m s o) as [s1 | |] eqn:Es; try discriminate.
      destruct (step_ghost s o s1 Es) as (Ha & Ht & Hu).
      destruct (IH s1 s' H) as (Ha' & Ht').
      destruct (from_cons (is_up s) o r) as (Fa & Ft).
      rewrite Ha', Ht', Ha, Ht, Hu, Fa, Ft, <- !app_assoc. auto.
  Qed.

  Lemma run_from_app : forall h1 h2 s s1,
    run_from dec_m s h1 = Ok s1 -> run_from dec_m s (h1 ++ h2) = run_from dec_m s1 h2.
  Proof.
    induction h1 as [| o r IH]; intros h2 s s1 H.
    - inversion H; subst. reflexivity.
    - cbn [run_from app] in *. destruct (step dec_m s o) as [s' | |]; try discriminate. auto.
  Qed.

End WithCodec.
