(* C01 — lemmas, part 5: fetch and search over the index of a list of durable bulks. *)
From Coq Require Import List Bool Arith NArith Lia.
From C01 Require Import Model Proofs Proofs2.
Import ListNotations.
Open Scope nat_scope.

Lemma skipn_add : forall A a b (l : list A), skipn (a + b) l = skipn b (skipn a l).
Proof. induction a; intros; cbn [plus skipn]; auto. destruct l; [destruct b; reflexivity | apply IHa]. Qed.

Lemma frame_length : forall d, length (frame d) = 4 + length (d_body d).
Proof. intros. unfold frame, le32. rewrite app_length, le_enc_length. reflexivity. Qed.

Lemma raw_docs_app : forall a b, raw_docs (a ++ b) = raw_docs a ++ raw_docs b.
Proof. intros. unfold raw_docs. rewrite map_app, concat_app. reflexivity. Qed.

Lemma raw_docs_cons : forall d r, raw_docs (d :: r) = frame d ++ raw_docs r.
Proof. reflexivity. Qed.

Lemma find_in_metas_some : forall ds id off o,
  find_in_metas id (map meta_of ds) off = Some o ->
  exists ds1 d ds2, ds = ds1 ++ d :: ds2 /\ d_id d = id /\ o = off + length (raw_docs ds1).
Proof.
  induction ds as [| d r IH]; intros id off o H; cbn [map find_in_metas] in H; [discriminate |].
  cbn [meta_of m_id m_size] in H. destruct (d_id d =? id)%N eqn:E.
  - inversion H; subst. apply N.eqb_eq in E. exists [], d, r. cbn. auto.
  - apply IH in H. destruct H as (ds1 & d' & ds2 & -> & Hid & ->).
    exists (d :: ds1), d', ds2. split; auto. split; auto.
    rewrite raw_docs_cons, app_length, frame_length, nlen_to_nat. lia.
Qed.

Lemma find_in_metas_none : forall ds id off,
  find_in_metas id (map meta_of ds) off = None -> forall d, In d ds -> d_id d <> id.
Proof.
  induction ds as [| d r IH]; intros id off H d' Hin; [inversion Hin |].
  cbn [map find_in_metas meta_of m_id m_size] in H. destruct (d_id d =? id)%N eqn:E; [discriminate |].
  destruct Hin as [<- | Hin].
  - apply N.eqb_neq. exact E.
  - eapply IH; eauto.
Qed.

Lemma doc_at_frame : forall r1 d rest,
  doc_at (r1 ++ frame d ++ rest) (length r1) = Body (d_body d).
Proof.
  intros. unfold doc_at.
  replace (length (r1 ++ frame d ++ rest) <? length r1 + 4) with false
    by (symmetry; apply Nat.ltb_ge; rewrite !app_length, frame_length; lia).
  rewrite skipn_app_len.
  assert (H4 : firstn 4 (frame d ++ rest) = le32 (nlen (d_body d))).
  { unfold frame. rewrite <- app_assoc.
    replace 4 with (length (le32 (nlen (d_body d)))) at 1 by (unfold le32; apply le_enc_length).
    apply firstn_app_len. }
  rewrite H4. unfold le32. rewrite le_roundtrip.
  assert (Hs : skipn (length r1 + 4) (r1 ++ frame d ++ rest) = d_body d ++ rest).
  { rewrite skipn_add, skipn_app_len. unfold frame. rewrite <- app_assoc.
    replace 4 with (length (le32 (nlen (d_body d)))) by (unfold le32; apply le_enc_length).
    apply skipn_app_len. }
  rewrite Hs.
  replace (nlen (d_body d ++ rest) <? nlen (d_body d))%N with false
    by (symmetry; apply N.ltb_ge; unfold nlen; rewrite app_length; lia).
  rewrite nlen_to_nat, firstn_app_len. reflexivity.
Qed.

Lemma find_pos_some : forall bs doff id pos off,
  find_pos id (index_of bs doff) = Some (pos, off) ->
  exists bs1 b bs2, bs = bs1 ++ b :: bs2 /\ pos = doff + length (dfile bs1) /\
                    find_in_metas id (map meta_of (b_docs b)) 0 = Some off.
Proof.
  induction bs as [| b r IH]; intros doff id pos off H; cbn [index_of find_pos] in H; [discriminate |].
  destruct (find_in_metas id (map meta_of (b_docs b)) 0) as [o |] eqn:E.
  - inversion H; subst. exists [], b, r. cbn [dfile length app]. rewrite Nat.add_0_r. auto.
  - apply IH in H. destruct H as (bs1 & b' & bs2 & -> & -> & Hf).
    exists (b :: bs1), b', bs2. cbn [dfile app]. rewrite app_length. split; auto. split; auto. lia.
Qed.

Lemma find_pos_none : forall bs doff id,
  find_pos id (index_of bs doff) = None ->
  forall b d, In b bs -> In d (b_docs b) -> d_id d <> id.
Proof.
  induction bs as [| b r IH]; intros doff id H b' d Hb Hd; [inversion Hb |].
  cbn [index_of find_pos] in H.
  destruct (find_in_metas id (map meta_of (b_docs b)) 0) as [o |] eqn:E; [discriminate |].
  destruct Hb as [<- | Hb].
  - eapply find_in_metas_none; eauto.
  - eapply IH; eauto.
Qed.

Section WithCodec.
  Variable dec_m : list N -> option (list dmeta).
  Variable dec_d : list N -> option (list N).
  Notation wf_bulk := (wf_bulk dec_m dec_d).

  (* fetch over the files and the index of bs: never an error, a body only of a document of bs *)
  Lemma fetch_char : forall bs m od om id, Forall wf_bulk bs ->
    match fetch dec_d (Disk (dfile bs) m) (Proc od om (index_of bs 0)) id with
    | Absent => forall b d, In b bs -> In d (b_docs b) -> d_id d <> id
    | Body x => exists b d, In b bs /\ In d (b_docs b) /\ d_id d = id /\ x = d_body d
    | FetchErr => False
    end.
  Proof.
    intros bs m od om id Hwf. unfold fetch. cbn [idx docs].
    destruct (find_pos id (index_of bs 0)) as [[pos off] |] eqn:E.
    - apply find_pos_some in E. destruct E as (bs1 & b & bs2 & -> & -> & Hf).
      apply find_in_metas_some in Hf. destruct Hf as (ds1 & d & ds2 & Hds & Hid & ->).
      rewrite dfile_app. cbn [dfile plus]. rewrite read_dblock_ok, payload_dblock.
      assert (Hb : wf_bulk b) by (rewrite Forall_forall in Hwf; apply Hwf, in_or_app; right; left; auto).
      destruct Hb as (_ & _ & _ & Hdd). rewrite Hdd, Hds, raw_docs_app, raw_docs_cons.
      cbn [plus]. rewrite doc_at_frame.
      exists b, d. split; [apply in_or_app; right; left; auto |].
      split; [rewrite Hds; apply in_or_app; right; left; auto | auto].
    - eapply find_pos_none; eauto.
  Qed.

  Lemma index_of_in : forall bs doff e, In e (index_of bs doff) ->
    exists b, In b bs /\ snd e = map meta_of (b_docs b).
  Proof.
    induction bs as [| b r IH]; intros doff e H; [inversion H |].
    cbn [index_of] in H. destruct H as [<- | H].
    - exists b. split; [left |]; auto.
    - apply IH in H. destruct H as (b' & Hb & He). exists b'. split; [right |]; auto.
  Qed.

  Lemma in_index_of : forall bs doff b, In b bs ->
    exists pos, In (pos, map meta_of (b_docs b)) (index_of bs doff).
  Proof.
    induction bs as [| b0 r IH]; intros doff b H; [inversion H |].
    cbn [index_of]. destruct H as [<- | H].
    - eexists. left. reflexivity.
    - destruct (IH (doff + length (dblock b0)) b H) as (pos & Hp). exists pos. right. exact Hp.
  Qed.

  Lemma has_tok_in : forall t d, has_tok t (meta_of d) = true <-> In t (d_toks d).
  Proof.
    intros. unfold has_tok. cbn [meta_of m_toks]. rewrite existsb_exists. split.
    - intros (x & Hx & E). apply N.eqb_eq in E. subst. exact Hx.
    - intros H. exists t. split; auto. apply N.eqb_refl.
  Qed.

  Lemma search_char : forall bs od om doff t id,
    In id (search (Proc od om (index_of bs doff)) t) <->
    exists b d, In b bs /\ In d (b_docs b) /\ d_id d = id /\ In t (d_toks d).
  Proof.
    intros. unfold search. cbn [idx]. rewrite in_flat_map. split.
    - intros (e & He & Hin). apply index_of_in in He. destruct He as (b & Hb & Hs).
      rewrite Hs in Hin. apply in_map_iff in Hin. destruct Hin as (m & Hm & Hf).
      apply filter_In in Hf. destruct Hf as (Hmi & Ht).
      apply in_map_iff in Hmi. destruct Hmi as (d & <- & Hd).
      exists b, d. cbn [meta_of m_id] in Hm. repeat split; auto. apply has_tok_in. exact Ht.
    - intros (b & d & Hb & Hd & Hid & Ht).
      destruct (in_index_of bs doff b Hb) as (pos & Hp).
      exists (pos, map meta_of (b_docs b)). split; auto. cbn [snd].
      apply in_map_iff. exists (meta_of d). split; [exact Hid |].
      apply filter_In. split; [apply in_map; auto | apply has_tok_in; auto].
  Qed.

End WithCodec.
