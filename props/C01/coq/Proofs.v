(* C01 — lemmas. *)
From Coq Require Import List Bool Arith NArith Lia.
From C01 Require Import Model.
Import ListNotations.
Open Scope nat_scope.

Lemma le_roundtrip : forall n x, le_dec (le_enc n x) = x.
Proof.
  induction n; intros x; simpl.
  - lia.
  - rewrite IHn. pose proof (N.div_mod x 256). lia.
Qed.
