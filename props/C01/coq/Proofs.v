(* C01 — lemmas, part 1: little-endian fields, block headers, ReadDocBlock. *)
From Coq Require Import List Bool Arith NArith Lia.
From C01 Require Import Model.
Import ListNotations.
Open Scope nat_scope.

Lemma le_roundtrip : forall n x, le_dec (le_enc n x) = x.
Proof.
  induction n; intros x; cbn [le_enc le_dec].
  - lia.
  - rewrite IHn. pose proof (N.div_mod x 256 ltac:(lia)). lia.
Qed.

Lemma le_enc_length : forall n x, length (le_enc n x) = S n.
Proof. induction n; intros; simpl; auto. Qed.

Lemma nlen_to_nat : forall A (l : list A), N.to_nat (nlen l) = length l.
Proof. intros. unfold nlen. apply Nat2N.id. Qed.

(* ---------- list helpers ---------- *)

Lemma skipn_app_len : forall A (a b : list A), skipn (length a) (a ++ b) = b.
Proof. induction a; simpl; auto. Qed.

Lemma firstn_app_len : forall A (a b : list A), firstn (length a) (a ++ b) = a.
Proof. induction a; simpl; intros; auto. f_equal. apply IHa. Qed.

Lemma firstn_ge : forall A n (l : list A), length l <= n -> firstn n l = l.
Proof. intros. apply firstn_all2. lia. Qed.

Lemma firstn_app_ge : forall A n (a b : list A), length a <= n ->
  firstn n (a ++ b) = a ++ firstn (n - length a) b.
Proof. intros. rewrite firstn_app. rewrite firstn_ge by lia. reflexivity. Qed.

Lemma firstn_plus_app : forall A n (a b : list A),
  firstn (length a + n) (a ++ b) = a ++ firstn n b.
Proof. intros. rewrite firstn_app_ge by lia. f_equal. f_equal. lia. Qed.

(* ---------- header ---------- *)

Lemma hdr_length : forall len raw e1 e2, length (hdr len raw e1 e2) = HDR.
Proof. intros. reflexivity. Qed.

Lemma hdr_len_hdr : forall len raw e1 e2, hdr_len (hdr len raw e1 e2) = len.
Proof. intros. exact (le_roundtrip 7 len). Qed.

Lemma block_length : forall pay raw e1 e2, length (block pay raw e1 e2) = HDR + length pay.
Proof. intros. unfold block. rewrite app_length, hdr_length. reflexivity. Qed.

Lemma hdr_ext1_block : forall pay raw e1 e2, hdr_ext1 (block pay raw e1 e2) = e1.
Proof. intros. exact (le_roundtrip 7 e1). Qed.

Lemma payload_block : forall pay raw e1 e2, payload (block pay raw e1 e2) = pay.
Proof. intros. reflexivity. Qed.

Lemma firstn_hdr_block : forall pay raw e1 e2 rest,
  firstn HDR (block pay raw e1 e2 ++ rest) = hdr (nlen pay) raw e1 e2.
Proof.
  intros. unfold block. rewrite <- app_assoc.
  rewrite <- (hdr_length (nlen pay) raw e1 e2) at 1. apply firstn_app_len.
Qed.

(* ---------- ReadDocBlock ---------- *)

(* a complete block at its boundary is returned whole, whatever follows *)
Lemma read_block_ok : forall pre pay raw e1 e2 rest,
  read_doc_block (pre ++ block pay raw e1 e2 ++ rest) (length pre) = RdOk (block pay raw e1 e2).
Proof.
  intros. unfold read_doc_block, read_at. rewrite skipn_app_len.
  rewrite firstn_hdr_block. rewrite hdr_length. rewrite Nat.ltb_irrefl.
  rewrite hdr_len_hdr.
  assert (Hfull : N.to_nat (nlen pay + 33) = length (block pay raw e1 e2)).
  { rewrite block_length. rewrite N2Nat.inj_add, nlen_to_nat. unfold HDR. simpl. lia. }
  replace (nlen (block pay raw e1 e2 ++ rest) <? nlen pay + 33)%N with false.
  - rewrite Hfull. rewrite firstn_app_len. reflexivity.
  - symmetry. apply N.ltb_ge. unfold nlen. rewrite app_length, block_length. unfold HDR. lia.
Qed.

(* lem:hdr_prefix_eof — a strict prefix of a block is reported as EOF *)
Lemma read_block_prefix_eof : forall pre pay raw e1 e2 c,
  c < length (block pay raw e1 e2) ->
  read_doc_block (pre ++ firstn c (block pay raw e1 e2)) (length pre) = RdEOF.
Proof.
  intros pre pay raw e1 e2 c Hc. unfold read_doc_block, read_at. rewrite skipn_app_len.
  destruct (Nat.lt_ge_cases c HDR) as [Hlt | Hge].
  - replace (length (firstn HDR (firstn c (block pay raw e1 e2))) <? HDR) with true; auto.
    symmetry. apply Nat.ltb_lt. rewrite firstn_length, firstn_length. lia.
  - rewrite firstn_firstn. replace (Nat.min HDR c) with HDR by lia.
    pose proof (firstn_hdr_block pay raw e1 e2 []) as Hh. rewrite app_nil_r in Hh. rewrite Hh.
    rewrite hdr_length, Nat.ltb_irrefl, hdr_len_hdr.
    replace (nlen (firstn c (block pay raw e1 e2)) <? nlen pay + 33)%N with true; auto.
    symmetry. apply N.ltb_lt. unfold nlen. rewrite firstn_length.
    rewrite block_length in Hc. unfold HDR in *. lia.
Qed.

Definition eof_tail (tm : list N) : Prop :=
  forall pre, read_doc_block (pre ++ tm) (length pre) = RdEOF.

Lemma eof_tail_nil : eof_tail [].
Proof. intro pre. unfold read_doc_block, read_at. rewrite skipn_app_len. reflexivity. Qed.

Lemma eof_tail_prefix : forall pay raw e1 e2 c,
  c < length (block pay raw e1 e2) -> eof_tail (firstn c (block pay raw e1 e2)).
Proof. intros; intro pre. apply read_block_prefix_eof; auto. Qed.
