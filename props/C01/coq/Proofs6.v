(* C01 — lemmas, part 6: the statements about whole histories. *)
From Coq Require Import List Bool Arith NArith Lia.
From C01 Require Import Model Proofs Proofs2 Proofs3 Proofs4 Proofs5.
Import ListNotations.
Open Scope nat_scope.

Section WithCodec.
  Variable dec_m : list N -> option (list dmeta).
  Variable dec_d : list N -> option (list N).
  Notation wf_bulk := (wf_bulk dec_m dec_d).
  Notation wf_hist := (wf_hist dec_m dec_d).
  Notation Inv := (Inv dec_m dec_d).

  Lemma functional_incl : forall a b, incl a b -> ids_functional b -> ids_functional a.
  Proof.
    unfold ids_functional; intros a b Hi Hf b1 b2 d1 d2 H1 H2 H3 H4 H5.
    exact (Hf b1 b2 d1 d2 (Hi _ H1) (Hi _ H2) H3 H4 H5).
  Qed.

  (* what a running store shows is exactly the documents of the durable bulks *)
  Lemma visible_char : forall s dur p,
    Inv s dur -> s_proc s = Some p ->
    (forall id, match fetch dec_d (s_disk s) p id with
                | Absent => forall b d, In b dur -> In d (b_docs b) -> d_id d <> id
                | Body x => exists b d, In b dur /\ In d (b_docs b) /\ d_id d = id /\ x = d_body d
                | FetchErr => False
                end) /\
    (forall t id, In id (search p t) <->
                  exists b d, In b dur /\ In d (b_docs b) /\ d_id d = id /\ In t (d_toks d)).
  Proof.
    intros s dur p (Hwf & _ & _ & Hst) Hp. rewrite Hp in Hst.
    destruct Hst as (Hd & _ & _ & Hix). destruct p as [od om ix]. cbn [idx] in Hix. subst ix.
    rewrite Hd. split.
    - intros id. apply (fetch_char dec_m dec_d); auto.
    - intros t id. apply (search_char dur od om 0 t id).
  Qed.

  Lemma present_of_durable : forall s dur p b d,
    Inv s dur -> s_proc s = Some p -> ids_functional dur ->
    In b dur -> In d (b_docs b) ->
    fetch dec_d (s_disk s) p (d_id d) = Body (d_body d) /\
    (forall t, In t (d_toks d) -> In (d_id d) (search p t)).
  Proof.
    intros s dur p b d HI Hp Hf Hb Hd.
    destruct (visible_char s dur p HI Hp) as (Hfetch & Hsearch). split.
    - specialize (Hfetch (d_id d)). destruct (fetch dec_d (s_disk s) p (d_id d)) as [| x |].
      + exfalso. eapply Hfetch; eauto.
      + destruct Hfetch as (b' & d' & Hb' & Hd' & Hid & ->).
        rewrite (Hf b' b d' d Hb' Hb Hd' Hd Hid). reflexivity.
      + contradiction.
    - intros t Ht. apply Hsearch. exists b, d. auto.
  Qed.

  Lemma absent_of_not_durable : forall s dur p id,
    Inv s dur -> s_proc s = Some p ->
    (forall b d, In b dur -> In d (b_docs b) -> d_id d <> id) ->
    fetch dec_d (s_disk s) p id = Absent /\ (forall t, ~ In id (search p t)).
  Proof.
    intros s dur p id HI Hp Hno.
    destruct (visible_char s dur p HI Hp) as (Hfetch & Hsearch). split.
    - specialize (Hfetch id). destruct (fetch dec_d (s_disk s) p id) as [| x |]; auto.
      + destruct Hfetch as (b & d & Hb & Hd & Hid & _). exfalso. eapply Hno; eauto.
      + contradiction.
    - intros t Hin. apply Hsearch in Hin. destruct Hin as (b & d & Hb & Hd & Hid & _).
      eapply Hno; eauto.
  Qed.

  Lemma run_char : forall h, wf_hist h ->
    exists s dur, run dec_m h = Ok s /\ Inv s dur /\ incl dur (hist_bulks h) /\
                  s_acked s = acked_of h /\ s_tried s = tried_of h.
  Proof.
    intros h (Hwf & _).
    destruct (run_inv dec_m dec_d h st0 [] (inv0 dec_m dec_d) Hwf) as (s & ext & Hr & HI & Hin).
    exists s, ext. cbn [app] in HI.
    split; [exact Hr |]. split; [exact HI |]. split; [exact Hin |]. split.
    - destruct (run_ghost dec_m h st0 s Hr) as (Ha & _). exact Ha.
    - destruct (run_ghost dec_m h st0 s Hr) as (_ & Ht). exact Ht.
  Qed.

  (* thm:C01_restart_total *)
  Lemma restart_total : forall h, wf_hist h -> exists s, run dec_m h = Ok s.
  Proof. intros h Hw. destruct (run_char h Hw) as (s & _ & Hr & _). eauto. Qed.

  (* thm:C01_unacked_atomic (and the characterisation everything else follows from) *)
  Lemma durable_char : forall h s p,
    wf_hist h -> run dec_m h = Ok s -> s_proc s = Some p ->
    exists dur,
      incl (acked_of h) dur /\ incl dur (acked_of h ++ tried_of h) /\
      (forall b d, In b dur -> In d (b_docs b) ->
         fetch dec_d (s_disk s) p (d_id d) = Body (d_body d) /\
         (forall t, In t (d_toks d) -> In (d_id d) (search p t))) /\
      (forall id, (forall b d, In b dur -> In d (b_docs b) -> d_id d <> id) ->
         fetch dec_d (s_disk s) p id = Absent /\ (forall t, ~ In id (search p t))) /\
      (forall id, fetch dec_d (s_disk s) p id <> FetchErr) /\
      (forall t id, In id (search p t) ->
         exists b d, In b dur /\ In d (b_docs b) /\ d_id d = id /\ In t (d_toks d)).
  Proof.
    intros h s p Hw Hr Hp.
    destruct (run_char h Hw) as (s1 & dur & Hr1 & HI & Hin & Ha & Ht).
    rewrite Hr in Hr1. inversion Hr1; subst s1. clear Hr1.
    pose proof HI as (_ & Hack & Hsub & _). rewrite Ha in Hack. rewrite Ha, Ht in Hsub.
    assert (Hf : ids_functional dur) by (eapply functional_incl; [exact Hin | apply Hw]).
    exists dur. split; auto. split; auto.
    split; [intros; eapply present_of_durable; eauto |].
    split; [intros; eapply absent_of_not_durable; eauto |].
    destruct (visible_char s dur p HI Hp) as (Hfetch & Hsearch).
    split.
    - intros id E. specialize (Hfetch id). rewrite E in Hfetch. exact Hfetch.
    - intros t id Hi. apply Hsearch. exact Hi.
  Qed.

  (* thm:C01_acked_durable *)
  Lemma acked_durable : forall h s p b d,
    wf_hist h -> run dec_m h = Ok s -> s_proc s = Some p ->
    In b (acked_of h) -> In d (b_docs b) ->
    fetch dec_d (s_disk s) p (d_id d) = Body (d_body d) /\
    (forall t, In t (d_toks d) -> In (d_id d) (search p t)).
  Proof.
    intros h s p b d Hw Hr Hp Hb Hd.
    destruct (durable_char h s p Hw Hr Hp) as (dur & Hack & _ & Hpres & _).
    exact (Hpres b d (Hack _ Hb) Hd).
  Qed.

  Lemma hist_bulks_app : forall h1 h2, hist_bulks (h1 ++ h2) = hist_bulks h1 ++ hist_bulks h2.
  Proof. intros. unfold hist_bulks. apply flat_map_app. Qed.

  (* "and stays so across all later operations" *)
  Lemma verdict_stable : forall h h' s p s' p',
    wf_hist (h ++ h') ->
    run dec_m h = Ok s -> s_proc s = Some p ->
    run dec_m (h ++ h') = Ok s' -> s_proc s' = Some p' ->
    (forall id x, fetch dec_d (s_disk s) p id = Body x -> fetch dec_d (s_disk s') p' id = Body x) /\
    (forall t id, In id (search p t) -> In id (search p' t)) /\
    (forall id, fetch dec_d (s_disk s) p id = Absent ->
       (forall b d, In b (hist_bulks h') -> In d (b_docs b) -> d_id d <> id) ->
       fetch dec_d (s_disk s') p' id = Absent /\ (forall t, ~ In id (search p' t))).
  Proof.
    intros h h' s p s' p' (Hwf & Hfun) Hr Hp Hr' Hp'.
    rewrite hist_bulks_app in Hwf, Hfun. apply Forall_app in Hwf. destruct Hwf as (Hw1 & Hw2).
    destruct (run_inv dec_m dec_d h st0 [] (inv0 dec_m dec_d) Hw1) as (s1 & dur & Hr1 & HI & Hin).
    unfold run in Hr. rewrite Hr in Hr1. inversion Hr1; subst s1. clear Hr1. cbn [app] in HI.
    destruct (run_inv dec_m dec_d h' s dur HI Hw2) as (s2 & ext & Hr2 & HI2 & Hin2).
    unfold run in Hr'. rewrite (run_from_app dec_m h h' st0 s Hr) in Hr'.
    rewrite Hr' in Hr2. inversion Hr2; subst s2. clear Hr2.
    assert (Hall : incl (dur ++ ext) (hist_bulks h ++ hist_bulks h'))
      by (apply incl_app; [apply incl_appl | apply incl_appr]; auto).
    assert (Hf2 : ids_functional (dur ++ ext)) by (eapply functional_incl; eauto).
    destruct (visible_char s dur p HI Hp) as (Hfetch & Hsearch).
    split; [| split].
    - intros id x E. specialize (Hfetch id). rewrite E in Hfetch.
      destruct Hfetch as (b & d & Hb & Hd & <- & ->).
      eapply present_of_durable; eauto. apply in_or_app; auto.
    - intros t id Hi. apply Hsearch in Hi. destruct Hi as (b & d & Hb & Hd & <- & Ht).
      eapply (proj2 (present_of_durable s' (dur ++ ext) p' b d HI2 Hp' Hf2 (in_or_app _ _ _ (or_introl Hb)) Hd)); auto.
    - intros id E Hno. specialize (Hfetch id). rewrite E in Hfetch.
      eapply absent_of_not_durable; eauto.
      intros b d Hb Hd. apply in_app_or in Hb. destruct Hb as [Hb | Hb].
      + eapply Hfetch; eauto.
      + eapply Hno; eauto.
  Qed.

End WithCodec.
