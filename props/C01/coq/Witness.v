(* C01 — concrete histories: non-vacuity of the theorems' hypotheses, and the two defects of the
   start-up before commit 581f818 (kept as restart_v0 / run_v0). *)
From Coq Require Import List Bool Arith NArith Lia.
From VLib Require Import CaseLib.
From C01 Require Import Model CaseDefs Proofs4.
Import ListNotations.
Open Scope nat_scope.

Definition wd1 := Doc 1 [97; 98; 99]%N [1; 2]%N.
Definition wd2 := Doc 2 [100; 101]%N [2]%N.
Definition wd3 := Doc 3 [102; 103; 104; 105]%N [1]%N.
Definition wb1 := Bulk [wd1] [201; 1; 1]%N 7 [211; 1; 1; 1]%N 30.
Definition wb2 := Bulk [wd2] [202; 2; 2]%N 6 [212; 2; 2; 2]%N 30.
Definition wb3 := Bulk [wd3] [203; 3; 3]%N 8 [213; 3; 3; 3]%N 30.
Definition wbs := [wb1; wb2; wb3].
Definition wdm := dec_m_of wbs.
Definition wdd := dec_d_of wbs.

(* bulk, crash after the docs block of the next bulk is durable (meta write torn at t), start,
   a further bulk, start *)
Definition w_hist (t : nat) : list hop :=
  [HRestart; HBulk wb1; HCrashIn wb2 2 t 0 1000; HRestart; HBulk wb3; HRestart].

Lemma w_functional : ids_functional wbs.
Proof.
  intros b1 b2 d1 d2 H1 H2 H3 H4 H5. cbn in H1, H2.
  repeat (destruct H1 as [H1 | H1]; [subst b1 |]); try contradiction;
  repeat (destruct H2 as [H2 | H2]; [subst b2 |]); try contradiction;
  cbn in H3, H4;
  (destruct H3 as [H3 | H3]; [subst d1 | contradiction]);
  (destruct H4 as [H4 | H4]; [subst d2 | contradiction]);
  try reflexivity; cbn in H5; discriminate H5.
Qed.

Lemma w_wf : forall t, wf_hist wdm wdd (w_hist t).
Proof.
  intros t. split.
  - cbn. repeat constructor; try discriminate.
  - cbn. intros b1 b2 d1 d2 H1 H2. apply w_functional; cbn in *; intuition.
Qed.

Definition final_fetch (r : res st) (id : N) : option fetched :=
  match r with
  | Ok s => match s_proc s with Some p => Some (fetch wdd (s_disk s) p id) | None => None end
  | _ => None
  end.

(* the repaired start-up: orphan docs block / torn meta tail are cut off, the later bulk is intact *)
Lemma w_repaired_orphan : final_fetch (run wdm (w_hist 0)) 3 = Some (Body (d_body wd3)).
Proof. vm_compute. reflexivity. Qed.
Lemma w_repaired_torn : final_fetch (run wdm (w_hist 10)) 3 = Some (Body (d_body wd3)).
Proof. vm_compute. reflexivity. Qed.
Lemma w_repaired_complete_unacked :
  final_fetch (run wdm (w_hist 100)) 2 = Some (Body (d_body wd2)) /\
  final_fetch (run wdm (w_hist 36)) 2 = Some Absent.
Proof. vm_compute. split; reflexivity. Qed.

(* the old start-up, defect #1: after the second start the acknowledged document 3 is served
   with the bytes of document 2 (the orphan block's) *)
Lemma w_v0_orphan : final_fetch (run_v0 wdm (w_hist 0)) 3 = Some (Body (d_body wd2)).
Proof. vm_compute. reflexivity. Qed.
(* defect #2: the second start parses a header inside the torn tail and dies *)
Lemma w_v0_torn : run_v0 wdm (w_hist 10) = Panic.
Proof. vm_compute. reflexivity. Qed.

Lemma w_acked : forall t, acked_of (w_hist t) = [wb1; wb3].
Proof. reflexivity. Qed.

(* ---------- concurrent bulks: splitting the locked unit ---------- *)
Definition wd4 := Doc 4 [110; 111; 112; 113; 114; 115]%N [3]%N.
Definition wb4 := Bulk [wd4] [204; 4; 4; 4; 4; 4; 4; 4; 4]%N 10 [214; 4; 4; 4]%N 30.
Definition wcs := [wb4; wb1].            (* A = wb4 (larger docs block), B = wb1 *)
Definition wdm' := dec_m_of wcs.
Definition wdd' := dec_d_of wcs.
Definition w_empty := WSt [] [] 0 0 [] [].

(* A reserves its docs offset first, B's meta block reaches the meta file first *)
Definition w_split := run_events wcs w_empty [EvDocs 0; EvDocs 1; EvMeta 1; EvMeta 0].
Definition w_locked := run_events wcs w_empty (locked [UOk 0; UOk 1]).

Definition fetch_after_restart (w : wst) (id : N) : option fetched :=
  match restart wdm' (Disk (w_docs w) (w_meta w)) with
  | Ok (d, p, _) => Some (fetch wdd' d p id)
  | _ => None
  end.

Lemma w_split_breaks :
  meta_describes_docs (w_meta w_split) = false /\
  fetch_after_restart w_split 1 = Some (Body (d_body wd4)).     (* B's ID returns A's bytes *)
Proof. vm_compute. split; reflexivity. Qed.

Lemma w_locked_fine :
  meta_describes_docs (w_meta w_locked) = true /\
  fetch_after_restart w_locked 1 = Some (Body (d_body wd1)) /\
  fetch_after_restart w_locked 4 = Some (Body (d_body wd4)).
Proof. vm_compute. repeat split; reflexivity. Qed.

(* ---------- a write that fails with an I/O error (no crash) ---------- *)
Definition w_fault_hist (in_meta : bool) (cut : nat) : list hop :=
  [HRestart; HBulk wb1; HFault wb2 in_meta cut; HBulk wb3; HRestart].
(* ... and the process dies inside the rollback (a bytes of docs, c of meta left), start, bulk, start *)
Definition w_fault_crash_hist (a c : nat) : list hop :=
  [HRestart; HBulk wb1; HFaultCrash wb2 a c; HRestart; HBulk wb3; HRestart].

Lemma w_fault_wf : forall fm cut, wf_hist wdm wdd (w_fault_hist fm cut).
Proof.
  intros. split.
  - cbn. repeat constructor; try discriminate.
  - cbn. intros b1 b2 d1 d2 H1 H2. apply w_functional; cbn in *; intuition.
Qed.
Lemma w_fault_crash_wf : forall a c, wf_hist wdm wdd (w_fault_crash_hist a c).
Proof.
  intros. split.
  - cbn. repeat constructor; try discriminate.
  - cbn. intros b1 b2 d1 d2 H1 H2. apply w_functional; cbn in *; intuition.
Qed.

(* repaired write path (rollback): the later bulk stays intact, the failed one is absent *)
Lemma w_fault_repaired :
  final_fetch (run wdm (w_fault_hist false 2)) 3 = Some (Body (d_body wd3)) /\
  final_fetch (run wdm (w_fault_hist true 34)) 3 = Some (Body (d_body wd3)) /\
  final_fetch (run wdm (w_fault_hist true 34)) 2 = Some Absent /\
  final_fetch (run wdm (w_fault_crash_hist 0 34)) 3 = Some (Body (d_body wd3)) /\   (* docs cut, meta not yet *)
  final_fetch (run wdm (w_fault_crash_hist 36 34)) 3 = Some (Body (d_body wd3)).      (* power loss before the rollback *)
Proof. vm_compute. repeat split; reflexivity. Qed.

(* write path before commit ce3aaa8 (run_f0): docs write fails after 2 bytes: bulk 3 is acknowledged
   and readable while the store runs ... *)
Lemma w_fault_docs_live :
  final_fetch (run_f0 wdm [HRestart; HBulk wb1; HFault wb2 false 2; HBulk wb3]) 3 = Some (Body (d_body wd3)).
Proof. vm_compute. reflexivity. Qed.
(* ... after a restart it is not, and the meta file no longer describes the docs file *)
Lemma w_fault_docs_restart :
  final_fetch (run_f0 wdm (w_fault_hist false 2)) 3 = Some FetchErr /\
  match run_f0 wdm [HRestart; HBulk wb1; HFault wb2 false 2; HBulk wb3] with
  | Ok s => meta_describes_docs (meta (s_disk s)) = false | _ => False end.
Proof. vm_compute. split; reflexivity. Qed.
(* meta write fails after 34 bytes (complete header): the next start parses a block inside the hole and dies *)
Lemma w_fault_meta_restart : run_f0 wdm (w_fault_hist true 34) = Panic.
Proof. vm_compute. reflexivity. Qed.

(* rollback order before commit 5db7f73 (docs cut first): the meta block had been written
   completely (the error came from its fsync), the process dies between the two truncations: a
   complete meta block without its docs block stays behind (fault_crash_v0 .. 0 37); then start,
   bulk 3, start *)
Definition w_hazard_state : st :=
  match run wdm [HRestart; HBulk wb1] with
  | Ok s => match s_proc s with
            | Some p => St (fault_crash_v0 (s_disk s) p wb2 0 37) None (s_acked s) (s_tried s ++ [wb2]) (s_ops s)
            | None => s
            end
  | _ => st0
  end.
Lemma w_rollback_order_hazard :
  final_fetch (run_from wdm w_hazard_state [HRestart; HBulk wb3; HRestart]) 3 = Some FetchErr /\
  final_fetch (run_from wdm w_hazard_state [HRestart; HBulk wb3; HRestart]) 2 = Some (Body (d_body wd3)).
Proof. vm_compute. split; reflexivity. Qed.
(* with the meta file cut first the same crash point leaves an orphan docs block: harmless;
   and a complete meta block implies a complete docs block: the failed bulk is simply durable *)
Lemma w_rollback_meta_first :
  final_fetch (run wdm (w_fault_crash_hist 39 0)) 3 = Some (Body (d_body wd3)) /\
  final_fetch (run wdm (w_fault_crash_hist 0 37)) 3 = Some (Body (d_body wd3)) /\
  final_fetch (run wdm (w_fault_crash_hist 0 37)) 2 = Some (Body (d_body wd2)).
Proof. vm_compute. repeat split; reflexivity. Qed.

(* ---------- concurrent bulks with a failing one: where the rollback target is read ----------
   B = wb1 is acknowledged; A = wb4 waits for the lock behind it and its docs write fails after 2
   bytes. Snapshot inside the unit (current code): A's rollback is the identity, B stays. *)
Definition w_fail_locked := run_events wcs w_empty (locked [UOk 1; UFail 0 false 2]).
(* snapshot taken BEFORE the lock, i.e. before B ran: A's rollback cuts B's blocks off *)
Definition w_fail_stale :=
  run_events wcs w_empty [EvSnap 0; EvSnap 1; EvDocs 1; EvMeta 1; EvFailDocs 0 2; EvRollback 0].

Lemma w_snapshot_inside_fine :
  fetch_after_restart w_fail_locked 1 = Some (Body (d_body wd1)) /\
  fetch_after_restart w_fail_locked 4 = Some Absent.
Proof. vm_compute. split; reflexivity. Qed.
Lemma w_snapshot_before_lock_breaks :
  w_docs w_fail_stale = [] /\ w_meta w_fail_stale = [] /\
  fetch_after_restart w_fail_stale 1 = Some Absent.        (* the acknowledged bulk is gone *)
Proof. vm_compute. repeat split; reflexivity. Qed.
