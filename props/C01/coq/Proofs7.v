(* C01 — lemmas, part 7: meta order = docs order (the invariant Replay relies on), for every
   history and for every interleaving of locked units of concurrent bulks. *)
From Coq Require Import List Bool Arith NArith Lia.
From C01 Require Import Model Proofs Proofs2 Proofs3 Proofs4 Proofs6.
Import ListNotations.
Open Scope nat_scope.

Lemma ext2_mblock : forall b e2, hdr_ext2 (mblock b e2) = N.of_nat e2.
Proof. intros. exact (le_roundtrip 7 (N.of_nat e2)). Qed.

Lemma ext1_mblock_N : forall b e2, hdr_ext1 (mblock b e2) = nlen (dblock b).
Proof. intros. unfold mblock. apply hdr_ext1_block. Qed.

(* (Ext1, Ext2) of the meta blocks of bs when the first docs block starts at doff *)
Fixpoint exts (bs : list bulk) (doff : nat) : list (N * N) :=
  match bs with
  | [] => []
  | b :: r => (nlen (dblock b), N.of_nat doff) :: exts r (doff + length (dblock b))
  end.

Lemma meta_exts_loop_blocks : forall bs fuel pre e2 tm,
  eof_tail tm -> length bs < fuel ->
  meta_exts_loop fuel (pre ++ mfile bs e2 ++ tm) (length pre) = exts bs e2.
Proof.
  induction bs as [| b r IH]; intros fuel pre e2 tm Htm Hfuel.
  - destruct fuel; [simpl in Hfuel; lia |]. cbn [meta_exts_loop mfile app]. rewrite Htm. reflexivity.
  - destruct fuel; [simpl in Hfuel; lia |]. cbn [meta_exts_loop mfile exts].
    rewrite <- app_assoc. rewrite read_mblock_ok, ext1_mblock_N, ext2_mblock. f_equal.
    replace (pre ++ mblock b e2 ++ mfile r (e2 + length (dblock b)) ++ tm)
      with ((pre ++ mblock b e2) ++ mfile r (e2 + length (dblock b)) ++ tm)
      by (rewrite <- app_assoc; reflexivity).
    replace (length pre + length (mblock b e2)) with (length (pre ++ mblock b e2))
      by (rewrite app_length; reflexivity).
    apply IH; auto. simpl in Hfuel. lia.
Qed.

Lemma chain_exts : forall bs doff, ext_chain_ok (exts bs doff) (N.of_nat doff) = true.
Proof.
  induction bs as [| b r IH]; intros doff; cbn [exts ext_chain_ok]; auto.
  rewrite N.eqb_refl. cbn [andb].
  replace (N.of_nat doff + nlen (dblock b))%N with (N.of_nat (doff + length (dblock b)))
    by (unfold nlen; lia).
  apply IH.
Qed.

Lemma meta_describes_blocks : forall bs tm, eof_tail tm ->
  meta_describes_docs (mfile bs 0 ++ tm) = true.
Proof.
  intros bs tm Htm. unfold meta_describes_docs, meta_exts.
  pose proof (meta_exts_loop_blocks bs (S (length (mfile bs 0 ++ tm))) [] 0 tm Htm) as R.
  cbn [app length] in R. rewrite R.
  - exact (chain_exts bs 0).
  - rewrite app_length. pose proof (mfile_length_ge bs 0). lia.
Qed.

Section WithCodec.
  Variable dec_m : list N -> option (list dmeta).
  Variable dec_d : list N -> option (list N).

  (* in every reachable state (running or crashed), the meta file describes the docs file *)
  Lemma meta_order_invariant : forall h s,
    wf_hist dec_m dec_d h -> run dec_m h = Ok s -> meta_describes_docs (meta (s_disk s)) = true.
  Proof.
    intros h s Hw Hr.
    destruct (run_char dec_m dec_d h Hw) as (s1 & dur & Hr1 & HI & _).
    rewrite Hr in Hr1. inversion Hr1; subst s1.
    destruct (inv_disk_form dec_m dec_d s dur HI) as (tm & td & Hd & Htm).
    rewrite Hd. cbn [meta]. apply meta_describes_blocks. exact Htm.
  Qed.
End WithCodec.

(* every interleaving of locked units - successful or failing, with the rollback target read
   inside the unit - is the sequence of the atomic bulk steps of the successful ones in lock order;
   a failed unit is the identity on files and writer offsets, whatever ran before it *)
Lemma locked_units : forall cbs us bs pend snap,
  exists pend' snap',
    run_events cbs (WSt (dfile bs) (mfile bs 0) (length (dfile bs)) (length (mfile bs 0)) pend snap)
               (locked us)
    = let bs' := bs ++ flat_map (unit_ok cbs) us in
      WSt (dfile bs') (mfile bs' 0) (length (dfile bs')) (length (mfile bs' 0)) pend' snap'.
Proof.
  intros cbs us. induction us as [| u r IH]; intros bs pend snap.
  - exists pend, snap. cbn. rewrite app_nil_r. reflexivity.
  - unfold run_events, locked in *. cbn [flat_map]. rewrite fold_left_app.
    destruct u as [i | i [|] cut].
    + (* successful unit *)
      cbn [unit_events fold_left ev_step w_docs w_meta w_offd w_offm w_pend w_snap find fst snd].
      rewrite Nat.eqb_refl. cbn [snd fst w_docs w_meta w_offd w_offm w_pend w_snap].
      rewrite !write_at_end.
      set (b := nth i cbs no_bulk).
      rewrite <- (dfile_snoc bs b), <- (mfile_snoc bs b).
      replace (length (dfile bs) + length (dblock b)) with (length (dfile (bs ++ [b])))
        by (rewrite dfile_snoc, app_length; reflexivity).
      replace (length (mfile bs 0) + length (mblock b (length (dfile bs))))
        with (length (mfile (bs ++ [b]) 0)) by (rewrite mfile_snoc, app_length; reflexivity).
      destruct (IH (bs ++ [b]) ((i, length (dfile bs)) :: pend)
                   ((i, (length (dfile bs), length (mfile bs 0))) :: snap)) as (pend' & snap' & E).
      exists pend', snap'. rewrite E. cbn [unit_ok app]. fold b. rewrite <- app_assoc. reflexivity.
    + (* the meta write fails: docs block and partial meta block are cut off again *)
      cbn [unit_events fold_left ev_step w_docs w_meta w_offd w_offm w_pend w_snap find fst snd].
      rewrite Nat.eqb_refl. cbn [snd fst w_docs w_meta w_offd w_offm w_pend w_snap find].
      rewrite Nat.eqb_refl. cbn [snd fst].
      rewrite !write_at_end, !firstn_app_len.
      destruct (IH bs ((i, length (dfile bs)) :: pend)
                   ((i, (length (dfile bs), length (mfile bs 0))) :: snap)) as (pend' & snap' & E).
      exists pend', snap'. rewrite E. reflexivity.
    + (* the docs write fails *)
      cbn [unit_events fold_left ev_step w_docs w_meta w_offd w_offm w_pend w_snap find fst snd].
      rewrite Nat.eqb_refl. cbn [snd fst].
      rewrite write_at_end, firstn_app_len, firstn_all.
      destruct (IH bs pend ((i, (length (dfile bs), length (mfile bs 0))) :: snap)) as (pend' & snap' & E).
      exists pend', snap'. rewrite E. reflexivity.
Qed.

Lemma locked_units_meta_order : forall cbs us bs pend snap,
  meta_describes_docs
    (w_meta (run_events cbs
       (WSt (dfile bs) (mfile bs 0) (length (dfile bs)) (length (mfile bs 0)) pend snap)
       (locked us))) = true.
Proof.
  intros. destruct (locked_units cbs us bs pend snap) as (pend' & snap' & E). rewrite E. cbn [w_meta].
  rewrite <- (app_nil_r (mfile _ 0)). apply meta_describes_blocks, eof_tail_nil.
Qed.
