(* C01 multi-fraction — lemmas, part 5: the statements about whole multi-fraction histories. *)
From Coq Require Import List Bool Arith NArith Lia.
From C01 Require Import Model Proofs Proofs2 Proofs3 Proofs4 Proofs5 Proofs6 ModelMulti ProofsM1 ProofsM2 ProofsM3 ProofsM4.
Import ListNotations.
Open Scope nat_scope.

Section WithCodec.
  Variable dec_m : list N -> option (list dmeta).
  Variable dec_d : list N -> option (list N).
  Notation wf_bulk := (wf_bulk dec_m dec_d).
  Notation wf_mhist := (wf_mhist dec_m dec_d).
  Notation mrun := (mrun dec_m dec_d).

  Lemma mrun_char : forall h, wf_mhist h ->
    exists s fb, mrun h = Ok s /\ MInv (mhist_bulks h) s fb /\
                 ms_acked s = macked_of h /\ ms_tried s = mtried_of h.
  Proof.
    intros h (Hwf & Hfun).
    destruct (mrun_inv dec_m dec_d (mhist_bulks h) Hwf Hfun h mst0 (fun _ => []) (minv0 _) (incl_refl _))
      as (s & fb & Hr & HI).
    exists s, fb. split; [exact Hr |]. split; [exact HI |].
    destruct (mrun_ghost dec_m dec_d h mst0 s Hr) as (Ha & Ht). auto.
  Qed.

  Lemma durable_sub : forall HB s fb, MInv HB s fb -> incl (durable_of s fb) HB.
  Proof.
    intros HB s fb (Hin & _) b Hb. apply in_durable in Hb. destruct Hb as (i & _ & Hb). exact (Hin i b Hb).
  Qed.

  (* thm:C01_unacked_atomic_multi (and the characterisation the others follow from) *)
  Lemma mdurable_char : forall h s mp,
    wf_mhist h -> mrun h = Ok s -> ms_proc s = Some mp ->
    exists dur,
      incl (macked_of h) dur /\ incl dur (macked_of h ++ mtried_of h) /\
      (forall b d, In b dur -> In d (b_docs b) ->
         mfetch dec_d (ms_dirs s) mp (d_id d) = Body (d_body d) /\
         (forall t, In t (d_toks d) -> In (d_id d) (msearch mp t))) /\
      (forall id, (forall b d, In b dur -> In d (b_docs b) -> d_id d <> id) ->
         mfetch dec_d (ms_dirs s) mp id = Absent /\ (forall t, ~ In id (msearch mp t))) /\
      (forall id, mfetch dec_d (ms_dirs s) mp id <> FetchErr) /\
      (forall t id, In id (msearch mp t) ->
         exists b d, In b dur /\ In d (b_docs b) /\ d_id d = id /\ In t (d_toks d)).
  Proof.
    intros h s mp Hw Hr Hp.
    destruct (mrun_char h Hw) as (s1 & fb & Hr1 & HI & Ha & Ht).
    rewrite Hr in Hr1. inversion Hr1; subst s1. clear Hr1.
    destruct Hw as (Hwf & Hfun).
    pose proof HI as (_ & _ & _ & Hack & Hsub & _). rewrite Ha in Hack. rewrite Ha, Ht in Hsub.
    pose proof (durable_sub _ _ _ HI) as Hdsub.
    destruct (mvisible_char dec_m dec_d (mhist_bulks h) Hwf s fb mp HI Hp) as (Hfetch & Hsearch).
    exists (durable_of s fb). split; [exact Hack |]. split; [exact Hsub |].
    split.
    { intros b d Hb Hd. split.
      - specialize (Hfetch (d_id d)). destruct (mfetch dec_d (ms_dirs s) mp (d_id d)) as [| x |].
        + exfalso. eapply Hfetch; eauto.
        + destruct Hfetch as (b' & d' & Hb' & Hd' & Hid & ->).
          rewrite (Hfun b' b d' d (Hdsub _ Hb') (Hdsub _ Hb) Hd' Hd Hid). reflexivity.
        + contradiction.
      - intros t Ht'. apply Hsearch. exists b, d. auto. }
    split.
    { intros id Hno. split.
      - specialize (Hfetch id). destruct (mfetch dec_d (ms_dirs s) mp id) as [| x |]; auto.
        + destruct Hfetch as (b & d & Hb & Hd & Hid & _). exfalso. eapply Hno; eauto.
        + contradiction.
      - intros t Hin. apply Hsearch in Hin. destruct Hin as (b & d & Hb & Hd & Hid & _). eapply Hno; eauto. }
    split.
    { intros id E. specialize (Hfetch id). rewrite E in Hfetch. exact Hfetch. }
    intros t id Hi. apply Hsearch. exact Hi.
  Qed.

  (* thm:C01_acked_durable_multi *)
  Lemma macked_durable : forall h s mp b d,
    wf_mhist h -> mrun h = Ok s -> ms_proc s = Some mp ->
    In b (macked_of h) -> In d (b_docs b) ->
    mfetch dec_d (ms_dirs s) mp (d_id d) = Body (d_body d) /\
    (forall t, In t (d_toks d) -> In (d_id d) (msearch mp t)).
  Proof.
    intros h s mp b d Hw Hr Hp Hb Hd.
    destruct (mdurable_char h s mp Hw Hr Hp) as (dur & Hack & _ & Hpres & _).
    exact (Hpres b d (Hack _ Hb) Hd).
  Qed.

  (* thm:C01_restart_total_multi *)
  Lemma mrestart_total : forall h, wf_mhist h ->
    exists s, mrun h = Ok s /\
      forall mp, ms_proc s = Some mp ->
        NoDup (map fst (mp_fracs mp)) /\
        (forall b d, In b (macked_of h) -> In d (b_docs b) ->
           exists i r, In (i, r) (mp_fracs mp) /\ rfetch dec_d (ms_dirs s i) r (d_id d) = Body (d_body d)).
  Proof.
    intros h Hw. destruct (mrun_char h Hw) as (s & fb & Hr & HI & Ha & Ht).
    exists s. split; [exact Hr |]. intros mp Hp.
    destruct Hw as (Hwf & Hfun).
    pose proof HI as (Hin & _ & _ & Hack & _ & HP). rewrite Hp in HP. rewrite Ha in Hack.
    destruct HP as [Hn Hs _ Hall _]. split; [exact Hn |].
    intros b d Hb Hd. apply Hack in Hb. apply in_durable in Hb. destruct Hb as (i & Hi & Hb).
    assert (Hne : fb i <> []) by (intro E; rewrite E in Hb; inversion Hb).
    destruct (Hall i Hne) as (r & Hr'). exists i, r. split; [exact Hr' |].
    destruct (Hs i r Hr') as (_ & Hsv).
    pose proof (rfetch_char dec_m dec_d (ms_dirs s i) r (fb i) (d_id d) Hsv
                  (sub_wf dec_m dec_d _ Hwf _ (Hin i))) as F.
    destruct (rfetch dec_d (ms_dirs s i) r (d_id d)) as [| x |].
    - exfalso. eapply F; eauto.
    - destruct F as (b' & d' & Hb' & Hd' & Hid & ->).
      rewrite (Hfun b' b d' d (Hin i _ Hb') (Hin i _ Hb) Hd' Hd Hid). reflexivity.
    - contradiction.
  Qed.

  (* thm:C01_active_after_restart *)
  Lemma mactive_writable : forall h s mp,
    wf_mhist h -> mrun h = Ok s -> ms_proc s = Some mp ->
    exists p dcs mt,
      (forall r, In (mp_active mp, r) (mp_fracs mp) <-> r = RActive p) /\
      fd_docs (ms_dirs s (mp_active mp)) = Some dcs /\ fd_meta (ms_dirs s (mp_active mp)) = Some mt /\
      fd_ix (ms_dirs s (mp_active mp)) = None /\
      off_d p = length dcs /\ off_m p = length mt /\
      (forall b ms, dec_m (b_mpay b) = Some ms ->
         exists s', mstep dec_m dec_d s (MBulk b) = Ok s' /\
           fd_docs (ms_dirs s' (mp_active mp)) = Some (dcs ++ dblock b) /\
           fd_meta (ms_dirs s' (mp_active mp)) = Some (mt ++ mblock b (length dcs)) /\
           (forall i, i <> mp_active mp -> ms_dirs s' i = ms_dirs s i)).
  Proof.
    intros h s mp Hw Hr Hp. destruct (mrun_char h Hw) as (s1 & fb & Hr1 & HI & _).
    rewrite Hr in Hr1. inversion Hr1; subst s1. clear Hr1.
    pose proof HI as (Hin & Hbey & _ & _ & _ & HP). rewrite Hp in HP.
    destruct HP as [Hn Hs (p & Hpa) _ _].
    destruct (Hs _ _ Hpa) as (Hlt & Hsv). cbn [Served] in Hsv.
    destruct Hsv as (Hm & Hd & Hi & _ & Hod & Hom & _).
    exists p, (dfile (fb (mp_active mp))), (mfile (fb (mp_active mp)) 0).
    split.
    { intros r. split.
      - intros Hr'. pose proof (lookup_in _ _ _ Hn Hr') as E1. pose proof (lookup_in _ _ _ Hn Hpa) as E2. congruence.
      - intros ->. exact Hpa. }
    split; [exact Hd |]. split; [exact Hm |]. split; [exact Hi |]. split; [exact Hod |]. split; [exact Hom |].
    intros b ms Hdm. unfold mstep, mstep0. rewrite Hp, (lookup_in _ _ _ Hn Hpa). unfold fdisk. rewrite Hd, Hm.
    rewrite (do_bulk_end dec_m _ p b ms) by (cbn [docs meta]; auto). cbn [docs meta].
    eexists. split; [reflexivity |]. unfold mfreeze. cbn [ms_dirs ms_next].
    assert (E : forall i, freeze (upd (ms_dirs s) (mp_active mp)
                (set_docs (set_meta (ms_dirs s (mp_active mp))
                   (Some (mfile (fb (mp_active mp)) 0 ++ mblock b (length (dfile (fb (mp_active mp)))))))
                   (Some (dfile (fb (mp_active mp)) ++ dblock b)))) (ms_next s) i
              = upd (ms_dirs s) (mp_active mp)
                (set_docs (set_meta (ms_dirs s (mp_active mp))
                   (Some (mfile (fb (mp_active mp)) 0 ++ mblock b (length (dfile (fb (mp_active mp)))))))
                   (Some (dfile (fb (mp_active mp)) ++ dblock b))) i).
    { apply freeze_eq. intros i Hi'. rewrite upd_other by lia. apply Hbey. exact Hi'. }
    rewrite !E, !upd_same. split; [reflexivity |]. split; [reflexivity |].
    intros i Hne. rewrite E, upd_other by auto. reflexivity.
  Qed.

End WithCodec.
