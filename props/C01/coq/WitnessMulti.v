(* C01 multi-fraction — concrete histories: non-vacuity of the multi-fraction theorems' hypotheses and
   the "both forms present" crash point (between the .index rename and the removal of .meta/.docs). *)
From Coq Require Import List Bool Arith NArith Lia.
From VLib Require Import CaseLib.
From C01 Require Import Model ModelMulti CaseDefs Proofs4 ProofsM4 Witness.
Import ListNotations.
Open Scope nat_scope.

(* bulk 1; rotation; bulk 2 into the new fraction; the seal of fraction 0 dies right after the .index
   rename, with power loss: .meta, .docs, .sdocs and .index of fraction 0 all exist *)
Definition wm_both : list mhop := [MRestart; MBulk wb1; MRotate; MBulk wb2; MSealCrash 8 false true].

(* ... the next start-up dies after it has removed .meta of fraction 0 (not yet .docs); start; bulk 3; start *)
Definition wm_hist : list mhop :=
  wm_both ++ [MRestartCrash [1] false false; MRestart; MBulk wb3; MRestart].

(* two unsealed fractions at a start (the seal never ran): the start-up seals the older one; it dies
   inside that seal (torn .index write, power loss); start; rotation; seal; start *)
Definition wm_startup_seal : list mhop :=
  [MRestart; MBulk wb1; MRotate; MBulk wb2; MPower; MRestartCrash [7; 2] true true; MRestart; MBulk wb3; MRotate; MSeal; MRestart].

Lemma wm_wf : wf_mhist wdm wdd wm_hist.
Proof.
  split.
  - cbn. repeat constructor; try discriminate.
  - cbn. intros b1 b2 d1 d2 H1 H2. apply w_functional; cbn in *; intuition.
Qed.

Lemma wm_wf2 : wf_mhist wdm wdd wm_startup_seal.
Proof.
  split.
  - cbn. repeat constructor; try discriminate.
  - cbn. intros b1 b2 d1 d2 H1 H2. apply w_functional; cbn in *; intuition.
Qed.

Definition mfinal_fetch (r : res mst) (id : N) : option fetched :=
  match r with
  | Ok s => match ms_proc s with Some mp => Some (mfetch wdd (ms_dirs s) mp id) | None => None end
  | _ => None
  end.

(* FracManager.fracs after the last start: (fraction, served in sealed form) *)
Definition mfinal_fracs (r : res mst) : list (nat * bool) :=
  match r with
  | Ok s => match ms_proc s with
            | Some mp => map (fun x => (fst x, is_rsealed (snd x))) (mp_fracs mp)
            | None => []
            end
  | _ => []
  end.

(* which of .meta / .docs / .sdocs / .index of fraction i exist *)
Definition mfinal_files (r : res mst) (i : nat) : list bool :=
  match r with
  | Ok s => let fd := ms_dirs s i in [has (fd_meta fd); has (fd_docs fd); has (fd_sd fd); has (fd_ix fd)]
  | _ => []
  end.

Lemma wm_acked : macked_of wm_hist = [wb1; wb2; wb3] /\ macked_of wm_startup_seal = [wb1; wb2; wb3].
Proof. split; reflexivity. Qed.

(* both forms of fraction 0 are on disk after the crash *)
Lemma wm_both_forms : mfinal_files (mrun wdm wdd wm_both) 0 = [true; true; true; true].
Proof. vm_compute. reflexivity. Qed.

(* a start on that state serves fraction 0 once, in sealed form, and removes .meta/.docs *)
Lemma wm_both_served_once :
  mfinal_fracs (mrun wdm wdd (wm_both ++ [MRestart])) = [(0, true); (1, false)] /\
  mfinal_files (mrun wdm wdd (wm_both ++ [MRestart])) 0 = [false; false; true; true] /\
  mfinal_fetch (mrun wdm wdd (wm_both ++ [MRestart])) 1 = Some (Body (d_body wd1)) /\
  mfinal_fetch (mrun wdm wdd (wm_both ++ [MRestart])) 2 = Some (Body (d_body wd2)).
Proof. vm_compute. repeat split; reflexivity. Qed.

(* the clean-up itself interrupted, then further ingestion *)
Lemma wm_hist_final :
  mfinal_files (mrun wdm wdd (wm_both ++ [MRestartCrash [1] false false])) 0 = [false; true; true; true] /\
  mfinal_fracs (mrun wdm wdd wm_hist) = [(0, true); (1, false)] /\
  mfinal_fetch (mrun wdm wdd wm_hist) 1 = Some (Body (d_body wd1)) /\
  mfinal_fetch (mrun wdm wdd wm_hist) 2 = Some (Body (d_body wd2)) /\
  mfinal_fetch (mrun wdm wdd wm_hist) 3 = Some (Body (d_body wd3)).
Proof. vm_compute. repeat split; reflexivity. Qed.

(* the start-up seals the older of two unsealed fractions; interrupted inside that seal it starts over *)
Lemma wm_startup_seal_final :
  mfinal_fracs (mrun wdm wdd [MRestart; MBulk wb1; MRotate; MBulk wb2; MPower; MRestart]) = [(0, true); (1, false)] /\
  mfinal_fracs (mrun wdm wdd wm_startup_seal) = [(0, true); (1, true); (3, false)] /\
  mfinal_fetch (mrun wdm wdd wm_startup_seal) 1 = Some (Body (d_body wd1)) /\
  mfinal_fetch (mrun wdm wdd wm_startup_seal) 2 = Some (Body (d_body wd2)) /\
  mfinal_fetch (mrun wdm wdd wm_startup_seal) 3 = Some (Body (d_body wd3)).
Proof. vm_compute. repeat split; reflexivity. Qed.
