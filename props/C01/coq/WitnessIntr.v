(* C01 — concrete histories with interrupted start-ups: non-vacuity of the hypotheses, and the
   refutation of the seeded "truncate, then return the cancellation" variant (restart_ctx true). *)
From Coq Require Import List Bool Arith NArith Lia.
From VLib Require Import CaseLib.
From C01 Require Import Model ModelMulti ModelIntr CaseDefs Proofs4 ProofsM4 Witness WitnessMulti.
Import ListNotations.
Open Scope nat_scope.

Definition xd1 := Doc 11 [97; 49]%N [1]%N.
Definition xd2 := Doc 12 [97; 50; 50]%N [1; 2]%N.
Definition xd3 := Doc 13 [97; 51]%N [2]%N.
Definition xd4 := Doc 14 [97; 52; 52; 52]%N [3]%N.
Definition xd5 := Doc 15 [97; 53]%N [1; 3]%N.
Definition xb1 := Bulk [xd1] [201; 1]%N 6 [211; 1]%N 30.
Definition xb2 := Bulk [xd2] [202; 2; 2]%N 7 [212; 2]%N 30.
Definition xb3 := Bulk [xd3] [203; 3]%N 6 [213; 3; 3]%N 30.
Definition xb4 := Bulk [xd4] [204; 4; 4; 4]%N 8 [214; 4]%N 30.
Definition xb5 := Bulk [xd5] [205; 5]%N 6 [215; 5; 5; 5]%N 30.
Definition xbs := [xb1; xb2; xb3; xb4; xb5].
Definition xdm := dec_m_of xbs.
Definition xdd := dec_d_of xbs.

(* five acknowledged bulks, unclean stop, a start-up whose context is cancelled after k polls, an
   ordinary start-up *)
Definition xi_hist (k : nat) : list xhop :=
  [XOp HRestart; XOp (HBulk xb1); XOp (HBulk xb2); XOp (HBulk xb3); XOp (HBulk xb4); XOp (HBulk xb5);
   XOp HPower; XStartIntr k; XOp HRestart].

(* ... with a crash inside a sixth bulk (torn meta block) instead of the clean kill, and a power loss and a
   second interruption before the ordinary start-up *)
Definition xi_hist2 (k k' : nat) : list xhop :=
  [XOp HRestart; XOp (HBulk xb1); XOp (HBulk xb2); XOp (HBulk xb3); XOp (HCrashIn xb4 2 10 0 1000);
   XStartIntr k; XOp HPower; XStartIntr k'; XOp HRestart; XOp (HBulk xb5); XStartIntr 1; XOp HRestart].

Lemma x_functional : ids_functional xbs.
Proof.
  intros b1 b2 d1 d2 H1 H2 H3 H4 H5. cbn in H1, H2.
  repeat (destruct H1 as [H1 | H1]; [subst b1 |]); try contradiction;
  repeat (destruct H2 as [H2 | H2]; [subst b2 |]); try contradiction;
  cbn in H3, H4;
  (destruct H3 as [H3 | H3]; [subst d1 | contradiction]);
  (destruct H4 as [H4 | H4]; [subst d2 | contradiction]);
  try reflexivity; cbn in H5; discriminate H5.
Qed.

Lemma xi_wf : forall k, wf_xhist xdm xdd (xi_hist k).
Proof.
  intros k. split.
  - cbn. repeat constructor; try discriminate.
  - cbn. intros b1 b2 d1 d2 H1 H2. apply x_functional; cbn in *; intuition.
Qed.

Lemma xi_wf2 : forall k k', wf_xhist xdm xdd (xi_hist2 k k').
Proof.
  intros k k'. split.
  - cbn. repeat constructor; try discriminate.
  - cbn. intros b1 b2 d1 d2 H1 H2. apply x_functional; cbn in *; intuition.
Qed.

Definition xfinal_fetch (r : res st) (id : N) : option fetched :=
  match r with
  | Ok s => match s_proc s with Some p => Some (fetch xdd (s_disk s) p id) | None => None end
  | _ => None
  end.
Definition xfinal_acked (r : res st) : list bulk := match r with Ok s => s_acked s | _ => [] end.
Definition xfinal_up (r : res st) : option bool :=
  match r with Ok s => Some (match s_proc s with Some _ => true | None => false end) | _ => None end.
Definition xfinal_lens (r : res st) : option (nat * nat) :=
  match r with Ok s => Some (length (docs (s_disk s)), length (meta (s_disk s))) | _ => None end.

Definition all5 (f : N -> option fetched) : list (option fetched) := map f [11; 12; 13; 14; 15]%N.
Definition bodies5 := map (fun d => Some (Body (d_body d))) [xd1; xd2; xd3; xd4; xd5].

(* the code as it is: whatever the moment of the cancellation (before the first block, after two, before
   the read that reports the end), the next start serves all five bulks *)
Lemma xi_harmless :
  xfinal_acked (xrun xdm (xi_hist 2)) = xbs /\
  all5 (xfinal_fetch (xrun xdm (xi_hist 0))) = bodies5 /\
  all5 (xfinal_fetch (xrun xdm (xi_hist 2))) = bodies5 /\
  all5 (xfinal_fetch (xrun xdm (xi_hist 5))) = bodies5 /\
  (* the interrupted start-up leaves the store down and the files as they were *)
  xfinal_up (xrun xdm (firstn 8 (xi_hist 5))) = Some false /\
  xfinal_lens (xrun xdm (firstn 8 (xi_hist 5))) = xfinal_lens (xrun xdm (firstn 7 (xi_hist 5))) /\
  (* a context that is cancelled only after the sixth poll is never seen cancelled: an ordinary start *)
  xfinal_up (xrun xdm (firstn 8 (xi_hist 6))) = Some true /\
  (* interleaved with a crash inside a bulk (torn meta tail), a power loss and further ingestion *)
  xfinal_acked (xrun xdm (xi_hist2 1 3)) = [xb1; xb2; xb3; xb5] /\
  all5 (xfinal_fetch (xrun xdm (xi_hist2 1 3))) =
    [Some (Body (d_body xd1)); Some (Body (d_body xd2)); Some (Body (d_body xd3)); Some Absent; Some (Body (d_body xd5))].
Proof. vm_compute. repeat split; reflexivity. Qed.

(* the seeded variant: the tail clean-up runs with the positions of the partial replay before the
   cancellation is returned. Interrupted after 2 of the 5 blocks, the next start serves 2 bulks;
   interrupted before the first block, the files are cut to 0 and the next start serves nothing. *)
Lemma xi_seeded_loses :
  all5 (xfinal_fetch (xrun_t1 xdm (xi_hist 2))) =
    [Some (Body (d_body xd1)); Some (Body (d_body xd2)); Some Absent; Some Absent; Some Absent] /\
  all5 (xfinal_fetch (xrun_t1 xdm (xi_hist 0))) = [Some Absent; Some Absent; Some Absent; Some Absent; Some Absent] /\
  xfinal_lens (xrun_t1 xdm (firstn 8 (xi_hist 0))) = Some (0, 0).
Proof. vm_compute. repeat split; reflexivity. Qed.

(* ---------- multi-fraction: two unsealed fractions (one block each: 2 + 2 polls) at an interrupted start ---------- *)

Definition xm_hist (k : nat) : list mxhop :=
  [MXOp MRestart; MXOp (MBulk wb1); MXOp MRotate; MXOp (MBulk wb2); MXOp MPower; MXStartIntr k; MXOp MRestart;
   MXOp (MBulk wb3); MXStartIntr 0; MXOp MRestart].

Lemma xm_wf : forall k, wf_mxhist wdm wdd (xm_hist k).
Proof.
  intros k. split.
  - cbn. repeat constructor; try discriminate.
  - cbn. intros b1 b2 d1 d2 H1 H2. apply w_functional; cbn in *; intuition.
Qed.

Definition xm_up (r : res mst) : option bool :=
  match r with Ok s => Some (match ms_proc s with Some _ => true | None => false end) | _ => None end.
Definition xm_acked (r : res mst) : list bulk := match r with Ok s => ms_acked s | _ => [] end.

Lemma xm_harmless :
  xm_acked (mxrun wdm wdd (xm_hist 1)) = [wb1; wb2; wb3] /\
  (* cancelled in fraction 0 / between the fractions / in fraction 1: down, no file removed, nothing sealed *)
  xm_up (mxrun wdm wdd (firstn 6 (xm_hist 0))) = Some false /\
  xm_up (mxrun wdm wdd (firstn 6 (xm_hist 3))) = Some false /\
  mfinal_files (mxrun wdm wdd (firstn 6 (xm_hist 3))) 0 = [true; true; false; false] /\
  mfinal_files (mxrun wdm wdd (firstn 6 (xm_hist 3))) 1 = [true; true; false; false] /\
  (* four polls pass: nobody sees the cancellation, the start-up completes and seals fraction 0 *)
  xm_up (mxrun wdm wdd (firstn 6 (xm_hist 4))) = Some true /\
  mfinal_fracs (mxrun wdm wdd (firstn 6 (xm_hist 4))) = [(0, true); (1, false)] /\
  (* the following ordinary start serves everything *)
  map (mfinal_fetch (mxrun wdm wdd (xm_hist 0))) [1; 2; 3]%N = [Some (Body (d_body wd1)); Some (Body (d_body wd2)); Some (Body (d_body wd3))] /\
  map (mfinal_fetch (mxrun wdm wdd (xm_hist 2))) [1; 2; 3]%N = [Some (Body (d_body wd1)); Some (Body (d_body wd2)); Some (Body (d_body wd3))] /\
  map (mfinal_fetch (mxrun wdm wdd (xm_hist 3))) [1; 2; 3]%N = [Some (Body (d_body wd1)); Some (Body (d_body wd2)); Some (Body (d_body wd3))].
Proof. vm_compute. repeat split; reflexivity. Qed.
