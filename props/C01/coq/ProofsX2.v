(* C01 — lemmas: multi-fraction histories with interrupted start-ups (ModelIntr.v). *)
From Coq Require Import List Bool Arith NArith Lia.
From C01 Require Import Model Proofs Proofs2 Proofs3 Proofs4 Proofs5 Proofs6 ModelMulti ProofsM1 ProofsM2 ProofsM3 ProofsM4 ProofsM5
                        ModelIntr.
Import ListNotations.
Open Scope nat_scope.

Lemma lrun_firstn_lcrash : forall fd prog j, lrun (firstn j prog) fd = lcrash fd prog j false false.
Proof.
  intros. unfold lcrash, lpower, ltorn. destruct (nth_error prog j) as [[] |]; reflexivity.
Qed.

Section WithCodec.
  Variable dec_m : list N -> option (list dmeta).
  Variable dec_d : list N -> option (list N).
  Notation wf_bulk := (wf_bulk dec_m dec_d).

  Variable HB : list bulk.
  Hypothesis HBwf : Forall wf_bulk HB.
  Hypothesis HBfun : ids_functional HB.
  Notation MInv := (MInv HB).

  (* Load under a context, on any crashed (or running) state: either nobody sees the cancellation, or
     every fraction is left at a prefix of its own start-up operations, and nothing else happens *)
  Lemma startup_ctx_ok : forall dirs next fb k,
    (forall i, incl (fb i) HB) -> (forall i, next <= i -> dirs i = no_fd /\ fb i = []) ->
    (forall i, FInv (dirs i) (fb i)) ->
    exists r, startup_ctx dec_m dec_d dirs next k = Ok r /\
      match r with
      | None => True
      | Some dirs' => (forall i, next <= i -> dirs' i = dirs i) /\ (forall i, FInv (dirs' i) (fb i))
      end.
  Proof.
    intros dirs next fb k Hin Hbey HI.
    destruct (plans_ok dec_m dec_d HB HBwf HBfun dirs next fb Hin HI (seq 0 next)) as (pls & Hp & Hf).
    unfold startup_ctx. rewrite Hp.
    destruct (intr_walk dec_m dirs pls (Some k)) as [cuts [b |]].
    - exists None. auto.
    - eexists (Some _). split; [reflexivity |]. split.
      + intros i Hi. replace (i <? next) with false by (symmetry; apply Nat.ltb_ge; lia). reflexivity.
      + intros i. destruct (Nat.lt_ge_cases i next) as [Hlt | Hge].
        * destruct (forall2_find dec_m dec_d _ _ _ _ i Hf ltac:(apply in_seq; lia)) as (pl0 & Hfind & Hi).
          replace (i <? next) with true by (symmetry; apply Nat.ltb_lt; lia). rewrite Hfind. cbn [snd].
          pose proof (forall2_in_r dec_m dec_d _ _ _ _ _ Hf Hi) as (_ & Hpl). cbn in Hpl.
          destruct (plan_facts dec_m dec_d HB HBwf HBfun dirs next fb i pl0 Hin HI Hpl) as (Hs & _).
          rewrite lrun_firstn_lcrash. apply Hs.
        * replace (i <? next) with false by (symmetry; apply Nat.ltb_ge; lia). apply HI.
  Qed.

  Lemma mxstep0_inv : forall s fb o, MInv s fb -> incl (mxhop_bulk o) HB ->
    exists s' fb', mxstep0 dec_m dec_d s o = Ok s' /\ MInv s' fb'.
  Proof.
    intros s fb [o | k] HI Ho.
    - exact (mstep0_inv dec_m dec_d HB HBwf HBfun s fb o HI Ho).
    - unfold mxstep0.
      pose proof HI as (Hin & Hbey & HF & Hack & Hsub & _).
      destruct (startup_ctx_ok (ms_dirs s) (ms_next s) fb k Hin Hbey HF) as ([dirs' |] & Hr & Hx); rewrite Hr.
      + destruct Hx as (Hsame & HF').
        eexists. exists fb. split; [reflexivity |].
        unfold ProofsM3.MInv, mdown. cbn [ms_dirs ms_next ms_proc ms_acked ms_tried].
        split; [exact Hin |]. split.
        { intros i Hi. rewrite (Hsame i Hi). apply Hbey. exact Hi. }
        split; [exact HF' |]. split; [exact Hack |]. split; [exact Hsub | exact I].
      + exact (mstep0_inv dec_m dec_d HB HBwf HBfun s fb MRestart HI (incl_nil_l _)).
  Qed.

  Lemma mxstep_inv : forall s fb o, MInv s fb -> incl (mxhop_bulk o) HB ->
    exists s' fb', mxstep dec_m dec_d s o = Ok s' /\ MInv s' fb'.
  Proof.
    intros s fb o HI Ho. destruct (mxstep0_inv s fb o HI Ho) as (s' & fb' & Hs & HI').
    exists (mfreeze s'), fb'. unfold mxstep. rewrite Hs. split; [reflexivity |].
    apply (minv_freeze HB). exact HI'.
  Qed.

  Lemma mxrun_inv : forall h s fb, MInv s fb -> incl (mxhist_bulks h) HB ->
    exists s' fb', mxrun_from dec_m dec_d s h = Ok s' /\ MInv s' fb'.
  Proof.
    induction h as [| o r IH]; intros s fb HI Hh.
    - exists s, fb. split; [reflexivity | exact HI].
    - cbn [mxhist_bulks flat_map] in Hh.
      destruct (mxstep_inv s fb o HI (fun x Hx => Hh x (in_or_app _ _ _ (or_introl Hx)))) as (s1 & fb1 & Hs & HI1).
      destruct (IH s1 fb1 HI1 (fun x Hx => Hh x (in_or_app _ _ _ (or_intror Hx)))) as (s2 & fb2 & Hr & HI2).
      exists s2, fb2. cbn [mxrun_from]. rewrite Hs. auto.
  Qed.

End WithCodec.

Section Statements.
  Variable dec_m : list N -> option (list dmeta).
  Variable dec_d : list N -> option (list N).

  (* C01_interrupted_startup_harmless_multi *)
  Lemma mxdurable_char : forall h, wf_mxhist dec_m dec_d h ->
    exists s, mxrun dec_m dec_d h = Ok s /\
      forall mp, ms_proc s = Some mp ->
      NoDup (map fst (mp_fracs mp)) /\
      exists dur,
        incl (ms_acked s) dur /\ incl dur (ms_acked s ++ ms_tried s) /\
        (forall b d, In b dur -> In d (b_docs b) ->
           mfetch dec_d (ms_dirs s) mp (d_id d) = Body (d_body d) /\
           (forall t, In t (d_toks d) -> In (d_id d) (msearch mp t))) /\
        (forall id, (forall b d, In b dur -> In d (b_docs b) -> d_id d <> id) ->
           mfetch dec_d (ms_dirs s) mp id = Absent /\ (forall t, ~ In id (msearch mp t))) /\
        (forall id, mfetch dec_d (ms_dirs s) mp id <> FetchErr) /\
        (forall t id, In id (msearch mp t) ->
           exists b d, In b dur /\ In d (b_docs b) /\ d_id d = id /\ In t (d_toks d)).
  Proof.
    intros h (Hwf & Hfun).
    destruct (mxrun_inv dec_m dec_d (mxhist_bulks h) Hwf Hfun h (mst0) (fun _ => []) (minv0 _) (incl_refl _))
      as (s & fb & Hr & HI).
    exists s. split; [exact Hr |]. intros mp Hp.
    pose proof HI as (_ & _ & _ & Hack & Hsub & HP). rewrite Hp in HP.
    split; [destruct HP as [Hn _ _ _ _]; exact Hn |].
    pose proof (durable_sub _ _ _ HI) as Hdsub.
    destruct (mvisible_char dec_m dec_d (mxhist_bulks h) Hwf s fb mp HI Hp) as (Hfetch & Hsearch).
    exists (durable_of s fb). split; [exact Hack |]. split; [exact Hsub |].
    split.
    { intros b d Hb Hd. split.
      - specialize (Hfetch (d_id d)). destruct (mfetch dec_d (ms_dirs s) mp (d_id d)) as [| x |].
        + exfalso. eapply Hfetch; eauto.
        + destruct Hfetch as (b' & d' & Hb' & Hd' & Hid & ->).
          rewrite (Hfun b' b d' d (Hdsub _ Hb') (Hdsub _ Hb) Hd' Hd Hid). reflexivity.
        + contradiction.
      - intros t Ht'. apply Hsearch. exists b, d. auto. }
    split.
    { intros id Hno. split.
      - specialize (Hfetch id). destruct (mfetch dec_d (ms_dirs s) mp id) as [| x |]; auto.
        + destruct Hfetch as (b & d & Hb & Hd & Hid & _). exfalso. eapply Hno; eauto.
        + contradiction.
      - intros t Hin. apply Hsearch in Hin. destruct Hin as (b & d & Hb & Hd & Hid & _). eapply Hno; eauto. }
    split.
    { intros id E. specialize (Hfetch id). rewrite E in Hfetch. exact Hfetch. }
    intros t id Hi. apply Hsearch. exact Hi.
  Qed.

  (* what an interrupted start-up does to the files, whatever the state: nothing but a prefix of the
     clean-up the ordinary start-up performs on each fraction (loop 1; truncation / removal of the
     fractions replayed before the cancellation) - never an operation of a seal or a rotation *)
  Lemma mxstep_intr_files : forall s k s',
    mxstep0 dec_m dec_d s (MXStartIntr k) = Ok s' -> ms_proc s' = None ->
    ms_next s' = ms_next s /\ ms_acked s' = ms_acked s /\ ms_tried s' = ms_tried s /\ ms_ops s' = ms_ops s /\
    exists pls, plans_of dec_m dec_d (ms_dirs s) (ms_next s) (seq 0 (ms_next s)) = Ok pls /\
      forall i, (ms_dirs s' i = ms_dirs s i) \/
                (exists pl c, In (i, pl) pls /\ c <= length (p1 pl) + length (p2 pl) /\
                              ms_dirs s' i = lrun (firstn c (p1 pl ++ p2 pl)) (ms_dirs s i)).
  Proof.
    intros s k s' H Hp. unfold mxstep0, startup_ctx in H.
    destruct (plans_of dec_m dec_d (ms_dirs s) (ms_next s) (seq 0 (ms_next s))) as [pls | |] eqn:Epl; try discriminate.
    destruct (intr_walk dec_m (ms_dirs s) pls (Some k)) as [cuts [b |]] eqn:Ew.
    - (* completed: the store would be up *)
      exfalso. unfold mstep0 in H.
      destruct (startup dec_m dec_d (ms_dirs s) (ms_next s)) as [[[[ops dirs] next] mp'] | |]; inversion H; subst.
      discriminate Hp.
    - inversion H; subst. cbn [mdown ms_next ms_acked ms_tried ms_ops ms_dirs].
      repeat (split; [reflexivity |]). exists pls. split; [reflexivity |].
      intros i. destruct (i <? ms_next s); [| left; reflexivity].
      destruct (find (fun x => Nat.eqb (fst x) i) pls) as [[j pl] |] eqn:Ef; [| left; reflexivity].
      right. apply find_some in Ef. destruct Ef as (Hin & Ej). cbn in Ej. apply Nat.eqb_eq in Ej. subst j.
      cbn [snd]. unfold fplan_prog.
      assert (Hc : cut_at cuts i <= length (p1 pl) + length (p2 pl) \/ True) by auto.
      (* every cut the walk produces is |p1| or |p1|+|p2| *)
      assert (Hcuts : forall pls0 bud c, In c (fst (intr_walk dec_m (ms_dirs s) pls0 bud)) ->
                exists pl0, In (fst c, pl0) pls0 /\
                  (snd c = length (p1 pl0) \/ snd c = length (p1 pl0) + length (p2 pl0))).
      { induction pls0 as [| [i0 pl0] r IH]; intros bud c Hc0; [inversion Hc0 |].
        cbn [intr_walk] in Hc0.
        destruct (frac_blocks dec_m (ms_dirs s i0)) as [n |]; [destruct bud as [k0 |]; [destruct (k0 <=? n) |] |].
        - destruct Hc0 as [<- | Hc0]; [exists pl0; cbn; auto |].
          destruct (IH _ _ Hc0) as (q & Hq & Hs). exists q. split; [right |]; auto.
        - destruct (intr_walk dec_m (ms_dirs s) r (Some (k0 - S n))) as [l b0] eqn:E0. cbn [fst] in Hc0.
          destruct Hc0 as [<- | Hc0]; [exists pl0; cbn; auto |].
          specialize (IH (Some (k0 - S n)) c). rewrite E0 in IH. destruct (IH Hc0) as (q & Hq & Hs).
          exists q. split; [right |]; auto.
        - destruct Hc0 as [<- | Hc0]; [exists pl0; cbn; auto |].
          destruct (IH _ _ Hc0) as (q & Hq & Hs). exists q. split; [right |]; auto.
        - destruct (intr_walk dec_m (ms_dirs s) r bud) as [l b0] eqn:E0. cbn [fst] in Hc0.
          destruct Hc0 as [<- | Hc0]; [exists pl0; cbn; auto |].
          specialize (IH bud c). rewrite E0 in IH. destruct (IH Hc0) as (q & Hq & Hs).
          exists q. split; [right |]; auto. }
      unfold cut_at. destruct (find (fun c => Nat.eqb (fst c) i) cuts) as [c |] eqn:Ec.
      + apply find_some in Ec. destruct Ec as (Hinc & Ei). apply Nat.eqb_eq in Ei.
        specialize (Hcuts pls (Some k) c). rewrite Ew in Hcuts. destruct (Hcuts Hinc) as (q & Hq & Hs).
        rewrite Ei in Hq.
        (* plans are keyed by distinct fraction numbers *)
        assert (Hnd : NoDup (map fst pls)).
        { clear - Epl. assert (G : forall is pls0, plans_of dec_m dec_d (ms_dirs s) (ms_next s) is = Ok pls0 -> map fst pls0 = is).
          { induction is as [| a r IH]; intros pls0 E; cbn in E; [inversion E; reflexivity |].
            destruct (fplan_of dec_m dec_d (ms_dirs s a) (seal_flag dec_m (ms_dirs s) (ms_next s) a)) as [pa | |];
              destruct (plans_of dec_m dec_d (ms_dirs s) (ms_next s) r) as [l | |]; try discriminate.
            inversion E; subst. cbn. f_equal. apply IH. reflexivity. }
          rewrite (G _ _ Epl). apply seq_NoDup. }
        rewrite (pls_functional pls i q pl Hnd Hq Hin) in Hs.
        exists pl, (snd c). split; [exact Hin |]. split; [lia |].
        rewrite app_assoc. rewrite firstn_app.
        replace (snd c - length (p1 pl ++ p2 pl)) with 0 by (rewrite app_length; lia).
        cbn [firstn]. rewrite app_nil_r. reflexivity.
      + exists pl, 0. split; [exact Hin |]. split; [lia |]. reflexivity.
  Qed.

  (* ---------- the ghost list of acknowledged bulks ---------- *)

  Lemma mxstep_acked_mono : forall s o s', mxstep dec_m dec_d s o = Ok s' -> exists l, ms_acked s' = ms_acked s ++ l.
  Proof.
    intros s o s' H. unfold mxstep in H.
    destruct (mxstep0 dec_m dec_d s o) as [s1 | |] eqn:E; inversion H; subst. cbn [mfreeze ms_acked].
    destruct o as [o | k]; cbn [mxstep0] in E.
    - destruct (mstep0_ghost dec_m dec_d s o s1 E) as (Ha & _). eauto.
    - destruct (startup_ctx dec_m dec_d (ms_dirs s) (ms_next s) k) as [[dirs' |] | |]; try discriminate.
      + inversion E; subst. exists []. rewrite app_nil_r. reflexivity.
      + destruct (mstep0_ghost dec_m dec_d s MRestart s1 E) as (Ha & _). eauto.
  Qed.

  Lemma mxrun_acked_mono : forall h s s', mxrun_from dec_m dec_d s h = Ok s' -> exists l, ms_acked s' = ms_acked s ++ l.
  Proof.
    induction h as [| o r IH]; intros s s' H.
    - inversion H; subst. exists []. rewrite app_nil_r. reflexivity.
    - cbn [mxrun_from] in H. destruct (mxstep dec_m dec_d s o) as [s1 | |] eqn:Es; try discriminate.
      destruct (mxstep_acked_mono s o s1 Es) as (l1 & E1). destruct (IH s1 s' H) as (l2 & E2).
      exists (l1 ++ l2). rewrite E2, E1, app_assoc. reflexivity.
  Qed.

  Lemma mxrun_from_app : forall h1 h2 s s1,
    mxrun_from dec_m dec_d s h1 = Ok s1 -> mxrun_from dec_m dec_d s (h1 ++ h2) = mxrun_from dec_m dec_d s1 h2.
  Proof.
    induction h1 as [| o r IH]; intros h2 s s1 H.
    - inversion H; subst. reflexivity.
    - cbn [mxrun_from app] in *. destruct (mxstep dec_m dec_d s o) as [s' | |]; try discriminate. auto.
  Qed.

  Lemma mxacked_sound : forall h1 b h2 s1 mp s,
    mxrun dec_m dec_d h1 = Ok s1 -> ms_proc s1 = Some mp ->
    mxrun dec_m dec_d (h1 ++ MXOp (MBulk b) :: h2) = Ok s -> In b (ms_acked s).
  Proof.
    intros h1 b h2 s1 mp s H1 Hp H. unfold mxrun in *. rewrite (mxrun_from_app h1 _ mst0 s1 H1) in H.
    cbn [mxrun_from] in H. unfold mxstep in H. cbn [mxstep0] in H.
    destruct (mstep0 dec_m dec_d s1 (MBulk b)) as [s2 | |] eqn:Es; try discriminate.
    destruct (mstep0_ghost dec_m dec_d s1 (MBulk b) s2 Es) as (Ha & _).
    unfold mis_up in Ha. rewrite Hp in Ha. cbn in Ha.
    destruct (mxrun_acked_mono h2 (mfreeze s2) s H) as (l & E). rewrite E. cbn [mfreeze ms_acked]. rewrite Ha.
    apply in_or_app. left. apply in_or_app. right. left. reflexivity.
  Qed.

End Statements.
