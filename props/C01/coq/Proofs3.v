(* C01 — lemmas, part 3: one bulk, and every crash state inside a bulk. *)
From Coq Require Import List Bool Arith NArith Lia.
From C01 Require Import Model Proofs Proofs2.
Import ListNotations.
Open Scope nat_scope.

Lemma write_at_end : forall f d, write_at f (length f) d = f ++ d.
Proof.
  intros. unfold write_at. rewrite firstn_all, Nat.sub_diag. cbn [repeat app].
  rewrite skipn_all2 by lia. rewrite app_nil_r. reflexivity.
Qed.

Lemma cut_synced : forall (l : list N) k, firstn (Nat.max (length l) k) l = l.
Proof. intros. apply firstn_ge. lia. Qed.

Lemma cut_tail : forall (x y : list N) k,
  firstn (Nat.max (length x) k) (x ++ y) = x ++ firstn (Nat.max (length x) k - length x) y.
Proof. intros. apply firstn_app_ge. lia. Qed.

Section WithCodec.
  Variable dec_m : list N -> option (list dmeta).

  Lemma do_bulk_end : forall d p b ms,
    off_d p = length (docs d) -> off_m p = length (meta d) -> dec_m (b_mpay b) = Some ms ->
    do_bulk dec_m d p b =
    Ok (Disk (docs d ++ dblock b) (meta d ++ mblock b (length (docs d))),
        Proc (length (docs d) + length (dblock b))
             (length (meta d) + length (mblock b (length (docs d))))
             (idx p ++ [(length (docs d), ms)])).
  Proof.
    intros d p b ms Hd Hm Hdec. unfold do_bulk, bulk_ops. rewrite Hdec, Hd, Hm.
    cbn [fold_left sapply s_docs s_meta s_sd s_sm]. rewrite !write_at_end. reflexivity.
  Qed.

  (* Every crash state of a bulk: a prefix of the docs block, and a prefix of the meta block that
     is non-empty only when the docs block is complete. *)
  Lemma crash_in_form : forall d p b k t kd km,
    off_d p = length (docs d) -> off_m p = length (meta d) ->
    exists a c,
      crash_in d p b k t kd km =
        Disk (docs d ++ firstn a (dblock b)) (meta d ++ firstn c (mblock b (length (docs d))))
      /\ (c = 0 \/ length (dblock b) <= a).
  Proof.
    intros d p b k t kd km Hd Hm. unfold crash_in, bulk_ops. rewrite Hd, Hm.
    destruct k as [| [| [| [| k]]]];
      cbn [firstn fold_left nth_error sapply torn power_cut s_docs s_meta s_sd s_sm];
      rewrite ?write_at_end; unfold power_cut; cbn [s_docs s_meta s_sd s_sm].
    - (* torn docs write *)
      rewrite cut_tail, cut_synced, firstn_firstn.
      eexists _, 0. split; [| left; reflexivity]. cbn [firstn]. rewrite app_nil_r. reflexivity.
    - (* docs written, not fsynced *)
      rewrite cut_tail, cut_synced.
      eexists _, 0. split; [| left; reflexivity]. cbn [firstn]. rewrite app_nil_r. reflexivity.
    - (* docs durable, torn meta write *)
      rewrite cut_synced, cut_tail, firstn_firstn.
      exists (length (dblock b)). eexists. split; [| right; lia]. rewrite firstn_all. reflexivity.
    - (* meta written, not fsynced *)
      rewrite cut_synced, cut_tail.
      exists (length (dblock b)). eexists. split; [| right; lia]. rewrite firstn_all. reflexivity.
    - (* everything durable, not acknowledged *)
      rewrite firstn_nil.
      replace (nth_error (@nil fop) k) with (@None fop) by (destruct k; reflexivity).
      cbn [fold_left s_docs s_meta s_sd s_sm].
      rewrite !cut_synced.
      exists (length (dblock b)), (length (mblock b (length (docs d)))).
      split; [| right; lia]. rewrite !firstn_all. reflexivity.
  Qed.

  (* a failed write that is rolled back leaves files and writer untouched *)
  Lemma do_fault_id : forall d p b in_meta cut,
    off_d p = length (docs d) -> off_m p = length (meta d) ->
    do_fault d p b in_meta cut = (d, p).
  Proof.
    intros [dd mm] p b in_meta cut Hd Hm. cbn [docs meta] in *.
    unfold do_fault, fault_ops, fault_writes. rewrite Hd, Hm. cbn [docs meta].
    destruct in_meta; destruct (cut =? 0);
      cbn [app fold_left sapply s_docs s_meta s_sd s_sm];
      rewrite ?write_at_end, ?firstn_app_len, ?firstn_all; reflexivity.
  Qed.

  Lemma mblock_length : forall b d, length (mblock b d) = HDR + length (b_mpay b).
  Proof. intros. unfold mblock. apply block_length. Qed.

End WithCodec.
