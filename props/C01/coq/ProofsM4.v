(* C01 multi-fraction — lemmas, part 4: every step of a multi-fraction history keeps the invariant;
   what a running store shows; the statements about whole histories. *)
From Coq Require Import List Bool Arith NArith Lia.
From C01 Require Import Model Proofs Proofs2 Proofs3 Proofs4 Proofs5 Proofs6 ModelMulti ProofsM1 ProofsM2 ProofsM3.
Import ListNotations.
Open Scope nat_scope.

(* which bulks a multi-fraction history acknowledges / interrupts, from the up/down flag alone *)
Definition mup_after (up : bool) (o : mhop) : bool :=
  match o with
  | MBulk _ | MRotate | MSeal => up
  | MRestart => true
  | _ => false
  end.
Fixpoint macked_from (up : bool) (h : list mhop) : list bulk :=
  match h with
  | [] => []
  | o :: r => (match o with MBulk b => if up then [b] else [] | _ => [] end) ++ macked_from (mup_after up o) r
  end.
Fixpoint mtried_from (up : bool) (h : list mhop) : list bulk :=
  match h with
  | [] => []
  | o :: r => (match o with MCrashIn b _ _ _ _ => if up then [b] else [] | _ => [] end) ++ mtried_from (mup_after up o) r
  end.
Definition macked_of (h : list mhop) := macked_from false h.
Definition mtried_of (h : list mhop) := mtried_from false h.

Definition mis_up (s : mst) : bool := match ms_proc s with Some _ => true | None => false end.

Lemma nth_map_seq : forall (dirs : nat -> fdir) n a i, i < n -> nth i (map dirs (seq a n)) no_fd = dirs (a + i).
Proof.
  induction n; intros a i Hi; [lia |]. cbn [seq map]. destruct i as [| i].
  - cbn. f_equal. lia.
  - cbn [nth]. rewrite IHn by lia. f_equal. lia.
Qed.

Lemma freeze_eq : forall dirs n, (forall i, n <= i -> dirs i = no_fd) -> forall i, freeze dirs n i = dirs i.
Proof.
  intros dirs n H i. unfold freeze. destruct (Nat.lt_ge_cases i n) as [Hlt | Hge].
  - rewrite nth_map_seq by auto. reflexivity.
  - rewrite nth_overflow by (rewrite map_length, seq_length; lia). symmetry. auto.
Qed.

Lemma allb_ext : forall fb n n', n <= n' -> (forall i, n <= i -> fb i = []) ->
  forall x, In x (allb fb n') <-> In x (allb fb n).
Proof.
  intros fb n n' Hle Hb x. rewrite !in_allb. split; intros (i & Hi & Hx).
  - exists i. split; auto. destruct (Nat.lt_ge_cases i n); auto. rewrite Hb in Hx by auto. inversion Hx.
  - exists i. split; auto. lia.
Qed.

Section WithCodec.
  Variable dec_m : list N -> option (list dmeta).
  Variable dec_d : list N -> option (list N).
  Notation wf_bulk := (wf_bulk dec_m dec_d).
  Variable HB : list bulk.
  Hypothesis HBwf : Forall wf_bulk HB.
  Hypothesis HBfun : ids_functional HB.
  Notation MInv := (MInv HB).

  Lemma pinv_update : forall dirs next mp fb i r0 fd' r' bs',
    PInv dirs next mp fb -> In (i, r0) (mp_fracs mp) ->
    Served fd' r' bs' ->
    (i = mp_active mp -> is_ra r' = true) ->
    (is_ra r' = true -> i <> mp_active mp -> bs' <> []) ->
    (fb i <> [] -> bs' <> []) ->
    PInv (upd dirs i fd') next (MProc (replace_r i r' (mp_fracs mp)) (mp_active mp)) (upd fb i bs').
  Proof.
    intros dirs next mp fb i r0 fd' r' bs' [Hn Hs Ha Hall Hpe] Hin Hsv Hact Hpend Hkeep.
    assert (Hex : exists r0, In (i, r0) (mp_fracs mp)) by eauto.
    constructor; cbn [mp_fracs mp_active].
    - rewrite replace_fst. exact Hn.
    - intros j r Hj. apply (replace_in _ i r' j r Hn Hex) in Hj. destruct Hj as [(-> & ->) | (Hne & Hj)].
      + rewrite !upd_same. split; [apply (Hs i r0 Hin) | exact Hsv].
      + rewrite !upd_other by auto. apply Hs. exact Hj.
    - destruct Ha as (p & Hp). destruct (Nat.eq_dec i (mp_active mp)) as [E | E].
      + specialize (Hact E). destruct r' as [? ? | p']; [discriminate |]. exists p'.
        apply (replace_in _ i (RActive p') _ _ Hn Hex). left. auto.
      + exists p. apply (replace_in _ i r' _ _ Hn Hex). right. split; auto.
    - intros j Hj. destruct (Nat.eq_dec j i) as [-> | E].
      + exists r'. apply (replace_in _ i r' _ _ Hn Hex). left; auto.
      + rewrite upd_other in Hj by auto. destruct (Hall j Hj) as (r & Hr). exists r.
        apply (replace_in _ i r' _ _ Hn Hex). right; auto.
    - intros j p Hj Hne. apply (replace_in _ i r' _ _ Hn Hex) in Hj. destruct Hj as [(-> & E) | (Hji & Hj)].
      + rewrite upd_same. apply Hpend; auto. rewrite <- E. reflexivity.
      + rewrite upd_other by auto. eapply Hpe; eauto.
  Qed.

  Lemma pinv_rotate : forall dirs next mp fb fdn pn,
    PInv dirs next mp fb -> fb next = [] -> fb (mp_active mp) <> [] -> Served fdn (RActive pn) [] ->
    PInv (upd dirs next fdn) (S next) (MProc (mp_fracs mp ++ [(next, RActive pn)]) next) fb.
  Proof.
    intros dirs next mp fb fdn pn [Hn Hs Ha Hall Hpe] Hfn Hfa Hsv.
    constructor; cbn [mp_fracs mp_active].
    - rewrite map_app. apply nodup_app2; [exact Hn | cbn; constructor; [intros [] | constructor] |].
      intros i Hi Hx. destruct Hx as [Ex | []]. cbn in Ex.
      apply in_map_iff in Hi. destruct Hi as ([j r] & E & Hi). cbn in E. subst j.
      destruct (Hs i r Hi). lia.
    - intros i r Hi. apply in_app_or in Hi. destruct Hi as [Hi | [Hi | []]].
      + destruct (Hs i r Hi) as (A & B). split; [lia |]. rewrite upd_other by lia. exact B.
      + assert (E1 : i = next) by (inversion Hi; auto).
        assert (E2 : r = RActive pn) by (inversion Hi; auto).
        rewrite E1, E2. split; [lia |]. rewrite upd_same, Hfn. exact Hsv.
    - exists pn. apply in_or_app. right. left. reflexivity.
    - intros i Hi. destruct (Hall i Hi) as (r & Hr). exists r. apply in_or_app. left. exact Hr.
    - intros i p Hi Hne. apply in_app_or in Hi. destruct Hi as [Hi | [Hi | []]].
      + destruct (Nat.eq_dec i (mp_active mp)) as [-> | E]; [exact Hfa | eapply Hpe; eauto].
      + assert (E1 : i = next) by (inversion Hi; auto). contradiction.
  Qed.

  Lemma minv_freeze : forall s fb, MInv s fb -> MInv (mfreeze s) fb.
  Proof.
    intros s fb (Hin & Hbey & HF & Hack & Hsub & Hp).
    assert (E : forall i, freeze (ms_dirs s) (ms_next s) i = ms_dirs s i)
      by (apply freeze_eq; intros i Hi; apply Hbey; auto).
    unfold MInv, mfreeze. cbn [ms_dirs ms_next ms_proc ms_acked ms_tried].
    split; [exact Hin |]. split; [intros i Hi; rewrite E; apply Hbey; auto |].
    split; [intros i; rewrite E; apply HF |]. split; [exact Hack |]. split; [exact Hsub |].
    destruct (ms_proc s) as [mp |]; [| exact I].
    destruct Hp as [Hn Hs Ha Hall Hpe]. constructor; auto.
    intros i r Hi. rewrite E. apply Hs. exact Hi.
  Qed.

  Lemma incl_tried : forall (a t : list bulk) x l, incl l (a ++ t) -> incl l (a ++ t ++ [x]).
  Proof. intros a t x l H y Hy. apply H in Hy. rewrite app_assoc. apply in_or_app. left. exact Hy. Qed.

  (* one step *)
  Lemma mstep0_inv : forall s fb o, MInv s fb -> incl (mhop_bulk o) HB ->
    exists s' fb', mstep0 dec_m dec_d s o = Ok s' /\ MInv s' fb'.
  Proof.
    intros s fb o HI Hob. pose proof HI as (Hin & Hbey & HF & Hack & Hsub & Hp).
    assert (Hbn : forall i, ms_next s <= i -> fb i = []) by (intros i Hi; apply Hbey; auto).
    destruct o as [b | b k t kd km | | | jj | | jj torn pl | | cut torn pl]; unfold mstep0.
    - (* MBulk *)
      destruct (ms_proc s) as [mp |] eqn:Ep; [| exists s, fb; auto].
      pose proof Hp as [Hn Hs Ha Hall Hpe]. destruct Ha as (p & Hpa).
      rewrite (lookup_in _ _ _ Hn Hpa).
      destruct (Hs _ _ Hpa) as (Hlt & Hsv). cbn [Served] in Hsv.
      destruct Hsv as (Hm & Hd & Hio & Hb & Hod & Hom & Hix).
      unfold fdisk. rewrite Hd, Hm.
      assert (Hbw : wf_bulk b) by (rewrite Forall_forall in HBwf; apply HBwf, Hob; left; reflexivity).
      pose proof Hbw as (_ & _ & Hdm & _).
      rewrite (do_bulk_end dec_m _ p b (map meta_of (b_docs b))) by (cbn [docs meta]; auto).
      cbn [docs meta]. set (a := mp_active mp) in *. set (bs := fb a) in *.
      eexists. exists (upd fb a (bs ++ [b])). split; [reflexivity |].
      unfold MInv. cbn [ms_dirs ms_next ms_proc ms_acked ms_tried].
      split.
      { intros i. destruct (Nat.eq_dec i a) as [-> | E]; [rewrite upd_same | rewrite upd_other by auto; auto].
        apply incl_app; [apply Hin | intros x [<- | []]; apply Hob; left; reflexivity]. }
      split.
      { intros i Hi. rewrite !upd_other by lia. apply Hbey. exact Hi. }
      assert (Hsv' : Served (set_docs (set_meta (ms_dirs s a) (Some (mfile bs 0 ++ mblock b (length (dfile bs)))))
                                     (Some (dfile bs ++ dblock b)))
                            (RActive (Proc (length (dfile bs) + length (dblock b))
                                           (length (mfile bs 0) + length (mblock b (length (dfile bs))))
                                           (idx p ++ [(length (dfile bs), map meta_of (b_docs b))])))
                            (bs ++ [b])).
      { cbn [Served set_docs set_meta fd_meta fd_docs fd_ix fd_sd off_d off_m idx].
        rewrite dfile_snoc, mfile_snoc, index_snoc, Hix, !app_length.
        repeat split; auto. intro E. destruct bs; discriminate E. }
      split.
      { intros i. destruct (Nat.eq_dec i a) as [-> | E].
        - rewrite !upd_same. eapply served_finv. exact Hsv'.
        - rewrite !upd_other by auto. apply HF. }
      split.
      { intros x Hx. apply in_allb. apply in_app_or in Hx. destruct Hx as [Hx | [<- | []]].
        - apply Hack in Hx. apply in_allb in Hx. destruct Hx as (i & Hi & Hx). exists i. split; auto.
          destruct (Nat.eq_dec i a) as [-> | E]; [rewrite upd_same; apply in_or_app; auto | rewrite upd_other by auto; auto].
        - exists a. split; auto. rewrite upd_same. apply in_or_app. right. left. reflexivity. }
      split.
      { intros x Hx. apply in_allb in Hx. destruct Hx as (i & Hi & Hx).
        destruct (Nat.eq_dec i a) as [-> | E].
        - rewrite upd_same in Hx. apply in_app_or in Hx. destruct Hx as [Hx | [<- | []]].
          + assert (In x (ms_acked s ++ ms_tried s)) by (apply Hsub, in_allb; eauto).
            apply in_app_or in H. rewrite <- app_assoc. apply in_or_app. destruct H; auto.
            right. apply in_or_app. right. exact H.
          + apply in_or_app. left. apply in_or_app. right. left. reflexivity.
        - rewrite upd_other in Hx by auto.
          assert (In x (ms_acked s ++ ms_tried s)) by (apply Hsub, in_allb; eauto).
          apply in_app_or in H. rewrite <- app_assoc. apply in_or_app. destruct H; auto.
          right. apply in_or_app. right. exact H. }
      eapply (pinv_update _ _ mp fb a (RActive p)); eauto.
      all: intros; intro E; apply app_eq_nil in E; destruct E as (_ & E); discriminate E.
    - (* MCrashIn *)
      destruct (ms_proc s) as [mp |] eqn:Ep; [| exists s, fb; auto].
      pose proof Hp as [Hn Hs Ha Hall Hpe]. destruct Ha as (p & Hpa).
      rewrite (lookup_in _ _ _ Hn Hpa).
      destruct (Hs _ _ Hpa) as (Hlt & Hsv). cbn [Served] in Hsv.
      destruct Hsv as (Hm & Hd & Hio & Hb & Hod & Hom & Hix).
      unfold fdisk. rewrite Hd, Hm.
      set (a := mp_active mp) in *. set (bs := fb a) in *.
      destruct (crash_in_form (Disk (dfile bs) (mfile bs 0)) p b k t kd km Hod Hom) as (x & c & Hc & Hxc).
      cbn [docs meta] in Hc. rewrite Hc. cbn [docs meta].
      assert (Hbw : wf_bulk b) by (rewrite Forall_forall in HBwf; apply HBwf, Hob; left; reflexivity).
      destruct (Nat.lt_ge_cases c (length (mblock b (length (dfile bs))))) as [Hlt' | Hge].
      + (* not durable *)
        eexists. exists fb. split; [reflexivity |].
        unfold MInv, mdown. cbn [ms_dirs ms_next ms_proc ms_acked ms_tried].
        split; [exact Hin |]. split; [intros i Hi; rewrite upd_other by lia; apply Hbey; auto |].
        split.
        { intros i. destruct (Nat.eq_dec i a) as [-> | E]; [| rewrite upd_other by auto; apply HF].
          rewrite upd_same. eapply FI_act; cbn [set_docs set_meta fd_meta fd_docs fd_ix fd_sd]; eauto.
          unfold mblock. apply eof_tail_prefix. exact Hlt'. }
        split; [exact Hack |]. split; [apply incl_tried; exact Hsub | exact I].
      + (* both blocks complete: durable although never acknowledged *)
        assert (Hx : length (dblock b) <= x).
        { destruct Hxc as [-> | ?]; auto. pose proof (mblock_length_pos b (length (dfile bs))). lia. }
        rewrite (firstn_ge _ c) by auto. rewrite (firstn_ge _ x) by auto.
        eexists. exists (upd fb a (bs ++ [b])). split; [reflexivity |].
        unfold MInv, mdown. cbn [ms_dirs ms_next ms_proc ms_acked ms_tried].
        split.
        { intros i. destruct (Nat.eq_dec i a) as [-> | E]; [rewrite upd_same | rewrite upd_other by auto; auto].
          apply incl_app; [apply Hin | intros y [<- | []]; apply Hob; left; reflexivity]. }
        split; [intros i Hi; rewrite !upd_other by lia; apply Hbey; auto |].
        split.
        { intros i. destruct (Nat.eq_dec i a) as [-> | E]; [| rewrite !upd_other by auto; apply HF].
          rewrite !upd_same. eapply FI_act with (tm := []) (td := []);
            cbn [set_docs set_meta fd_meta fd_docs fd_ix fd_sd];
            rewrite ?app_nil_r, ?dfile_snoc, ?mfile_snoc; auto using eof_tail_nil.
          intro E. destruct bs; discriminate E. }
        split.
        { intros y Hy. apply Hack in Hy. apply in_allb in Hy. destruct Hy as (i & Hi' & Hy). apply in_allb.
          exists i. split; auto.
          destruct (Nat.eq_dec i a) as [-> | E]; [rewrite upd_same; apply in_or_app; auto | rewrite upd_other by auto; auto]. }
        split; [| exact I].
        intros y Hy. apply in_allb in Hy. destruct Hy as (i & Hi' & Hy).
        rewrite app_assoc. destruct (Nat.eq_dec i a) as [-> | E].
        * rewrite upd_same in Hy. apply in_app_or in Hy. destruct Hy as [Hy | [<- | []]].
          -- apply in_or_app. left. apply Hsub, in_allb. eauto.
          -- apply in_or_app. right. left. reflexivity.
        * rewrite upd_other in Hy by auto. apply in_or_app. left. apply Hsub, in_allb. eauto.
    - (* MPower *)
      destruct (ms_proc s) as [mp |] eqn:Ep; [| exists s, fb; auto].
      eexists. exists fb. split; [reflexivity |]. unfold MInv, mdown. cbn. repeat (split; auto).
    - (* MRotate *)
      destruct (ms_proc s) as [mp |] eqn:Ep; [| exists s, fb; auto].
      pose proof Hp as [Hn Hs Ha Hall Hpe]. destruct Ha as (p & Hpa).
      rewrite (lookup_in _ _ _ Hn Hpa).
      destruct (Hs _ _ Hpa) as (Hlt & Hsv). cbn [Served] in Hsv.
      destruct Hsv as (Hm & Hd & Hio & Hb & Hod & Hom & Hix).
      rewrite Hix, (idx_total_index_of dec_m dec_d) by (apply (sub_wf dec_m dec_d HB HBwf), Hin).
      destruct (fb (mp_active mp)) as [| b0 br] eqn:Efa.
      + exists s, fb. split; auto.
      + destruct (Hbey (ms_next s) (le_n _)) as (Hdn & Hfn). rewrite Hdn.
        eexists. exists fb. split; [reflexivity |].
        unfold MInv. cbn [ms_dirs ms_next ms_proc ms_acked ms_tried].
        split; [exact Hin |].
        split; [intros i Hi'; rewrite upd_other by lia; apply Hbey; lia |].
        split.
        { intros i. destruct (Nat.eq_dec i (ms_next s)) as [-> | E].
          - rewrite upd_same, Hfn. apply (safe_final no_fd create_prog []). apply create_safe.
          - rewrite upd_other by auto. apply HF. }
        split; [intros x Hx; apply (allb_ext fb (ms_next s) (S (ms_next s))); auto |].
        split; [intros x Hx; apply Hsub; apply (allb_ext fb (ms_next s) (S (ms_next s))) in Hx; auto |].
        apply pinv_rotate; auto.
        * rewrite Efa. discriminate.
        * cbn. repeat split; auto.
    - (* MRotateCrash *)
      destruct (ms_proc s) as [mp |] eqn:Ep; [| exists s, fb; auto].
      pose proof Hp as [Hn Hs Ha Hall Hpe]. destruct Ha as (p & Hpa).
      rewrite (lookup_in _ _ _ Hn Hpa).
      destruct (idx_docs_total (idx p) =? 0).
      + eexists. exists fb. split; [reflexivity |]. unfold MInv, mdown. cbn. repeat (split; auto).
      + destruct (Hbey (ms_next s) (le_n _)) as (Hdn & Hfn). rewrite Hdn.
        eexists. exists fb. split; [reflexivity |].
        unfold MInv, mdown. cbn [ms_dirs ms_next ms_proc ms_acked ms_tried].
        split; [exact Hin |].
        split; [intros i Hi'; rewrite upd_other by lia; apply Hbey; lia |].
        split.
        { intros i. destruct (Nat.eq_dec i (ms_next s)) as [-> | E].
          - rewrite upd_same, Hfn. apply create_safe.
          - rewrite upd_other by auto. apply HF. }
        split; [intros x Hx; apply (allb_ext fb (ms_next s) (S (ms_next s))); auto |].
        split; [| exact I].
        intros x Hx; apply Hsub; apply (allb_ext fb (ms_next s) (S (ms_next s))) in Hx; auto.
    - (* MSeal *)
      destruct (ms_proc s) as [mp |] eqn:Ep; [| exists s, fb; auto].
      pose proof Hp as [Hn Hs Ha Hall Hpe].
      destruct (pending (mp_active mp) (mp_fracs mp)) as [[i p] |] eqn:Epend; [| exists s, fb; auto].
      apply pending_some in Epend. destruct Epend as (Hpi & Hne).
      destruct (Hs _ _ Hpi) as (Hlt & Hsv). cbn [Served] in Hsv.
      destruct Hsv as (Hm & Hd & Hio & Hb & Hod & Hom & Hix).
      pose proof (Hpe i p Hpi Hne) as Hnn.
      unfold fdisk. rewrite Hd, Hm. destruct p as [od om ix]. cbn [idx] in Hix. subst ix.
      rewrite (seal_docs_char dec_m dec_d (fb i))
        by (try apply (sub_wf dec_m dec_d HB HBwf); try apply (sub_fun HB HBfun); apply Hin).
      eexists. exists (upd fb i (fb i)). split; [reflexivity |].
      destruct (seal_final (ms_dirs s i) (fb i)) as (A & B).
      assert (Hsv' : Served (lrun (seal_prog (sdocs_of (fb i))) (ms_dirs s i))
                            (RSealed (sdocs_of (fb i)) (sdocs_of (fb i))) (fb i)) by (cbn; auto).
      unfold MInv. cbn [ms_dirs ms_next ms_proc ms_acked ms_tried].
      assert (Eu : forall j, upd fb i (fb i) j = fb j).
      { intros j. destruct (Nat.eq_dec j i) as [-> | E]; [apply upd_same | apply upd_other; auto]. }
      split; [intros j; rewrite Eu; apply Hin |].
      split; [intros j Hj; rewrite Eu, upd_other by lia; apply Hbey; auto |].
      split.
      { intros j. rewrite Eu. destruct (Nat.eq_dec j i) as [-> | E].
        - rewrite upd_same. eapply served_finv; eauto.
        - rewrite upd_other by auto. apply HF. }
      split.
      { intros x Hx. apply Hack in Hx. apply in_allb in Hx. destruct Hx as (j & Hj & Hx).
        apply in_allb. exists j. rewrite Eu. auto. }
      split.
      { intros x Hx. apply in_allb in Hx. destruct Hx as (j & Hj & Hx). rewrite Eu in Hx.
        apply Hsub, in_allb. eauto. }
      eapply (pinv_update _ _ mp fb i (RActive (Proc od om (index_of (fb i) 0)))); eauto.
      all: try (intros E; contradiction); try (intros E; discriminate E).
    - (* MSealCrash *)
      destruct (ms_proc s) as [mp |] eqn:Ep; [| exists s, fb; auto].
      pose proof Hp as [Hn Hs Ha Hall Hpe].
      destruct (pending (mp_active mp) (mp_fracs mp)) as [[i p] |] eqn:Epend.
      2:{ eexists. exists fb. split; [reflexivity |]. unfold MInv, mdown. cbn. repeat (split; auto). }
      apply pending_some in Epend. destruct Epend as (Hpi & Hne).
      destruct (Hs _ _ Hpi) as (Hlt & Hsv). cbn [Served] in Hsv.
      destruct Hsv as (Hm & Hd & Hio & Hb & Hod & Hom & Hix).
      pose proof (Hpe i p Hpi Hne) as Hnn.
      unfold fdisk. rewrite Hd, Hm. destruct p as [od om ix]. cbn [idx] in Hix. subst ix.
      rewrite (seal_docs_char dec_m dec_d (fb i))
        by (try apply (sub_wf dec_m dec_d HB HBwf); try apply (sub_fun HB HBfun); apply Hin).
      eexists. exists fb. split; [reflexivity |].
      unfold MInv, mdown. cbn [ms_dirs ms_next ms_proc ms_acked ms_tried].
      split; [exact Hin |].
      split; [intros j Hj; rewrite upd_other by lia; apply Hbey; auto |].
      split.
      { intros j. destruct (Nat.eq_dec j i) as [-> | E].
        - rewrite upd_same. apply seal_safe; auto.
        - rewrite upd_other by auto. apply HF. }
      auto.
    - (* MRestart *)
      destruct (startup_ok dec_m dec_d HB HBwf HBfun (ms_dirs s) (ms_next s) fb Hin Hbey HF)
        as (ops & dirs' & next' & mp' & Hst & Hle & Hbey' & HF' & HP').
      assert (G : exists s', match startup dec_m dec_d (ms_dirs s) (ms_next s) with
                             | Ok (ops, dirs, next, mp) =>
                                 Ok (MSt dirs next (Some mp) (ms_acked s) (ms_tried s) (rev ops ++ ms_ops s))
                             | Panic => Panic | OutOfFuel => OutOfFuel end = Ok s' /\ MInv s' fb).
      { rewrite Hst. eexists. split; [reflexivity |].
        unfold MInv. cbn [ms_dirs ms_next ms_proc ms_acked ms_tried].
        split; [exact Hin |]. split; [exact Hbey' |]. split; [exact HF' |].
        split; [intros x Hx; apply (allb_ext fb (ms_next s) next'); auto; intros; apply Hbey'; lia |].
        split; [| exact HP'].
        intros x Hx. apply Hsub. apply (allb_ext fb (ms_next s) next') in Hx; auto. }
      destruct G as (s' & Hs' & HI'). exists s', fb.
      destruct (ms_proc s); split; auto.
    - (* MRestartCrash *)
      destruct (startup_crash_ok dec_m dec_d HB HBwf HBfun (ms_dirs s) (ms_next s) fb cut torn pl Hin Hbey HF)
        as (dirs' & next' & Hst & Hle & Hbey' & HF').
      assert (G : exists s', match startup_crash dec_m dec_d (ms_dirs s) (ms_next s) cut torn pl with
                             | Ok (dirs, next) => Ok (mdown s dirs next (ms_tried s))
                             | Panic => Panic | OutOfFuel => OutOfFuel end = Ok s' /\ MInv s' fb).
      { rewrite Hst. eexists. split; [reflexivity |].
        unfold MInv, mdown. cbn [ms_dirs ms_next ms_proc ms_acked ms_tried].
        split; [exact Hin |]. split; [exact Hbey' |]. split; [exact HF' |].
        split; [intros x Hx; apply (allb_ext fb (ms_next s) next'); auto |].
        split; [| exact I].
        intros x Hx. apply Hsub. apply (allb_ext fb (ms_next s) next') in Hx; auto. }
      destruct G as (s' & Hs' & HI'). exists s', fb.
      destruct (ms_proc s); split; auto.
  Qed.

  Lemma mstep_inv : forall s fb o, MInv s fb -> incl (mhop_bulk o) HB ->
    exists s' fb', mstep dec_m dec_d s o = Ok s' /\ MInv s' fb'.
  Proof.
    intros s fb o HI Ho. destruct (mstep0_inv s fb o HI Ho) as (s' & fb' & Hs & HI').
    exists (mfreeze s'), fb'. unfold mstep. rewrite Hs. split; [reflexivity | apply minv_freeze; exact HI'].
  Qed.

  Lemma mrun_inv : forall h s fb, MInv s fb -> incl (mhist_bulks h) HB ->
    exists s' fb', mrun_from dec_m dec_d s h = Ok s' /\ MInv s' fb'.
  Proof.
    induction h as [| o r IH]; intros s fb HI Hh.
    - exists s, fb. split; [reflexivity | exact HI].
    - cbn [mhist_bulks flat_map] in Hh.
      destruct (mstep_inv s fb o HI (fun x Hx => Hh x (in_or_app _ _ _ (or_introl Hx)))) as (s1 & fb1 & Hs & HI1).
      destruct (IH s1 fb1 HI1 (fun x Hx => Hh x (in_or_app _ _ _ (or_intror Hx)))) as (s2 & fb2 & Hr & HI2).
      exists s2, fb2. cbn [mrun_from]. rewrite Hs. auto.
  Qed.

  (* ---------- what a running store shows ---------- *)

  Definition durable_of (s : mst) (fb : nat -> list bulk) : list bulk := allb fb (ms_next s).

  Lemma mfetch_l_char : forall dirs fb l id acc,
    (forall i r, In (i, r) l -> Served (dirs i) r (fb i) /\ incl (fb i) HB) ->
    match mfetch_l dec_d dirs l id acc with
    | Absent => acc = Absent /\ (forall i r b d, In (i, r) l -> In b (fb i) -> In d (b_docs b) -> d_id d <> id)
    | Body x => acc = Body x \/ exists i r b d, In (i, r) l /\ In b (fb i) /\ In d (b_docs b) /\ d_id d = id /\ x = d_body d
    | FetchErr => acc = FetchErr
    end.
  Proof.
    intros dirs fb l. induction l as [| [i r] l IH]; intros id acc Hl.
    - cbn. destruct acc; auto. all: split; auto; intros ? ? ? ? [].
    - cbn [mfetch_l]. destruct (Hl i r (or_introl eq_refl)) as (Hsv & Hsub).
      pose proof (rfetch_char dec_m dec_d (dirs i) r (fb i) id Hsv (sub_wf dec_m dec_d HB HBwf _ Hsub)) as F.
      destruct (rfetch dec_d (dirs i) r id) as [| x |].
      + specialize (IH id acc (fun j q Hj => Hl j q (or_intror Hj))).
        destruct (mfetch_l dec_d dirs l id acc) as [| y |].
        * destruct IH as (-> & Hno). split; auto. intros j q b d [E | Hj] Hb Hd.
          -- inversion E; subst. eapply F; eauto.
          -- eapply Hno; eauto.
        * destruct IH as [-> | (j & q & b & d & Hj & Hb & Hd & Hid & ->)]; auto.
          right. exists j, q, b, d. repeat split; auto. right; auto.
        * exact IH.
      + specialize (IH id (Body x) (fun j q Hj => Hl j q (or_intror Hj))).
        destruct F as (b & d & Hb & Hd & Hid & ->).
        destruct (mfetch_l dec_d dirs l id (Body (d_body d))) as [| y |].
        * destruct IH as (E & _). discriminate E.
        * right. destruct IH as [E | (j & q & b' & d' & Hj & Hb' & Hd' & Hid' & ->)].
          -- inversion E; subst. exists i, r, b, d. repeat split; auto. left; auto.
          -- exists j, q, b', d'. repeat split; auto. right; auto.
        * discriminate IH.
      + contradiction.
  Qed.

  Lemma in_durable : forall s fb b, In b (durable_of s fb) <-> exists i, i < ms_next s /\ In b (fb i).
  Proof. intros. apply in_allb. Qed.

  (* the characterisation everything else follows from *)
  Lemma mvisible_char : forall s fb mp,
    MInv s fb -> ms_proc s = Some mp ->
    (forall id, match mfetch dec_d (ms_dirs s) mp id with
                | Absent => forall b d, In b (durable_of s fb) -> In d (b_docs b) -> d_id d <> id
                | Body x => exists b d, In b (durable_of s fb) /\ In d (b_docs b) /\ d_id d = id /\ x = d_body d
                | FetchErr => False
                end) /\
    (forall t id, In id (msearch mp t) <->
                  exists b d, In b (durable_of s fb) /\ In d (b_docs b) /\ d_id d = id /\ In t (d_toks d)).
  Proof.
    intros s fb mp (Hin & Hbey & HF & Hack & Hsub & Hp) Emp. rewrite Emp in Hp.
    destruct Hp as [Hn Hs Ha Hall Hpe].
    assert (Hl : forall i r, In (i, r) (mp_fracs mp) -> Served (ms_dirs s i) r (fb i) /\ incl (fb i) HB)
      by (intros i r Hi; split; [apply (Hs i r Hi) | apply Hin]).
    split.
    - intros id. unfold mfetch.
      pose proof (mfetch_l_char (ms_dirs s) fb (mp_fracs mp) id Absent Hl) as F.
      destruct (mfetch_l dec_d (ms_dirs s) (mp_fracs mp) id Absent) as [| x |].
      + destruct F as (_ & Hno). intros b d Hb Hd. apply in_durable in Hb. destruct Hb as (i & Hi & Hb).
        assert (Hne : fb i <> []) by (intro E; rewrite E in Hb; inversion Hb).
        destruct (Hall i Hne) as (r & Hr). eapply Hno; eauto.
      + destruct F as [E | (i & r & b & d & Hi & Hb & Hd & Hid & ->)]; [discriminate E |].
        exists b, d. repeat split; auto. apply in_durable. exists i. split; auto. apply (Hs i r Hi).
      + discriminate F.
    - intros t id. unfold msearch. rewrite in_flat_map. split.
      + intros ([i r] & Hi & Hx). cbn [snd] in Hx.
        apply (rsearch_char (ms_dirs s i) r (fb i) t id (proj1 (Hl i r Hi))) in Hx.
        destruct Hx as (b & d & Hb & Hd & Hid & Ht). exists b, d. repeat split; auto.
        apply in_durable. exists i. split; auto. apply (Hs i r Hi).
      + intros (b & d & Hb & Hd & Hid & Ht). apply in_durable in Hb. destruct Hb as (i & Hi & Hb).
        assert (Hne : fb i <> []) by (intro E; rewrite E in Hb; inversion Hb).
        destruct (Hall i Hne) as (r & Hr). exists (i, r). split; auto. cbn [snd].
        apply (rsearch_char (ms_dirs s i) r (fb i) t id (proj1 (Hl i r Hr))). exists b, d. auto.
  Qed.

  (* ---------- ghost fields = what the up/down flag predicts ---------- *)

  Lemma mstep0_ghost : forall s o s', mstep0 dec_m dec_d s o = Ok s' ->
    ms_acked s' = ms_acked s ++ macked_from (mis_up s) [o] /\
    ms_tried s' = ms_tried s ++ mtried_from (mis_up s) [o] /\
    mis_up s' = mup_after (mis_up s) o.
  Proof.
    intros s o s' H. unfold mstep0, mis_up in *.
    destruct o as [b | b k t kd km | | | j | | j torn pl | | cut torn pl];
      destruct (ms_proc s) as [mp |] eqn:Ep; cbn [macked_from mtried_from mup_after app];
      try (inversion H; subst; rewrite ?Ep, ?app_nil_r; auto; fail).
    - destruct (lookup_r (mp_active mp) (mp_fracs mp)) as [[? ? | p] |]; try discriminate.
      destruct (fdisk (ms_dirs s (mp_active mp))) as [d |]; try discriminate.
      destruct (do_bulk dec_m d p b) as [[d' p'] | |]; inversion H; subst; cbn. rewrite app_nil_r. auto.
    - destruct (lookup_r (mp_active mp) (mp_fracs mp)) as [[? ? | p] |]; try discriminate.
      destruct (fdisk (ms_dirs s (mp_active mp))) as [d |]; inversion H; subst; cbn. rewrite app_nil_r. auto.
    - destruct (lookup_r (mp_active mp) (mp_fracs mp)) as [[? ? | p] |]; try discriminate.
      destruct (idx_docs_total (idx p) =? 0); inversion H; subst; cbn; rewrite ?Ep, !app_nil_r; auto.
    - destruct (lookup_r (mp_active mp) (mp_fracs mp)) as [[? ? | p] |]; try discriminate.
      destruct (idx_docs_total (idx p) =? 0); inversion H; subst; cbn; rewrite !app_nil_r; auto.
    - destruct (pending (mp_active mp) (mp_fracs mp)) as [[i p] |].
      + destruct (fdisk (ms_dirs s i)) as [d |]; try discriminate.
        destruct (seal_docs dec_d d p); inversion H; subst; cbn. rewrite !app_nil_r. auto.
      + inversion H; subst. rewrite Ep, !app_nil_r. auto.
    - destruct (pending (mp_active mp) (mp_fracs mp)) as [[i p] |].
      + destruct (fdisk (ms_dirs s i)) as [d |]; try discriminate.
        destruct (seal_docs dec_d d p); inversion H; subst; cbn. rewrite !app_nil_r. auto.
      + inversion H; subst; cbn. rewrite !app_nil_r. auto.
    - destruct (startup dec_m dec_d (ms_dirs s) (ms_next s)) as [[[[ops dirs] next] mp'] | |]; inversion H; subst; cbn.
      rewrite !app_nil_r. auto.
    - destruct (startup dec_m dec_d (ms_dirs s) (ms_next s)) as [[[[ops dirs] next] mp'] | |]; inversion H; subst; cbn.
      rewrite !app_nil_r. auto.
    - destruct (startup_crash dec_m dec_d (ms_dirs s) (ms_next s) cut torn pl) as [[dirs next] | |]; inversion H; subst; cbn.
      rewrite !app_nil_r. auto.
    - destruct (startup_crash dec_m dec_d (ms_dirs s) (ms_next s) cut torn pl) as [[dirs next] | |]; inversion H; subst; cbn.
      rewrite !app_nil_r. auto.
  Qed.

  Lemma mrun_ghost : forall h s s', mrun_from dec_m dec_d s h = Ok s' ->
    ms_acked s' = ms_acked s ++ macked_from (mis_up s) h /\
    ms_tried s' = ms_tried s ++ mtried_from (mis_up s) h.
  Proof.
    induction h as [| o r IH]; intros s s' H.
    - inversion H; subst. cbn. rewrite !app_nil_r. auto.
    - cbn [mrun_from] in H. unfold mstep in H.
      destruct (mstep0 dec_m dec_d s o) as [s1 | |] eqn:Es; try discriminate.
      destruct (mstep0_ghost s o s1 Es) as (Ha & Ht & Hu).
      destruct (IH (mfreeze s1) s' H) as (Ha' & Ht').
      cbn [macked_from mtried_from] in *. rewrite !app_nil_r in Ha, Ht.
      unfold mfreeze, mis_up in Ha', Ht'. cbn [ms_acked ms_tried ms_proc] in Ha', Ht'.
      unfold mis_up in Hu. rewrite Hu in Ha', Ht'.
      rewrite Ha', Ht', Ha, Ht, <- !app_assoc. auto.
  Qed.

End WithCodec.
