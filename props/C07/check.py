"""C07 — concurrent ingest, search, fetch, sealing and rotation never corrupt readers (DESIGN.md section 7, C07)."""
import vcheck

PROP = "C07"

TRUSTED = [
    "Coq 8.16.1 kernel (coqc), vm_compute for case evaluation; no native_compute",
    "hand-written interleaving model props/C07/coq/Model.v (writers, readers, rotate/seal/release/suicide as atomic steps "
    "between the verifhook schedule points; blocking = disabled step), tied to /repo by schedule replay, not verified code",
    "hand-written file/descriptor layer props/C07/coq/ModelFiles.v (per fraction: descriptors on .docs/.meta/.sdocs/.index, "
    "the files themselves, which document descriptor the sealed fraction reads from; both values of frac.Config.SkipSortDocs "
    "and KeepMetaFile), run in lock-step with Model.step and tied to /repo by comparing, after EVERY label of every CSchedF "
    "schedule, the model's state with /proc/self/fd + stat of the real process and the sealed fraction's docsFile identity",
    "hand-written pool/slice model props/C07/coq/ModelPool.v (heap of backing arrays, slice headers, the sync.Pool of "
    "docBlocksWriters with an arbitrary choice per seal, slices.Clone vs. aliasing), tied to /repo by comparing, after EVERY label of "
    "every CSchedP schedule, the in-memory Sealed.BlocksOffsets of every installed sealed fraction with the model; the offsets a "
    "seal writes (zstd block lengths) enter as per-case data (as first seen at seal.swapped); Go's slice growth policy is abstracted",
    "Go harness harness/cmd/hC07 (schedule executor parking the real goroutines at verifhook points, generators, "
    "canonicalisation of results, the /proc/self/fd reader); /repo/verifhook + the add-only verifhook.At lines (no-ops "
    "without the build tag); add-only exports frac/export_verif_c07*.go, fracmanager/export_verif_c07*.go",
    "atomicity of the code BETWEEN two schedule points, data races, Go scheduler, real deadlocks outside the modelled "
    "locks: NOT covered by the proof; free-running stress with per-request assertions is a supporting test only",
]
ASSUME = [
    "steps between two schedule points are atomic (granularity of the inserted verifhook points)",
    "merge order inside a posting and result order are abstracted (results compared as ID sets); sealed search/fetch "
    "correctness is C02/C03/C04's subject: a sealed fraction answers with the spec over the documents frac.Seal read from the index",
    "retention never deletes a fraction that still has bulks being indexed (suicide step disabled while indexWg > 0)",
    "no nested documents, no duplicate ID inside one bulk (retried bulks = same ID in different bulks are covered)",
    "Model.f_ldocs keeps the whole document per ID-table entry: the ID is what the code stores, the rest is ghost state no step reads",
    "file layer: Active.Release, frac.Seal, Active.Suicide and Sealed.Suicide are atomic w.r.t. the readers (one schedule step each; "
    "true concurrency of a fetch with Active.Release is only exercised by the free-running stress, half of whose runs use "
    "SkipSortDocs=true); only the sealed provider's reads go through the modelled descriptors (the active provider's reads are "
    "protected by Active.useMu, modelled as the f_rl = 0 guard of release/suicide, not by the descriptor flags); a request "
    "answered by a live sealed provider with a closed needed descriptor counts as an error (caches are fresh after a seal); "
    "logged-only errors (double close, removing an already removed file) are not modelled; restart/reload of fractions is C01/C15/C17's subject",
]
RULE = ("fixed witness schedules (sequential, negation mid-bulk, stale block table, hand-over, refused append, range clamp, "
        "suicided proxy; hand-over with two rotations and fetches before the release / after it through the old and a fresh "
        "list / after the list replacement / after the second rotation / after retention, in all four SkipSortDocs x "
        "KeepMetaFile configurations; retention at seal.swapped and of an unsealed fraction in both SkipSortDocs modes) + random "
        "schedules over 1-3 writers x 1-2 bulks x 1-3 docs, 1-3 readers (search of one list entry "
        "with 9 query shapes incl. NOT/NAND/range, fetch of returned / arbitrary / absent IDs), 0-2 rotations with seal "
        "steps interleaved, optional retention, each with SkipSortDocs drawn 1/2 and KeepMetaFile 1/3 and the file/descriptor "
        "state of every fraction observed after every label, plus a gadget that searches + fetches the fraction right after "
        "the swap / release / replacement step (fresh and stale list); every schedule ends with a quiescent sweep (search all "
        "+ fetch all per fraction). non-trivial = a reader was inside a request while an index or seal step ran, or an append "
        "was refused by a read-only fraction and retried, or a fetch found a document through the sealed provider after "
        "Active.Release; distinct by input")


def harness_args(tier, seed, outdir):
    return ["-seed", str(seed), "-tier", tier, "-out", outdir]


def main(argv):
    return vcheck.standard_check(PROP, argv, harness_args, TRUSTED, ASSUME, RULE, coqchk=True)
