"""C07 — concurrent ingest, search, fetch, sealing and rotation never corrupt readers (DESIGN.md section 7, C07)."""
import vcheck

PROP = "C07"

TRUSTED = [
    "Coq 8.16.1 kernel (coqc), vm_compute for case evaluation; no native_compute",
    "hand-written interleaving model props/C07/coq/Model.v (writers, readers, rotate/seal/release/suicide as atomic steps "
    "between the verifhook schedule points; blocking = disabled step), tied to /repo by schedule replay, not verified code",
    "Go harness harness/cmd/hC07 (schedule executor parking the real goroutines at verifhook points, generators, "
    "canonicalisation of results); /repo/verifhook + the add-only verifhook.At lines (no-ops without the build tag)",
    "atomicity of the code BETWEEN two schedule points, data races, Go scheduler, real deadlocks outside the modelled "
    "locks: NOT covered by the proof; free-running stress with per-request assertions is a supporting test only",
]
ASSUME = [
    "steps between two schedule points are atomic (granularity of the inserted verifhook points)",
    "merge order inside a posting and result order are abstracted (results compared as ID sets); sealed search/fetch "
    "correctness is C02/C03/C04's subject: a sealed fraction answers with the spec over the documents frac.Seal read from the index",
    "retention never deletes a fraction that still has bulks being indexed (suicide step disabled while indexWg > 0)",
    "no nested documents, no duplicate ID inside one bulk (retried bulks = same ID in different bulks are covered)",
    "Model.f_ldocs keeps the whole document per ID-table entry: the ID is what the code stores, the rest is ghost state no step reads",
]
RULE = ("fixed witness schedules (sequential, negation mid-bulk, stale block table, hand-over, refused append, range clamp, "
        "suicided proxy) + random schedules over 1-3 writers x 1-2 bulks x 1-3 docs, 1-3 readers (search of one list entry "
        "with 9 query shapes incl. NOT/NAND/range, fetch of returned / arbitrary / absent IDs), 0-2 rotations with seal "
        "steps interleaved, optional retention; every schedule ends with a quiescent sweep (search all + fetch all per "
        "fraction). non-trivial = a reader was inside a request while an index or seal step ran, or an append was "
        "refused by a read-only fraction and retried; distinct by input")


def harness_args(tier, seed, outdir):
    return ["-seed", str(seed), "-tier", tier, "-out", outdir]


def main(argv):
    return vcheck.standard_check(PROP, argv, harness_args, TRUSTED, ASSUME, RULE, coqchk=True)
