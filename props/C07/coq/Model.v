(* C07 — small-step interleaving model of ingest / search / fetch / rotate / seal / release / suicide.
   Executable, NO proofs. One label = "that logical thread runs from the schedule point where it is
   parked to its next schedule point" (the verifhook points inserted in frac/active_indexer.go,
   frac/active_index.go, fracmanager/proxy_frac.go, fracmanager/fracmanager.go); blocking operations
   (WaitGroup.Wait, useMu.Lock) are steps that are DISABLED while they would block. An execution is a
   list of labels; `run` returns one observation per label (the schedule point reached or the result of
   the finished request), which the correspondence run compares with the real code. *)
From Coq Require Import List Bool Arith NArith.
Import ListNotations.

Definition id := (N * N)%type.                 (* seq.ID = (MID, RID) *)
Definition id_eqb (a b : id) : bool := (N.eqb (fst a) (fst b) && N.eqb (snd a) (snd b))%bool.
Record doc := mkDoc { d_id : id; d_toks : list N; d_body : N }.   (* token 0 = `_all_`, first as the proxy emits it *)
Definition bulk := list doc.

Inductive query := QTok (t : N) | QAnd (a b : query) | QOr (a b : query) | QNand (a b : query) | QNot (a : query).
Definition qspec := (query * N * N)%type.       (* AST as the parser returns it, From, To *)

(* Behaviour switches for the three defects found by the replay (false = the code as it is now):
   v_all_last   : addLIDsToTokens queues the `_all_` token last instead of in TokensValues order
   v_fetch_guard: a position whose block is newer than the fetch provider's block snapshot counts as not found
   v_sui_empty  : Info/IsIntersecting of a suicided proxyFrac reports an empty fraction instead of dereferencing nil *)
Record version := mkVer { v_all_last : bool; v_fetch_guard : bool; v_sui_empty : bool }.

(* ------------------------------------------------------------------ state *)
Record tlids := mkTl { tl_tok : N; tl_sorted : list nat; tl_queue : list nat }.   (* TokenLIDs *)

(* where the seal thread of a fraction is parked: not rotated out; rotated out (fm.seal not started);
   seal.readonly; seal.idle; seal.built; seal.swapped; seal.released; seal.before-replace; finished *)
Inductive spc := SNone | SRot | SRo | SIdle | SBuilt | SSwapped | SReleased | SRepl | SDone.

Record frac := mkFrac {
  f_act : bool; f_sld : bool; f_ro : bool;      (* proxyFrac: active != nil, sealed != nil, readonly *)
  f_blocks : list (nat * nat);                  (* Active.DocBlocks: which bulk (writer, number) each block holds *)
  f_pos : list (id * (nat * nat));              (* DocsPositions: ID -> (block index, document index in the block) *)
  f_ldocs : list doc;                           (* MIDs/RIDs: index = LID, entry 0 = system ID. The code keeps only the ID
                                                   of each entry (f_ids below); the rest of the document is GHOST state:
                                                   no step reads it, the proofs use it to say which document a LID is *)
  f_toks : list tlids;                          (* TokenList (entry 0 = `_all_`) *)
  f_from : N; f_to : N; f_total : nat;          (* Info.From / To / DocsTotal *)
  f_wg : nat;                                   (* proxyFrac.indexWg *)
  f_rl : nat;                                   (* read locks held on Active.useMu *)
  f_subs : nat;                                 (* bulks accepted (DocsOnDisk > 0) *)
  f_seal : spc;                                 (* seal thread of this fraction *)
  f_sdocs : list doc;                           (* content of the sealed fraction built by frac.Seal *)
  f_ssui : bool                                 (* Sealed.suicided *)
}.

Definition max_mid : N := 18446744073709551615%N.
Definition sys_id : id := (max_mid, max_mid).
Definition sys_doc : doc := mkDoc sys_id [] 0%N.
Definition f_ids (f : frac) : list id := map d_id (f_ldocs f).
Definition new_frac : frac :=
  mkFrac true false false [] [] [sys_doc] [mkTl 0%N [] []] max_mid 0%N 0 0 0 0 SNone [] false.

Record wst := mkW {
  w_cur : nat;        (* number of the bulk being sent *)
  w_pc : nat;         (* 0 idle, 1 proxy.append.start, 2 append.start, 3 after-docblocks, 4 after-positions,
                         5 after-ids, 6 after-tokenlist, 7 queue-put (before put w_k), 8 after-queue, 9 after-stats *)
  w_g : nat;          (* fraction picked by FracManager.Writer() *)
  w_blk : nat;        (* block index returned by DocBlocks.Append *)
  w_docs : list doc;  (* collector after Filter *)
  w_cnt : nat;        (* len(appendedIDs) *)
  w_lids : list nat;  (* LIDs returned by AppendIDs, in w_docs order *)
  w_k : nat
}.
Definition new_w : wst := mkW 0 0 0 0 [] 0 [] 0.

(* where a search on an active fraction is parked: search.start, after-mapping, after-ids, leaf *)
Inductive rpc := PStart | PMapped | PIds | PLeaf.

Inductive rop :=
| RIdle
| RSearch (g : nat) (q : qspec) (pc : rpc) (ifrom ito : N) (mapping : list nat) (nids : nat)
          (snaps : list (list nat)) (pending : list N)
| RFetch (g : nat) (ids : list (id * bool)) (nblocks : nat).
Record rst := mkR { r_snap : list nat; r_op : rop }.
Definition new_r : rst := mkR [] RIdle.

Record state := mkSt { fracs : list frac; shift : nat; ws : list wst; rs : list rst }.

Record config := mkCfg { c_ver : version; c_bulks : list (list bulk); c_qs : list qspec }.

Definition init (c : config) (nreaders : nat) : state :=
  mkSt [new_frac] 0 (map (fun _ => new_w) (c_bulks c)) (repeat new_r nreaders).

Inductive label :=
| LW (w : N) | LSnap (r : N) | LSB (r j q : N) | LFB (r j : N) (ids : list id) | LR (r : N)
| LRot | LM (g : N) | LSui.

Inductive obs :=
| OHook (h : N) | OSnap (sts : list N) | ORes (ids : list id) | OFetch (bodies : list (option N))
| OErr | ODone | OUnit | ODisabled.

(* ------------------------------------------------------------------ helpers *)
Fixpoint upd {A} (n : nat) (f : A -> A) (l : list A) : list A :=
  match l, n with
  | [], _ => []
  | x :: r, O => f x :: r
  | x :: r, S n' => x :: upd n' f r
  end.

Definition getf (st : state) (g : nat) : frac := nth g (fracs st) new_frac.
Definition setf (st : state) (g : nat) (f : frac -> frac) : state :=
  mkSt (upd g f (fracs st)) (shift st) (ws st) (rs st).
Definition setw (st : state) (w : nat) (f : wst -> wst) : state :=
  mkSt (fracs st) (shift st) (upd w f (ws st)) (rs st).
Definition setr (st : state) (r : nat) (f : rst -> rst) : state :=
  mkSt (fracs st) (shift st) (ws st) (upd r f (rs st)).

Definition memN (x : N) (l : list N) : bool := existsb (N.eqb x) l.
Definition memn (x : nat) (l : list nat) : bool := existsb (Nat.eqb x) l.
Definition mem_id (x : id) (l : list id) : bool := existsb (id_eqb x) l.

Fixpoint dedupN (seen l : list N) : list N :=
  match l with
  | [] => []
  | x :: r => if memN x seen then dedupN seen r else x :: dedupN (x :: seen) r
  end.
(* metaDataCollector.TokensValues: distinct tokens of the bulk in order of first occurrence *)
Definition bulk_toks (b : bulk) : list N := dedupN [] (flat_map d_toks b).
(* the order in which addLIDsToTokens fills the queues *)
Definition put_order (v : version) (b : bulk) : list N :=
  let ts := bulk_toks b in
  if v_all_last v then filter (fun t => negb (N.eqb t 0)) ts ++ filter (N.eqb 0) ts else ts.

Definition bulk_of (c : config) (wb : nat * nat) : bulk := nth (snd wb) (nth (fst wb) (c_bulks c) []) [].

Fixpoint lookup_pos (x : id) (l : list (id * (nat * nat))) : option (nat * nat) :=
  match l with
  | [] => None
  | (y, p) :: r => if id_eqb x y then Some p else lookup_pos x r
  end.

(* DocsPositions.SetMultiple: returns the new map and the appended IDs *)
Fixpoint set_multiple (blk : nat) (i : nat) (ds : list doc) (pos : list (id * (nat * nat)))
  : list (id * (nat * nat)) * list id :=
  match ds with
  | [] => (pos, [])
  | d :: r =>
      match lookup_pos (d_id d) pos with
      | Some _ => set_multiple blk (S i) r pos
      | None => let '(p, a) := set_multiple blk (S i) r (pos ++ [(d_id d, (blk, i))]) in (p, d_id d :: a)
      end
  end.

Definition has_tok (t : N) (l : list tlids) : bool := existsb (fun x => N.eqb (tl_tok x) t) l.
Fixpoint add_toks (ts : list N) (l : list tlids) : list tlids :=
  match ts with
  | [] => l
  | t :: r => if has_tok t l then add_toks r l else add_toks r (l ++ [mkTl t [] []])
  end.
Definition upd_tok (t : N) (f : tlids -> tlids) (l : list tlids) : list tlids :=
  map (fun x => if N.eqb (tl_tok x) t then f x else x) l.
Definition get_tok (t : N) (l : list tlids) : tlids :=
  match find (fun x => N.eqb (tl_tok x) t) l with Some x => x | None => mkTl t [] [] end.
(* TokenLIDs.GetLIDs: the queue is merged into the sorted list (order is not observable here) *)
Definition merge_tok (x : tlids) : tlids := mkTl (tl_tok x) (tl_sorted x ++ tl_queue x) [].

(* NOT the code, kept for documentation (`_v0` style): GetLIDs with the queue detached BEFORE the merge mutex is taken,
   i.e. two steps per caller - detach the queue; later lock, merge what was detached, publish, return the sorted list.
   Props.C07_getlids_split_v0_refuted shows why the detach must stay inside the mutex (merge_tok = one step). *)
Definition getlids_detach (x : tlids) : tlids * list nat := (mkTl (tl_tok x) (tl_sorted x) [], tl_queue x).
Definition getlids_publish (x : tlids) (held : list nat) : tlids * list nat :=
  let y := mkTl (tl_tok x) (tl_sorted x ++ held) (tl_queue x) in (y, tl_sorted y).

(* LIDs of the collector's documents that carry token t (GroupLIDsByToken) *)
Fixpoint group_lids (t : N) (ds : list doc) (lids : list nat) : list nat :=
  match ds, lids with
  | d :: r, l :: lr => if memN t (d_toks d) then l :: group_lids t r lr else group_lids t r lr
  | _, _ => []
  end.

Definition min_mid (ds : list doc) : N := fold_right (fun d m => N.min (fst (d_id d)) m) max_mid ds.
Definition max_mid_of (ds : list doc) : N := fold_right (fun d m => N.max (fst (d_id d)) m) 0%N ds.

Definition state_code (f : frac) : N :=
  match f_act f, f_sld f, f_ro f with
  | true, false, false => 0
  | true, false, true => 1
  | false, true, true => 2
  | false, false, _ => 3
  | _, _, _ => 9
  end%N.

(* ------------------------------------------------------------------ query evaluation *)
Fixpoint leaves (q : query) : list N :=
  match q with
  | QTok t => [t]
  | QAnd a b | QOr a b | QNand a b => leaves a ++ leaves b
  | QNot a => leaves a
  end.

(* evaluation of the eval tree on one LID; the leaf snapshots are consumed in DFS order *)
Fixpoint evalq (q : query) (snaps : list (list nat)) (lid : nat) : bool * list (list nat) :=
  match q with
  | QTok _ => match snaps with s :: r => (memn lid s, r) | [] => (false, []) end
  | QAnd a b => let '(x, s1) := evalq a snaps lid in let '(y, s2) := evalq b s1 lid in (x && y, s2)
  | QOr a b => let '(x, s1) := evalq a snaps lid in let '(y, s2) := evalq b s1 lid in (x || y, s2)
  | QNand a b => let '(x, s1) := evalq a snaps lid in let '(y, s2) := evalq b s1 lid in (negb x && y, s2)
  | QNot a => let '(x, s1) := evalq a snaps lid in (negb x, s1)
  end.

(* the meaning of a query on a document (its token set) *)
Fixpoint evald (q : query) (toks : list N) : bool :=
  match q with
  | QTok t => memN t toks
  | QAnd a b => evald a toks && evald b toks
  | QOr a b => evald a toks || evald b toks
  | QNand a b => negb (evald a toks) && evald b toks
  | QNot a => negb (evald a toks)
  end.

Definition id_leb (a b : id) : bool :=
  (N.ltb (fst a) (fst b) || (N.eqb (fst a) (fst b) && N.leb (snd a) (snd b)))%bool.
Fixpoint insert_id (x : id) (l : list id) : list id :=
  match l with
  | [] => [x]
  | y :: r => if id_eqb x y then l else if id_leb x y then x :: l else y :: insert_id x r
  end.
(* canonical form of a result: ascending, without repetitions *)
Definition sort_ids (l : list id) : list id := fold_right insert_id [] l.

Definition in_range (lo hi : N) (x : id) : bool := (N.leb lo (fst x) && N.leb (fst x) hi)%bool.

(* ------------------------------------------------------------------ sealed fraction *)
(* what frac.Seal reads out of the active index: every LID of the `_all_` posting with its ID, the tokens
   whose postings contain it, and the document its position points to *)
Definition build_sealed (c : config) (f : frac) : list doc :=
  let allp := merge_tok (get_tok 0%N (f_toks f)) in
  map (fun lid =>
         let x := nth lid (f_ids f) sys_id in
         let toks := map tl_tok (filter (fun t => memn lid (tl_sorted t ++ tl_queue t)) (f_toks f)) in
         let body := match lookup_pos x (f_pos f) with
                     | Some (b, i) => d_body (nth i (bulk_of c (nth b (f_blocks f) (0, 0))) (mkDoc sys_id [] 0%N))
                     | None => 0%N
                     end in
         mkDoc x toks body) (tl_sorted allp).

Definition sealed_search (f : frac) (q : qspec) : list id :=
  let '(qq, qfrom, qto) := q in
  sort_ids (map d_id (filter (fun d => in_range qfrom qto (d_id d) && evald qq (d_toks d))%bool (f_sdocs f))).

Definition sealed_fetch (f : frac) (x : id) : option N :=
  match find (fun d => id_eqb (d_id d) x) (f_sdocs f) with Some d => Some (d_body d) | None => None end.

(* Info.IsIntersecting on the current info of the fraction *)
Definition intersects (f : frac) (lo hi : N) : bool :=
  (negb (Nat.eqb (f_total f) 0) && negb (N.ltb hi (f_from f) || N.ltb (f_to f) lo))%bool.

(* ------------------------------------------------------------------ writer *)
Definition last_g (st : state) : nat := pred (length (fracs st)).
Definition cur_bulk (c : config) (w : nat) (x : wst) : bulk := bulk_of c (w, w_cur x).

Definition step_w (c : config) (st : state) (w : nat) : state * obs :=
  match nth_error (ws st) w with
  | None => (st, ODisabled)
  | Some x =>
      let g := w_g x in
      let f := getf st g in
      let b := cur_bulk c w x in
      match w_pc x with
      | 0 => if Nat.ltb (w_cur x) (length (nth w (c_bulks c) []))
             then (setw st w (fun x => mkW (w_cur x) 1 (last_g st) 0 [] 0 [] 0), OHook 1)
             else (st, ODisabled)
      | 1 => if (f_act f && negb (f_sld f) && negb (f_ro f))%bool
             then (setw (setf st g (fun f => mkFrac (f_act f) (f_sld f) (f_ro f) (f_blocks f) (f_pos f) (f_ldocs f) (f_toks f)
                                             (f_from f) (f_to f) (f_total f) (S (f_wg f)) (f_rl f) (S (f_subs f)) (f_seal f) (f_sdocs f) (f_ssui f)))
                        w (fun x => mkW (w_cur x) 2 g 0 [] 0 [] 0), OHook 2)
             else (setw st w (fun x => mkW (w_cur x) 1 (last_g st) 0 [] 0 [] 0), OHook 1)
      | 2 => (setw (setf st g (fun f => mkFrac (f_act f) (f_sld f) (f_ro f) (f_blocks f ++ [(w, w_cur x)]) (f_pos f) (f_ldocs f) (f_toks f)
                                          (f_from f) (f_to f) (f_total f) (f_wg f) (f_rl f) (f_subs f) (f_seal f) (f_sdocs f) (f_ssui f)))
                   w (fun x => mkW (w_cur x) 3 g (length (f_blocks f)) [] 0 [] 0), OHook 3)
      | 3 => let '(pos', app) := set_multiple (w_blk x) 0 b (f_pos f) in
             let kept := filter (fun d => mem_id (d_id d) app) b in
             (setw (setf st g (fun f => mkFrac (f_act f) (f_sld f) (f_ro f) (f_blocks f) pos' (f_ldocs f) (f_toks f)
                                          (f_from f) (f_to f) (f_total f) (f_wg f) (f_rl f) (f_subs f) (f_seal f) (f_sdocs f) (f_ssui f)))
                   w (fun x => mkW (w_cur x) 4 g (w_blk x) kept (length app) [] 0), OHook 4)
      | 4 => let lids := seq (length (f_ids f)) (length (w_docs x)) in
             (setw (setf st g (fun f => mkFrac (f_act f) (f_sld f) (f_ro f) (f_blocks f) (f_pos f) (f_ldocs f ++ w_docs x) (f_toks f)
                                          (f_from f) (f_to f) (f_total f) (f_wg f) (f_rl f) (f_subs f) (f_seal f) (f_sdocs f) (f_ssui f)))
                   w (fun x => mkW (w_cur x) 5 g (w_blk x) (w_docs x) (w_cnt x) lids 0), OHook 5)
      | 5 => (setw (setf st g (fun f => mkFrac (f_act f) (f_sld f) (f_ro f) (f_blocks f) (f_pos f) (f_ldocs f) (add_toks (bulk_toks b) (f_toks f))
                                          (f_from f) (f_to f) (f_total f) (f_wg f) (f_rl f) (f_subs f) (f_seal f) (f_sdocs f) (f_ssui f)))
                   w (fun x => mkW (w_cur x) 6 g (w_blk x) (w_docs x) (w_cnt x) (w_lids x) 0), OHook 6)
      | 6 => match put_order (c_ver c) b with
             | [] => (setw st w (fun x => mkW (w_cur x) 8 g (w_blk x) (w_docs x) (w_cnt x) (w_lids x) 0), OHook 8)
             | _ => (setw st w (fun x => mkW (w_cur x) 7 g (w_blk x) (w_docs x) (w_cnt x) (w_lids x) 0), OHook 7)
             end
      | 7 => let order := put_order (c_ver c) b in
             let t := nth (w_k x) order 0%N in
             let grp := group_lids t (w_docs x) (w_lids x) in
             let st1 := setf st g (fun f => mkFrac (f_act f) (f_sld f) (f_ro f) (f_blocks f) (f_pos f) (f_ldocs f)
                                              (upd_tok t (fun y => mkTl (tl_tok y) (tl_sorted y) (tl_queue y ++ grp)) (f_toks f))
                                              (f_from f) (f_to f) (f_total f) (f_wg f) (f_rl f) (f_subs f) (f_seal f) (f_sdocs f) (f_ssui f)) in
             if Nat.ltb (S (w_k x)) (length order)
             then (setw st1 w (fun x => mkW (w_cur x) 7 g (w_blk x) (w_docs x) (w_cnt x) (w_lids x) (S (w_k x))), OHook 7)
             else (setw st1 w (fun x => mkW (w_cur x) 8 g (w_blk x) (w_docs x) (w_cnt x) (w_lids x) 0), OHook 8)
      | 8 => (setw (setf st g (fun f => mkFrac (f_act f) (f_sld f) (f_ro f) (f_blocks f) (f_pos f) (f_ldocs f) (f_toks f)
                                          (N.min (f_from f) (min_mid (w_docs x))) (N.max (f_to f) (max_mid_of (w_docs x)))
                                          (f_total f + w_cnt x) (f_wg f) (f_rl f) (f_subs f) (f_seal f) (f_sdocs f) (f_ssui f)))
                   w (fun x => mkW (w_cur x) 9 g (w_blk x) (w_docs x) (w_cnt x) (w_lids x) 0), OHook 9)
      | _ => (setw (setf st g (fun f => mkFrac (f_act f) (f_sld f) (f_ro f) (f_blocks f) (f_pos f) (f_ldocs f) (f_toks f)
                                          (f_from f) (f_to f) (f_total f) (pred (f_wg f)) (f_rl f) (f_subs f) (f_seal f) (f_sdocs f) (f_ssui f)))
                   w (fun x => mkW (S (w_cur x)) 0 0 0 [] 0 [] 0), OHook 10)
      end
  end.

(* ------------------------------------------------------------------ reader *)
Definition set_rl (f : frac) (n : nat) : frac :=
  mkFrac (f_act f) (f_sld f) (f_ro f) (f_blocks f) (f_pos f) (f_ldocs f) (f_toks f)
         (f_from f) (f_to f) (f_total f) (f_wg f) n (f_subs f) (f_seal f) (f_sdocs f) (f_ssui f).
Definition set_toks (f : frac) (t : list tlids) : frac :=
  mkFrac (f_act f) (f_sld f) (f_ro f) (f_blocks f) (f_pos f) (f_ldocs f) t
         (f_from f) (f_to f) (f_total f) (f_wg f) (f_rl f) (f_subs f) (f_seal f) (f_sdocs f) (f_ssui f).

Definition set_op (st : state) (r : nat) (op : rop) : state := setr st r (fun x => mkR (r_snap x) op).

Definition search_result (f_ids_now : list id) (q : qspec) (ifrom ito : N) (mapping : list nat)
           (snaps : list (list nat)) : list id :=
  let '(qq, qfrom, qto) := q in
  let lo := N.max qfrom ifrom in
  let hi := N.min qto ito in
  let cands := filter (fun lid => in_range lo hi (nth lid f_ids_now sys_id)) mapping in
  sort_ids (map (fun lid => nth lid f_ids_now sys_id) (filter (fun lid => fst (evalq qq snaps lid)) cands)).

(* continue a search after the leaf snapshots in `snaps`: leaves whose token is not in the token list give
   an empty posting without a schedule point; the first existing one parks; no leaf left = finished *)
Fixpoint advance (st : state) (r g : nat) (q : qspec) (ifrom ito : N) (mapping : list nat) (nids : nat)
         (snaps : list (list nat)) (pending : list N) : state * obs :=
  match pending with
  | [] =>
      let f := getf st g in
      (set_op (setf st g (fun f => set_rl f (pred (f_rl f)))) r RIdle,
       ORes (search_result (firstn nids (f_ids f)) q ifrom ito mapping snaps))
  | t :: rest =>
      if has_tok t (f_toks (getf st g))
      then (set_op st r (RSearch g q PLeaf ifrom ito mapping nids snaps pending), OHook 23)
      else advance st r g q ifrom ito mapping nids (snaps ++ [[]]) rest
  end.

(* liveness of the fraction object behind a list entry; None = nil dereference (suicided proxy) *)
Definition frac_info_ok (c : config) (f : frac) : bool := (f_act f || f_sld f || v_sui_empty (c_ver c))%bool.

Definition step_sb (c : config) (st : state) (r j qn : nat) : state * obs :=
  match nth_error (rs st) r, nth_error (c_qs c) qn with
  | Some x, Some q =>
      match r_op x, nth_error (r_snap x) j with
      | RIdle, Some g =>
          let f := getf st g in
          let '(qq, qfrom, qto) := q in
          if negb (frac_info_ok c f) then (st, OErr)
          else if negb (f_act f || f_sld f) then (st, ORes [])
          else if negb (intersects f qfrom qto) then (st, ORes [])
          else if f_act f then
                 (set_op (setf st g (fun f => set_rl f (S (f_rl f)))) r
                         (RSearch g q PStart (f_from f) (f_to f) [] 0 [] []), OHook 20)
          else if f_ssui f then (st, ORes [])
          else (st, ORes (sealed_search f q))
      | _, _ => (st, ODisabled)
      end
  | _, _ => (st, ODisabled)
  end.

Definition step_fb (c : config) (st : state) (r j : nat) (ids : list id) : state * obs :=
  match nth_error (rs st) r with
  | Some x =>
      match r_op x, nth_error (r_snap x) j with
      | RIdle, Some g =>
          let f := getf st g in
          let none := OFetch (map (fun _ => None) ids) in
          let lo := fold_right (fun x m => N.min (fst x) m) max_mid ids in
          let hi := fold_right (fun x m => N.max (fst x) m) 0%N ids in
          let flagged : list (id * bool) := map (fun x : id => (x, intersects f (fst x) (fst x))) ids in
          match ids with
          | [] => (st, OFetch [])
          | _ =>
          if negb (frac_info_ok c f) then (st, OErr)
          else if negb (f_act f || f_sld f) then (st, none)
          else if negb (intersects f lo hi) then (st, none)
          else if negb (existsb snd flagged) then (st, none)
          else if f_act f then
                 (set_op (setf st g (fun f => set_rl f (S (f_rl f)))) r
                         (RFetch g flagged (length (f_blocks f))), OHook 24)
          else if f_ssui f then (st, none)
          else (st, OFetch (map (fun xb : id * bool => if snd xb then sealed_fetch f (fst xb) else None) flagged))
          end
      | _, _ => (st, ODisabled)
      end
  | None => (st, ODisabled)
  end.

(* result of the position lookup + read of one ID: inl = bytes or not found, inr = index out of range *)
Definition fetch_one (c : config) (f : frac) (nblocks : nat) (xb : id * bool) : option N + unit :=
  if snd xb then
    match lookup_pos (fst xb) (f_pos f) with
    | None => inl None
    | Some (b, i) =>
        if Nat.ltb b nblocks
        then inl (Some (d_body (nth i (bulk_of c (nth b (f_blocks f) (0, 0))) (mkDoc sys_id [] 0%N))))
        else if v_fetch_guard (c_ver c) then inl None else inr tt
    end
  else inl None.

Definition step_r (c : config) (st : state) (r : nat) : state * obs :=
  match nth_error (rs st) r with
  | Some x =>
      match r_op x with
      | RIdle => (st, ODisabled)
      | RSearch g q pc ifrom ito mapping nids snaps pending =>
          let f := getf st g in
          match pc with
          | PStart => let allp := merge_tok (get_tok 0%N (f_toks f)) in
                  (set_op (setf st g (fun f => set_toks f (upd_tok 0%N merge_tok (f_toks f)))) r
                          (RSearch g q PMapped ifrom ito (tl_sorted allp) 0 [] []), OHook 21)
          | PMapped => let n := length (f_ids f) in
                  if forallb (fun lid => Nat.ltb lid n) mapping
                  then (set_op st r (RSearch g q PIds ifrom ito mapping n [] []), OHook 22)
                  else (set_op (setf st g (fun f => set_rl f (pred (f_rl f)))) r RIdle, OErr)
          | PIds => advance st r g q ifrom ito mapping nids [] (leaves (fst (fst q)))
          | PLeaf => match pending with
                 | [] => (st, ODisabled)
                 | t :: rest =>
                     let merged := merge_tok (get_tok t (f_toks f)) in
                     let snap := filter (fun lid => memn lid mapping) (tl_sorted merged) in
                     advance (setf st g (fun f => set_toks f (upd_tok t merge_tok (f_toks f)))) r g q ifrom ito
                             mapping nids (snaps ++ [snap]) rest
                 end
          end
      | RFetch g ids nblocks =>
          let f := getf st g in
          let rsl := map (fetch_one c f nblocks) ids in
          let st' := set_op (setf st g (fun f => set_rl f (pred (f_rl f)))) r RIdle in
          if existsb (fun x => match x with inr _ => true | inl _ => false end) rsl
          then (st', OErr)
          else (st', OFetch (map (fun x => match x with inl o => o | inr _ => None end) rsl))
      end
  | None => (st, ODisabled)
  end.

(* ------------------------------------------------------------------ maintenance *)
(* The files and descriptors behind these steps (which document descriptor the sealed fraction reads from, what
   Active.Release / Suicide close and remove, for both values of frac.Config.SkipSortDocs and KeepMetaFile) are the
   subject of ModelFiles.v, which runs in lock-step with `step` (xstep) - kept in a separate file so that this
   record and the proofs over it stay as they are. *)
Definition set_seal (f : frac) (act sld ro : bool) (seal : spc) (sdocs : list doc) : frac :=
  mkFrac act sld ro (f_blocks f) (f_pos f) (f_ldocs f) (f_toks f)
         (f_from f) (f_to f) (f_total f) (f_wg f) (f_rl f) (f_subs f) seal sdocs (f_ssui f).

Definition step_rot (st : state) : state * obs :=
  let g := last_g st in
  if Nat.ltb 0 (f_subs (getf st g))
  then (mkSt (upd g (fun f => set_seal f (f_act f) (f_sld f) (f_ro f) SRot (f_sdocs f)) (fracs st) ++ [new_frac])
             (shift st) (ws st) (rs st), OUnit)
  else (st, ODisabled).

Definition step_m (c : config) (st : state) (g : nat) : state * obs :=
  match nth_error (fracs st) g with
  | None => (st, ODisabled)
  | Some f =>
      match f_seal f with
      | SRot => if negb (f_act f || f_sld f)
             then (setf st g (fun f => set_seal f (f_act f) (f_sld f) (f_ro f) SDone (f_sdocs f)), ODone)
             else (setf st g (fun f => set_seal f (f_act f) (f_sld f) true SRo (f_sdocs f)), OHook 30)
      | SRo => if Nat.eqb (f_wg f) 0
              then (setf st g (fun f => set_seal f (f_act f) (f_sld f) (f_ro f) SIdle (f_sdocs f)), OHook 31)
              else (st, ODisabled)
      | SIdle => (setf st g (fun f => set_seal f (f_act f) (f_sld f) (f_ro f) SBuilt (build_sealed c f)), OHook 32)
      | SBuilt => (setf st g (fun f => set_seal f false true (f_ro f) SSwapped (f_sdocs f)), OHook 33)
      | SSwapped => if Nat.eqb (f_rl f) 0
              then (setf st g (fun f => set_seal f (f_act f) (f_sld f) (f_ro f) SReleased (f_sdocs f)), OHook 34)
              else (st, ODisabled)
      | SReleased => (setf st g (fun f => set_seal f (f_act f) (f_sld f) (f_ro f) SRepl (f_sdocs f)), OHook 35)
      | SRepl => (setf st g (fun f => set_seal f (f_act f) (f_sld f) (f_ro f) SDone (f_sdocs f)), ODone)
      | _ => (st, ODisabled)
      end
  end.

Definition sealing (p : spc) : bool := match p with SRo | SIdle | SBuilt => true | _ => false end.
Definition replaced (p : spc) : bool := match p with SDone => true | _ => false end.
Definition sui_enabled (st : state) : bool :=
  let g := shift st in
  let f := getf st g in
  (Nat.leb (g + 2) (length (fracs st)) && Nat.eqb (f_wg f) 0 && Nat.eqb (f_rl f) 0
   && negb (sealing (f_seal f)))%bool.

Definition step_sui (st : state) : state * obs :=
  if sui_enabled st then
    let g := shift st in
    (mkSt (upd g (fun f =>
                    if replaced (f_seal f)
                    then mkFrac (f_act f) (f_sld f) (f_ro f) (f_blocks f) (f_pos f) (f_ldocs f) (f_toks f) (f_from f) (f_to f)
                                (f_total f) (f_wg f) (f_rl f) (f_subs f) (f_seal f) (f_sdocs f) true
                    else mkFrac false false (f_ro f) (f_blocks f) (f_pos f) (f_ldocs f) (f_toks f) (f_from f) (f_to f)
                                (f_total f) (f_wg f) (f_rl f) (f_subs f) (f_seal f) (f_sdocs f) true) (fracs st))
          (S (shift st)) (ws st) (rs st), OUnit)
  else (st, ODisabled).

Definition step_snap (st : state) (r : nat) : state * obs :=
  match nth_error (rs st) r with
  | Some x =>
      match r_op x with
      | RIdle =>
          let gs := seq (shift st) (length (fracs st) - shift st) in
          (setr st r (fun x => mkR gs (r_op x)), OSnap (map (fun g => state_code (getf st g)) gs))
      | _ => (st, ODisabled)
      end
  | None => (st, ODisabled)
  end.

Definition step (c : config) (st : state) (l : label) : state * obs :=
  match l with
  | LW w => step_w c st (N.to_nat w)
  | LSnap r => step_snap st (N.to_nat r)
  | LSB r j q => step_sb c st (N.to_nat r) (N.to_nat j) (N.to_nat q)
  | LFB r j ids => step_fb c st (N.to_nat r) (N.to_nat j) ids
  | LR r => step_r c st (N.to_nat r)
  | LRot => step_rot st
  | LM g => step_m c st (N.to_nat g)
  | LSui => step_sui st
  end.

Fixpoint run (c : config) (st : state) (ls : list label) : list obs :=
  match ls with
  | [] => []
  | l :: r => let '(st', o) := step c st l in o :: run c st' r
  end.

Fixpoint exec (c : config) (st : state) (ls : list label) : state :=
  match ls with
  | [] => st
  | l :: r => exec c (fst (step c st l)) r
  end.
