(* C07 — quiescent equivalence: whatever the interleaving was, once no writer is mid-bulk on a fraction its index is
   exactly what a sequential ingest of the same bulks builds (up to the numbering of the LIDs): every entry of the
   ID table is in the posting of exactly its tokens, inside the published range, and every document of every accepted
   bulk has its ID in the table. Proved through an invariant that says who still owes what. *)
From Coq Require Import List Bool Arith NArith Lia.
From C07 Require Import Model ProofsInv ProofsIdx ProofsSafe ProofsCount.
Import ListNotations.

Definition complete (f : frac) (lid : nat) (d : doc) : Prop :=
  forall t, memN t (d_toks d) = true -> In lid (post f t).
(* a writer between AppendIDs and (lo..hi) still holds this LID *)
Definition owner (st : state) (g lid lo hi : nat) : Prop :=
  exists w x, nth_error (ws st) w = Some x /\ w_g x = g /\ lo <= w_pc x <= hi /\ In lid (w_lids x).
Definition pend3 (st : state) (g : nat) (wb : nat * nat) : Prop :=
  exists w x, nth_error (ws st) w = Some x /\ w_g x = g /\ w_pc x = 3 /\ wb = (w, w_cur x).
Definition pend4 (st : state) (g : nat) (i : id) : Prop :=
  exists w x, nth_error (ws st) w = Some x /\ w_g x = g /\ w_pc x = 4 /\ exists d, In d (w_docs x) /\ d_id d = i.

Record qok (c : config) (st : state) (g : nat) (f : frac) : Prop := mkQok {
  q_complete : forall lid d, ldoc f (S lid) d -> complete f (S lid) d \/ owner st g (S lid) 5 7;
  q_range : forall lid d, ldoc f (S lid) d ->
              (in_range (f_from f) (f_to f) (d_id d) = true /\ 0 < f_total f) \/ owner st g (S lid) 5 8;
  q_pos : forall i p, lookup_pos i (f_pos f) = Some p ->
              (exists lid d, ldoc f (S lid) d /\ d_id d = i) \/ pend4 st g i;
  q_blocks : forall wb d, In wb (f_blocks f) -> In d (bulk_of c wb) ->
              (exists p, lookup_pos (d_id d) (f_pos f) = Some p) \/ pend3 st g wb
}.
Definition QInv (c : config) (st : state) : Prop := forall g f, nth_error (fracs st) g = Some f -> qok c st g f.

(* ---------------------------------------------------------------- witnesses survive a writer's step *)
Lemma owner_upd st st' w hw x g lid lo hi :
  ws st' = upd w hw (ws st) -> nth_error (ws st) w = Some x ->
  (w_g x = g -> lo <= w_pc x <= hi -> In lid (w_lids x) ->
     w_g (hw x) = g /\ lo <= w_pc (hw x) <= hi /\ In lid (w_lids (hw x))) ->
  owner st g lid lo hi -> owner st' g lid lo hi.
Proof.
  intros EW EX H [w0 [x0 [A [B [C D]]]]]. destruct (Nat.eq_dec w0 w) as [E|E].
  - subst w0. rewrite EX in A. inversion A; subst x0. destruct (H B C D) as [H1 [H2 H3]].
    exists w, (hw x). rewrite EW, nth_error_upd, Nat.eqb_refl, EX. simpl. auto.
  - exists w0, x0. rewrite EW, nth_error_upd. rewrite (proj2 (Nat.eqb_neq w0 w) E). auto.
Qed.

Lemma pend3_upd st st' w hw x g wb :
  ws st' = upd w hw (ws st) -> nth_error (ws st) w = Some x ->
  (w_g x = g -> w_pc x = 3 -> wb = (w, w_cur x) -> w_g (hw x) = g /\ w_pc (hw x) = 3 /\ w_cur (hw x) = w_cur x) ->
  pend3 st g wb -> pend3 st' g wb.
Proof.
  intros EW EX H [w0 [x0 [A [B [C D]]]]]. destruct (Nat.eq_dec w0 w) as [E|E].
  - subst w0. rewrite EX in A. inversion A; subst x0. destruct (H B C D) as [H1 [H2 H3]].
    exists w, (hw x). rewrite EW, nth_error_upd, Nat.eqb_refl, EX. simpl. rewrite H3. auto.
  - exists w0, x0. rewrite EW, nth_error_upd. rewrite (proj2 (Nat.eqb_neq w0 w) E). auto.
Qed.

Lemma pend4_upd st st' w hw x g i :
  ws st' = upd w hw (ws st) -> nth_error (ws st) w = Some x ->
  (w_g x = g -> w_pc x = 4 -> w_g (hw x) = g /\ w_pc (hw x) = 4 /\ w_docs (hw x) = w_docs x) ->
  pend4 st g i -> pend4 st' g i.
Proof.
  intros EW EX H [w0 [x0 [A [B [C D]]]]]. destruct (Nat.eq_dec w0 w) as [E|E].
  - subst w0. rewrite EX in A. inversion A; subst x0. destruct (H B C) as [H1 [H2 H3]].
    exists w, (hw x). rewrite EW, nth_error_upd, Nat.eqb_refl, EX. simpl. rewrite H3. auto.
  - exists w0, x0. rewrite EW, nth_error_upd. rewrite (proj2 (Nat.eqb_neq w0 w) E). auto.
Qed.

Lemma complete_mono f f' lid d : fext f f' -> complete f lid d -> complete f' lid d.
Proof. intros E H t Ht. apply (fx_post _ _ E). auto. Qed.

Lemma in_range_mono f f' x : range_le f f' -> in_range (f_from f) (f_to f) x = true /\ 0 < f_total f ->
  in_range (f_from f') (f_to f') x = true /\ 0 < f_total f'.
Proof.
  intros [R1 [R2 R3]] [H T]. split; [|lia]. unfold in_range in *. apply andb_prop in H as [A B].
  apply N.leb_le in A, B. apply andb_true_intro. split; apply N.leb_le; lia.
Qed.

(* a step that keeps the ID table, the positions and the blocks of fraction g and every witness *)
Lemma qok_frame c st st' g f f' :
  qok c st g f -> fext f f' ->
  f_ldocs f' = f_ldocs f -> f_pos f' = f_pos f -> f_blocks f' = f_blocks f ->
  (forall lid, owner st g lid 5 7 -> owner st' g lid 5 7) -> (forall lid, owner st g lid 5 8 -> owner st' g lid 5 8) ->
  (forall wb, pend3 st g wb -> pend3 st' g wb) -> (forall i, pend4 st g i -> pend4 st' g i) ->
  qok c st' g f'.
Proof.
  intros [Q1 Q2 Q3 Q4] E A B C O O8 P3 P4. constructor; unfold ldoc in *; rewrite ?A, ?B, ?C.
  - intros lid d H. destruct (Q1 lid d H) as [X|X]; [left; eapply complete_mono; eauto | right; auto].
  - intros lid d H. destruct (Q2 lid d H) as [X|X]; [left; eapply in_range_mono; eauto; apply (fx_range _ _ E) | right; auto].
  - intros i p H. destruct (Q3 i p H) as [X|X]; auto.
  - intros wb d H1 H2. destruct (Q4 wb d H1 H2) as [X|X]; auto.
Qed.

Lemma QInv_same_ws c st st' :
  QInv c st -> ws st' = ws st -> length (fracs st') = length (fracs st) ->
  (forall g f f', nth_error (fracs st) g = Some f -> nth_error (fracs st') g = Some f' ->
     fext f f' /\ f_ldocs f' = f_ldocs f /\ f_pos f' = f_pos f /\ f_blocks f' = f_blocks f) ->
  QInv c st'.
Proof.
  intros Q EW EL H g f' E'.
  destruct (nth_error (fracs st) g) as [f|] eqn:E.
  2:{ apply nth_error_None in E. assert (g < length (fracs st')) by (apply nth_error_Some; congruence). lia. }
  destruct (H g f f' E E') as [X [A [B C]]].
  eapply (qok_frame c st st' g f f'); eauto.
  - intros lid [w [x [P1 P2]]]. exists w, x. rewrite EW. auto.
  - intros lid [w [x [P1 P2]]]. exists w, x. rewrite EW. auto.
  - intros wb [w [x [P1 P2]]]. exists w, x. rewrite EW. auto.
  - intros i [w [x [P1 P2]]]. exists w, x. rewrite EW. auto.
Qed.

(* ---------------------------------------------------------------- steps of readers and maintenance *)
Definition core (f : frac) := (f_ldocs f, f_pos f, f_blocks f).
Definition cores (st : state) := map core (fracs st).

Lemma cores_setf st g h : (forall x, core (h x) = core x) -> cores (setf st g h) = cores st.
Proof. intros H. unfold cores, setf; simpl. apply map_upd_same; auto. Qed.

Lemma advance_core st r g q a b m n s p :
  cores (fst (advance st r g q a b m n s p)) = cores st /\ ws (fst (advance st r g q a b m n s p)) = ws st.
Proof.
  revert s; induction p; intros s; simpl.
  - split; auto. unfold set_op, setr; simpl. apply (cores_setf st g (fun f => set_rl f (pred (f_rl f)))). reflexivity.
  - destruct (has_tok _ _); simpl; auto.
Qed.

Lemma nonwriter_core c st l :
  (forall w, l <> LW w) -> l <> LRot ->
  cores (fst (step c st l)) = cores st /\ ws (fst (step c st l)) = ws st.
Proof.
  intros NW NR. destruct l; simpl; try (exfalso; eapply NW; reflexivity); try congruence.
  - unfold step_snap. destruct (nth_error _ _) as [x|]; simpl; auto. destruct (r_op x); auto.
  - unfold step_sb. destruct (nth_error (rs st) _) as [x|]; simpl; auto.
    destruct (nth_error (c_qs c) _) as [[[qq qf] qt]|]; simpl; auto.
    destruct (r_op x); simpl; auto. destruct (nth_error (r_snap x) _) as [g0|]; simpl; auto.
    repeat match goal with |- context [if ?b then _ else _] => destruct b; simpl; auto end.
    split; auto. apply (cores_setf st g0 (fun f => set_rl f (S (f_rl f)))). reflexivity.
  - unfold step_fb. destruct (nth_error (rs st) _) as [x|]; simpl; auto.
    destruct (r_op x); simpl; auto. destruct (nth_error (r_snap x) _) as [g0|]; simpl; auto. destruct ids; simpl; auto.
    repeat match goal with |- context [if ?b then _ else _] => destruct b; simpl; auto end.
    split; auto. apply (cores_setf st g0 (fun f => set_rl f (S (f_rl f)))). reflexivity.
  - unfold step_r. destruct (nth_error (rs st) _) as [x|]; simpl; auto.
    destruct (r_op x) as [|g0 q pc a b m n s p|g0 fl nb]; simpl; auto.
    + destruct pc; simpl.
      * split; auto. apply (cores_setf st g0 (fun f => set_toks f (upd_tok 0%N merge_tok (f_toks f)))). reflexivity.
      * destruct (forallb _ m); simpl; auto. split; auto. apply (cores_setf st g0 (fun f => set_rl f (pred (f_rl f)))). reflexivity.
      * apply advance_core.
      * destruct p as [|t p]; simpl; auto.
        match goal with |- context [advance ?s1 ?r1 g0 q a b m n ?s2 p] => destruct (advance_core s1 r1 g0 q a b m n s2 p) as [A B] end.
        rewrite A, B. split; auto. apply (cores_setf st g0 (fun f => set_toks f (upd_tok t merge_tok (f_toks f)))). reflexivity.
    + destruct (existsb _ _); simpl; split; auto; apply (cores_setf st g0 (fun f => set_rl f (pred (f_rl f)))); reflexivity.
  - unfold step_m. destruct (nth_error (fracs st) _) as [f|]; simpl; auto.
    destruct (f_seal f); simpl; auto;
      repeat match goal with |- context [if ?b then _ else _] => destruct b; simpl; auto end;
      split; auto; match goal with |- cores (setf ?s ?gg ?h) = _ => apply (cores_setf s gg h) end; reflexivity.
  - unfold step_sui. destruct (sui_enabled st); simpl; auto. split; auto.
    match goal with |- cores {| fracs := upd ?gg ?h _ |} = _ => apply (cores_setf st gg h) end.
    intros y; destruct (replaced (f_seal y)); reflexivity.
Qed.

Lemma step_nonwriter_qinv c st l :
  (forall w, l <> LW w) -> l <> LRot -> QInv c st -> QInv c (fst (step c st l)).
Proof.
  intros NW NR Q. destruct (nonwriter_core c st l NW NR) as [CO EW].
  assert (EL : length (fracs (fst (step c st l))) = length (fracs st)).
  { unfold cores in CO. rewrite <- (map_length core), CO, map_length. reflexivity. }
  apply (QInv_same_ws c st); auto.
  intros g f f' E E'.
  assert (X : nth_error (cores (fst (step c st l))) g = Some (core f')) by (unfold cores; rewrite nth_error_map, E'; auto).
  rewrite CO in X. unfold cores in X. rewrite nth_error_map, E in X. simpl in X. inversion X as [[X1 X2 X3]].
  split; [|auto].
  pose proof (step_fext c st l g) as FX. unfold getf in FX.
  rewrite (nth_error_nth _ _ new_frac E), (nth_error_nth _ _ new_frac E') in FX. exact FX.
Qed.

Lemma step_rot_qinv c st : QInv c st -> QInv c (fst (step_rot st)).
Proof.
  intros Q. unfold step_rot. destruct (Nat.ltb _ _); simpl; auto.
  intros g f' E'. simpl in E'. destruct (Nat.lt_ge_cases g (length (fracs st))) as [L|L].
  - rewrite nth_error_app1 in E' by (rewrite length_upd; auto). rewrite nth_error_upd in E'.
    destruct (nth_error (fracs st) g) as [f|] eqn:E; [|destruct (Nat.eqb g (last_g st)); discriminate].
    assert (F' : f' = f \/ f' = set_seal f (f_act f) (f_sld f) (f_ro f) SRot (f_sdocs f)).
    { destruct (Nat.eqb g (last_g st)); simpl in E'; inversion E'; auto. }
    eapply (qok_frame c st _ g f f'); eauto.
    + destruct F' as [F'|F']; subst f'; [apply fext_refl | apply fext_eq; reflexivity].
    + destruct F' as [F'|F']; subst f'; reflexivity.
    + destruct F' as [F'|F']; subst f'; reflexivity.
    + destruct F' as [F'|F']; subst f'; reflexivity.
  - rewrite nth_error_app2 in E' by (rewrite length_upd; auto). rewrite length_upd in E'.
    destruct (g - length (fracs st)) as [|k]; simpl in E'; [|destruct k; discriminate].
    inversion E'; subst. constructor; unfold ldoc; simpl.
    + intros lid d H. destruct lid; discriminate.
    + intros lid d H. destruct lid; discriminate.
    + intros; discriminate.
    + intros wb d [].
Qed.

(* ---------------------------------------------------------------- writer steps *)
Lemma set_multiple_new blk ds : forall i pos x p,
  lookup_pos x pos = None -> lookup_pos x (fst (set_multiple blk i ds pos)) = Some p -> In x (snd (set_multiple blk i ds pos)).
Proof.
  induction ds; intros i pos x p N H; simpl in *; [congruence|].
  destruct (lookup_pos (d_id a) pos) eqn:E; [eapply IHds; eauto|].
  destruct (set_multiple blk (S i) ds (pos ++ [(d_id a, (blk, i))])) as [pp ap] eqn:SM. simpl in *.
  destruct (id_eqb x (d_id a)) eqn:EQ; [left; symmetry; apply id_eqb_eq; auto|]. right.
  specialize (IHds (S i) (pos ++ [(d_id a, (blk, i))]) x p). rewrite SM in IHds. simpl in IHds. apply IHds; auto.
  clear - N EQ. induction pos as [|[y q] pos]; simpl in *; [rewrite EQ; auto|]. destruct (id_eqb x y); [discriminate|auto].
Qed.

Lemma set_multiple_all blk ds : forall i pos d,
  In d ds -> exists p, lookup_pos (d_id d) (fst (set_multiple blk i ds pos)) = Some p.
Proof.
  induction ds; intros i pos d H; simpl in *; [contradiction|].
  destruct (lookup_pos (d_id a) pos) eqn:E.
  - destruct H as [H|H]; [subst; exists p; apply set_multiple_ext; auto | apply IHds; auto].
  - destruct (set_multiple blk (S i) ds (pos ++ [(d_id a, (blk, i))])) as [pp ap] eqn:SM. simpl.
    destruct H as [H|H].
    + subst. exists (blk, i). pose proof (set_multiple_ext blk ds (S i) _ _ _ (lookup_pos_app_last _ _ (blk, i) E)) as X.
      rewrite SM in X. exact X.
    + specialize (IHds (S i) (pos ++ [(d_id a, (blk, i))]) d H). rewrite SM in IHds. exact IHds.
Qed.

Lemma min_mid_le ds d : In d ds -> (min_mid ds <= fst (d_id d))%N.
Proof.
  unfold min_mid. induction ds; simpl; intros H; [contradiction|]. destruct H as [H|H].
  - subst. apply N.le_min_l.
  - eapply N.le_trans; [apply N.le_min_r | auto].
Qed.

Lemma max_mid_ge ds d : In d ds -> (fst (d_id d) <= max_mid_of ds)%N.
Proof.
  unfold max_mid_of. induction ds; simpl; intros H; [contradiction|]. destruct H as [H|H].
  - subst. apply N.le_max_l.
  - eapply N.le_trans; [auto | apply N.le_max_r].
Qed.

(* fractions other than the acting writer's are untouched and lose no witness *)
Lemma qok_other c st st' w hw x g f :
  ws st' = upd w hw (ws st) -> nth_error (ws st) w = Some x -> w_g x <> g -> qok c st g f -> qok c st' g f.
Proof.
  intros EW EX NE Q. eapply (qok_frame c st st' g f f); eauto; try apply fext_refl.
  - intros lid. apply (owner_upd st st' w hw x g lid 5 7 EW EX). intros E; congruence.
  - intros lid. apply (owner_upd st st' w hw x g lid 5 8 EW EX). intros E; congruence.
  - intros wb. apply (pend3_upd st st' w hw x g wb EW EX). intros E; congruence.
  - intros i. apply (pend4_upd st st' w hw x g i EW EX). intros E; congruence.
Qed.

(* the general shape of a writer step: fraction g0 rewritten by hf, writer w rewritten by hw *)
Lemma QInv_w c st w g0 hf hw x :
  QInv c st -> nth_error (ws st) w = Some x -> w_g x = g0 ->
  (forall f0, nth_error (fracs st) g0 = Some f0 -> qok c (setw (setf st g0 hf) w hw) g0 (hf f0)) ->
  QInv c (setw (setf st g0 hf) w hw).
Proof.
  intros Q EX EG H g f' E'. simpl in E'. rewrite nth_error_upd in E'.
  destruct (Nat.eqb_spec g g0).
  - subst g. destruct (nth_error (fracs st) g0) as [f0|] eqn:E0; simpl in E'; inversion E'; subst. auto.
  - eapply (qok_other c st _ w hw x g f'); eauto. congruence.
Qed.

Lemma QInv_wonly c st w hw x :
  QInv c st -> nth_error (ws st) w = Some x ->
  (forall g, w_g x = g -> (5 <= w_pc x <= 7 -> w_g (hw x) = g /\ 5 <= w_pc (hw x) <= 7 /\ w_lids (hw x) = w_lids x)
                        /\ (5 <= w_pc x <= 8 -> w_g (hw x) = g /\ 5 <= w_pc (hw x) <= 8 /\ w_lids (hw x) = w_lids x)
                        /\ (w_pc x = 3 -> w_g (hw x) = g /\ w_pc (hw x) = 3 /\ w_cur (hw x) = w_cur x)
                        /\ (w_pc x = 4 -> w_g (hw x) = g /\ w_pc (hw x) = 4 /\ w_docs (hw x) = w_docs x)) ->
  QInv c (setw st w hw).
Proof.
  intros Q EX H g f E. pose proof (Q g f E) as Q0.
  eapply (qok_frame c st _ g f f); eauto; try apply fext_refl.
  - intros lid. apply (owner_upd st (setw st w hw) w hw x g lid 5 7 eq_refl EX). intros A B C. destruct (H g A) as [H1 _]. destruct (H1 B) as [X1 [X2 X3]]. rewrite X3. auto.
  - intros lid. apply (owner_upd st (setw st w hw) w hw x g lid 5 8 eq_refl EX). intros A B C. destruct (H g A) as [_ [H1 _]]. destruct (H1 B) as [X1 [X2 X3]]. rewrite X3. auto.
  - intros wb. apply (pend3_upd st (setw st w hw) w hw x g wb eq_refl EX). intros A B C. destruct (H g A) as [_ [_ [H1 _]]]. apply H1; auto.
  - intros i. apply (pend4_upd st (setw st w hw) w hw x g i eq_refl EX). intros A B. destruct (H g A) as [_ [_ [_ H1]]]. apply H1; auto.
Qed.

Ltac wit :=
  intros; first [eapply owner_upd | eapply pend3_upd | eapply pend4_upd];
  [reflexivity | eassumption | simpl; intros; repeat split; auto; try lia; try congruence | eassumption].

Lemma In_nth_error2 {A} (l : list A) x : In x l -> exists i, nth_error l i = Some x.
Proof. apply In_nth_error. Qed.

Lemma step_w_qinv c st w :
  IInv st -> SInv c st -> SInv c (fst (step_w c st w)) -> QInv c st -> QInv c (fst (step_w c st w)).
Proof.
  intros II SI. pose proof (step_w_ext c st w) as EXT. revert EXT.
  unfold step_w. destruct (nth_error (ws st) w) as [x|] eqn:EX; simpl; auto.
  pose proof (si_w c st SI w x EX) as W.
  assert (RG : 1 <= w_pc x -> w_g x < length (fracs st)).
  { destruct II as [_ HW]. rewrite Forall_forall in HW. apply (HW x (nth_error_In _ _ EX)). }
  set (g := w_g x) in *. set (f0 := getf st g) in *.
  assert (F0 : forall f1, nth_error (fracs st) g = Some f1 -> f1 = f0).
  { intros f1 H. unfold f0. symmetry. apply nth_error_getf; auto. }
  destruct (w_pc x) as [|[|[|[|[|[|[|[|[|pc]]]]]]]]] eqn:PC; simpl.
  - (* idle -> picked *)
    destruct (Nat.ltb _ _); simpl; auto. intros _ _ Q. eapply QInv_wonly; eauto. intros g' _. repeat split; intros; lia.
  - destruct (_ && _ && _)%bool; simpl; intros EXT SI' Q.
    + eapply QInv_w; eauto. intros f1 E1.
      eapply (qok_frame c st _ g f1 _ (Q g f1 E1)); try reflexivity; [apply fext_eq; reflexivity | wit | wit | wit | wit].
    + eapply QInv_wonly; eauto. intros g' _. repeat split; intros; lia.
  - (* DocBlocks.Append *)
    intros EXT SI' Q. eapply QInv_w; eauto. intros f1 E1. pose proof (Q g f1 E1) as [Q1 Q2 Q3 Q4].
    assert (FX : fext f1 (mkFrac (f_act f1) (f_sld f1) (f_ro f1) (f_blocks f1 ++ [(w, w_cur x)]) (f_pos f1) (f_ldocs f1) (f_toks f1)
                            (f_from f1) (f_to f1) (f_total f1) (f_wg f1) (f_rl f1) (f_subs f1) (f_seal f1) (f_sdocs f1) (f_ssui f1))).
    { constructor; simpl; auto; try (exists []; rewrite app_nil_r; reflexivity); try (eexists; reflexivity); rr. }
    constructor; unfold ldoc; cbn [f_ldocs f_pos f_blocks f_from f_to f_total f_toks].
    + intros lid d H. destruct (Q1 lid d H) as [X|X]; [left; eapply complete_mono; eauto | right; revert X; wit].
    + intros lid d H. destruct (Q2 lid d H) as [X|X]; [left; exact X | right; revert X; wit].
    + intros i p H. destruct (Q3 i p H) as [X|X]; [left; exact X | right; revert X; wit].
    + intros wb d H1 H2. apply in_app_or in H1 as [H1|[H1|[]]].
      * destruct (Q4 wb d H1 H2) as [X|X]; [left; exact X | right; revert X; wit].
      * subst wb. right. exists w. eexists. split; [simpl; rewrite nth_error_upd, Nat.eqb_refl, EX; reflexivity|]. simpl. auto.
  - (* SetMultiple + Filter *)
    destruct (set_multiple (w_blk x) 0 (cur_bulk c w x) (f_pos f0)) as [pos' app] eqn:SM. simpl. intros EXT SI' Q.
    eapply QInv_w; eauto. intros f1 E1. rewrite (F0 f1 E1) in *. pose proof (Q g f1 E1) as QQ. rewrite (F0 f1 E1) in QQ.
    destruct QQ as [Q1 Q2 Q3 Q4].
    assert (FX : fext f0 (mkFrac (f_act f0) (f_sld f0) (f_ro f0) (f_blocks f0) pos' (f_ldocs f0) (f_toks f0)
                            (f_from f0) (f_to f0) (f_total f0) (f_wg f0) (f_rl f0) (f_subs f0) (f_seal f0) (f_sdocs f0) (f_ssui f0))).
    { constructor; simpl; auto; try (exists []; rewrite app_nil_r; reflexivity); [|rr].
      intros y p Hy. pose proof (set_multiple_ext (w_blk x) (cur_bulk c w x) 0 _ y p Hy) as X. rewrite SM in X. exact X. }
    constructor; unfold ldoc; cbn [f_ldocs f_pos f_blocks f_from f_to f_total f_toks].
    + intros lid d H. destruct (Q1 lid d H) as [X|X]; [left; eapply complete_mono; eauto | right; revert X; wit].
    + intros lid d H. destruct (Q2 lid d H) as [X|X]; [left; exact X | right; revert X; wit].
    + intros i p H. destruct (lookup_pos i (f_pos f0)) as [p0|] eqn:LP.
      * destruct (Q3 i p0 LP) as [X|X]; [left; exact X | right; revert X; wit].
      * right. pose proof (set_multiple_new (w_blk x) (cur_bulk c w x) 0 (f_pos f0) i p LP) as IN. rewrite SM in IN. simpl in IN.
        specialize (IN H).
        pose proof (set_multiple_spec (w_blk x) (cur_bulk c w x) 0 (f_pos f0) i (fst p) (snd p)) as SP. rewrite SM in SP. simpl in SP.
        destruct p as [pb pi]. simpl in SP. destruct (SP H) as [X|[_ [d [ND [_ ID]]]]]; [congruence|].
        exists w. eexists. split; [simpl; rewrite nth_error_upd, Nat.eqb_refl, EX; reflexivity|]. simpl.
        split; auto. split; auto. exists d. split; auto. apply filter_In. split; [eapply nth_error_In; eauto|].
        unfold mem_id. apply existsb_exists. exists i. split; auto. rewrite ID. apply id_eqb_refl.
    + intros wb d H1 H2. destruct (Q4 wb d H1 H2) as [[p X]|X].
      * left. exists p. apply (fx_pos _ _ FX). exact X.
      * destruct X as [w0 [x0 [A [B [C D]]]]]. destruct (Nat.eq_dec w0 w) as [EW|NW].
        -- subst w0. rewrite EX in A. inversion A; subst x0. subst wb. left.
           pose proof (set_multiple_all (w_blk x) (cur_bulk c w x) 0 (f_pos f0) d H2) as Y. rewrite SM in Y. exact Y.
        -- right. exists w0, x0. split; [simpl; rewrite nth_error_upd; rewrite (proj2 (Nat.eqb_neq w0 w) NW); exact A|]. auto.
  - (* AppendIDs *)
    intros EXT SI' Q. eapply QInv_w; eauto. intros f1 E1. rewrite (F0 f1 E1) in *. pose proof (Q g f1 E1) as QQ. rewrite (F0 f1 E1) in QQ.
    destruct QQ as [Q1 Q2 Q3 Q4].
    assert (FX : fext f0 (mkFrac (f_act f0) (f_sld f0) (f_ro f0) (f_blocks f0) (f_pos f0) (f_ldocs f0 ++ w_docs x) (f_toks f0)
                            (f_from f0) (f_to f0) (f_total f0) (f_wg f0) (f_rl f0) (f_subs f0) (f_seal f0) (f_sdocs f0) (f_ssui f0))).
    { constructor; simpl; auto; try (exists []; rewrite app_nil_r; reflexivity); try (eexists; reflexivity); rr. }
    assert (NEWL : forall lid d, nth_error (f_ldocs f0 ++ w_docs x) lid = Some d -> length (f_ldocs f0) <= lid ->
                   In lid (seq (length (f_ids f0)) (length (w_docs x)))).
    { intros lid d H L. rewrite nth_error_app2 in H by auto. apply in_seq. unfold f_ids. rewrite map_length.
      assert (lid - length (f_ldocs f0) < length (w_docs x)) by (apply nth_error_Some; congruence). lia. }
    constructor; unfold ldoc; cbn [f_ldocs f_pos f_blocks f_from f_to f_total f_toks].
    + intros lid d H. destruct (Nat.lt_ge_cases (S lid) (length (f_ldocs f0))) as [L|L].
      * rewrite nth_error_app1 in H by auto. destruct (Q1 lid d H) as [X|X]; [left; eapply complete_mono; eauto | right; revert X; wit].
      * right. exists w. eexists. split; [simpl; rewrite nth_error_upd, Nat.eqb_refl, EX; reflexivity|]. simpl.
        split; auto. split; [lia|]. eapply NEWL; eauto.
    + intros lid d H. destruct (Nat.lt_ge_cases (S lid) (length (f_ldocs f0))) as [L|L].
      * rewrite nth_error_app1 in H by auto. destruct (Q2 lid d H) as [X|X]; [left; exact X | right; revert X; wit].
      * right. exists w. eexists. split; [simpl; rewrite nth_error_upd, Nat.eqb_refl, EX; reflexivity|]. simpl.
        split; auto. split; [lia|]. eapply NEWL; eauto.
    + intros i p H. destruct (Q3 i p H) as [[lid [d [X1 X2]]]|X].
      * left. exists lid, d. split; auto. apply nth_error_app_pre. exact X1.
      * destruct X as [w0 [x0 [A [B [C [d [D1 D2]]]]]]]. destruct (Nat.eq_dec w0 w) as [EW|NW].
        -- subst w0. rewrite EX in A. inversion A; subst x0. left.
           apply In_nth_error in D1 as [k Hk].
           assert (LP : 1 <= length (f_ldocs f0)).
           { destruct (fk_sys c f0 (getf_fok c st g SI)) as [rest R]. fold f0 in R. rewrite R. simpl. lia. }
           exists (length (f_ldocs f0) + k - 1), d. split; auto.
           replace (S (length (f_ldocs f0) + k - 1)) with (length (f_ldocs f0) + k) by lia.
           rewrite nth_error_app2 by lia. replace (length (f_ldocs f0) + k - length (f_ldocs f0)) with k by lia. exact Hk.
        -- right. exists w0, x0. split; [simpl; rewrite nth_error_upd; rewrite (proj2 (Nat.eqb_neq w0 w) NW); exact A|]. eauto.
    + intros wb d H1 H2. destruct (Q4 wb d H1 H2) as [X|X]; [left; exact X | right; revert X; wit].
  - (* TokenList.Append *)
    intros EXT SI' Q. eapply QInv_w; eauto. intros f1 E1.
    eapply (qok_frame c st _ g f1 _ (Q g f1 E1)); try reflexivity; [ | wit | wit | wit | wit].
    pose proof (EXT g) as X. rewrite getf_setw_setf in X by (apply RG; lia). fold f0 in X. rewrite (F0 f1 E1). exact X.
  - (* before the first put *)
    destruct (put_order (c_ver c) (cur_bulk c w x)) as [|t0 rest] eqn:PO; simpl; intros _ SI' Q.
    + (* nothing to put: the collector's documents are complete at once *)
      pose proof (si_w c _ SI' w _ ltac:(simpl; rewrite nth_error_upd, Nat.eqb_refl, EX; reflexivity)) as W'.
      pose proof (wk_done _ _ _ _ W' ltac:(simpl; lia)) as DN. simpl in DN.
      intros g' f' E'. simpl in E'. pose proof (Q g' f' E') as [Q1 Q2 Q3 Q4].
      constructor.
      * intros lid d H. destruct (Q1 lid d H) as [X|X]; [left; exact X|].
        destruct X as [w0 [x0 [A [B [C D]]]]]. destruct (Nat.eq_dec w0 w) as [EW|NW].
        -- subst w0. rewrite EX in A. inversion A; subst x0. left.
           apply In_nth_error in D as [k Hk].
           assert (KL : k < length (w_docs x)) by (rewrite (Forall2_length' _ _ _ DN); apply nth_error_Some; congruence).
           destruct (nth_error (w_docs x) k) as [d'|] eqn:ND; [|apply nth_error_None in ND; lia].
           destruct (Forall2_nth _ _ _ DN k d' (S lid) ND Hk) as [L1 L2].
           assert (EF : getf (setw st w (fun x1 => mkW (w_cur x1) 8 g (w_blk x1) (w_docs x1) (w_cnt x1) (w_lids x1) 0)) g = f').
           { fold g in B. subst g'. change (getf st g = f'). apply nth_error_getf. exact E'. }
           rewrite EF in L1, L2. rewrite (ldoc_fun _ _ _ _ H L1). exact L2.
        -- right. exists w0, x0. split; [simpl; rewrite nth_error_upd; rewrite (proj2 (Nat.eqb_neq w0 w) NW); exact A|]. auto.
      * intros lid d H. destruct (Q2 lid d H) as [X|X]; [left; exact X | right; revert X; wit].
      * intros i p H. destruct (Q3 i p H) as [X|X]; [left; exact X | right; revert X; wit].
      * intros wb d H1 H2. destruct (Q4 wb d H1 H2) as [X|X]; [left; exact X | right; revert X; wit].
    + eapply QInv_wonly; eauto. intros g' EG. repeat split; intros; simpl; auto; try lia.
  - (* one put *)
    destruct (Nat.ltb (S (w_k x)) (length (put_order (c_ver c) (cur_bulk c w x)))) eqn:LT; simpl; intros EXT SI' Q.
    + eapply QInv_w; eauto. intros f1 E1.
      eapply (qok_frame c st _ g f1 _ (Q g f1 E1)); try reflexivity; [ | wit | wit | wit | wit].
      pose proof (EXT g) as X. rewrite getf_setw_setf in X by (apply RG; lia). fold f0 in X. rewrite (F0 f1 E1). exact X.
    + (* the last put *)
      eapply QInv_w; eauto. intros f1 E1. rewrite (F0 f1 E1) in *. pose proof (Q g f1 E1) as QQ. rewrite (F0 f1 E1) in QQ.
      destruct QQ as [Q1 Q2 Q3 Q4].
      pose proof (si_w c _ SI' w _ ltac:(simpl; rewrite nth_error_upd, Nat.eqb_refl, EX; reflexivity)) as W'.
      pose proof (wk_done _ _ _ _ W' ltac:(simpl; lia)) as DN. simpl in DN.
      rewrite getf_setw_setf in DN by (apply RG; lia). fold f0 in DN.
      pose proof (EXT g) as FX. rewrite getf_setw_setf in FX by (apply RG; lia). fold f0 in FX.
      constructor; unfold ldoc; cbn [f_ldocs f_pos f_blocks f_from f_to f_total f_toks].
      * intros lid d H. destruct (Q1 lid d H) as [X|X]; [left; eapply complete_mono; eauto|].
        destruct X as [w0 [x0 [A [B [C D]]]]]. destruct (Nat.eq_dec w0 w) as [EW|NW].
        -- subst w0. rewrite EX in A. inversion A; subst x0. left.
           apply In_nth_error in D as [k Hk].
           assert (KL : k < length (w_docs x)) by (rewrite (Forall2_length' _ _ _ DN); apply nth_error_Some; congruence).
           destruct (nth_error (w_docs x) k) as [d'|] eqn:ND; [|apply nth_error_None in ND; lia].
           destruct (Forall2_nth _ _ _ DN k d' (S lid) ND Hk) as [L1 L2].
           unfold ldoc in L1. cbn [f_ldocs] in L1. rewrite H in L1. inversion L1; subst d'. exact L2.
        -- right. exists w0, x0. split; [simpl; rewrite nth_error_upd; rewrite (proj2 (Nat.eqb_neq w0 w) NW); exact A|]. auto.
      * intros lid d H. destruct (Q2 lid d H) as [X|X]; [left; exact X | right; revert X; wit].
      * intros i p H. destruct (Q3 i p H) as [X|X]; [left; exact X | right; revert X; wit].
      * intros wb d H1 H2. destruct (Q4 wb d H1 H2) as [X|X]; [left; exact X | right; revert X; wit].
  - (* UpdateStats *)
    intros EXT SI' Q. eapply QInv_w; eauto. intros f1 E1. rewrite (F0 f1 E1) in *. pose proof (Q g f1 E1) as QQ. rewrite (F0 f1 E1) in QQ.
    destruct QQ as [Q1 Q2 Q3 Q4].
    pose proof (wk_done _ _ _ _ W ltac:(lia)) as DN. fold g f0 in DN.
    pose proof (EXT g) as FX. rewrite getf_setw_setf in FX by (apply RG; lia). fold f0 in FX.
    constructor; unfold ldoc; cbn [f_ldocs f_pos f_blocks f_from f_to f_total f_toks].
    + intros lid d H. destruct (Q1 lid d H) as [X|X]; [left; eapply complete_mono; eauto | right; revert X; wit].
    + intros lid d H. destruct (Q2 lid d H) as [X|X].
      * left. apply (in_range_mono f0 _ (d_id d) (fx_range _ _ FX)). exact X.
      * destruct X as [w0 [x0 [A [B [C D]]]]]. destruct (Nat.eq_dec w0 w) as [EW|NW].
        -- subst w0. rewrite EX in A. inversion A; subst x0. left.
           apply In_nth_error in D as [k Hk].
           assert (KL : k < length (w_docs x)) by (rewrite (Forall2_length' _ _ _ DN); apply nth_error_Some; congruence).
           destruct (nth_error (w_docs x) k) as [d'|] eqn:ND; [|apply nth_error_None in ND; lia].
           destruct (Forall2_nth _ _ _ DN k d' (S lid) ND Hk) as [L1 _].
           unfold ldoc in L1. rewrite H in L1. inversion L1; subst d'.
           assert (IND : In d (w_docs x)) by (eapply nth_error_In; eauto).
           pose proof (min_mid_le _ _ IND) as M1. pose proof (max_mid_ge _ _ IND) as M2.
           assert (CN : 0 < w_cnt x). { apply (wk_cnt _ _ _ _ W); [lia|]. intros EE. rewrite EE in IND. contradiction. }
           split; [|lia]. unfold in_range. apply andb_true_intro. split; apply N.leb_le; lia.
        -- right. exists w0, x0. split; [simpl; rewrite nth_error_upd; rewrite (proj2 (Nat.eqb_neq w0 w) NW); exact A|]. auto.
    + intros i p H. destruct (Q3 i p H) as [X|X]; [left; exact X | right; revert X; wit].
    + intros wb d H1 H2. destruct (Q4 wb d H1 H2) as [X|X]; [left; exact X | right; revert X; wit].
  - (* wg.Done *)
    intros EXT SI' Q. eapply QInv_w; eauto. intros f1 E1.
    eapply (qok_frame c st _ g f1 _ (Q g f1 E1)); try reflexivity; [apply fext_eq; reflexivity | wit | wit | wit | wit].
Qed.

Lemma step_qinv c st l :
  v_all_last (c_ver c) = true -> IInv st -> SInv c st -> QInv c st -> QInv c (fst (step c st l)).
Proof.
  intros V II SI Q. destruct l.
  - simpl. apply step_w_qinv; auto. apply step_w_sinv; auto.
  - apply step_nonwriter_qinv; auto; intros; discriminate.
  - apply step_nonwriter_qinv; auto; intros; discriminate.
  - apply step_nonwriter_qinv; auto; intros; discriminate.
  - apply step_nonwriter_qinv; auto; intros; discriminate.
  - simpl. apply step_rot_qinv; auto.
  - apply step_nonwriter_qinv; auto; intros; discriminate.
  - apply step_nonwriter_qinv; auto; intros; discriminate.
Qed.

Lemma init_qinv c n : QInv c (init c n).
Proof.
  intros g f E. simpl in E. destruct g as [|[|g]]; simpl in E; try discriminate. inversion E; subst.
  constructor; unfold ldoc; simpl.
  - intros lid d H. destruct lid; discriminate.
  - intros lid d H. destruct lid; discriminate.
  - intros; discriminate.
  - intros wb d [].
Qed.

Lemma exec_qinv c ls : v_all_last (c_ver c) = true -> forall st, IInv st -> SInv c st -> QInv c st -> QInv c (exec c st ls).
Proof.
  intros V. induction ls; simpl; intros st II SI Q; auto.
  apply IHls; [apply step_iinv | apply step_sinv | apply step_qinv]; auto.
Qed.

Lemma reach_qinv c n ls : v_all_last (c_ver c) = true -> QInv c (exec c (init c n) ls).
Proof. intros V. apply exec_qinv; auto; [apply init_iinv | apply init_sinv | apply init_qinv]. Qed.

(* ---------------------------------------------------------------- the quiescent index *)
Record quiescent_index (c : config) (f : frac) : Prop := mkQI {
  (* postings are exact: a table entry is in token t's posting iff its document carries t *)
  qi_exact : forall lid d t, ldoc f (S lid) d -> (In (S lid) (post f t) <-> memN t (d_toks d) = true);
  (* every table entry is inside the published range of a non-empty fraction *)
  qi_range : forall lid d, ldoc f (S lid) d -> in_range (f_from f) (f_to f) (d_id d) = true /\ 0 < f_total f;
  (* every document of every accepted bulk has its ID in the table (and a position) *)
  qi_all : forall wb d, In wb (f_blocks f) -> In d (bulk_of c wb) ->
             (exists lid d', ldoc f (S lid) d' /\ d_id d' = d_id d) /\ exists p, lookup_pos (d_id d) (f_pos f) = Some p;
  (* and the table holds nothing else *)
  qi_only : forall lid d, ldoc f (S lid) d -> blocks_docs c f d
}.

Lemma quiescent c n ls g f :
  v_all_last (c_ver c) = true ->
  nth_error (fracs (exec c (init c n) ls)) g = Some f -> f_wg f = 0 -> quiescent_index c f.
Proof.
  intros V E Z. set (st := exec c (init c n) ls) in *.
  pose proof (reach_qinv c n ls V g f E) as [Q1 Q2 Q3 Q4]. fold st in Q1, Q2, Q3, Q4.
  pose proof (reach_sinv c n ls V) as SI. fold st in SI.
  assert (FK : fok c f) by (eapply si_f; eauto).
  assert (NOW : forall w x, nth_error (ws st) w = Some x -> 2 <= w_pc x -> w_g x <> g).
  { exact (wg_zero_no_writer c n ls g f E Z). }
  assert (NO : forall lid lo hi, 2 <= lo -> ~ owner st g lid lo hi).
  { intros lid lo hi L [w [x [A [B [C D]]]]]. apply (NOW w x A); [lia|auto]. }
  assert (N3 : forall wb, ~ pend3 st g wb).
  { intros wb [w [x [A [B [C D]]]]]. apply (NOW w x A); [lia|auto]. }
  assert (N4 : forall i, ~ pend4 st g i).
  { intros i [w [x [A [B [C D]]]]]. apply (NOW w x A); [lia|auto]. }
  constructor.
  - intros lid d t H. split.
    + intros HP. destruct (post_ldoc c f t (S lid) FK HP) as [d' [D1 D2]]. rewrite (ldoc_fun _ _ _ _ H D1). exact D2.
    + intros M. destruct (Q1 lid d H) as [X|X]; [apply X; auto | exfalso; eapply (NO (S lid) 5 7); eauto; lia].
  - intros lid d H. destruct (Q2 lid d H) as [X|X]; [exact X | exfalso; eapply (NO (S lid) 5 8); eauto; lia].
  - intros wb d H1 H2. destruct (Q4 wb d H1 H2) as [[p X]|X]; [|exfalso; eapply N3; eauto].
    split; [|eauto]. destruct (Q3 _ _ X) as [Y|Y]; [exact Y | exfalso; eapply N4; eauto].
  - intros lid d H. apply (fk_ldocs c f FK lid d H).
Qed.

(* two quiescent indexes over the same accepted bulks (e.g. the concurrent run and ANY sequential ingest of the same
   bulks, which is just another label list) give the same answer to every query, provided documents that share an ID
   are the same document as far as tokens go (a retried bulk repeats its documents) *)
Definition answers (f : frac) (q : query) (x : id) : Prop :=
  exists lid d, ldoc f (S lid) d /\ d_id d = x /\ evald q (d_toks d) = true.

Lemma quiescent_answers_equal c f1 f2 q x :
  quiescent_index c f1 -> quiescent_index c f2 ->
  (forall wb, In wb (f_blocks f1) <-> In wb (f_blocks f2)) ->
  (forall d d', blocks_docs c f1 d -> blocks_docs c f1 d' -> d_id d = d_id d' -> forall t, memN t (d_toks d) = memN t (d_toks d')) ->
  answers f1 q x -> answers f2 q x.
Proof.
  intros [_ _ A1 O1] [_ _ A2 O2] SB SAME [lid [d [L [ID EV]]]].
  destruct (O1 lid d L) as [wb [W1 W2]].
  destruct (A2 wb d (proj1 (SB wb) W1) W2) as [[lid2 [d2 [L2 ID2]]] _].
  exists lid2, d2. split; auto. split; [congruence|].
  destruct (O2 lid2 d2 L2) as [wb2 [V1 V2]].
  assert (B1 : blocks_docs c f1 d) by (exists wb; auto).
  assert (B2 : blocks_docs c f1 d2) by (exists wb2; split; auto; apply SB; auto).
  rewrite <- (evald_ext q _ _ (SAME d d2 B1 B2 (eq_sym ID2))). exact EV.
Qed.

(* what frac.Seal reads: from WaitWriteIdle on, the fraction's index is the quiescent one *)
Lemma sealer_reads_exact_index c n ls g f :
  v_all_last (c_ver c) = true ->
  nth_error (fracs (exec c (init c n) ls)) g = Some f -> idle_passed (f_seal f) = true -> quiescent_index c f.
Proof.
  intros V E IP. destruct (handover_no_gap c n ls g f E IP) as [Z _]. eapply quiescent; eauto.
Qed.
