(* C07 — reader safety: which document a LID is, what a posting says about it, what a reader's snapshots say,
   and what a result / a fetched body therefore is. Invariants over ALL label lists. *)
From Coq Require Import List Bool Arith NArith Lia.
From C07 Require Import Model ProofsInv ProofsIdx.
Import ListNotations.

Definition posting (t : tlids) : list nat := tl_sorted t ++ tl_queue t.
Definition post (f : frac) (t : N) : list nat := posting (get_tok t (f_toks f)).
(* d is a document of a bulk that was accepted by this fraction (its block is registered) *)
Definition blocks_docs (c : config) (f : frac) (d : doc) : Prop :=
  exists wb, In wb (f_blocks f) /\ In d (bulk_of c wb).

(* ---------------------------------------------------------------- token list algebra *)
Lemma memN_In x l : memN x l = true <-> In x l.
Proof.
  unfold memN. rewrite existsb_exists. split.
  - intros [y [H E]]. apply N.eqb_eq in E. subst; auto.
  - intros H. exists x. split; auto. apply N.eqb_refl.
Qed.

Lemma memn_In x l : memn x l = true <-> In x l.
Proof.
  unfold memn. rewrite existsb_exists. split.
  - intros [y [H E]]. apply Nat.eqb_eq in E. subst; auto.
  - intros H. exists x. split; auto. apply Nat.eqb_refl.
Qed.

Lemma has_tok_find t l : has_tok t l = true <-> exists x, find (fun x => N.eqb (tl_tok x) t) l = Some x.
Proof.
  induction l; simpl.
  - split; [discriminate | intros [x H]; discriminate].
  - destruct (N.eqb (tl_tok a) t); simpl.
    + split; eauto.
    + exact IHl.
Qed.

Lemma get_tok_in t l : has_tok t l = true -> In (get_tok t l) l /\ tl_tok (get_tok t l) = t.
Proof.
  intros H. apply has_tok_find in H as [x H]. unfold get_tok. rewrite H.
  apply find_some in H as [A B]. apply N.eqb_eq in B. auto.
Qed.

Lemma get_tok_none t l : has_tok t l = false -> get_tok t l = mkTl t [] [].
Proof.
  intros H. unfold get_tok. destruct (find _ l) eqn:E; auto.
  assert (has_tok t l = true) by (apply has_tok_find; eauto). congruence.
Qed.

Lemma post_has_tok f t lid : In lid (post f t) -> has_tok t (f_toks f) = true.
Proof.
  unfold post. destruct (has_tok t (f_toks f)) eqn:E; auto.
  rewrite (get_tok_none _ _ E). simpl. contradiction.
Qed.

Lemma get_tok_upd_same t h l :
  (forall x, tl_tok (h x) = tl_tok x) -> has_tok t l = true -> get_tok t (upd_tok t h l) = h (get_tok t l).
Proof.
  intros Hh. unfold get_tok, upd_tok. induction l; simpl; [discriminate|].
  destruct (N.eqb (tl_tok a) t) eqn:E; simpl.
  - rewrite Hh, E. auto.
  - rewrite E. auto.
Qed.

Lemma get_tok_upd_other t t' h l :
  (forall x, tl_tok (h x) = tl_tok x) -> t <> t' -> get_tok t (upd_tok t' h l) = get_tok t l.
Proof.
  intros Hh N. unfold get_tok, upd_tok. induction l; simpl; auto.
  destruct (N.eqb (tl_tok a) t') eqn:E'.
  - rewrite Hh. apply N.eqb_eq in E'. destruct (N.eqb (tl_tok a) t) eqn:E.
    + apply N.eqb_eq in E. congruence.
    + exact IHl.
  - destruct (N.eqb (tl_tok a) t); auto.
Qed.

Lemma has_tok_upd t t' h l : (forall x, tl_tok (h x) = tl_tok x) -> has_tok t (upd_tok t' h l) = has_tok t l.
Proof.
  intros Hh. unfold has_tok, upd_tok. induction l; simpl; auto.
  destruct (N.eqb (tl_tok a) t'); simpl; rewrite ?Hh, IHl; auto.
Qed.

Lemma has_tok_app t l l' : has_tok t (l ++ l') = (has_tok t l || has_tok t l')%bool.
Proof. unfold has_tok. apply existsb_app. Qed.

Lemma find_app_some {A} (p : A -> bool) (l l' : list A) x : find p l = Some x -> find p (l ++ l') = Some x.
Proof. induction l; simpl; [discriminate|]. destruct (p a); auto. Qed.

Lemma get_tok_app_l t l l' : has_tok t l = true -> get_tok t (l ++ l') = get_tok t l.
Proof.
  intros H. apply has_tok_find in H as [x H]. unfold get_tok. rewrite H, (find_app_some _ _ l' _ H). reflexivity.
Qed.

Lemma get_tok_app_new t t' l : has_tok t l = false -> posting (get_tok t (l ++ [mkTl t' [] []])) = posting (get_tok t l).
Proof.
  intros H. rewrite (get_tok_none _ _ H). unfold get_tok.
  induction l; simpl in *.
  - destruct (N.eqb t' t); reflexivity.
  - unfold has_tok in H. simpl in H. apply orb_false_elim in H as [H1 H2]. rewrite H1. apply IHl. exact H2.
Qed.

Lemma add_toks_post ts l t : posting (get_tok t (add_toks ts l)) = posting (get_tok t l).
Proof.
  revert l; induction ts; intros l; simpl; auto.
  destruct (has_tok a l) eqn:E; auto. rewrite IHts.
  destruct (has_tok t l) eqn:E2.
  - rewrite get_tok_app_l; auto.
  - apply get_tok_app_new; auto.
Qed.

Lemma add_toks_has ts l t : has_tok t l = true -> has_tok t (add_toks ts l) = true.
Proof.
  revert l; induction ts; intros l H; simpl; auto.
  destruct (has_tok a l); auto. apply IHts. rewrite has_tok_app, H. reflexivity.
Qed.

Lemma add_toks_all ts l t : In t ts -> has_tok t (add_toks ts l) = true.
Proof.
  revert l; induction ts; intros l H; simpl in *; [contradiction|].
  destruct H as [H|H].
  - subst. destruct (has_tok t l) eqn:E.
    + apply add_toks_has; auto.
    + apply add_toks_has. rewrite has_tok_app. simpl. rewrite N.eqb_refl. rewrite orb_true_r. reflexivity.
  - destruct (has_tok a l); auto.
Qed.

Lemma add_toks_entries ts l x : In x (add_toks ts l) -> In x l \/ posting x = [].
Proof.
  revert l; induction ts; intros l H; simpl in *; auto.
  destruct (has_tok a l); auto. apply IHts in H as [H|H]; auto.
  apply in_app_or in H as [H|[H|[]]]; auto. subst. right; reflexivity.
Qed.

(* ---------------------------------------------------------------- a fraction only ever EXTENDS *)
Record fext (f f' : frac) : Prop := mkFext {
  fx_ldocs : exists more, f_ldocs f' = f_ldocs f ++ more;
  fx_blocks : exists more, f_blocks f' = f_blocks f ++ more;
  fx_pos : forall x p, lookup_pos x (f_pos f) = Some p -> lookup_pos x (f_pos f') = Some p;
  fx_has : forall t, has_tok t (f_toks f) = true -> has_tok t (f_toks f') = true;
  fx_post : forall t lid, In lid (post f t) -> In lid (post f' t);
  fx_range : range_le f f'
}.

Lemma fext_refl f : fext f f.
Proof. constructor; auto; try (exists []; rewrite app_nil_r; auto); apply range_le_refl. Qed.

Lemma fext_trans a b c : fext a b -> fext b c -> fext a c.
Proof.
  intros [[m1 L1] [n1 B1] P1 H1 Q1 R1] [[m2 L2] [n2 B2] P2 H2 Q2 R2]. constructor; auto.
  - exists (m1 ++ m2). rewrite L2, L1, app_assoc. auto.
  - exists (n1 ++ n2). rewrite B2, B1, app_assoc. auto.
  - eapply range_trans; eauto.
Qed.

Lemma fext_eq f f' :
  f_ldocs f' = f_ldocs f -> f_blocks f' = f_blocks f -> f_pos f' = f_pos f -> f_toks f' = f_toks f ->
  f_from f' = f_from f -> f_to f' = f_to f -> f_total f' = f_total f -> fext f f'.
Proof.
  intros A B C D E1 E2 E3. constructor; unfold post, range_le; rewrite ?A, ?B, ?C, ?D, ?E1, ?E2, ?E3; auto;
    try (exists []; rewrite app_nil_r; auto). repeat split; auto; apply N.le_refl.
Qed.

Lemma fext_toks f f' :
  f_ldocs f' = f_ldocs f -> f_blocks f' = f_blocks f -> f_pos f' = f_pos f ->
  f_from f' = f_from f -> f_to f' = f_to f -> f_total f' = f_total f ->
  (forall t, has_tok t (f_toks f) = true -> has_tok t (f_toks f') = true) ->
  (forall t lid, In lid (post f t) -> In lid (post f' t)) -> fext f f'.
Proof.
  intros A B C E1 E2 E3 D E. constructor; unfold range_le; rewrite ?A, ?B, ?C, ?E1, ?E2, ?E3; auto;
    try (exists []; rewrite app_nil_r; auto). repeat split; auto; apply N.le_refl.
Qed.

Lemma lookup_pos_app_l x l l' p : lookup_pos x l = Some p -> lookup_pos x (l ++ l') = Some p.
Proof. induction l as [|[y q] l]; simpl; [discriminate|]. destruct (id_eqb x y); auto. Qed.

Lemma set_multiple_ext blk ds : forall i pos x p,
  lookup_pos x pos = Some p -> lookup_pos x (fst (set_multiple blk i ds pos)) = Some p.
Proof.
  induction ds; intros i pos x p H; simpl; auto.
  destruct (lookup_pos (d_id a) pos).
  - apply IHds; auto.
  - specialize (IHds (S i) (pos ++ [(d_id a, (blk, i))]) x p (lookup_pos_app_l _ _ _ _ H)).
    destruct (set_multiple blk (S i) ds (pos ++ [(d_id a, (blk, i))])); simpl in *; auto.
Qed.

(* merging a queue and appending to a queue keep / grow the posting *)
Lemma upd_tok_fext_post l t h t' lid :
  (forall y, tl_tok (h y) = tl_tok y) -> (forall y lid, In lid (posting y) -> In lid (posting (h y))) ->
  In lid (posting (get_tok t' l)) -> In lid (posting (get_tok t' (upd_tok t h l))).
Proof.
  intros Hk Hp H. destruct (N.eq_dec t' t) as [E|E].
  - subst. destruct (has_tok t l) eqn:HT.
    + rewrite get_tok_upd_same; auto.
    + rewrite (get_tok_none _ _ HT) in H. simpl in H. contradiction.
  - rewrite get_tok_upd_other; auto.
Qed.

Lemma merge_posting y lid : In lid (posting y) -> In lid (posting (merge_tok y)).
Proof. unfold posting, merge_tok; simpl. rewrite app_nil_r. auto. Qed.

Lemma merge_posting_inv y lid : In lid (posting (merge_tok y)) -> In lid (posting y).
Proof. unfold posting, merge_tok; simpl. rewrite app_nil_r. auto. Qed.

Lemma put_posting grp y lid :
  In lid (posting y) -> In lid (posting (mkTl (tl_tok y) (tl_sorted y) (tl_queue y ++ grp))).
Proof. unfold posting; simpl. rewrite app_assoc. intros; apply in_or_app; auto. Qed.

Lemma getf_fext st gg h g : (forall x, fext x (h x)) -> fext (getf st g) (getf (setf st gg h) g).
Proof. intros H. rewrite getf_setf. destruct (_ && _)%bool; auto. apply fext_refl. Qed.

Lemma getf_fext2 st gg h g : fext (getf st gg) (h (getf st gg)) -> fext (getf st g) (getf (setf st gg h) g).
Proof.
  intros H. rewrite getf_setf. destruct (Nat.eqb_spec g gg); simpl; [|apply fext_refl].
  subst. destruct (Nat.ltb _ _); auto. apply fext_refl.
Qed.

Ltac fx :=
  intros;
  first
    [ apply fext_eq; reflexivity
    | apply fext_toks; try reflexivity; simpl;
      [ intros ? ?; rewrite ?has_tok_upd; auto; apply add_toks_has; auto
      | intros ? ? ?; unfold post in *; simpl in *; rewrite ?add_toks_post; auto;
        apply upd_tok_fext_post; auto; first [apply merge_posting | apply put_posting] ] ].

Lemma advance_fext st r g q a b m n s p gg : fext (getf st gg) (getf (fst (advance st r g q a b m n s p)) gg).
Proof.
  revert s; induction p; intros s; simpl.
  - unfold set_op, setr; simpl. apply (getf_fext st g (fun f => set_rl f (pred (f_rl f)))). fx.
  - destruct (has_tok _ _); simpl; auto. apply fext_refl.
Qed.

Lemma step_fext c st l g : fext (getf st g) (getf (fst (step c st l)) g).
Proof.
  assert (K : forall h, (forall x, fext x (h x)) -> forall gg, fext (getf st g) (getf (setf st gg h) g)).
  { intros h Hh gg. apply getf_fext; auto. }
  destruct l; simpl.
  - unfold step_w. destruct (nth_error (ws st) (N.to_nat w)) as [x|]; simpl; [|apply fext_refl].
    destruct (w_pc x) as [|[|[|[|[|[|[|[|[|pc]]]]]]]]]; simpl.
    + destruct (Nat.ltb _ _); apply fext_refl.
    + destruct (_ && _ && _)%bool; simpl; [|apply fext_refl].
      match goal with |- fext _ (getf (setw (setf ?s ?gg ?h) _ _) _) => apply (K h) end. fx.
    + match goal with |- fext _ (getf (setw (setf ?s ?gg ?h) _ _) _) => apply (K h) end.
      intros y. constructor; simpl; auto; try (exists []; rewrite app_nil_r; reflexivity); try (eexists; reflexivity); rr.
    + destruct (set_multiple _ _ _ _) as [pos' app] eqn:SM; simpl.
      match goal with |- fext _ (getf (setw (setf ?s ?gg ?h) _ _) _) => apply (getf_fext2 s gg h) end.
      constructor; simpl; auto; try (exists []; rewrite app_nil_r; reflexivity); [|rr].
      intros y p Hy. pose proof (set_multiple_ext (w_blk x) (cur_bulk c (N.to_nat w) x) 0 _ y p Hy) as E.
      rewrite SM in E. exact E.
    + match goal with |- fext _ (getf (setw (setf ?s ?gg ?h) _ _) _) => apply (K h) end.
      intros y. constructor; simpl; auto; try (exists []; rewrite app_nil_r; reflexivity); try (eexists; reflexivity); rr.
    + match goal with |- fext _ (getf (setw (setf ?s ?gg ?h) _ _) _) => apply (K h) end. fx.
    + destruct (put_order _ _); simpl; apply fext_refl.
    + destruct (Nat.ltb _ _); simpl;
        match goal with |- fext _ (getf (setw (setf ?s ?gg ?h) _ _) _) => apply (K h) end; fx.
    + match goal with |- fext _ (getf (setw (setf ?s ?gg ?h) _ _) _) => apply (K h) end.
      intros y. constructor; simpl; auto; try (exists []; rewrite app_nil_r; reflexivity). rr.
    + match goal with |- fext _ (getf (setw (setf ?s ?gg ?h) _ _) _) => apply (K h) end. fx.
  - unfold step_snap. destruct (nth_error _ _) as [x|]; simpl; [|apply fext_refl]. destruct (r_op x); apply fext_refl.
  - unfold step_sb. destruct (nth_error (rs st) _) as [x|]; simpl; [|apply fext_refl].
    destruct (nth_error (c_qs c) _) as [[[qq qf] qt]|]; simpl; [|apply fext_refl].
    destruct (r_op x); simpl; try apply fext_refl. destruct (nth_error (r_snap x) _) as [g0|]; simpl; [|apply fext_refl].
    repeat match goal with |- context [if ?b then _ else _] => destruct b; simpl end; try apply fext_refl.
    apply (K (fun f => set_rl f (S (f_rl f)))). fx.
  - unfold step_fb. destruct (nth_error (rs st) _) as [x|]; simpl; [|apply fext_refl].
    destruct (r_op x); simpl; try apply fext_refl. destruct (nth_error (r_snap x) _) as [g0|]; simpl; [|apply fext_refl].
    destruct ids; simpl; try apply fext_refl.
    repeat match goal with |- context [if ?b then _ else _] => destruct b; simpl end; try apply fext_refl.
    apply (K (fun f => set_rl f (S (f_rl f)))). fx.
  - unfold step_r. destruct (nth_error (rs st) _) as [x|]; simpl; [|apply fext_refl].
    destruct (r_op x) as [|g0 q pc a b m n s p|g0 ids nb]; simpl; try apply fext_refl.
    + destruct pc; simpl.
      * apply (K (fun f => set_toks f (upd_tok 0%N merge_tok (f_toks f)))). fx.
      * destruct (forallb _ m); simpl; try apply fext_refl. apply (K (fun f => set_rl f (pred (f_rl f)))). fx.
      * apply advance_fext.
      * destruct p as [|t p]; simpl; try apply fext_refl. eapply fext_trans; [|apply advance_fext].
        apply (K (fun f => set_toks f (upd_tok t merge_tok (f_toks f)))). fx.
    + destruct (existsb _ _); simpl; apply (K (fun f => set_rl f (pred (f_rl f)))); fx.
  - unfold step_rot. destruct (Nat.ltb _ _); simpl; [|apply fext_refl].
    unfold getf at 2; simpl.
    change (nth g (upd (last_g st) (fun f => set_seal f (f_act f) (f_sld f) (f_ro f) SRot (f_sdocs f)) (fracs st) ++ [new_frac]) new_frac)
      with (nth g (fracs (setf st (last_g st) (fun f => set_seal f (f_act f) (f_sld f) (f_ro f) SRot (f_sdocs f))) ++ [new_frac]) new_frac).
    rewrite getf_app_new.
    apply (K (fun f => set_seal f (f_act f) (f_sld f) (f_ro f) SRot (f_sdocs f))). fx.
  - unfold step_m. destruct (nth_error (fracs st) _) as [f|]; simpl; [|apply fext_refl].
    destruct (f_seal f); simpl; try apply fext_refl;
      repeat match goal with |- context [if ?b then _ else _] => destruct b; simpl end; try apply fext_refl;
      match goal with |- fext _ (getf (setf ?s ?gg ?h) _) => apply (K h) end; fx.
  - unfold step_sui. destruct (sui_enabled st); simpl; [|apply fext_refl].
    match goal with |- fext _ (getf {| fracs := upd ?gg ?h _ |} _) => apply (K h) end.
    intros y; destruct (replaced (f_seal y)); fx.
Qed.

(* ---------------------------------------------------------------- what a fraction's index says *)
Definition ldoc (f : frac) (lid : nat) (d : doc) : Prop := nth_error (f_ldocs f) lid = Some d.

Record fok (c : config) (f : frac) : Prop := mkFok {
  fk_sys : exists rest, f_ldocs f = sys_doc :: rest;
  (* a posting is sound: a LID in token t's posting is a document that carries t *)
  fk_post : forall tl lid, In tl (f_toks f) -> In lid (posting tl) ->
              exists d, ldoc f lid d /\ memN (tl_tok tl) (d_toks d) = true;
  (* the all-token is published last: a LID in its posting is in the posting of every token of its document *)
  fk_all : forall lid d t, In lid (post f 0%N) -> ldoc f lid d -> memN t (d_toks d) = true -> In lid (post f t);
  fk_pos : forall x b i, lookup_pos x (f_pos f) = Some (b, i) ->
             exists wb d, nth_error (f_blocks f) b = Some wb /\ nth_error (bulk_of c wb) i = Some d /\ d_id d = x;
  fk_ldocs : forall lid d, ldoc f (S lid) d ->
             blocks_docs c f d /\ exists p, lookup_pos (d_id d) (f_pos f) = Some p;
  fk_sdocs : forall sd, In sd (f_sdocs f) ->
             exists d, blocks_docs c f d /\ d_id d = d_id sd /\ (forall t, memN t (d_toks sd) = memN t (d_toks d)) /\
             exists d', blocks_docs c f d' /\ d_id d' = d_id sd /\ d_body d' = d_body sd
}.

Lemma fok_eq c f f' :
  f_ldocs f' = f_ldocs f -> f_blocks f' = f_blocks f -> f_pos f' = f_pos f -> f_toks f' = f_toks f ->
  f_sdocs f' = f_sdocs f -> fok c f -> fok c f'.
Proof.
  intros A B C D E [HS P L Q R T].
  constructor; unfold ldoc, post, blocks_docs in *; rewrite ?A, ?B, ?C, ?D, ?E; auto.
Qed.

Lemma new_frac_fok c : fok c new_frac.
Proof.
  constructor; simpl.
  - eexists; reflexivity.
  - intros tl lid [H|[]] HL. subst. simpl in HL. contradiction.
  - intros lid d t H. unfold post in H. simpl in H. contradiction.
  - intros; discriminate.
  - intros lid d H. unfold ldoc in H. simpl in H. destruct lid; discriminate.
  - intros sd [].
Qed.

Lemma ldoc_fun f lid d d' : ldoc f lid d -> ldoc f lid d' -> d = d'.
Proof. unfold ldoc; congruence. Qed.

Lemma ldoc_ext f f' lid d : fext f f' -> ldoc f lid d -> ldoc f' lid d.
Proof.
  intros [[m E] _ _ _ _] H. unfold ldoc in *. rewrite E. rewrite nth_error_app1; auto.
  apply nth_error_Some. congruence.
Qed.

Lemma blocks_docs_ext c f f' d : fext f f' -> blocks_docs c f d -> blocks_docs c f' d.
Proof.
  intros [_ [m E] _ _ _] [wb [A B]]. exists wb. split; auto. rewrite E. apply in_or_app; auto.
Qed.

(* a LID of the all-posting is never the system entry, and it is a document *)
Lemma post_ldoc c f t lid : fok c f -> In lid (post f t) -> exists d, ldoc f lid d /\ memN t (d_toks d) = true.
Proof.
  intros F H. pose proof (post_has_tok _ _ _ H) as HT. destruct (get_tok_in _ _ HT) as [A B].
  destruct (fk_post c f F _ lid A H) as [d [D1 D2]]. rewrite B in D2. eauto.
Qed.

Lemma post_nonzero c f t lid : fok c f -> In lid (post f t) -> lid <> 0.
Proof.
  intros F H. destruct (post_ldoc c f t lid F H) as [d [D1 D2]]. intros E. subst.
  destruct (fk_sys c f F) as [rest R]. unfold ldoc in D1. rewrite R in D1. simpl in D1. inversion D1; subst. discriminate.
Qed.

(* ---------------------------------------------------------------- what a writer holds *)
Definition order_of (c : config) (w : nat) (x : wst) : list N := put_order (c_ver c) (cur_bulk c w x).

Record wok (c : config) (st : state) (w : nat) (x : wst) : Prop := mkWok {
  wk_blk : 3 <= w_pc x -> nth_error (f_blocks (getf st (w_g x))) (w_blk x) = Some (w, w_cur x);
  wk_docs : 4 <= w_pc x -> incl (w_docs x) (cur_bulk c w x) /\
            forall d, In d (w_docs x) -> exists p, lookup_pos (d_id d) (f_pos (getf st (w_g x))) = Some p;
  wk_lids : 5 <= w_pc x <= 7 -> Forall2 (fun d l => ldoc (getf st (w_g x)) l d) (w_docs x) (w_lids x);
  wk_toks : 6 <= w_pc x <= 7 -> forall t, In t (bulk_toks (cur_bulk c w x)) -> has_tok t (f_toks (getf st (w_g x))) = true;
  (* the tokens before position w_k of the put order have been queued for every document of the collector *)
  wk_put : w_pc x = 7 -> w_k x < length (order_of c w x) /\ forall j, j < w_k x ->
           Forall2 (fun d l => memN (nth j (order_of c w x) 0%N) (d_toks d) = true ->
                               In l (post (getf st (w_g x)) (nth j (order_of c w x) 0%N))) (w_docs x) (w_lids x);
  (* after the last put every document of the collector is in the posting of each of its tokens *)
  wk_done : 8 <= w_pc x <= 9 ->
            Forall2 (fun d l => ldoc (getf st (w_g x)) l d /\
                                forall t, memN t (d_toks d) = true -> In l (post (getf st (w_g x)) t)) (w_docs x) (w_lids x);
  wk_cnt : 4 <= w_pc x -> w_docs x <> [] -> 0 < w_cnt x
}.

Definition ext_all (st st' : state) : Prop := forall g, fext (getf st g) (getf st' g).

Lemma nth_error_app_pre {A} (l m : list A) n x : nth_error l n = Some x -> nth_error (l ++ m) n = Some x.
Proof. intros H. rewrite nth_error_app1; auto. apply nth_error_Some; congruence. Qed.

Lemma Forall2_impl {A B} (P Q : A -> B -> Prop) l l' :
  (forall a b, P a b -> Q a b) -> Forall2 P l l' -> Forall2 Q l l'.
Proof. intros H F; induction F; constructor; auto. Qed.

Lemma wok_mono c st st' w x : ext_all st st' -> wok c st w x -> wok c st' w x.
Proof.
  intros E [A B C D P DN CN]. specialize (E (w_g x)). constructor; [| | | | | |exact CN].
  - intros R. destruct (fx_blocks _ _ E) as [m EB]. rewrite EB. apply nth_error_app_pre; auto.
  - intros R. destruct (B R) as [B1 B2]. split; auto. intros d Hd. destruct (B2 d Hd) as [p Hp].
    exists p. apply (fx_pos _ _ E); auto.
  - intros R. eapply Forall2_impl; [|exact (C R)]. intros d l H. eapply ldoc_ext; eauto.
  - intros R t Ht. apply (fx_has _ _ E). auto.
  - intros R. destruct (P R) as [P1 P2]. split; auto. intros j Hj. eapply Forall2_impl; [|exact (P2 j Hj)]. intros d l H M. apply (fx_post _ _ E). auto.
  - intros R. eapply Forall2_impl; [|exact (DN R)]. intros d l [H1 H2]. split; [eapply ldoc_ext; eauto|].
    intros t Ht. apply (fx_post _ _ E). auto.
Qed.

(* ---------------------------------------------------------------- what a reader holds *)
Definition leaf_ok (f : frac) (mapping : list nat) (t : N) (snap : list nat) : Prop :=
  forall lid d, In lid mapping -> ldoc f lid d -> memn lid snap = memN t (d_toks d).

Definition map_ok (f : frac) (mapping : list nat) : Prop :=
  forall lid, In lid mapping ->
    lid <> 0 /\ In lid (post f 0%N) /\ exists d, ldoc f lid d /\ forall t, memN t (d_toks d) = true -> In lid (post f t).

Definition rok_op (st : state) (op : rop) : Prop :=
  match op with
  | RSearch g q pc ifrom ito mapping nids snaps pending =>
      let f := getf st g in
      ((f_from f <= ifrom)%N /\ (ito <= f_to f)%N /\ 0 < f_total f)
      /\ (pc <> PStart -> map_ok f mapping)
      /\ (pc = PIds \/ pc = PLeaf -> nids <= length (f_ldocs f) /\ forall lid, In lid mapping -> lid < nids)
      /\ (pc = PLeaf -> exists done, leaves (fst (fst q)) = done ++ pending /\ Forall2 (leaf_ok f mapping) done snaps)
  | _ => True
  end.
Definition rok (st : state) (x : rst) : Prop := rok_op st (r_op x).

Lemma map_ok_mono f f' m : fext f f' -> map_ok f m -> map_ok f' m.
Proof.
  intros E H lid HL. destruct (H lid HL) as [N0 [P0 [d [D1 D2]]]]. split; auto. split; [apply (fx_post _ _ E); auto|].
  exists d. split; [eapply ldoc_ext; eauto|]. intros t Ht. apply (fx_post _ _ E). auto.
Qed.

Lemma leaf_ok_mono f f' m t s : fext f f' -> map_ok f m -> leaf_ok f m t s -> leaf_ok f' m t s.
Proof.
  intros E M H lid d HL HD. destruct (M lid HL) as [_ [_ [d0 [D1 _]]]].
  pose proof (ldoc_ext _ _ _ _ E D1) as D1'. rewrite (ldoc_fun _ _ _ _ HD D1'). apply (H lid d0); auto.
Qed.

Lemma rok_mono st st' x : ext_all st st' -> rok st x -> rok st' x.
Proof.
  intros E. unfold rok, rok_op. destruct (r_op x) as [|g q pc a b m n s p|]; auto.
  specialize (E g). intros [A0 [A [B C]]]. split; [|split; [|split]].
  - destruct A0 as [X1 [X2 X3]]. destruct (fx_range _ _ E) as [Y1 [Y2 Y3]]. repeat split; try lia; eapply N.le_trans; eauto.
  - intros R. eapply map_ok_mono; eauto.
  - intros R. destruct (B R) as [B1 B2]. split; auto. destruct (fx_ldocs _ _ E) as [mm EM]. rewrite EM, app_length. lia.
  - intros R. destruct (C R) as [done [D1 D2]]. exists done. split; auto.
    eapply Forall2_impl; [|exact D2]. intros t sn H. eapply leaf_ok_mono; eauto. apply A. rewrite R. discriminate.
Qed.

Record SInv (c : config) (st : state) : Prop := mkSInv {
  si_f : forall g f, nth_error (fracs st) g = Some f -> fok c f;
  si_w : forall w x, nth_error (ws st) w = Some x -> wok c st w x;
  si_r : forall r x, nth_error (rs st) r = Some x -> rok st x
}.

Lemma getf_fok c st g : SInv c st -> fok c (getf st g).
Proof.
  intros S. unfold getf. destruct (nth_error (fracs st) g) as [f|] eqn:E.
  - rewrite (nth_error_nth _ _ _ E). eapply si_f; eauto.
  - rewrite nth_overflow by (apply nth_error_None; auto). apply new_frac_fok.
Qed.

(* ---------------------------------------------------------------- how fok survives each rewrite of a fraction *)
Lemma fok_blocks c f f' wb :
  f_ldocs f' = f_ldocs f -> f_blocks f' = f_blocks f ++ [wb] -> f_pos f' = f_pos f -> f_toks f' = f_toks f ->
  f_sdocs f' = f_sdocs f -> fok c f -> fok c f'.
Proof.
  intros A B C D E F.
  assert (BD : forall d, blocks_docs c f d -> blocks_docs c f' d).
  { intros d [wb' [H1 H2]]. exists wb'. split; auto. rewrite B. apply in_or_app; auto. }
  destruct F as [HS P L Q R T]. constructor; unfold ldoc, post in *; rewrite ?A, ?C, ?D, ?E; auto.
  - intros x b i H. destruct (Q x b i H) as [wb' [d [H1 H2]]]. exists wb', d. split; auto. rewrite B. apply nth_error_app_pre; auto.
  - intros lid d H. destruct (R lid d H) as [H1 H2]. split; auto.
  - intros sd H. destruct (T sd H) as [d [H1 [H2 [H3 [d' [H4 H5]]]]]]. exists d. repeat split; auto. exists d'. split; auto.
Qed.

Lemma set_multiple_spec blk ds : forall i pos x b' i',
  lookup_pos x (fst (set_multiple blk i ds pos)) = Some (b', i') ->
  lookup_pos x pos = Some (b', i') \/ (b' = blk /\ exists d, nth_error ds (i' - i) = Some d /\ i <= i' /\ d_id d = x).
Proof.
  induction ds; intros i pos x b' i' H; simpl in *; auto.
  destruct (lookup_pos (d_id a) pos) eqn:E.
  - destruct (IHds (S i) pos x b' i' H) as [H1|[H1 [d [H2 [H3 H4]]]]]; auto.
    right. split; auto. exists d. replace (i' - i) with (S (i' - S i)) by lia. simpl. repeat split; auto; lia.
  - destruct (set_multiple blk (S i) ds (pos ++ [(d_id a, (blk, i))])) as [p ap] eqn:SM. simpl in H.
    specialize (IHds (S i) (pos ++ [(d_id a, (blk, i))]) x b' i'). rewrite SM in IHds. simpl in IHds.
    destruct (IHds H) as [H1|[H1 [d [H2 [H3 H4]]]]].
    + destruct (lookup_pos x pos) eqn:EX.
      * left. rewrite (lookup_pos_app_l _ _ _ _ EX) in H1. exact H1.
      * right. clear IHds. revert H1. clear - EX. induction pos as [|[y q] pos]; simpl in *.
        -- destruct (id_eqb x (d_id a)) eqn:EQ; [|discriminate]. intros H; inversion H; subst. split; auto.
           exists a. rewrite Nat.sub_diag. simpl. repeat split; auto.
           unfold id_eqb in EQ. apply andb_prop in EQ as [E1 E2]. apply N.eqb_eq in E1, E2.
           destruct x, (d_id a); simpl in *; subst; auto.
        -- destruct (id_eqb x y); [discriminate|]. auto.
    + right. split; auto. exists d. replace (i' - i) with (S (i' - S i)) by lia. simpl. repeat split; auto; lia.
Qed.

Lemma id_eqb_refl x : id_eqb x x = true.
Proof. unfold id_eqb. rewrite !N.eqb_refl. reflexivity. Qed.

Lemma id_eqb_eq x y : id_eqb x y = true -> x = y.
Proof.
  unfold id_eqb. intros H. apply andb_prop in H as [E1 E2]. apply N.eqb_eq in E1, E2. destruct x, y; simpl in *; subst; auto.
Qed.

Lemma lookup_pos_app_last x pos p : lookup_pos x pos = None -> lookup_pos x (pos ++ [(x, p)]) = Some p.
Proof. induction pos as [|[y q] pos]; simpl; [rewrite id_eqb_refl; auto|]. destruct (id_eqb x y); [discriminate|auto]. Qed.

Lemma set_multiple_app blk ds : forall i pos x,
  In x (snd (set_multiple blk i ds pos)) -> exists p, lookup_pos x (fst (set_multiple blk i ds pos)) = Some p.
Proof.
  induction ds; intros i pos x H; simpl in *; [contradiction|].
  destruct (lookup_pos (d_id a) pos) eqn:E; auto.
  destruct (set_multiple blk (S i) ds (pos ++ [(d_id a, (blk, i))])) as [p ap] eqn:SM. simpl in *.
  destruct H as [H|H].
  - subst. exists (blk, i). pose proof (set_multiple_ext blk ds (S i) _ _ _ (lookup_pos_app_last _ _ (blk, i) E)) as X.
    rewrite SM in X. exact X.
  - specialize (IHds (S i) (pos ++ [(d_id a, (blk, i))]) x). rewrite SM in IHds. auto.
Qed.

Lemma mem_id_In x l : mem_id x l = true -> In x l.
Proof.
  unfold mem_id. rewrite existsb_exists. intros [y [H E]]. apply id_eqb_eq in E. subst; auto.
Qed.

Lemma fok_pos c f f' blk wb :
  f_ldocs f' = f_ldocs f -> f_blocks f' = f_blocks f -> f_toks f' = f_toks f -> f_sdocs f' = f_sdocs f ->
  nth_error (f_blocks f) blk = Some wb ->
  (forall x p, lookup_pos x (f_pos f) = Some p -> lookup_pos x (f_pos f') = Some p) ->
  (forall x b i, lookup_pos x (f_pos f') = Some (b, i) ->
     lookup_pos x (f_pos f) = Some (b, i) \/ (b = blk /\ exists d, nth_error (bulk_of c wb) i = Some d /\ d_id d = x)) ->
  fok c f -> fok c f'.
Proof.
  intros A B D E NB EXT SP [HS P L Q R T].
  constructor; unfold ldoc, post, blocks_docs in *; rewrite ?A, ?B, ?D, ?E; auto.
  - intros x b i H. destruct (SP x b i H) as [H1|[H1 [d [H2 H3]]]]; auto. subst. exists wb, d. auto.
  - intros lid d H. destruct (R lid d H) as [H1 [p H2]]. split; auto. exists p. auto.
Qed.

Lemma fok_ldocs c f f' docs :
  f_ldocs f' = f_ldocs f ++ docs -> f_blocks f' = f_blocks f -> f_pos f' = f_pos f -> f_toks f' = f_toks f ->
  f_sdocs f' = f_sdocs f ->
  (forall d, In d docs -> blocks_docs c f d /\ exists p, lookup_pos (d_id d) (f_pos f) = Some p) ->
  fok c f -> fok c f'.
Proof.
  intros A B C D E ND F. pose proof F as [HS P L Q R T].
  assert (PRE : forall lid d, nth_error (f_ldocs f) lid = Some d -> nth_error (f_ldocs f') lid = Some d).
  { intros. rewrite A. apply nth_error_app_pre; auto. }
  constructor; unfold ldoc, post, blocks_docs in *; rewrite ?B, ?C, ?D, ?E; auto.
  - destruct HS as [rest HS]. exists (rest ++ docs). rewrite A, HS. reflexivity.
  - intros tl lid H1 H2. destruct (P tl lid H1 H2) as [d [H3 H4]]. exists d. split; auto.
  - intros lid d t H1 H2 H3. destruct (post_ldoc c f 0%N lid F H1) as [d0 [H4 _]].
    rewrite (PRE _ _ H4) in H2. inversion H2; subst. eapply L; eauto.
  - intros lid d H. rewrite A in H. destruct (Nat.lt_ge_cases (S lid) (length (f_ldocs f))) as [LT|GE].
    + rewrite nth_error_app1 in H by auto. apply R in H. auto.
    + rewrite nth_error_app2 in H by auto. apply nth_error_In in H. apply ND in H. auto.
Qed.

Lemma fok_add_toks c f f' ts :
  f_ldocs f' = f_ldocs f -> f_blocks f' = f_blocks f -> f_pos f' = f_pos f -> f_toks f' = add_toks ts (f_toks f) ->
  f_sdocs f' = f_sdocs f -> fok c f -> fok c f'.
Proof.
  intros A B C D E [HS P L Q R T].
  constructor; unfold ldoc, post, blocks_docs in *; rewrite ?A, ?B, ?C, ?D, ?E; auto.
  - intros tl lid H1 H2. apply add_toks_entries in H1 as [H1|H1]; auto. rewrite H1 in H2. contradiction.
  - intros lid d t. rewrite !add_toks_post. apply L.
Qed.

Lemma upd_tok_entries t h l y' : In y' (upd_tok t h l) -> exists y, In y l /\ (y' = y \/ (tl_tok y = t /\ y' = h y)).
Proof.
  unfold upd_tok. intros H. apply in_map_iff in H as [y [E H]]. exists y. split; auto.
  destruct (N.eqb (tl_tok y) t) eqn:EQ; auto. apply N.eqb_eq in EQ. auto.
Qed.

Lemma fok_merge c f f' t :
  f_ldocs f' = f_ldocs f -> f_blocks f' = f_blocks f -> f_pos f' = f_pos f ->
  f_toks f' = upd_tok t merge_tok (f_toks f) -> f_sdocs f' = f_sdocs f -> fok c f -> fok c f'.
Proof.
  intros A B C D E [HS P L Q R T].
  assert (PE : forall t', forall lid, In lid (posting (get_tok t' (upd_tok t merge_tok (f_toks f)))) <->
                                       In lid (posting (get_tok t' (f_toks f)))).
  { intros t' lid. destruct (N.eq_dec t' t) as [EQ|NE].
    - subst. destruct (has_tok t (f_toks f)) eqn:HT.
      + rewrite get_tok_upd_same; auto. split; [apply merge_posting_inv | apply merge_posting].
      + rewrite !get_tok_none; auto; [reflexivity|]. rewrite has_tok_upd; auto.
    - rewrite get_tok_upd_other; auto. reflexivity. }
  constructor; unfold ldoc, post, blocks_docs in *; rewrite ?A, ?B, ?C, ?D, ?E; auto.
  - intros tl lid H1 H2. apply upd_tok_entries in H1 as [y [H3 [H4|[H4 H5]]]]; subst; auto.
    apply merge_posting_inv in H2. apply (P y lid H3 H2).
  - intros lid d t' H1 H2 H3. apply PE. apply PE in H1. eapply L; eauto.
Qed.

(* ---------------------------------------------------------------- one queue put *)
Lemma group_lids_inv t ds : forall lids lid,
  In lid (group_lids t ds lids) ->
  exists i d, nth_error ds i = Some d /\ nth_error lids i = Some lid /\ memN t (d_toks d) = true.
Proof.
  induction ds; intros lids lid H; simpl in *; [contradiction|]. destruct lids as [|l lids]; [contradiction|].
  destruct (memN t (d_toks a)) eqn:M.
  - destruct H as [H|H].
    + subst. exists 0, a. auto.
    + destruct (IHds lids lid H) as [i [d [A [B C]]]]. exists (S i), d. auto.
  - destruct (IHds lids lid H) as [i [d [A [B C]]]]. exists (S i), d. auto.
Qed.

Lemma group_lids_in t ds : forall lids i d l,
  nth_error ds i = Some d -> nth_error lids i = Some l -> memN t (d_toks d) = true -> In l (group_lids t ds lids).
Proof.
  induction ds; intros lids i d l A B M; destruct i; simpl in *; try discriminate; destruct lids; try discriminate; simpl in *.
  - inversion A; inversion B; subst. rewrite M. left; auto.
  - destruct (memN t (d_toks a)); [right|]; eapply IHds; eauto.
Qed.

Lemma Forall2_nth {A B} (P : A -> B -> Prop) l l' : Forall2 P l l' ->
  forall i a b, nth_error l i = Some a -> nth_error l' i = Some b -> P a b.
Proof.
  intros F; induction F; intros i a b A1 B1; destruct i; simpl in *; try discriminate.
  - inversion A1; inversion B1; subst; auto.
  - eapply IHF; eauto.
Qed.

Lemma Forall2_from_nth {A B} (P : A -> B -> Prop) l : forall l', length l = length l' ->
  (forall i a b, nth_error l i = Some a -> nth_error l' i = Some b -> P a b) -> Forall2 P l l'.
Proof.
  induction l; intros l' HL H; destruct l'; simpl in *; try discriminate; constructor.
  - apply (H 0); auto.
  - apply IHl; [lia|]. intros i a0 b0 A1 B1. apply (H (S i)); auto.
Qed.

Lemma Forall2_length' {A B} (P : A -> B -> Prop) l l' : Forall2 P l l' -> length l = length l'.
Proof. intros F; induction F; simpl; auto. Qed.

Lemma dedupN_In x l : forall seen, In x (dedupN seen l) <-> (In x l /\ memN x seen = false).
Proof.
  induction l; intros seen; simpl.
  - split; [contradiction | intros [[] _]].
  - destruct (memN a seen) eqn:M.
    + rewrite IHl. split; intros [H1 H2]; split; auto. destruct H1; auto. subst. congruence.
    + simpl. rewrite IHl. simpl. split.
      * intros [H|[H1 H2]].
        -- subst. auto.
        -- apply orb_false_elim in H2 as [_ H2]. auto.
      * intros [[H|H] H2]; [left; exact H|].
        destruct (N.eqb_spec x a) as [EQ|NE]; [left; symmetry; exact EQ|].
        right. split; [exact H|]. change (memN x (a :: seen)) with (orb (N.eqb x a) (memN x seen)).
        simpl. exact H2.
Qed.

Lemma bulk_toks_In b d t : In d b -> In t (d_toks d) -> In t (bulk_toks b).
Proof.
  intros H1 H2. unfold bulk_toks. apply dedupN_In. split; auto. apply in_flat_map. eauto.
Qed.

(* with the all-token last in the put order, every other token of the bulk comes before it *)
Lemma order_all_last v b k t :
  v_all_last v = true -> k < length (put_order v b) -> nth k (put_order v b) 0%N = 0%N ->
  In t (bulk_toks b) -> t <> 0%N -> exists j, j < k /\ nth j (put_order v b) 0%N = t.
Proof.
  unfold put_order. intros V K Z IN NZ. rewrite V in *.
  set (nz := filter (fun t => negb (N.eqb t 0)) (bulk_toks b)) in *.
  set (zs := filter (N.eqb 0) (bulk_toks b)) in *.
  assert (INZ : In t nz). { apply filter_In. split; auto. apply negb_true_iff. apply N.eqb_neq. auto. }
  apply In_nth_error in INZ as [j Hj].
  assert (JL : j < length nz) by (apply nth_error_Some; congruence).
  exists j. split.
  - destruct (Nat.lt_ge_cases k (length nz)) as [LT|GE]; [|lia].
    rewrite app_nth1 in Z by auto.
    assert (INK : In (nth k nz 0%N) nz) by (apply nth_In; auto).
    apply filter_In in INK as [_ INK]. rewrite Z in INK. simpl in INK. discriminate.
  - rewrite app_nth1 by auto. apply nth_error_nth. auto.
Qed.

Lemma put_order_sub v b t : In t (put_order v b) -> In t (bulk_toks b).
Proof.
  unfold put_order. destruct (v_all_last v); auto. intros H. apply in_app_or in H as [H|H]; apply filter_In in H as [H _]; auto.
Qed.

Lemma put_order_sup v b t : In t (bulk_toks b) -> In t (put_order v b).
Proof.
  unfold put_order. destruct (v_all_last v); auto. intros H. apply in_or_app.
  destruct (N.eqb_spec t 0%N).
  - right. apply filter_In. split; auto. subst. reflexivity.
  - left. apply filter_In. split; auto. apply negb_true_iff. apply N.eqb_neq. auto.
Qed.

Definition put_tl (grp : list nat) (y : tlids) : tlids := mkTl (tl_tok y) (tl_sorted y) (tl_queue y ++ grp).

Lemma put_tl_posting grp y lid : In lid (posting (put_tl grp y)) <-> In lid (posting y) \/ In lid grp.
Proof.
  unfold posting, put_tl; simpl. rewrite app_assoc. split; intros H.
  - apply in_app_or in H. auto.
  - apply in_or_app. auto.
Qed.

Lemma fok_put c f f' v b k docs lids :
  f_ldocs f' = f_ldocs f -> f_blocks f' = f_blocks f -> f_pos f' = f_pos f -> f_sdocs f' = f_sdocs f ->
  let t := nth k (put_order v b) 0%N in
  f_toks f' = upd_tok t (put_tl (group_lids t docs lids)) (f_toks f) ->
  v_all_last v = true -> k < length (put_order v b) ->
  incl docs b ->
  Forall2 (fun d l => ldoc f l d) docs lids ->
  (forall j, j < k -> Forall2 (fun d l => memN (nth j (put_order v b) 0%N) (d_toks d) = true ->
                                        In l (post f (nth j (put_order v b) 0%N))) docs lids) ->
  fok c f -> fok c f'.
Proof.
  intros A B C E t D V K INC F2 PR F. pose proof F as [HS P L Q R T].
  assert (Ht : t = nth k (put_order v b) 0%N) by reflexivity. clearbody t.
  remember (group_lids t docs lids) as grp eqn:Hg.
  assert (TK : forall y, tl_tok (put_tl grp y) = tl_tok y) by reflexivity.
  assert (MONO : forall t' lid, In lid (post f t') -> In lid (post f' t')).
  { intros t' lid H. unfold post in *. rewrite D. apply upd_tok_fext_post; auto. intros y l0 H0. apply put_tl_posting; auto. }
  assert (GRP : forall lid, In lid grp -> exists d, In d docs /\ ldoc f lid d /\ memN t (d_toks d) = true
                 /\ forall j, j < k -> memN (nth j (put_order v b) 0%N) (d_toks d) = true ->
                                 In lid (post f (nth j (put_order v b) 0%N))).
  { intros lid H. subst grp. apply group_lids_inv in H as [i [d [H1 [H2 H3]]]]. exists d. split; [eapply nth_error_In; eauto|].
    split; [apply (Forall2_nth _ _ _ F2 i d lid H1 H2)|]. split; auto.
    intros j Hj. apply (Forall2_nth _ _ _ (PR j Hj) i d lid H1 H2). }
  constructor; unfold ldoc, blocks_docs in *; rewrite ?A, ?B, ?C, ?E; auto.
  - intros tl lid H1 H2. rewrite D in H1. apply upd_tok_entries in H1 as [y [H3 [H4|[H4 H5]]]]; subst tl; auto.
    apply put_tl_posting in H2 as [H2|H2]; [apply (P y lid H3 H2)|]. destruct (GRP lid H2) as [d [_ [G1 [G2 _]]]].
    exists d. split; auto. rewrite TK, H4. exact G2.
  - intros lid d t' H1 H2 H3. destruct (N.eq_dec t 0%N) as [TZ|TNZ].
    + (* this put is the all-token's *)
      rewrite TZ in *. clear TZ. unfold post in H1. rewrite D in H1. destruct (has_tok 0%N (f_toks f)) eqn:HT.
      * rewrite get_tok_upd_same in H1 by auto. apply put_tl_posting in H1 as [H1|H1].
        -- apply MONO. eapply L; eauto.
        -- destruct (GRP lid H1) as [d0 [G0 [G1 [G2 G3]]]].
           rewrite (ldoc_fun f lid d d0 H2 G1) in *.
           destruct (N.eq_dec t' 0%N) as [Z|NZ].
           ++ subst t'. unfold post. rewrite D. rewrite get_tok_upd_same by auto. apply put_tl_posting. right. exact H1.
           ++ assert (INB : In t' (bulk_toks b)).
              { eapply bulk_toks_In; [apply INC; exact G0|]. apply memN_In. exact H3. }
              destruct (order_all_last v b k t' V K (eq_sym Ht) INB NZ) as [j [J1 J2]].
              apply MONO. rewrite <- J2. apply G3; auto. rewrite J2. exact H3.
      * rewrite get_tok_none in H1; [simpl in H1; contradiction|]. rewrite has_tok_upd; auto.
    + unfold post in H1. rewrite D in H1. rewrite get_tok_upd_other in H1 by auto. apply MONO. eapply L; eauto.
Qed.

(* ---------------------------------------------------------------- frac.Seal reads the index *)
Lemma nth_ids_ldoc f lid d : ldoc f lid d -> nth lid (f_ids f) sys_id = d_id d.
Proof.
  unfold ldoc, f_ids. intros H. apply nth_error_nth. rewrite nth_error_map, H. reflexivity.
Qed.

Lemma bool_eq_iff (a b : bool) : (a = true <-> b = true) -> a = b.
Proof. destruct a, b; intros [H1 H2]; auto; try (symmetry; apply H1; auto); try (apply H2; auto). Qed.

Lemma fok_build c f f' :
  f_ldocs f' = f_ldocs f -> f_blocks f' = f_blocks f -> f_pos f' = f_pos f -> f_toks f' = f_toks f ->
  f_sdocs f' = build_sealed c f -> fok c f -> fok c f'.
Proof.
  intros A B C D E F. pose proof F as [HS P L Q R T].
  constructor; unfold ldoc, post, blocks_docs in *; rewrite ?A, ?B, ?C, ?D; auto.
  intros sd H. rewrite E in H. unfold build_sealed in H. apply in_map_iff in H as [lid [ESD HL]].
  assert (HP : In lid (post f 0%N)).
  { unfold post, posting. simpl in HL. exact HL. }
  destruct (post_ldoc c f 0%N lid F HP) as [d [D1 D0]].
  pose proof (post_nonzero c f 0%N lid F HP) as NZ. destruct lid as [|k]; [congruence|].
  destruct (R k d D1) as [BD [[b i] LP]].
  destruct (Q _ _ _ LP) as [wb [d' [NB [ND ID]]]].
  rewrite (nth_ids_ldoc f (S k) d D1) in ESD. rewrite LP in ESD.
  rewrite (nth_error_nth _ _ (0, 0) NB) in ESD. rewrite (nth_error_nth _ _ (mkDoc sys_id [] 0%N) ND) in ESD.
  subst sd. simpl. exists d. split; [exact BD|]. split; [reflexivity|]. split.
  - intros t. apply bool_eq_iff. split; intros M.
    + apply memN_In in M. apply in_map_iff in M as [tl [ET HT]]. apply filter_In in HT as [HT1 HT2].
      apply memn_In in HT2. destruct (P tl (S k) HT1 HT2) as [d2 [X1 X2]].
      rewrite (ldoc_fun f (S k) d d2 D1 X1). rewrite <- ET. exact X2.
    + pose proof (L (S k) d t HP D1 M) as HT. pose proof (post_has_tok _ _ _ HT) as HH.
      destruct (get_tok_in _ _ HH) as [G1 G2]. apply memN_In. apply in_map_iff.
      exists (get_tok t (f_toks f)). split; auto. apply filter_In. split; auto. apply memn_In. exact HT.
  - exists d'. split; [|split; auto].
    exists wb. split; [eapply nth_error_In; eauto | eapply nth_error_In; eauto].
Qed.

(* ---------------------------------------------------------------- steps preserve SInv *)
Lemma SInv_next c st st' :
  SInv c st -> ext_all st st' ->
  (forall g f, nth_error (fracs st') g = Some f -> fok c f) ->
  (forall w x, nth_error (ws st') w = Some x -> nth_error (ws st) w = Some x \/ wok c st' w x) ->
  (forall r x, nth_error (rs st') r = Some x -> nth_error (rs st) r = Some x \/ rok st' x) ->
  SInv c st'.
Proof.
  intros [F W R] E HF HW HR. constructor; auto.
  - intros w x H. destruct (HW w x H) as [H1|H1]; auto. eapply wok_mono; eauto.
  - intros r x H. destruct (HR r x H) as [H1|H1]; auto. eapply rok_mono; eauto.
Qed.

Lemma fracs_setf_fok c st g h :
  SInv c st -> (forall f0, nth_error (fracs st) g = Some f0 -> fok c (h f0)) ->
  forall g' f, nth_error (fracs (setf st g h)) g' = Some f -> fok c f.
Proof.
  intros S H g' f E. unfold setf in E; simpl in E. rewrite nth_error_upd in E.
  destruct (Nat.eqb_spec g' g).
  - subst. destruct (nth_error (fracs st) g) eqn:E0; simpl in E; inversion E; subst. auto.
  - eapply si_f; eauto.
Qed.

Lemma upd_cases {A} (h : A -> A) l n n' x' :
  nth_error (upd n h l) n' = Some x' ->
  nth_error l n' = Some x' \/ (n' = n /\ exists x, nth_error l n = Some x /\ x' = h x).
Proof.
  rewrite nth_error_upd. destruct (Nat.eqb_spec n' n); auto.
  subst. destruct (nth_error l n) eqn:E; simpl; intros H; inversion H; subst. right. eauto.
Qed.

Lemma step_w_ext c st w : ext_all st (fst (step_w c st w)).
Proof.
  intros g. pose proof (step_fext c st (LW (N.of_nat w)) g) as H. simpl in H. rewrite Nat2N.id in H. exact H.
Qed.

Lemma SInv_w c st w g hf hw x :
  SInv c st -> nth_error (ws st) w = Some x ->
  ext_all st (setw (setf st g hf) w hw) ->
  (forall f0, nth_error (fracs st) g = Some f0 -> fok c (hf f0)) ->
  wok c (setw (setf st g hf) w hw) w (hw x) ->
  SInv c (setw (setf st g hf) w hw).
Proof.
  intros S EX E HF HW. apply (SInv_next c st); auto.
  - intros g' f H. eapply (fracs_setf_fok c st g hf); eauto.
  - intros w' x' H. simpl in H. apply upd_cases in H as [H|[H1 [x0 [H2 H3]]]]; auto.
    subst. rewrite EX in H2. inversion H2; subst. auto.
Qed.

Lemma SInv_wonly c st w hw x :
  SInv c st -> nth_error (ws st) w = Some x -> wok c (setw st w hw) w (hw x) -> SInv c (setw st w hw).
Proof.
  intros S EX HW. apply (SInv_next c st); auto.
  - intros g; apply fext_refl.
  - intros g f H. eapply si_f; eauto.
  - intros w' x' H. simpl in H. apply upd_cases in H as [H|[H1 [x0 [H2 H3]]]]; auto.
    subst. rewrite EX in H2. inversion H2; subst. auto.
Qed.

Lemma getf_setw_setf st g hf w hw :
  g < length (fracs st) -> getf (setw (setf st g hf) w hw) g = hf (getf st g).
Proof.
  intros L. change (getf (setw (setf st g hf) w hw) g) with (getf (setf st g hf) g).
  rewrite getf_setf, Nat.eqb_refl. apply Nat.ltb_lt in L. rewrite L. reflexivity.
Qed.

Lemma seq_nth_error len n i : i < n -> nth_error (seq len n) i = Some (len + i).
Proof.
  revert len i; induction n; intros len i H; [lia|]. destruct i; simpl.
  - f_equal. lia.
  - rewrite IHn by lia. f_equal. lia.
Qed.

Lemma incl_filter {A} (p : A -> bool) l : incl (filter p l) l.
Proof. intros x H. apply filter_In in H. tauto. Qed.

Ltac vac := constructor; simpl; intros; lia.

Lemma step_w_sinv c st w :
  v_all_last (c_ver c) = true -> IInv st -> SInv c st -> SInv c (fst (step_w c st w)).
Proof.
  intros V II SI. pose proof (step_w_ext c st w) as EXT. revert EXT.
  unfold step_w. destruct (nth_error (ws st) w) as [x|] eqn:EX; simpl; auto.
  pose proof (si_w c st SI w x EX) as W.
  assert (RG : 1 <= w_pc x -> w_g x < length (fracs st)).
  { destruct II as [_ HW]. rewrite Forall_forall in HW. apply (HW x (nth_error_In _ _ EX)). }
  set (g := w_g x) in *. set (f0 := getf st g) in *.
  assert (F0 : forall f1, nth_error (fracs st) g = Some f1 -> f1 = f0).
  { intros f1 H. unfold f0. symmetry. apply nth_error_getf; auto. }
  assert (FK0 : fok c f0) by (apply getf_fok; auto).
  destruct (w_pc x) as [|[|[|[|[|[|[|[|[|pc]]]]]]]]] eqn:PC; simpl.
  - (* idle -> picked *)
    destruct (Nat.ltb _ _); simpl; auto. intros _. eapply SInv_wonly; eauto. vac.
  - (* proxy.append *)
    destruct (_ && _ && _)%bool; simpl; intros EXT.
    + eapply SInv_w; eauto; [|vac]. intros f1 H. rewrite (F0 f1 H). eapply (fok_eq c f0); [reflexivity|reflexivity|reflexivity|reflexivity|reflexivity|exact FK0].
    + eapply SInv_wonly; eauto. vac.
  - (* DocBlocks.Append *)
    intros EXT. eapply SInv_w; eauto.
    + intros f1 H. rewrite (F0 f1 H). eapply (fok_blocks c f0 _ (w, w_cur x)); [reflexivity|reflexivity|reflexivity|reflexivity|reflexivity|exact FK0].
    + constructor; simpl; intros; try lia. rewrite getf_setw_setf by (apply RG; lia). simpl.
      fold f0. rewrite nth_error_app2 by lia. rewrite Nat.sub_diag. reflexivity.
  - (* SetMultiple + Filter *)
    destruct (set_multiple (w_blk x) 0 (cur_bulk c w x) (f_pos f0)) as [pos' app] eqn:SM. simpl. intros EXT.
    assert (NB : nth_error (f_blocks f0) (w_blk x) = Some (w, w_cur x)) by (apply (wk_blk _ _ _ _ W); lia).
    eapply SInv_w; eauto.
    + intros f1 H. rewrite (F0 f1 H). eapply (fok_pos c f0 _ (w_blk x) (w, w_cur x)); eauto; try reflexivity; simpl.
      * intros y p Hy. pose proof (set_multiple_ext (w_blk x) (cur_bulk c w x) 0 _ y p Hy) as X. rewrite SM in X. exact X.
      * intros y b i Hy. pose proof (set_multiple_spec (w_blk x) (cur_bulk c w x) 0 (f_pos f0) y b i) as X.
        rewrite SM in X. simpl in X. destruct (X Hy) as [X1|[X1 [d [X2 [_ X3]]]]]; auto.
        right. split; auto. exists d. rewrite Nat.sub_0_r in X2. auto.
    + pose proof (wok_mono c st _ w x EXT W) as W'.
      constructor; simpl; intros; try lia.
      * apply (wk_blk _ _ _ _ W'). lia.
      * split; [apply incl_filter|]. intros d Hd. apply filter_In in Hd as [_ Hd]. apply mem_id_In in Hd.
        rewrite getf_setw_setf by (apply RG; lia). simpl.
        pose proof (set_multiple_app (w_blk x) (cur_bulk c w x) 0 (f_pos f0) (d_id d)) as X. rewrite SM in X. simpl in X. auto.
      * destruct (filter (fun d => mem_id (d_id d) app) (cur_bulk c w x)) as [|d0 rest0] eqn:FE; [congruence|].
        assert (IN0 : In d0 (filter (fun d => mem_id (d_id d) app) (cur_bulk c w x))) by (rewrite FE; left; auto).
        apply filter_In in IN0 as [_ IN0]. apply mem_id_In in IN0. destruct app; [contradiction|simpl; lia].
  - (* AppendIDs *)
    intros EXT.
    assert (NB : nth_error (f_blocks f0) (w_blk x) = Some (w, w_cur x)) by (apply (wk_blk _ _ _ _ W); lia).
    destruct (wk_docs _ _ _ _ W) as [INC POS]; [lia|].
    eapply SInv_w; eauto.
    + intros f1 H. rewrite (F0 f1 H). eapply (fok_ldocs c f0 _ (w_docs x)); eauto; try reflexivity.
      intros d Hd. split; [|apply POS; auto]. exists (w, w_cur x). split; [eapply nth_error_In; eauto|]. apply INC; auto.
    + pose proof (wok_mono c st _ w x EXT W) as W'.
      constructor; simpl; intros; try lia.
      * apply (wk_blk _ _ _ _ W'). lia.
      * apply (wk_docs _ _ _ _ W'). lia.
      * rewrite getf_setw_setf by (apply RG; lia). unfold ldoc; simpl.
        apply Forall2_from_nth; [rewrite seq_length; auto|].
        intros i d l Hd Hl. assert (IL : i < length (w_docs x)) by (apply nth_error_Some; congruence).
        rewrite seq_nth_error in Hl by auto. inversion Hl; subst l.
        fold f0. unfold f_ids. rewrite map_length. rewrite nth_error_app2 by lia.
        replace (length (f_ldocs f0) + i - length (f_ldocs f0)) with i by lia. exact Hd.
      * apply (wk_cnt _ _ _ _ W'); auto. lia.
  - (* TokenList.Append *)
    intros EXT. eapply SInv_w; eauto.
    + intros f1 H. rewrite (F0 f1 H). eapply (fok_add_toks c f0 _ (bulk_toks (cur_bulk c w x))); [reflexivity|reflexivity|reflexivity|reflexivity|reflexivity|exact FK0].
    + pose proof (wok_mono c st _ w x EXT W) as W'.
      constructor; simpl; intros; try lia.
      * apply (wk_blk _ _ _ _ W'). lia.
      * apply (wk_docs _ _ _ _ W'). lia.
      * apply (wk_lids _ _ _ _ W'). lia.
      * rewrite getf_setw_setf by (apply RG; lia). simpl. apply add_toks_all. auto.
      * apply (wk_cnt _ _ _ _ W'); auto. lia.
  - (* before the first put *)
    destruct (put_order (c_ver c) (cur_bulk c w x)) as [|t0 rest] eqn:PO; simpl; intros _.
    + eapply SInv_wonly; eauto. constructor; simpl; intros; try lia.
      * apply (wk_blk _ _ _ _ W). lia.
      * apply (wk_docs _ _ _ _ W). lia.
      * (* no token at all: nothing to put *)
        apply Forall2_from_nth; [apply (Forall2_length' _ _ _ (wk_lids _ _ _ _ W ltac:(lia)))|].
        intros i d l Hd Hl. split; [apply (Forall2_nth _ _ _ (wk_lids _ _ _ _ W ltac:(lia)) i d l Hd Hl)|].
        intros t Ht. exfalso. apply memN_In in Ht.
        destruct (wk_docs _ _ _ _ W ltac:(lia)) as [INC _].
        assert (INB : In t (bulk_toks (cur_bulk c w x))) by (eapply bulk_toks_In; [apply INC; eapply nth_error_In; eauto|exact Ht]).
        assert (INO : In t (put_order (c_ver c) (cur_bulk c w x))) by (apply put_order_sup; auto).
        rewrite PO in INO. contradiction.
      * apply (wk_cnt _ _ _ _ W); auto. lia.
    + eapply SInv_wonly; eauto. constructor; simpl; intros; try lia.
      * apply (wk_blk _ _ _ _ W). lia.
      * apply (wk_docs _ _ _ _ W). lia.
      * apply (wk_lids _ _ _ _ W). lia.
      * apply (wk_toks _ _ _ _ W); auto. lia.
      * split; [|intros; lia]. unfold order_of, cur_bulk in *; simpl. rewrite PO. simpl. lia.
      * apply (wk_cnt _ _ _ _ W); auto. lia.
  - (* one put *)
    destruct (wk_put _ _ _ _ W PC) as [K PR].
    destruct (wk_docs _ _ _ _ W) as [INC POS]; [lia|].
    pose proof (wk_lids _ _ _ _ W) as F2. specialize (F2 ltac:(lia)).
    set (t := nth (w_k x) (put_order (c_ver c) (cur_bulk c w x)) 0%N) in *.
    set (grp := group_lids t (w_docs x) (w_lids x)) in *.
    assert (FK1 : forall f1, nth_error (fracs st) g = Some f1 ->
              fok c (mkFrac (f_act f1) (f_sld f1) (f_ro f1) (f_blocks f1) (f_pos f1) (f_ldocs f1)
                            (upd_tok t (fun y => mkTl (tl_tok y) (tl_sorted y) (tl_queue y ++ grp)) (f_toks f1))
                            (f_from f1) (f_to f1) (f_total f1) (f_wg f1) (f_rl f1) (f_subs f1) (f_seal f1) (f_sdocs f1) (f_ssui f1))).
    { intros f1 H. rewrite (F0 f1 H).
      eapply (fok_put c f0 _ (c_ver c) (cur_bulk c w x) (w_k x) (w_docs x) (w_lids x)); eauto; reflexivity. }
    destruct (Nat.ltb (S (w_k x)) (length (put_order (c_ver c) (cur_bulk c w x)))) eqn:LT; simpl; intros EXT.
    + eapply SInv_w; eauto.
      pose proof (wok_mono c st _ w x EXT W) as W'.
      constructor; simpl; intros; try lia.
      * apply (wk_blk _ _ _ _ W'). lia.
      * apply (wk_docs _ _ _ _ W'). lia.
      * apply (wk_lids _ _ _ _ W'). lia.
      * apply (wk_toks _ _ _ _ W'); auto. lia.
      * apply Nat.ltb_lt in LT. split; [exact LT|]. intros j Hj.
        destruct (Nat.eq_dec j (w_k x)) as [EJ|NJ].
        -- subst j. rewrite getf_setw_setf by (apply RG; lia). fold f0.
           apply Forall2_from_nth; [apply (Forall2_length' _ _ _ F2)|].
           intros i d l Hd Hl M. unfold order_of, cur_bulk in *; simpl in *. fold t in M. fold t.
           unfold post; simpl.
           assert (HT : has_tok t (f_toks f0) = true).
           { apply (wk_toks _ _ _ _ W); [lia|]. apply (put_order_sub (c_ver c)). apply nth_In. exact K. }
           rewrite get_tok_upd_same by auto. apply (put_tl_posting grp). right.
           eapply group_lids_in; eauto.
        -- destruct (wk_put _ _ _ _ W' PC) as [_ PR']. apply PR'. lia.
      * apply (wk_cnt _ _ _ _ W'); auto. lia.
    + eapply SInv_w; eauto.
      pose proof (wok_mono c st _ w x EXT W) as W'.
      constructor; simpl; intros; try lia.
      * apply (wk_blk _ _ _ _ W'). lia.
      * apply (wk_docs _ _ _ _ W'). lia.
      * (* the last put: every token of every document of the collector is queued now *)
        apply Nat.ltb_ge in LT. rewrite getf_setw_setf by (apply RG; lia). fold f0.
        pose proof (wk_lids _ _ _ _ W' ltac:(lia)) as F2'. rewrite getf_setw_setf in F2' by (apply RG; lia). fold f0 in F2'.
        apply Forall2_from_nth; [apply (Forall2_length' _ _ _ F2)|].
        intros i d l Hd Hl. split; [apply (Forall2_nth _ _ _ F2' i d l Hd Hl)|].
        intros t' Ht'.
        assert (INB : In t' (bulk_toks (cur_bulk c w x))).
        { eapply bulk_toks_In; [apply INC; eapply nth_error_In; eauto|]. apply memN_In. exact Ht'. }
        apply (put_order_sup (c_ver c)) in INB. apply In_nth_error in INB as [j Hj].
        assert (JL : j < length (put_order (c_ver c) (cur_bulk c w x))) by (apply nth_error_Some; congruence).
        assert (NJ : nth j (put_order (c_ver c) (cur_bulk c w x)) 0%N = t') by (apply nth_error_nth; auto).
        destruct (Nat.eq_dec j (w_k x)) as [EJ|NEJ].
        -- subst j. unfold post; simpl. fold t in NJ. rewrite <- NJ.
           assert (HT : has_tok t (f_toks f0) = true).
           { apply (wk_toks _ _ _ _ W); [lia|]. apply (put_order_sub (c_ver c)). apply nth_In. exact K. }
           rewrite get_tok_upd_same by auto. apply (put_tl_posting grp). right.
           eapply group_lids_in; eauto. rewrite NJ. exact Ht'.
        -- destruct (wk_put _ _ _ _ W' PC) as [_ PR']. assert (JK : j < w_k x) by lia.
           pose proof (Forall2_nth _ _ _ (PR' j JK) i d l Hd Hl) as X.
           unfold order_of, cur_bulk in X; simpl in X. rewrite getf_setw_setf in X by (apply RG; lia). fold f0 in X.
           rewrite <- NJ. apply X. unfold cur_bulk in NJ. rewrite NJ. exact Ht'.
      * apply (wk_cnt _ _ _ _ W'); auto. lia.
  - (* UpdateStats *)
    intros EXT. eapply SInv_w; eauto.
    + intros f1 H. rewrite (F0 f1 H). eapply (fok_eq c f0); [reflexivity|reflexivity|reflexivity|reflexivity|reflexivity|exact FK0].
    + pose proof (wok_mono c st _ w x EXT W) as W'.
      constructor; simpl; intros; try lia.
      * apply (wk_blk _ _ _ _ W'). lia.
      * apply (wk_docs _ _ _ _ W'). lia.
      * apply (wk_done _ _ _ _ W'). lia.
      * apply (wk_cnt _ _ _ _ W'); auto. lia.
  - (* wg.Done *)
    intros EXT. eapply SInv_w; eauto; [|vac].
    intros f1 H. rewrite (F0 f1 H). eapply (fok_eq c f0); [reflexivity|reflexivity|reflexivity|reflexivity|reflexivity|exact FK0].
Qed.

(* ---------------------------------------------------------------- what a search result is *)
Definition sound_res (c : config) (f : frac) (q : qspec) (ids : list id) : Prop :=
  forall x, In x ids ->
    exists d, blocks_docs c f d /\ d_id d = x /\ in_range (snd (fst q)) (snd q) x = true
              /\ evald (fst (fst q)) (d_toks d) = true.

Lemma sound_res_blocks c f f' q ids : f_blocks f' = f_blocks f -> sound_res c f q ids -> sound_res c f' q ids.
Proof.
  intros E H x Hx. destruct (H x Hx) as [d [[wb [B1 B2]] R]]. exists d. split; auto. exists wb. rewrite E. auto.
Qed.

Lemma insert_id_In x y l : In x (insert_id y l) -> x = y \/ In x l.
Proof.
  induction l; simpl; intros H.
  - destruct H as [H|[]]; auto.
  - destruct (id_eqb y a); [auto|]. destruct (id_leb y a); simpl in H.
    + destruct H as [H|H]; auto.
    + destruct H as [H|H]; auto. destruct (IHl H); auto.
Qed.

Lemma sort_ids_In x l : In x (sort_ids l) -> In x l.
Proof.
  induction l; simpl; intros H; auto. apply insert_id_In in H as [H|H]; auto.
Qed.

Lemma nth_firstn {A} (l : list A) n i d : i < n -> nth i (firstn n l) d = nth i l d.
Proof.
  revert n i; induction l; intros n i H; destruct n, i; simpl; auto; try lia. apply IHl. lia.
Qed.

Lemma evalq_ok f m lid d : In lid m -> ldoc f lid d ->
  forall q snaps rest, Forall2 (leaf_ok f m) (leaves q) snaps ->
    evalq q (snaps ++ rest) lid = (evald q (d_toks d), rest).
Proof.
  intros HL HD. induction q; intros snaps rest F; simpl in *.
  - inversion F as [|? ? ? ? H1 H2]; subst. inversion H2; subst. simpl. rewrite (H1 lid d HL HD). reflexivity.
  - apply Forall2_app_inv_l in F as [s1 [s2 [F1 [F2 E]]]]. subst. rewrite <- app_assoc.
    rewrite (IHq1 s1 (s2 ++ rest) F1). rewrite (IHq2 s2 rest F2). reflexivity.
  - apply Forall2_app_inv_l in F as [s1 [s2 [F1 [F2 E]]]]. subst. rewrite <- app_assoc.
    rewrite (IHq1 s1 (s2 ++ rest) F1). rewrite (IHq2 s2 rest F2). reflexivity.
  - apply Forall2_app_inv_l in F as [s1 [s2 [F1 [F2 E]]]]. subst. rewrite <- app_assoc.
    rewrite (IHq1 s1 (s2 ++ rest) F1). rewrite (IHq2 s2 rest F2). reflexivity.
  - rewrite (IHq snaps rest F). reflexivity.
Qed.

Lemma in_range_clamp qf qt a b x : in_range (N.max qf a) (N.min qt b) x = true -> in_range qf qt x = true.
Proof.
  unfold in_range. intros H. apply andb_prop in H as [H1 H2]. apply N.leb_le in H1, H2.
  apply andb_true_intro. split; apply N.leb_le; lia.
Qed.

Lemma search_result_sound c f q a b m n s :
  fok c f -> map_ok f m -> n <= length (f_ldocs f) -> (forall lid, In lid m -> lid < n) ->
  Forall2 (leaf_ok f m) (leaves (fst (fst q))) s ->
  sound_res c f q (search_result (firstn n (f_ids f)) q a b m s).
Proof.
  intros F M NL LN F2 x Hx. destruct q as [[qq qf] qt]. simpl in *.
  apply sort_ids_In in Hx. apply in_map_iff in Hx as [lid [EX HL]].
  apply filter_In in HL as [HL EV]. apply filter_In in HL as [HL RG].
  destruct (M lid HL) as [NZ [_ [d [D1 D2]]]].
  rewrite nth_firstn in EX, RG by (apply LN; auto). rewrite (nth_ids_ldoc f lid d D1) in EX, RG.
  exists d. destruct lid as [|k]; [congruence|]. destruct (fk_ldocs c f F k d D1) as [BD _].
  split; auto. split; auto. subst x. split; [eapply in_range_clamp; eauto|].
  pose proof (evalq_ok f m (S k) d HL D1 qq s [] F2) as E. rewrite app_nil_r in E. rewrite E in EV. exact EV.
Qed.

Lemma SInv_set_op c st r op x :
  SInv c st -> nth_error (rs st) r = Some x -> rok_op st op -> SInv c (set_op st r op).
Proof.
  intros SI EX H. apply (SInv_next c st); auto.
  - intros g; apply fext_refl.
  - intros g f Hf. eapply si_f; eauto.
  - intros r' x' Hx. unfold set_op, setr in Hx; simpl in Hx. apply upd_cases in Hx as [Hx|[H1 [x0 [H2 H3]]]]; auto.
    subst. right. exact H.
Qed.

(* a fraction rewrite that leaves threads alone *)
Lemma SInv_setf c st g h :
  SInv c st -> (forall x, fext x (h x)) -> (forall f0, nth_error (fracs st) g = Some f0 -> fok c (h f0)) ->
  SInv c (setf st g h).
Proof.
  intros SI HX HF. apply (SInv_next c st); auto.
  - intros g'. apply getf_fext; auto.
  - eapply fracs_setf_fok; eauto.
Qed.

Lemma fok_set_rl c f n : fok c f -> fok c (set_rl f n).
Proof. intros F. eapply (fok_eq c f); [reflexivity|reflexivity|reflexivity|reflexivity|reflexivity|exact F]. Qed.

Lemma SInv_set_rl c st g k : SInv c st -> SInv c (setf st g (fun f => set_rl f (k f))).
Proof.
  intros SI. apply SInv_setf; auto.
  - intros x. apply fext_eq; reflexivity.
  - intros f0 H. apply fok_set_rl. eapply si_f; eauto.
Qed.

Lemma getf_set_rl st g k g' :
  f_ldocs (getf (setf st g (fun f => set_rl f (k f))) g') = f_ldocs (getf st g')
  /\ f_blocks (getf (setf st g (fun f => set_rl f (k f))) g') = f_blocks (getf st g').
Proof. rewrite getf_setf. destruct (_ && _)%bool; auto. Qed.

Lemma advance_sinv c st r g q a b m n x : forall p s done,
  SInv c st -> nth_error (rs st) r = Some x ->
  ((f_from (getf st g) <= a)%N /\ (b <= f_to (getf st g))%N /\ 0 < f_total (getf st g)) ->
  map_ok (getf st g) m -> n <= length (f_ldocs (getf st g)) -> (forall lid, In lid m -> lid < n) ->
  leaves (fst (fst q)) = done ++ p -> Forall2 (leaf_ok (getf st g) m) done s ->
  SInv c (fst (advance st r g q a b m n s p)) /\
  (forall ids, snd (advance st r g q a b m n s p) = ORes ids -> sound_res c (getf st g) q ids).
Proof.
  induction p; intros s done SI EX RG0 M NL LN LV F2; simpl.
  - rewrite app_nil_r in LV. subst done. split.
    + eapply (SInv_set_op c _ r RIdle x); [apply SInv_set_rl; auto | exact EX | exact I].
    + intros ids H. inversion H; subst. apply search_result_sound; auto. apply getf_fok; auto.
  - destruct (has_tok a0 (f_toks (getf st g))) eqn:HT; simpl.
    + split; [|intros ids H; discriminate].
      eapply (SInv_set_op c st r _ x); eauto. simpl. split; [exact RG0|]. split; [auto|]. split; [auto|].
      intros _. exists done. auto.
    + apply (IHp (s ++ [[]]) (done ++ [a0])); auto.
      * rewrite <- app_assoc. exact LV.
      * apply Forall2_app; auto. constructor; auto.
        intros lid d HL HD. simpl. destruct (memN a0 (d_toks d)) eqn:MM; auto.
        destruct (M lid HL) as [_ [_ [d0 [D1 D2]]]]. rewrite (ldoc_fun _ _ _ _ HD D1) in MM.
        apply D2 in MM. apply post_has_tok in MM. congruence.
Qed.

Lemma evald_ext q a b : (forall t, memN t a = memN t b) -> evald q a = evald q b.
Proof. intros H. induction q; simpl; rewrite ?IHq1, ?IHq2, ?IHq; auto. Qed.

Lemma sealed_search_sound c f q : fok c f -> sound_res c f q (sealed_search f q).
Proof.
  intros F x Hx. destruct q as [[qq qf] qt]. simpl in *. apply sort_ids_In in Hx.
  apply in_map_iff in Hx as [sd [E H]]. apply filter_In in H as [H1 H2]. apply andb_prop in H2 as [H2 H3].
  destruct (fk_sdocs c f F sd H1) as [d [BD [ID [TK _]]]]. exists d. subst x. rewrite ID.
  repeat split; auto. rewrite <- (evald_ext qq _ _ TK). exact H3.
Qed.

(* exactly its bytes: a fetched body is the body of a document with that ID in a bulk this fraction accepted *)
Definition sound_body (c : config) (f : frac) (x : id) (ob : option N) : Prop :=
  forall body, ob = Some body -> exists d, blocks_docs c f d /\ d_id d = x /\ d_body d = body.

Lemma fetch_one_sound c f nb xb ob : fok c f -> fetch_one c f nb xb = inl ob -> sound_body c f (fst xb) ob.
Proof.
  intros F H body E. subst ob. unfold fetch_one in H. destruct (snd xb); [|discriminate].
  destruct (lookup_pos (fst xb) (f_pos f)) as [[b i]|] eqn:LP; [|discriminate].
  destruct (Nat.ltb b nb); [|destruct (v_fetch_guard (c_ver c)); discriminate].
  destruct (fk_pos c f F _ _ _ LP) as [wb [d [NB [ND ID]]]].
  rewrite (nth_error_nth _ _ (0, 0) NB) in H. rewrite (nth_error_nth _ _ (mkDoc sys_id [] 0%N) ND) in H.
  inversion H; subst. exists d. split; auto. exists wb. split; eapply nth_error_In; eauto.
Qed.

Lemma sealed_fetch_sound c f x : fok c f -> sound_body c f x (sealed_fetch f x).
Proof.
  intros F body H. unfold sealed_fetch in H. destruct (find _ (f_sdocs f)) as [sd|] eqn:FD; [|discriminate].
  inversion H; subst. apply find_some in FD as [IN EQ]. apply id_eqb_eq in EQ.
  destruct (fk_sdocs c f F sd IN) as [_ [_ [_ [_ [d' [BD [ID BO]]]]]]]. exists d'. rewrite <- EQ. auto.
Qed.

(* ---------------------------------------------------------------- reader steps *)
Lemma step_r_sinv c st r :
  SInv c st ->
  SInv c (fst (step_r c st r)) /\
  (forall x g q pc a b m n s p ids, nth_error (rs st) r = Some x -> r_op x = RSearch g q pc a b m n s p ->
     snd (step_r c st r) = ORes ids -> sound_res c (getf st g) q ids) /\
  (forall x g fl nb bodies, nth_error (rs st) r = Some x -> r_op x = RFetch g fl nb ->
     snd (step_r c st r) = OFetch bodies -> Forall2 (fun xb ob => sound_body c (getf st g) (fst xb) ob) fl bodies).
Proof.
  intros SI. unfold step_r. destruct (nth_error (rs st) r) as [x|] eqn:EX; simpl.
  2:{ split; auto. split; intros; discriminate. }
  pose proof (si_r c st SI r x EX) as RK. unfold rok in RK.
  destruct (r_op x) as [|g q pc a b m n s p|g fl nb] eqn:OP; simpl.
  - split; auto. split; intros; discriminate.
  - simpl in RK. destruct RK as [R0 [R1 [R2 R3]]].
    assert (FK : fok c (getf st g)) by (apply getf_fok; auto).
    destruct pc; simpl.
    + (* search.start -> after-mapping: the LID universe is the merged `_all_` posting *)
      split; [|split; intros; discriminate].
      set (st1 := setf st g (fun f => set_toks f (upd_tok 0%N merge_tok (f_toks f)))).
      assert (S1 : SInv c st1).
      { apply SInv_setf; auto; [intros; fx|]. intros f0 H. eapply (fok_merge c f0 _ 0%N); try reflexivity. eapply si_f; eauto. }
      assert (E01 : fext (getf st g) (getf st1 g)) by (apply getf_fext; intros; fx).
      eapply (SInv_set_op c st1 r _ x); auto. simpl. split; [|split; [|split; [intros [H|H]; discriminate | intros H; discriminate]]].
      { destruct R0 as [X1 [X2 X3]]. destruct (fx_range _ _ E01) as [Y1 [Y2 Y3]]. repeat split; try lia; eapply N.le_trans; eauto. }
      intros _. apply (map_ok_mono (getf st g)); [exact E01|].
      intros lid HL. assert (HP : In lid (post (getf st g) 0%N)) by exact HL.
      split; [eapply post_nonzero; eauto|]. split; [exact HP|]. destruct (post_ldoc c _ _ _ FK HP) as [d [D1 D2]].
      exists d. split; auto. intros t Ht. eapply fk_all; eauto.
    + (* after-mapping -> after-ids *)
      destruct (forallb (fun lid => Nat.ltb lid (length (f_ids (getf st g)))) m) eqn:FB; simpl.
      * split; [|split; intros; discriminate]. eapply (SInv_set_op c st r _ x); auto. simpl.
        split; [exact R0|]. split; [intros _; apply R1; discriminate|]. split; [|intros; discriminate].
        intros _. unfold f_ids. rewrite map_length. split; auto. intros lid HL.
        rewrite forallb_forall in FB. specialize (FB lid HL). apply Nat.ltb_lt in FB. unfold f_ids in FB. rewrite map_length in FB. exact FB.
      * split; [|split; intros; discriminate]. eapply (SInv_set_op c _ r RIdle x); [apply SInv_set_rl; auto| exact EX | exact I].
    + (* after-ids: evaluate the leaves *)
      destruct (R2 (or_introl eq_refl)) as [NL LN].
      destruct (advance_sinv c st r g q a b m n x (leaves (fst (fst q))) [] [] SI EX R0 (R1 ltac:(discriminate)) NL LN eq_refl (Forall2_nil _)) as [A1 A2].
      split; auto. split; [|intros x0' g0' fl0' nb0' bd' H0' H1' H2'; inversion H0'; subst x0'; rewrite OP in H1'; discriminate].
      intros x0 g0 q0 pc0 a0 b0 m0 n0 s0 p0 ids H0 H1 H2. inversion H0; subst x0. rewrite OP in H1. inversion H1; subst. apply A2; auto.
    + (* one leaf *)
      destruct p as [|t rest]; simpl.
      { split; auto. split; intros; discriminate. }
      destruct (R2 (or_intror eq_refl)) as [NL LN]. destruct (R3 eq_refl) as [done [LV F2]].
      pose proof (R1 ltac:(discriminate)) as M.
      set (st1 := setf st g (fun f => set_toks f (upd_tok t merge_tok (f_toks f)))).
      assert (S1 : SInv c st1).
      { apply SInv_setf; auto; [intros; fx|]. intros f0 H. eapply (fok_merge c f0 _ t); try reflexivity. eapply si_f; eauto. }
      assert (E1 : fext (getf st g) (getf st1 g)) by (apply getf_fext; intros; fx).
      assert (L1 : f_ldocs (getf st1 g) = f_ldocs (getf st g) /\ f_blocks (getf st1 g) = f_blocks (getf st g)).
      { unfold st1. rewrite getf_setf. destruct (_ && _)%bool; auto. }
      destruct L1 as [L1 B1].
      set (snap := filter (fun lid => memn lid m) (tl_sorted (merge_tok (get_tok t (f_toks (getf st g)))))).
      assert (LK : leaf_ok (getf st1 g) m t snap).
      { intros lid d HL HD. unfold ldoc in HD. rewrite L1 in HD. apply bool_eq_iff. split; intros H.
        - apply memn_In in H. apply filter_In in H as [H _].
          assert (HP : In lid (post (getf st g) t)) by exact H.
          destruct (post_ldoc c _ _ _ FK HP) as [d' [D1 D2]]. rewrite (ldoc_fun _ _ _ _ HD D1). exact D2.
        - destruct (M lid HL) as [_ [_ [d0 [D1 D2]]]]. rewrite (ldoc_fun _ _ _ _ HD D1) in H.
          apply memn_In. apply filter_In. split; [exact (D2 t H)|]. apply memn_In. exact HL. }
      destruct (advance_sinv c st1 r g q a b m n x rest (s ++ [snap]) (done ++ [t]) S1 EX) as [A1 A2].
      * destruct R0 as [X1 [X2 X3]]. destruct (fx_range _ _ E1) as [Y1 [Y2 Y3]]. repeat split; try lia; eapply N.le_trans; eauto.
      * eapply map_ok_mono; eauto.
      * rewrite L1. exact NL.
      * exact LN.
      * rewrite <- app_assoc. exact LV.
      * apply Forall2_app; [|constructor; auto].
        eapply Forall2_impl; [|exact F2]. intros t' s' H. eapply leaf_ok_mono; eauto.
      * split; auto. split; [|intros x0' g0' fl0' nb0' bd' H0' H1' H2'; inversion H0'; subst x0'; rewrite OP in H1'; discriminate].
        intros x0 g0 q0 pc0 a0 b0 m0 n0 s0 p0 ids H0 H1 H2. inversion H0; subst x0. rewrite OP in H1. inversion H1; subst.
        eapply sound_res_blocks; [|apply A2; exact H2]. symmetry. exact B1.
  - (* fetch *)
    assert (FK : fok c (getf st g)) by (apply getf_fok; auto).
    assert (SS : SInv c (set_op (setf st g (fun f => set_rl f (pred (f_rl f)))) r RIdle)).
    { eapply (SInv_set_op c _ r RIdle x); [apply SInv_set_rl; auto| exact EX | exact I]. }
    destruct (existsb _ _) eqn:EB; simpl; (split; [exact SS|]); (split; [intros; discriminate|]).
    + intros; discriminate.
    + intros x0 g0 fl0 nb0 bodies H0 H1 H2. inversion H0; subst x0. rewrite OP in H1. inversion H1; subst. inversion H2; subst. clear H0 H1 H2.
      clear EB OP RK SS. induction fl0 as [|xb fl0 IH]; simpl; [constructor|]. constructor; [|exact IH].
      destruct (fetch_one c (getf st g0) nb0 xb) eqn:FO.
      * eapply fetch_one_sound; eauto.
      * intros body H; discriminate.
Qed.

Lemma step_sb_sinv c st r j qn :
  SInv c st ->
  SInv c (fst (step_sb c st r j qn)) /\
  (forall x g q ids, nth_error (rs st) r = Some x -> nth_error (r_snap x) j = Some g -> nth_error (c_qs c) qn = Some q ->
     snd (step_sb c st r j qn) = ORes ids -> sound_res c (getf st g) q ids).
Proof.
  intros SI. unfold step_sb. destruct (nth_error (rs st) r) as [x|] eqn:EX; simpl; [|split; auto; intros; discriminate].
  destruct (nth_error (c_qs c) qn) as [q|] eqn:EQ; simpl; [|split; auto; intros; discriminate].
  destruct (r_op x) eqn:OP; simpl; try (split; auto; intros; discriminate).
  destruct (nth_error (r_snap x) j) as [g|] eqn:EG; simpl; [|split; auto; intros; discriminate].
  destruct q as [[qq qf] qt].
  assert (EMP : forall q', sound_res c (getf st g) q' []) by (intros q' y []).
  assert (FK : fok c (getf st g)) by (apply getf_fok; auto).
  destruct (intersects (getf st g) qf qt) eqn:INT; simpl;
  repeat match goal with |- context [if ?b then _ else _] => destruct b; simpl end;
    try (split; [exact SI|]; intros x0 g0 q0 ids H0 H1 H2 H3; inversion H0; subst x0; rewrite EG in H1; inversion H1; inversion H2; subst;
         first [discriminate | inversion H3; subst; first [apply EMP | apply sealed_search_sound; exact FK]]).
  split; [|intros; discriminate].
  eapply (SInv_set_op c _ r _ x); [apply SInv_set_rl; auto | exact EX |].
  simpl. split; [|split; [intros H; congruence|]; split; [intros [H|H]; discriminate | intros H; discriminate]].
  rewrite getf_setf. destruct (_ && _)%bool; simpl; (split; [apply N.le_refl|]; split; [apply N.le_refl|]);
    unfold intersects in INT; apply andb_prop in INT as [INT _]; apply negb_true_iff in INT; apply Nat.eqb_neq in INT; lia.
Qed.

Lemma step_fb_sinv c st r j ids :
  SInv c st ->
  SInv c (fst (step_fb c st r j ids)) /\
  (forall x g bodies, nth_error (rs st) r = Some x -> nth_error (r_snap x) j = Some g ->
     snd (step_fb c st r j ids) = OFetch bodies -> Forall2 (sound_body c (getf st g)) ids bodies).
Proof.
  intros SI. unfold step_fb. destruct (nth_error (rs st) r) as [x|] eqn:EX; simpl; [|split; auto; intros; discriminate].
  destruct (r_op x) eqn:OP; simpl; try (split; auto; intros; discriminate).
  destruct (nth_error (r_snap x) j) as [g|] eqn:EG; simpl; [|split; auto; intros; discriminate].
  assert (FK : fok c (getf st g)) by (apply getf_fok; auto).
  assert (NONE : Forall2 (sound_body c (getf st g)) ids (map (fun _ => None) ids)).
  { clear. induction ids; simpl; constructor; auto. intros body H; discriminate. }
  destruct ids as [|i0 ids'] eqn:EI.
  { simpl. split; auto. intros x0 g0 bodies H0 H1 H2. inversion H2; subst. constructor. }
  rewrite <- EI in *. clear EI.
  repeat match goal with |- context [if ?b then _ else _] => destruct b; simpl end;
    try (split; [exact SI|]; intros x0 g0 bodies H0 H1 H2; inversion H0; subst x0; rewrite EG in H1; inversion H1; subst;
         first [discriminate | inversion H2; subst; try exact NONE]).
  - split; [|intros; discriminate].
    eapply (SInv_set_op c _ r _ x); [apply SInv_set_rl; auto | exact EX | exact I].
  - clear NONE. induction ids as [|y ys IH]; simpl; constructor; auto.
    destruct (intersects (getf st g0) (fst y) (fst y)); simpl; [apply sealed_fetch_sound; auto|intros body H; discriminate].
Qed.

Lemma step_snap_sinv c st r : SInv c st -> SInv c (fst (step_snap st r)).
Proof.
  intros SI. unfold step_snap. destruct (nth_error (rs st) r) as [x|] eqn:EX; simpl; auto.
  destruct (r_op x) eqn:OP; simpl; auto.
  apply (SInv_next c st); auto.
  - intros g; apply fext_refl.
  - intros g f H. eapply si_f; eauto.
  - intros r' x' H. simpl in H. apply upd_cases in H as [H|[H1 [x0 [H2 H3]]]]; auto.
    subst. right. unfold rok; simpl. rewrite EX in H2. inversion H2; subst. rewrite OP. exact I.
Qed.

(* ---------------------------------------------------------------- maintenance steps *)
Lemma fok_set_seal c f a s r p : fok c f -> fok c (set_seal f a s r p (f_sdocs f)).
Proof. intros F. eapply (fok_eq c f); [reflexivity|reflexivity|reflexivity|reflexivity|reflexivity|exact F]. Qed.

Lemma step_m_sinv c st g : SInv c st -> SInv c (fst (step_m c st g)).
Proof.
  intros SI. unfold step_m. destruct (nth_error (fracs st) g) as [f|] eqn:EF; simpl; auto.
  destruct (f_seal f); simpl; auto;
    repeat match goal with |- context [if ?b then _ else _] => destruct b; simpl; auto end;
    (apply SInv_setf; auto; [intros; fx|]); intros f0 H; rewrite EF in H; inversion H; subst f0;
    try (apply fok_set_seal; eapply si_f; eauto).
  eapply (fok_build c f); try reflexivity. eapply si_f; eauto.
Qed.

Lemma step_rot_sinv c st : SInv c st -> SInv c (fst (step_rot st)).
Proof.
  intros SI. unfold step_rot. destruct (Nat.ltb _ _); simpl; auto.
  set (st1 := setf st (last_g st) (fun f => set_seal f (f_act f) (f_sld f) (f_ro f) SRot (f_sdocs f))).
  assert (S1 : SInv c st1).
  { apply SInv_setf; auto; [intros; fx|]. intros f0 H. apply fok_set_seal. eapply si_f; eauto. }
  assert (GE : forall g, getf (mkSt (fracs st1 ++ [new_frac]) (shift st) (ws st) (rs st)) g = getf st1 g).
  { intros g. change (nth g (fracs st1 ++ [new_frac]) new_frac = getf st1 g). apply getf_app_new. }
  change (SInv c (mkSt (fracs st1 ++ [new_frac]) (shift st) (ws st) (rs st))).
  apply (SInv_next c st1); auto.
  - intros g. rewrite GE. apply fext_refl.
  - intros g f H. change (nth_error (fracs st1 ++ [new_frac]) g = Some f) in H.
    destruct (Nat.lt_ge_cases g (length (fracs st1))) as [L|L].
    + rewrite nth_error_app1 in H by auto. eapply si_f; eauto.
    + rewrite nth_error_app2 in H by auto. remember (g - length (fracs st1)) as k. destruct k as [|k]; simpl in H.
      * inversion H; subst. apply new_frac_fok.
      * destruct k; discriminate.
Qed.

Lemma step_sui_sinv c st : SInv c st -> SInv c (fst (step_sui st)).
Proof.
  intros SI. unfold step_sui. destruct (sui_enabled st); simpl; auto.
  match goal with |- SInv c {| fracs := upd ?gg ?h _ |} =>
    assert (S1 : SInv c (setf st gg h)) end.
  { apply SInv_setf; auto.
    - intros y; destruct (replaced (f_seal y)); fx.
    - intros f0 H. destruct (replaced (f_seal f0));
        (eapply (fok_eq c f0); [reflexivity|reflexivity|reflexivity|reflexivity|reflexivity|eapply si_f; eauto]). }
  eapply (SInv_next c _ _ S1).
  - intros g. apply fext_refl.
  - intros g f H. eapply (si_f c _ S1); exact H.
  - intros w x H. left. exact H.
  - intros r x H. left. exact H.
Qed.

Lemma step_sinv c st l : v_all_last (c_ver c) = true -> IInv st -> SInv c st -> SInv c (fst (step c st l)).
Proof.
  intros V II SI. destruct l; simpl.
  - apply step_w_sinv; auto.
  - apply step_snap_sinv; auto.
  - apply step_sb_sinv; auto.
  - apply step_fb_sinv; auto.
  - apply step_r_sinv; auto.
  - apply step_rot_sinv; auto.
  - apply step_m_sinv; auto.
  - apply step_sui_sinv; auto.
Qed.

Lemma init_sinv c n : SInv c (init c n).
Proof.
  constructor; simpl.
  - intros g f H. destruct g as [|[|g]]; simpl in H; try discriminate. inversion H; subst. apply new_frac_fok.
  - intros w x H. apply nth_error_In in H. apply in_map_iff in H as [b [E _]]. subst x. vac.
  - intros r x H. apply nth_error_In in H. apply repeat_spec in H. subst x. exact I.
Qed.

Lemma exec_both c ls : v_all_last (c_ver c) = true -> forall st, IInv st -> SInv c st ->
  IInv (exec c st ls) /\ SInv c (exec c st ls).
Proof.
  intros V. induction ls; simpl; intros st II SI; auto. apply IHls; [apply step_iinv | apply step_sinv]; auto.
Qed.

Lemma reach_sinv c n ls : v_all_last (c_ver c) = true -> SInv c (exec c (init c n) ls).
Proof. intros V. apply (exec_both c ls V); [apply init_iinv | apply init_sinv]. Qed.

(* ---------------------------------------------------------------- statement used by Props.v *)
Lemma reader_safe c n ls :
  v_all_last (c_ver c) = true ->
  let st := exec c (init c n) ls in
  forall r x, nth_error (rs st) (N.to_nat r) = Some x ->
    (forall j qn g q ids,
        nth_error (r_snap x) (N.to_nat j) = Some g -> nth_error (c_qs c) (N.to_nat qn) = Some q ->
        snd (step c st (LSB r j qn)) = ORes ids -> sound_res c (getf st g) q ids)
    /\ (forall g q pc a b m nn s p ids,
        r_op x = RSearch g q pc a b m nn s p ->
        snd (step c st (LR r)) = ORes ids -> sound_res c (getf st g) q ids)
    /\ (forall j ids g bodies,
        nth_error (r_snap x) (N.to_nat j) = Some g ->
        snd (step c st (LFB r j ids)) = OFetch bodies -> Forall2 (sound_body c (getf st g)) ids bodies)
    /\ (forall g fl nb bodies,
        r_op x = RFetch g fl nb ->
        snd (step c st (LR r)) = OFetch bodies ->
        Forall2 (fun xb ob => sound_body c (getf st g) (fst xb) ob) fl bodies).
Proof.
  intros V st r x EX. pose proof (reach_sinv c n ls V) as SI. fold st in SI. simpl.
  split; [|split; [|split]].
  - intros j qn g q ids H1 H2 H3. destruct (step_sb_sinv c st (N.to_nat r) (N.to_nat j) (N.to_nat qn) SI) as [_ H]. eapply H; eauto.
  - intros g q pc a b m nn s p ids H1 H2. destruct (step_r_sinv c st (N.to_nat r) SI) as [_ [H _]]. eapply H; eauto.
  - intros j ids g bodies H1 H2. destruct (step_fb_sinv c st (N.to_nat r) (N.to_nat j) ids SI) as [_ H]. eapply H; eauto.
  - intros g fl nb bodies H1 H2. destruct (step_r_sinv c st (N.to_nat r) SI) as [_ [_ H]]. eapply H; eauto.
Qed.

(* the invariant the a28a3f7 repair establishes, in every reachable state: a LID in the all-token's posting is in the
   posting of every token of its document *)
Lemma all_token_last c n ls g f lid d t :
  v_all_last (c_ver c) = true ->
  nth_error (fracs (exec c (init c n) ls)) g = Some f ->
  In lid (post f 0%N) -> ldoc f lid d -> memN t (d_toks d) = true -> In lid (post f t).
Proof.
  intros V H. pose proof (reach_sinv c n ls V) as SI. eapply fk_all. eapply si_f; eauto.
Qed.

Lemma getlids_atomic_complete x lid : In lid (posting x) ->
  In lid (tl_sorted (merge_tok x)) /\ In lid (tl_sorted (merge_tok (merge_tok x))).
Proof. unfold posting, merge_tok; simpl. intros H. rewrite app_nil_r. auto. Qed.
