(* C07 — the counting invariant between accepted index tasks and proxyFrac.indexWg:
   indexWg of a fraction = number of writers that are mid-bulk on it. All label lists. *)
From Coq Require Import List Bool Arith NArith Lia.
From C07 Require Import Model ProofsInv ProofsIdx.
Import ListNotations.

(* writer x is mid-bulk on fraction g: its Append was accepted by g and wg.Done has not run yet *)
Definition onb (g : nat) (x : wst) : bool := (Nat.leb 2 (w_pc x) && Nat.eqb (w_g x) g)%bool.
Definition cnt (g : nat) (l : list wst) : nat := length (filter (onb g) l).
Definition b2n (b : bool) : nat := if b then 1 else 0.

Definition CInv (st : state) : Prop :=
  forall g f, nth_error (fracs st) g = Some f -> f_wg f = cnt g (ws st).

Lemma cnt_upd g h : forall l w x, nth_error l w = Some x ->
  cnt g (upd w h l) + b2n (onb g x) = cnt g l + b2n (onb g (h x)).
Proof.
  unfold cnt. induction l; intros w x H; destruct w; simpl in *; try discriminate.
  - inversion H; subst. destruct (onb g x), (onb g (h x)); simpl; lia.
  - specialize (IHl w x H). destruct (onb g a); simpl; lia.
Qed.

Lemma cnt_zero g l : cnt g l = 0 -> forall x, In x l -> onb g x = false.
Proof.
  unfold cnt. intros H x HX. destruct (onb g x) eqn:E; auto.
  assert (In x (filter (onb g) l)) by (apply filter_In; auto).
  destruct (filter (onb g) l); simpl in *; [contradiction|discriminate].
Qed.

Lemma CInv_same st st' : keys st' = keys st -> ws st' = ws st -> CInv st -> CInv st'.
Proof.
  intros K W H g f E. rewrite W.
  assert (X : nth_error (keys st') g = Some (key_of f)) by (unfold keys; rewrite nth_error_map, E; auto).
  rewrite K in X. unfold keys in X. rewrite nth_error_map in X.
  destruct (nth_error (fracs st) g) as [f0|] eqn:E0; simpl in X; inversion X.
  rewrite <- (H g f0 E0). congruence.
Qed.

Lemma CInv_w st w g hf hw x :
  CInv st -> nth_error (ws st) w = Some x ->
  (forall g' f0, nth_error (fracs st) g' = Some f0 ->
     f_wg (if Nat.eqb g' g then hf f0 else f0) + b2n (onb g' x) = f_wg f0 + b2n (onb g' (hw x))) ->
  CInv (setw (setf st g hf) w hw).
Proof.
  intros H EX HC g' f E. simpl in *. rewrite nth_error_upd in E.
  pose proof (cnt_upd g' hw (ws st) w x EX) as CU.
  destruct (nth_error (fracs st) g') as [f0|] eqn:E0.
  2:{ destruct (Nat.eqb g' g); simpl in E; discriminate. }
  specialize (HC g' f0 E0). rewrite (H g' f0 E0) in HC.
  destruct (Nat.eqb g' g); simpl in E; inversion E; subst; lia.
Qed.

Lemma step_w_cinv c st w : IInv st -> CInv st -> CInv (fst (step_w c st w)).
Proof.
  intros II H. unfold step_w. destruct (nth_error (ws st) w) as [x|] eqn:EX; simpl; auto.
  assert (ID : forall hw, (forall g', onb g' (hw x) = onb g' x) -> CInv (setw st w hw)).
  { intros hw Hh g' f E. simpl in *. pose proof (cnt_upd g' hw (ws st) w x EX) as CU. rewrite Hh in CU.
    rewrite (H g' f E). lia. }
  destruct (w_pc x) as [|[|[|[|[|[|[|[|[|pc]]]]]]]]] eqn:PC; simpl.
  - destruct (Nat.ltb _ _); simpl; auto. apply ID. intros g'. unfold onb. rewrite PC. reflexivity.
  - destruct (_ && _ && _)%bool; simpl.
    + eapply CInv_w; eauto. intros g' f0 E. unfold onb. rewrite PC. simpl.
      destruct (Nat.eqb_spec g' (w_g x)).
      * subst. rewrite Nat.eqb_refl. simpl. lia.
      * rewrite (proj2 (Nat.eqb_neq (w_g x) g')) by auto. simpl. lia.
    + apply ID. intros g'. unfold onb. rewrite PC. reflexivity.
  - eapply CInv_w; eauto. intros g' f0 E. unfold onb. rewrite PC. simpl. destruct (Nat.eqb g' (w_g x)); simpl; lia.
  - destruct (set_multiple _ _ _ _); simpl. eapply CInv_w; eauto. intros g' f0 E. unfold onb. rewrite PC. simpl. destruct (Nat.eqb g' (w_g x)); simpl; lia.
  - eapply CInv_w; eauto. intros g' f0 E. unfold onb. rewrite PC. simpl. destruct (Nat.eqb g' (w_g x)); simpl; lia.
  - eapply CInv_w; eauto. intros g' f0 E. unfold onb. rewrite PC. simpl. destruct (Nat.eqb g' (w_g x)); simpl; lia.
  - destruct (put_order _ _); simpl; apply ID; intros g'; unfold onb; rewrite PC; reflexivity.
  - destruct (Nat.ltb _ _); simpl; eapply CInv_w; eauto; intros g' f0 E; unfold onb; rewrite PC; simpl;
      destruct (Nat.eqb g' (w_g x)); simpl; lia.
  - eapply CInv_w; eauto. intros g' f0 E. unfold onb. rewrite PC. simpl. destruct (Nat.eqb g' (w_g x)); simpl; lia.
  - eapply CInv_w; eauto. intros g' f0 E. unfold onb. rewrite PC. simpl.
    destruct (Nat.eqb_spec g' (w_g x)).
    + subst. rewrite Nat.eqb_refl. simpl.
      (* the writer itself is counted, so indexWg >= 1 *)
      pose proof (H (w_g x) f0 E) as HW. pose proof (cnt_upd (w_g x) (fun y => y) (ws st) w x EX) as CU.
      assert (POS : 1 <= cnt (w_g x) (ws st)).
      { unfold cnt. assert (IN : In x (filter (onb (w_g x)) (ws st))).
        { apply filter_In. split; [eapply nth_error_In; eauto|]. unfold onb. rewrite PC, Nat.eqb_refl. reflexivity. }
        destruct (filter (onb (w_g x)) (ws st)); simpl in *; [contradiction|lia]. }
      lia.
    + rewrite (proj2 (Nat.eqb_neq (w_g x) g')) by auto. simpl. lia.
Qed.

Lemma step_rot_cinv st : IInv st -> CInv st -> CInv (fst (step_rot st)).
Proof.
  intros II H. unfold step_rot. destruct (Nat.ltb _ _); simpl; auto.
  intros g f E. simpl in *.
  destruct (Nat.lt_ge_cases g (length (fracs st))) as [L|L].
  - rewrite nth_error_app1 in E by (rewrite length_upd; auto). rewrite nth_error_upd in E.
    destruct (nth_error (fracs st) g) as [f0|] eqn:E0; [|destruct (Nat.eqb g (last_g st)); discriminate].
    rewrite <- (H g f0 E0). destruct (Nat.eqb g (last_g st)); simpl in E; inversion E; subst; reflexivity.
  - rewrite nth_error_app2 in E by (rewrite length_upd; auto). rewrite length_upd in E.
    destruct (g - length (fracs st)) as [|k] eqn:EK; simpl in E; [|destruct k; discriminate].
    inversion E; subst. simpl. symmetry.
    (* no writer is on a fraction that does not exist yet *)
    unfold cnt. destruct (filter (onb g) (ws st)) as [|y l] eqn:FL; auto. exfalso.
    assert (IN : In y (filter (onb g) (ws st))) by (rewrite FL; left; auto).
    apply filter_In in IN as [IN ON]. unfold onb in ON. apply andb_prop in ON as [O1 O2].
    apply Nat.leb_le in O1. apply Nat.eqb_eq in O2.
    destruct II as [_ HW]. rewrite Forall_forall in HW. destruct (HW y IN) as [R _]. specialize (R ltac:(lia)). lia.
Qed.

Lemma step_cinv c st l : IInv st -> CInv st -> CInv (fst (step c st l)).
Proof.
  intros II H. destruct l; simpl.
  - apply step_w_cinv; auto.
  - destruct (step_snap_keys st (N.to_nat r)) as [A _]. eapply CInv_same; eauto.
    unfold step_snap. destruct (nth_error _ _) as [x|]; simpl; auto. destruct (r_op x); auto.
  - destruct (step_sb_keys c st (N.to_nat r) (N.to_nat j) (N.to_nat q)) as [A _]. eapply CInv_same; eauto.
    unfold step_sb. destruct (nth_error (rs st) _) as [x|]; simpl; auto.
    destruct (nth_error (c_qs c) _) as [[[qq qf] qt]|]; simpl; auto.
    destruct (r_op x); simpl; auto. destruct (nth_error (r_snap x) _); simpl; auto.
    repeat match goal with |- context [if ?b then _ else _] => destruct b; simpl; auto end.
  - destruct (step_fb_keys c st (N.to_nat r) (N.to_nat j) ids) as [A _]. eapply CInv_same; eauto.
    unfold step_fb. destruct (nth_error (rs st) _) as [x|]; simpl; auto.
    destruct (r_op x); simpl; auto. destruct (nth_error (r_snap x) _); simpl; auto. destruct ids; simpl; auto.
    repeat match goal with |- context [if ?b then _ else _] => destruct b; simpl; auto end.
  - destruct (step_r_keys c st (N.to_nat r)) as [A _]. eapply CInv_same; eauto.
    assert (AD : forall st0 r0 g q a b m n s p, ws (fst (advance st0 r0 g q a b m n s p)) = ws st0).
    { intros st0 r0 g q a b m n s p. revert s. induction p; intros s; simpl; auto. destruct (has_tok _ _); simpl; auto. }
    unfold step_r. destruct (nth_error (rs st) _) as [x|]; simpl; auto.
    destruct (r_op x) as [|g q pc a b m n s p|g fl nb]; simpl; auto.
    + destruct pc; simpl; auto.
      * destruct (forallb _ m); auto.
      * destruct p; simpl; auto. rewrite AD. reflexivity.
    + destruct (existsb _ _); auto.
  - apply step_rot_cinv; auto.
  - unfold step_m. destruct (nth_error (fracs st) (N.to_nat g)) as [f|] eqn:EF; simpl; auto.
    destruct (f_seal f); simpl; auto;
      repeat match goal with |- context [if ?b then _ else _] => destruct b; simpl; auto end;
      (intros g' f' E; simpl in *; rewrite nth_error_upd in E;
       destruct (nth_error (fracs st) g') as [f0|] eqn:E0; [|destruct (Nat.eqb g' (N.to_nat g)); discriminate];
       rewrite <- (H g' f0 E0); destruct (Nat.eqb g' (N.to_nat g)); simpl in E; inversion E; subst; reflexivity).
  - unfold step_sui. destruct (sui_enabled st); simpl; auto.
    intros g' f' E; simpl in *; rewrite nth_error_upd in E.
    destruct (nth_error (fracs st) g') as [f0|] eqn:E0; [|destruct (Nat.eqb g' (shift st)); discriminate].
    rewrite <- (H g' f0 E0). destruct (Nat.eqb g' (shift st)); simpl in E; inversion E; subst; auto.
    destruct (replaced (f_seal f0)); reflexivity.
Qed.

Lemma init_cinv c n : CInv (init c n).
Proof.
  intros g f E. simpl in *. destruct g as [|[|g]]; simpl in E; try discriminate. inversion E; subst. simpl.
  unfold cnt. induction (c_bulks c); simpl; auto.
Qed.

Lemma exec_cinv c ls : forall st, IInv st -> CInv st -> CInv (exec c st ls).
Proof. induction ls; simpl; intros; auto. apply IHls; [apply step_iinv | apply step_cinv]; auto. Qed.

(* indexWg = 0 means that no writer is mid-bulk on the fraction *)
Lemma wg_zero_no_writer c n ls g f :
  let st := exec c (init c n) ls in
  nth_error (fracs st) g = Some f -> f_wg f = 0 ->
  forall w x, nth_error (ws st) w = Some x -> 2 <= w_pc x -> w_g x <> g.
Proof.
  intros st E Z w x EX PC EG.
  pose proof (exec_cinv c ls _ (init_iinv c n) (init_cinv c n) g f E) as H. fold st in H. rewrite Z in H.
  pose proof (cnt_zero g (ws st) (eq_sym H) x (nth_error_In _ _ EX)) as O.
  unfold onb in O. apply Nat.leb_le in PC. rewrite PC in O. apply Nat.eqb_eq in EG. rewrite EG in O. discriminate.
Qed.
