(* C07 — what holds for a fetch of an ID that an EARLIER search returned: the document stays fetchable. *)
From Coq Require Import List Bool Arith NArith Lia.
From C07 Require Import Model ProofsInv ProofsIdx ProofsSafe ProofsCount.
Import ListNotations.

(* x is published in fraction f: it has a position in a registered block, its MID is inside the published range of
   a non-empty fraction (so Contains / IsIntersecting route a fetch to f), and one of its LIDs is in the all-posting *)
Definition published (f : frac) (x : id) : Prop :=
  (exists b i, lookup_pos x (f_pos f) = Some (b, i) /\ b < length (f_blocks f))
  /\ intersects f (fst x) (fst x) = true
  /\ exists lid, In lid (post f 0%N) /\ nth_error (f_ids f) lid = Some x.

Lemma intersects_mono f f' lo hi : range_le f f' -> intersects f lo hi = true -> intersects f' lo hi = true.
Proof.
  intros [R1 [R2 R3]] P3. unfold intersects in *.
  apply andb_prop in P3 as [T0 T1]. apply negb_true_iff in T0, T1. apply Nat.eqb_neq in T0.
  apply orb_false_elim in T1 as [T1 T2]. apply N.ltb_ge in T1, T2.
  apply andb_true_intro. split; apply negb_true_iff.
  - apply Nat.eqb_neq. lia.
  - apply orb_false_intro; apply N.ltb_ge; lia.
Qed.

Lemma published_mono f f' x : fext f f' -> published f x -> published f' x.
Proof.
  intros E [[b [i [P1 P2]]] [P3 [lid [P4 P5]]]]. split; [|split].
  - exists b, i. split; [apply (fx_pos _ _ E); auto|]. destruct (fx_blocks _ _ E) as [m EB]. rewrite EB, app_length. lia.
  - eapply intersects_mono; eauto. apply (fx_range _ _ E).
  - exists lid. split; [apply (fx_post _ _ E); auto|].
    destruct (fx_ldocs _ _ E) as [m EL]. unfold f_ids in *. rewrite EL, map_app. apply nth_error_app_pre. auto.
Qed.

Lemma exec_fext c ls : forall st g, fext (getf st g) (getf (exec c st ls) g).
Proof.
  induction ls; intros st g; simpl; [apply fext_refl|].
  eapply fext_trans; [apply step_fext | apply IHls].
Qed.

(* T2: once published, published in every later state, whatever the other threads do *)
Lemma published_stable c st ls g x : published (getf st g) x -> published (getf (exec c st ls) g) x.
Proof. apply published_mono. apply exec_fext. Qed.

(* ---------------------------------------------------------------- T1: a stepwise search publishes what it returns *)
Lemma in_range_bounds lo hi x : in_range lo hi x = true -> (lo <= fst x)%N /\ (fst x <= hi)%N.
Proof. unfold in_range. intros H. apply andb_prop in H as [A B]. apply N.leb_le in A, B. auto. Qed.

Lemma search_result_published c f q a b m n s :
  fok c f -> ((f_from f <= a)%N /\ (b <= f_to f)%N /\ 0 < f_total f) ->
  map_ok f m -> n <= length (f_ldocs f) -> (forall lid, In lid m -> lid < n) ->
  forall x, In x (search_result (firstn n (f_ids f)) q a b m s) -> published f x.
Proof.
  intros F [G1 [G2 G3]] M NL LN x Hx. destruct q as [[qq qf] qt]. simpl in *.
  apply sort_ids_In in Hx. apply in_map_iff in Hx as [lid [EX HL]].
  apply filter_In in HL as [HL EV]. apply filter_In in HL as [HL RG].
  destruct (M lid HL) as [NZ [P0 [d [D1 D2]]]].
  rewrite nth_firstn in EX, RG by (apply LN; auto). rewrite (nth_ids_ldoc f lid d D1) in EX, RG.
  destruct lid as [|k]; [congruence|]. destruct (fk_ldocs c f F k d D1) as [_ [[bb ii] LP]].
  destruct (fk_pos c f F _ _ _ LP) as [wb [d' [NB _]]].
  subst x. split; [|split].
  - exists bb, ii. split; auto. apply nth_error_Some. congruence.
  - apply in_range_bounds in RG as [A B]. unfold intersects.
    apply andb_true_intro. split; apply negb_true_iff.
    + apply Nat.eqb_neq. lia.
    + apply orb_false_intro; apply N.ltb_ge; lia.
  - exists (S k). split; auto. unfold f_ids. rewrite nth_error_map. unfold ldoc in D1. rewrite D1. reflexivity.
Qed.

Lemma advance_published c st r g q a b m n :
  fok c (getf st g) -> ((f_from (getf st g) <= a)%N /\ (b <= f_to (getf st g))%N /\ 0 < f_total (getf st g)) ->
  map_ok (getf st g) m -> n <= length (f_ldocs (getf st g)) -> (forall lid, In lid m -> lid < n) ->
  forall p s ids, snd (advance st r g q a b m n s p) = ORes ids -> forall x, In x ids -> published (getf st g) x.
Proof.
  intros F RG M NL LN. induction p; intros s ids H x Hx; simpl in *.
  - inversion H; subst. eapply search_result_published; eauto.
  - destruct (has_tok _ _); simpl in H; [discriminate|]. eapply IHp; eauto.
Qed.

Lemma step_r_published c st r x g q pc a b m n s p ids :
  SInv c st -> nth_error (rs st) r = Some x -> r_op x = RSearch g q pc a b m n s p ->
  snd (step_r c st r) = ORes ids ->
  forall y, In y ids -> published (getf (fst (step_r c st r)) g) y.
Proof.
  intros SI EX OP. pose proof (si_r c st SI r x EX) as RK. unfold rok in RK. rewrite OP in RK. simpl in RK.
  destruct RK as [R0 [R1 [R2 R3]]].
  assert (FK : fok c (getf st g)) by (apply getf_fok; auto).
  unfold step_r. rewrite EX, OP. destruct pc; simpl.
  - intros H; discriminate.
  - destruct (forallb _ m); simpl; intros H; discriminate.
  - intros H y Hy. destruct (R2 (or_introl eq_refl)) as [NL LN].
    eapply published_mono; [apply advance_fext|].
    eapply (advance_published c st r g q a b m n FK R0 (R1 ltac:(discriminate)) NL LN); eauto.
  - destruct p as [|t rest]; simpl; [intros H; discriminate|]. intros H y Hy.
    destruct (R2 (or_intror eq_refl)) as [NL LN]. pose proof (R1 ltac:(discriminate)) as M.
    set (st1 := setf st g (fun f => set_toks f (upd_tok t merge_tok (f_toks f)))) in *.
    assert (E1 : fext (getf st g) (getf st1 g)) by (apply getf_fext; intros; fx).
    assert (S1 : SInv c st1).
    { apply SInv_setf; auto; [intros; fx|]. intros f0 H0. eapply (fok_merge c f0 _ t); try reflexivity. eapply si_f; eauto. }
    assert (L1 : f_ldocs (getf st1 g) = f_ldocs (getf st g)).
    { unfold st1. rewrite getf_setf. destruct (_ && _)%bool; auto. }
    eapply published_mono; [apply advance_fext|].
    eapply (advance_published c st1 r g q a b m n); eauto.
    + apply getf_fok; auto.
    + destruct R0 as [X1 [X2 X3]]. destruct (fx_range _ _ E1) as [Y1 [Y2 Y3]]. repeat split; try lia; eapply N.le_trans; eauto.
    + eapply map_ok_mono; eauto.
    + rewrite L1; auto.
Qed.

(* ---------------------------------------------------------------- the sealed fraction holds every published document *)
(* once frac.Seal has read the index, every LID of the all-posting has its document in the sealed fraction *)
Definition sealed_covers (f : frac) : Prop :=
  (f_sld f = true \/ f_seal f = SBuilt) ->
  forall lid x, In lid (post f 0%N) -> nth_error (f_ids f) lid = Some x -> exists sd, In sd (f_sdocs f) /\ d_id sd = x.

Definition BInv (st : state) : Prop := forall g f, nth_error (fracs st) g = Some f -> sealed_covers f.

Lemma sealed_covers_same f f' :
  f_sld f' = f_sld f -> f_seal f' = f_seal f -> f_sdocs f' = f_sdocs f -> f_ldocs f' = f_ldocs f ->
  (forall lid, In lid (post f' 0%N) -> In lid (post f 0%N)) -> sealed_covers f -> sealed_covers f'.
Proof.
  intros A B C D E H P lid x HL HX. rewrite A, B in P. rewrite C. unfold f_ids in *. rewrite D in HX.
  apply (H P lid x); auto.
Qed.

Lemma BInv_setf st g h :
  BInv st -> (forall f0, nth_error (fracs st) g = Some f0 -> sealed_covers (h f0)) -> BInv (setf st g h).
Proof.
  intros H Hh g' f E. unfold setf in E; simpl in E. rewrite nth_error_upd in E.
  destruct (Nat.eqb_spec g' g).
  - subst. destruct (nth_error (fracs st) g) eqn:E0; simpl in E; inversion E; subst. auto.
  - eapply H; eauto.
Qed.

(* a fraction whose seal thread is past WaitWriteIdle cannot be the fraction of a writer that is mid-bulk *)
Lemma covered_no_writer st g f :
  Inv st -> CInv st -> nth_error (fracs st) g = Some f -> (f_sld f = true \/ f_seal f = SBuilt) ->
  forall w x, nth_error (ws st) w = Some x -> 2 <= w_pc x -> w_g x <> g.
Proof.
  intros I C E P w x EX PC EG.
  assert (PF := I g (key_of f)). unfold keys in PF. rewrite nth_error_map, E in PF. specialize (PF eq_refl).
  destruct PF as [T [_ [WZ _]]]. simpl in *.
  assert (IP : idle_passed (f_seal f) = true).
  { destruct P as [P|P]; [|rewrite P; reflexivity]. unfold table_ok in T; simpl in T. rewrite P in T.
    destruct (f_seal f), (f_act f), (f_ro f); simpl in *; try discriminate; auto. }
  specialize (WZ IP). pose proof (C g f E) as CC. rewrite WZ in CC.
  pose proof (cnt_zero g (ws st) (eq_sym CC) x (nth_error_In _ _ EX)) as O.
  unfold onb in O. apply Nat.leb_le in PC. rewrite PC in O. apply Nat.eqb_eq in EG. rewrite EG in O. discriminate.
Qed.

Lemma sealed_covers_weaken f f' :
  (f_sld f' = true \/ f_seal f' = SBuilt -> f_sld f = true \/ f_seal f = SBuilt) ->
  f_sdocs f' = f_sdocs f -> f_ldocs f' = f_ldocs f ->
  (forall lid, In lid (post f' 0%N) -> In lid (post f 0%N)) -> sealed_covers f -> sealed_covers f'.
Proof.
  intros A C D E H P lid x HL HX. rewrite C. unfold f_ids in *. rewrite D in HX. apply (H (A P) lid x); auto.
Qed.

Lemma post_merge_sub f t lid :
  In lid (post (set_toks f (upd_tok t merge_tok (f_toks f))) 0%N) -> In lid (post f 0%N).
Proof.
  unfold post; simpl. destruct (N.eq_dec 0%N t) as [E|E].
  - subst t. destruct (has_tok 0%N (f_toks f)) eqn:HT.
    + rewrite get_tok_upd_same; auto. apply merge_posting_inv.
    + rewrite !get_tok_none; auto. rewrite has_tok_upd; auto.
  - rewrite get_tok_upd_other; auto.
Qed.

Lemma advance_binv st r g q a b m n s p : BInv st -> BInv (fst (advance st r g q a b m n s p)).
Proof.
  revert s; induction p; intros s H; simpl.
  - unfold set_op, setr.
    assert (X : BInv (setf st g (fun f => set_rl f (pred (f_rl f))))).
    { apply BInv_setf; auto. intros f0 E0. eapply (sealed_covers_same f0); try reflexivity; auto. eapply H; eauto. }
    exact X.
  - destruct (has_tok _ _); simpl; auto.
Qed.

Lemma step_binv c st l : Inv st -> CInv st -> BInv st -> BInv (fst (step c st l)).
Proof.
  intros I C H. destruct l; simpl.
  - (* writer *)
    unfold step_w. destruct (nth_error (ws st) (N.to_nat w)) as [x|] eqn:EX; simpl; auto.
    assert (MID : 2 <= w_pc x -> forall hf hw, BInv (setw (setf st (w_g x) hf) (N.to_nat w) hw)
                  \/ True) by auto.
    assert (K : 2 <= w_pc x -> forall hf,
                (forall f0, f_sld (hf f0) = f_sld f0 /\ f_seal (hf f0) = f_seal f0) -> BInv (setf st (w_g x) hf)).
    { intros PC hf HS. apply BInv_setf; auto. intros f0 E0 P. exfalso.
      destruct (HS f0) as [A B]. rewrite A, B in P.
      exact (covered_no_writer st (w_g x) f0 I C E0 P (N.to_nat w) x EX PC eq_refl). }
    destruct (w_pc x) as [|[|[|[|[|[|[|[|[|pc]]]]]]]]] eqn:PC; simpl.
    + destruct (Nat.ltb _ _); simpl; auto.
    + destruct (_ && _ && _)%bool; simpl; auto.
      match goal with |- BInv (setw (setf ?s ?gg ?h) _ _) => change (BInv (setf s gg h)) end.
      apply BInv_setf; auto. intros f0 E0. eapply (sealed_covers_same f0); try reflexivity; auto. eapply H; eauto.
    + match goal with |- BInv (setw (setf ?s ?gg ?h) _ _) => change (BInv (setf s gg h)) end. apply K; [lia|]. intros; split; reflexivity.
    + destruct (set_multiple _ _ _ _); simpl.
      match goal with |- BInv (setw (setf ?s ?gg ?h) _ _) => change (BInv (setf s gg h)) end. apply K; [lia|]. intros; split; reflexivity.
    + match goal with |- BInv (setw (setf ?s ?gg ?h) _ _) => change (BInv (setf s gg h)) end. apply K; [lia|]. intros; split; reflexivity.
    + match goal with |- BInv (setw (setf ?s ?gg ?h) _ _) => change (BInv (setf s gg h)) end. apply K; [lia|]. intros; split; reflexivity.
    + destruct (put_order _ _); simpl; auto.
    + destruct (Nat.ltb _ _); simpl;
        match goal with |- BInv (setw (setf ?s ?gg ?h) _ _) => change (BInv (setf s gg h)) end; (apply K; [lia|]); intros; split; reflexivity.
    + match goal with |- BInv (setw (setf ?s ?gg ?h) _ _) => change (BInv (setf s gg h)) end. apply K; [lia|]. intros; split; reflexivity.
    + match goal with |- BInv (setw (setf ?s ?gg ?h) _ _) => change (BInv (setf s gg h)) end. apply K; [lia|]. intros; split; reflexivity.
  - unfold step_snap. destruct (nth_error _ _) as [x|]; simpl; auto. destruct (r_op x); auto.
  - unfold step_sb. destruct (nth_error (rs st) _) as [x|]; simpl; auto.
    destruct (nth_error (c_qs c) _) as [[[qq qf] qt]|]; simpl; auto.
    destruct (r_op x); simpl; auto. destruct (nth_error (r_snap x) _) as [g0|]; simpl; auto.
    repeat match goal with |- context [if ?b then _ else _] => destruct b; simpl; auto end.
    match goal with |- BInv (set_op (setf ?s ?gg ?h) _ _) => change (BInv (setf s gg h)) end.
    apply BInv_setf; auto. intros f0 E0. eapply (sealed_covers_same f0); try reflexivity; auto. eapply H; eauto.
  - unfold step_fb. destruct (nth_error (rs st) _) as [x|]; simpl; auto.
    destruct (r_op x); simpl; auto. destruct (nth_error (r_snap x) _) as [g0|]; simpl; auto. destruct ids; simpl; auto.
    repeat match goal with |- context [if ?b then _ else _] => destruct b; simpl; auto end.
    match goal with |- BInv (set_op (setf ?s ?gg ?h) _ _) => change (BInv (setf s gg h)) end.
    apply BInv_setf; auto. intros f0 E0. eapply (sealed_covers_same f0); try reflexivity; auto. eapply H; eauto.
  - unfold step_r. destruct (nth_error (rs st) _) as [x|]; simpl; auto.
    assert (MG : forall g0 t, BInv (setf st g0 (fun f => set_toks f (upd_tok t merge_tok (f_toks f))))).
    { intros g0 t. apply BInv_setf; auto. intros f0 E0. eapply (sealed_covers_same f0); try reflexivity; [apply post_merge_sub|]. eapply H; eauto. }
    assert (RL : forall g0 k, BInv (setf st g0 (fun f => set_rl f (k f)))).
    { intros g0 k. apply BInv_setf; auto. intros f0 E0. eapply (sealed_covers_same f0); try reflexivity; auto. eapply H; eauto. }
    destruct (r_op x) as [|g0 q pc a b m n s p|g0 fl nb]; simpl; auto.
    + destruct pc; simpl.
      * exact (MG g0 0%N).
      * destruct (forallb _ m); simpl; auto. exact (RL g0 (fun f => pred (f_rl f))).
      * apply advance_binv; auto.
      * destruct p as [|t p]; simpl; auto. apply advance_binv. exact (MG g0 t).
    + destruct (existsb _ _); simpl; exact (RL g0 (fun f => pred (f_rl f))).
  - (* rotate *)
    unfold step_rot. destruct (Nat.ltb _ _); simpl; auto.
    intros g f E. simpl in E. destruct (Nat.lt_ge_cases g (length (fracs st))) as [L|L].
    + rewrite nth_error_app1 in E by (rewrite length_upd; auto).
      assert (X : BInv (setf st (last_g st) (fun f => set_seal f (f_act f) (f_sld f) (f_ro f) SRot (f_sdocs f)))).
      { apply BInv_setf; auto. intros f0 E0. eapply (sealed_covers_weaken f0); try reflexivity; auto; [|eapply H; eauto].
        simpl. intros [P|P]; [auto|discriminate]. }
      exact (X g f E).
    + rewrite nth_error_app2 in E by (rewrite length_upd; auto). rewrite length_upd in E.
      destruct (g - length (fracs st)) as [|k]; simpl in E; [|destruct k; discriminate].
      inversion E; subst. intros [P|P]; discriminate.
  - (* seal thread *)
    unfold step_m. destruct (nth_error (fracs st) (N.to_nat g)) as [f|] eqn:EF; simpl; auto.
    assert (PF := I (N.to_nat g) (key_of f)). unfold keys in PF. rewrite nth_error_map, EF in PF. specialize (PF eq_refl).
    destruct PF as [T _]. unfold table_ok in T; simpl in T.
    assert (HF : sealed_covers f) by (eapply H; eauto).
    destruct (f_seal f) eqn:ES; simpl; auto;
      repeat match goal with |- context [if ?b then _ else _] => destruct b eqn:?; simpl; auto end;
      apply BInv_setf; auto; intros f0 E0; rewrite EF in E0; inversion E0; subst f0.
    + intros [P|P]; simpl in *; [|discriminate]. destruct (f_act f), (f_sld f); simpl in *; discriminate.
    + intros [P|P]; simpl in *; [|discriminate]. destruct (f_act f), (f_sld f), (f_ro f); simpl in *; discriminate.
    + intros [P|P]; simpl in *; [|discriminate]. destruct (f_act f), (f_sld f), (f_ro f); simpl in *; discriminate.
    + (* frac.Seal reads the index *)
      intros _ lid x HL HX. simpl in *. unfold build_sealed.
      eexists. split; [apply in_map; exact HL|]. simpl. apply nth_error_nth. exact HX.
    + eapply (sealed_covers_weaken f); try reflexivity; auto; simpl; intros _; right; exact ES.
    + eapply (sealed_covers_weaken f); try reflexivity; auto; simpl; intros [P|P]; [auto|discriminate].
    + eapply (sealed_covers_weaken f); try reflexivity; auto; simpl; intros [P|P]; [auto|discriminate].
    + eapply (sealed_covers_weaken f); try reflexivity; auto; simpl; intros [P|P]; [auto|discriminate].
  - (* retention *)
    unfold step_sui. destruct (sui_enabled st) eqn:EN; simpl; auto.
    match goal with |- BInv {| fracs := upd ?gg ?h _ |} => change (BInv (setf st gg h)) end.
    apply BInv_setf; auto. intros f0 E0.
    unfold sui_enabled in EN. apply andb_prop in EN as [_ EN]. rewrite (nth_error_getf _ _ _ E0) in EN.
    destruct (replaced (f_seal f0)).
    + eapply (sealed_covers_weaken f0); try reflexivity; auto. eapply H; eauto.
    + intros [P|P]; simpl in *; [discriminate|]. rewrite P in EN. discriminate.
Qed.

Lemma init_binv c n : BInv (init c n).
Proof.
  intros g f E. simpl in E. destruct g as [|[|g]]; simpl in E; try discriminate. inversion E; subst.
  intros [P|P]; discriminate.
Qed.

Lemma exec_binv c ls : forall st, Inv st -> IInv st -> CInv st -> BInv st -> BInv (exec c st ls).
Proof.
  induction ls; simpl; intros; auto.
  apply IHls; [apply step_inv | apply step_iinv | apply step_cinv | apply step_binv]; auto.
Qed.

Lemma reach_binv c n ls : BInv (exec c (init c n) ls).
Proof. apply exec_binv; [apply init_inv | apply init_iinv | apply init_cinv | apply init_binv]. Qed.

(* ---------------------------------------------------------------- T1 + T2 together *)
Lemma search_then_published c n ls r x g q pc a b m nn s p ids ls2 y :
  v_all_last (c_ver c) = true ->
  let st := exec c (init c n) ls in
  nth_error (rs st) (N.to_nat r) = Some x -> r_op x = RSearch g q pc a b m nn s p ->
  snd (step c st (LR r)) = ORes ids -> In y ids ->
  published (getf (exec c (fst (step c st (LR r))) ls2) g) y.
Proof.
  intros V st EX OP RES HY. apply published_stable. simpl in *.
  eapply step_r_published; eauto. apply reach_sinv; auto.
Qed.

(* ---------------------------------------------------------------- T3: fetch answered by the sealed fraction *)
Lemma find_some_ex {A} (p : A -> bool) l x : In x l -> p x = true -> exists y, find p l = Some y.
Proof.
  induction l; simpl; intros H P; [contradiction|]. destruct (p a) eqn:E; eauto.
  destruct H as [H|H]; [subst; congruence|]. auto.
Qed.

Lemma sealed_fetch_published c n ls g f y :
  nth_error (fracs (exec c (init c n) ls)) g = Some f -> f_sld f = true -> published f y ->
  exists body, sealed_fetch f y = Some body.
Proof.
  intros E SL [_ [_ [lid [P1 P2]]]]. destruct (reach_binv c n ls g f E (or_introl SL) lid y P1 P2) as [sd [IN ID]].
  unfold sealed_fetch. destruct (find_some_ex (fun d => id_eqb (d_id d) y) (f_sdocs f) sd IN) as [sd' FD].
  { rewrite ID. apply id_eqb_refl. }
  rewrite FD. eauto.
Qed.

Lemma fold_min_le (ids : list id) y : In y ids -> (fold_right (fun x m => N.min (fst x) m) max_mid ids <= fst y)%N.
Proof.
  induction ids; simpl; intros H; [contradiction|]. destruct H as [H|H].
  - subst. apply N.le_min_l.
  - eapply N.le_trans; [apply N.le_min_r | auto].
Qed.

Lemma fold_max_ge (ids : list id) y : In y ids -> (fst y <= fold_right (fun x m => N.max (fst x) m) 0%N ids)%N.
Proof.
  induction ids; simpl; intros H; [contradiction|]. destruct H as [H|H].
  - subst. apply N.le_max_l.
  - eapply N.le_trans; [auto | apply N.le_max_r].
Qed.

Lemma intersects_widen f lo hi m : (lo <= m)%N -> (m <= hi)%N -> intersects f m m = true -> intersects f lo hi = true.
Proof.
  intros A B H. unfold intersects in *. apply andb_prop in H as [T0 T1]. rewrite T0. simpl.
  apply negb_true_iff in T1. apply orb_false_elim in T1 as [T1 T2]. apply N.ltb_ge in T1, T2.
  apply negb_true_iff. apply orb_false_intro; apply N.ltb_ge; lia.
Qed.

(* the fetch of a published ID through a list entry whose fraction is served by the sealed provider: found *)
Lemma fb_sealed c n ls r j ids x g y k :
  let st := exec c (init c n) ls in
  nth_error (rs st) r = Some x -> r_op x = RIdle -> nth_error (r_snap x) j = Some g ->
  g < length (fracs st) ->
  f_act (getf st g) = false -> f_sld (getf st g) = true -> f_ssui (getf st g) = false ->
  published (getf st g) y -> nth_error ids k = Some y ->
  exists bodies body, snd (step_fb c st r j ids) = OFetch bodies /\ nth_error bodies k = Some (Some body).
Proof.
  intros st EX OP EG LG FA FS FU PUB NK.
  assert (INY : In y ids) by (eapply nth_error_In; eauto).
  destruct PUB as [P1 [P2 P3]].
  assert (EF : nth_error (fracs st) g = Some (getf st g)).
  { unfold getf. apply nth_error_nth'. auto. }
  destruct (sealed_fetch_published c n ls g (getf st g) y EF FS (conj P1 (conj P2 P3))) as [body SB].
  unfold step_fb. fold st. rewrite EX, OP, EG. destruct ids as [|i0 ids'] eqn:EI; [destruct k; discriminate|].
  rewrite <- EI in *. clear EI i0 ids'.
  unfold frac_info_ok. rewrite FA, FS, FU. simpl.
  rewrite (intersects_widen _ _ _ (fst y) (fold_min_le ids y INY) (fold_max_ge ids y INY) P2). simpl.
  assert (EXB : existsb snd (map (fun x0 : id => (x0, intersects (getf st g) (fst x0) (fst x0))) ids) = true).
  { apply existsb_exists. exists (y, true). split; auto. apply in_map_iff. exists y. rewrite P2. auto. }
  rewrite EXB. simpl. eexists. exists body. split; [reflexivity|].
  rewrite map_map. rewrite nth_error_map, NK. simpl. rewrite P2. rewrite SB. reflexivity.
Qed.

(* ---------------------------------------------------------------- T4: fetch answered by the active fraction *)
Lemma fb_active c st r j ids x g y :
  nth_error (rs st) r = Some x -> r_op x = RIdle -> nth_error (r_snap x) j = Some g ->
  g < length (fracs st) -> f_act (getf st g) = true ->
  published (getf st g) y -> In y ids ->
  snd (step_fb c st r j ids) = OHook 24 /\
  exists x', nth_error (rs (fst (step_fb c st r j ids))) r = Some x' /\
    r_op x' = RFetch g (map (fun x0 : id => (x0, intersects (getf st g) (fst x0) (fst x0))) ids) (length (f_blocks (getf st g)))
    /\ intersects (getf st g) (fst y) (fst y) = true.
Proof.
  intros EX OP EG LG FA [P1 [P2 P3]] INY.
  unfold step_fb. rewrite EX, OP, EG. destruct ids as [|i0 ids'] eqn:EI; [contradiction|].
  rewrite <- EI in *. clear EI i0 ids'.
  unfold frac_info_ok. rewrite FA. simpl.
  rewrite (intersects_widen _ _ _ (fst y) (fold_min_le ids y INY) (fold_max_ge ids y INY) P2). simpl.
  assert (EXB : existsb snd (map (fun x0 : id => (x0, intersects (getf st g) (fst x0) (fst x0))) ids) = true).
  { apply existsb_exists. exists (y, true). split; auto. apply in_map_iff. exists y. rewrite P2. auto. }
  rewrite EXB. simpl. split; auto.
  eexists. split.
  { unfold set_op, setr; simpl. rewrite nth_error_upd, Nat.eqb_refl, EX. reflexivity. }
  split; [reflexivity|exact P2].
Qed.

Lemma fetch_finish c st r x g fl nb k y b i :
  v_fetch_guard (c_ver c) = true ->
  nth_error (rs st) r = Some x -> r_op x = RFetch g fl nb ->
  nth_error fl k = Some (y, true) -> lookup_pos y (f_pos (getf st g)) = Some (b, i) -> b < nb ->
  exists bodies body, snd (step_r c st r) = OFetch bodies /\ nth_error bodies k = Some (Some body).
Proof.
  intros V EX OP NK LP LT. unfold step_r. rewrite EX, OP.
  assert (NOERR : existsb (fun x0 : option N + unit => match x0 with inr _ => true | inl _ => false end)
                          (map (fetch_one c (getf st g) nb) fl) = false).
  { apply not_true_is_false. intros H. apply existsb_exists in H as [z [HZ EZ]]. apply in_map_iff in HZ as [xb [EQ _]].
    subst z. unfold fetch_one in EZ. rewrite V in EZ.
    destruct (snd xb); [|discriminate]. destruct (lookup_pos (fst xb) (f_pos (getf st g))) as [[b0 i0]|]; [|discriminate].
    destruct (Nat.ltb b0 nb); discriminate. }
  rewrite NOERR. simpl. eexists. eexists. split; [reflexivity|].
  rewrite map_map, nth_error_map, NK. simpl. unfold fetch_one. simpl. rewrite LP.
  apply Nat.ltb_lt in LT. rewrite LT. reflexivity.
Qed.

(* begin + finish on the active provider, with any steps of any threads in between *)
Lemma fetch_active_chain c st r j ids x g y k ls3 :
  v_fetch_guard (c_ver c) = true ->
  nth_error (rs st) (N.to_nat r) = Some x -> r_op x = RIdle -> nth_error (r_snap x) (N.to_nat j) = Some g ->
  g < length (fracs st) -> f_act (getf st g) = true ->
  published (getf st g) y -> nth_error ids k = Some y ->
  let st' := fst (step c st (LFB r j ids)) in
  snd (step c st (LFB r j ids)) = OHook 24 /\
  forall st3, st3 = exec c st' ls3 -> nth_error (rs st3) (N.to_nat r) = nth_error (rs st') (N.to_nat r) ->
    exists bodies body, snd (step c st3 (LR r)) = OFetch bodies /\ nth_error bodies k = Some (Some body).
Proof.
  intros V EX OP EG LG FA PUB NK st'. simpl in *.
  assert (INY : In y ids) by (eapply nth_error_In; eauto).
  destruct (fb_active c st (N.to_nat r) (N.to_nat j) ids x g y EX OP EG LG FA PUB INY) as [OB [x' [EX' [OP' FL]]]].
  split; auto. intros st3 E3 SAME. subst st3.
  destruct PUB as [[b [i [LP LB]]] _].
  assert (LP3 : lookup_pos y (f_pos (getf (exec c st' ls3) g)) = Some (b, i)).
  { apply (fx_pos _ _ (fext_trans _ _ _ (step_fext c st (LFB r j ids) g) (exec_fext c ls3 st' g))). exact LP. }
  change (nth_error (rs st') (N.to_nat r)) with (nth_error (rs (fst (step_fb c st (N.to_nat r) (N.to_nat j) ids))) (N.to_nat r)) in SAME.
  rewrite EX' in SAME.
  eapply (fetch_finish c _ (N.to_nat r) x' g _ _ k y b i V); eauto.
  rewrite nth_error_map, NK. simpl. rewrite FL. reflexivity.
Qed.
