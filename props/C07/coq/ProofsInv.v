(* C07 — the hand-over automaton of proxyFrac: invariants over ALL label lists. *)
From Coq Require Import List Bool Arith NArith Lia.
From C07 Require Import Model.
Import ListNotations.

(* ---------------------------------------------------------------- list helpers *)
Lemma length_upd {A} (h : A -> A) n l : length (upd n h l) = length l.
Proof. revert n; induction l; destruct n; simpl; auto. Qed.

Lemma nth_error_upd {A} (h : A -> A) l n g :
  nth_error (upd n h l) g = if Nat.eqb g n then option_map h (nth_error l g) else nth_error l g.
Proof.
  revert n g; induction l; intros n g; simpl.
  - destruct g, n; simpl; try reflexivity; destruct (Nat.eqb g n); reflexivity.
  - destruct n, g; simpl; auto.
Qed.

Lemma map_upd_same {A B} (k : A -> B) (h : A -> A) n l :
  (forall x, k (h x) = k x) -> map k (upd n h l) = map k l.
Proof. intros H; revert n; induction l; destruct n; simpl; auto; rewrite ?H, ?IHl; auto. Qed.

Lemma nth_error_getf st g f : nth_error (fracs st) g = Some f -> getf st g = f.
Proof. intros H; unfold getf; apply nth_error_nth; auto. Qed.

(* ---------------------------------------------------------------- the part of a fraction the automaton is about *)
Record key := mkKey { k_act : bool; k_sld : bool; k_ro : bool; k_seal : spc; k_wg : nat }.
Definition key_of (f : frac) : key := mkKey (f_act f) (f_sld f) (f_ro f) (f_seal f) (f_wg f).
Definition keys (st : state) : list key := map key_of (fracs st).

(* the state table of proxy_frac.go, phase by phase of the seal thread *)
Definition table_ok (k : key) : bool :=
  match k_seal k with
  | SNone | SRot => (k_act k && negb (k_sld k) && negb (k_ro k)) || (negb (k_act k) && negb (k_sld k))
  | SRo | SIdle | SBuilt => k_act k && negb (k_sld k) && k_ro k
  | _ => (negb (k_act k) && k_sld k && k_ro k) || (negb (k_act k) && negb (k_sld k))
  end.
(* the seal thread has passed WaitWriteIdle *)
Definition idle_passed (p : spc) : bool :=
  match p with SIdle | SBuilt | SSwapped | SReleased | SRepl | SDone => true | _ => false end.

Definition pf (sh len g : nat) (k : key) : Prop :=
  table_ok k = true
  /\ (k_act k = false -> k_sld k = false -> g < sh /\ k_wg k = 0)
  /\ (idle_passed (k_seal k) = true -> k_wg k = 0)
  /\ (g = pred len -> k_seal k = SNone).       (* the current writer has no seal thread *)

Definition Inv (st : state) : Prop :=
  forall g k, nth_error (keys st) g = Some k -> pf (shift st) (length (keys st)) g k.

Lemma keys_setw st w h : keys (setw st w h) = keys st. Proof. reflexivity. Qed.
Lemma keys_setr st r h : keys (setr st r h) = keys st. Proof. reflexivity. Qed.
Lemma keys_setf_same st g h : (forall x, key_of (h x) = key_of x) -> keys (setf st g h) = keys st.
Proof. intros; unfold keys, setf; simpl; apply map_upd_same; auto. Qed.

Lemma keys_setf st g h n :
  nth_error (keys (setf st g h)) n =
  if Nat.eqb n g then option_map (fun f => key_of (h f)) (nth_error (fracs st) n) else nth_error (keys st) n.
Proof.
  unfold keys, setf; simpl. rewrite !nth_error_map, nth_error_upd.
  destruct (Nat.eqb n g); auto. destruct (nth_error (fracs st) n); auto.
Qed.

Lemma Inv_same st st' : keys st' = keys st -> shift st' = shift st -> Inv st -> Inv st'.
Proof. unfold Inv; intros -> ->; auto. Qed.

(* a step that rewrites fraction g's key by a function of the old key *)
Lemma Inv_setf st g h :
  Inv st ->
  (forall f, nth_error (fracs st) g = Some f -> pf (shift st) (length (keys st)) g (key_of f) ->
             pf (shift st) (length (keys st)) g (key_of (h f))) ->
  Inv (setf st g h).
Proof.
  intros HI Hh n k Hn.
  assert (L : length (keys (setf st g h)) = length (keys st)) by (unfold keys, setf; simpl; rewrite !map_length, length_upd; auto).
  rewrite L. rewrite keys_setf in Hn. destruct (Nat.eqb_spec n g).
  - subst n. destruct (nth_error (fracs st) g) eqn:E; simpl in Hn; inversion Hn; subst.
    apply Hh; auto. apply HI. unfold keys; rewrite nth_error_map, E; auto.
  - apply HI; auto.
Qed.

(* ---------------------------------------------------------------- reader steps do not touch the automaton *)
Lemma key_set_rl f n : key_of (set_rl f n) = key_of f. Proof. reflexivity. Qed.
Lemma key_set_toks f t : key_of (set_toks f t) = key_of f. Proof. reflexivity. Qed.

Lemma advance_keys st r g q a b m n s p :
  keys (fst (advance st r g q a b m n s p)) = keys st /\ shift (fst (advance st r g q a b m n s p)) = shift st.
Proof.
  revert s; induction p; intros s; simpl.
  - split; auto. unfold set_op. rewrite keys_setr. apply keys_setf_same; intros; apply key_set_rl.
  - destruct (has_tok a0 (f_toks (getf st g))); simpl; auto.
Qed.

Lemma step_r_keys c st r : keys (fst (step_r c st r)) = keys st /\ shift (fst (step_r c st r)) = shift st.
Proof.
  unfold step_r. destruct (nth_error (rs st) r) as [x|]; simpl; auto.
  destruct (r_op x) as [|g q pc a b m n s p|g ids nb]; simpl; auto.
  - destruct pc; simpl.
    + split; auto. unfold set_op; rewrite keys_setr. apply keys_setf_same; intros; apply key_set_toks.
    + destruct (forallb _ m); simpl; auto. split; auto. unfold set_op; rewrite keys_setr.
      apply keys_setf_same; intros; apply key_set_rl.
    + apply advance_keys.
    + destruct p as [|t p]; simpl; auto.
      match goal with
      | |- context [advance ?st' r g q a b m n ?s' p] =>
          let H1 := fresh in let H2 := fresh in
          pose proof (advance_keys st' r g q a b m n s' p) as [H1 H2]; rewrite H1, H2; split; auto;
          apply keys_setf_same; intros; apply key_set_toks
      end.
  - destruct (existsb _ _); simpl; split; auto; unfold set_op; rewrite keys_setr;
      apply keys_setf_same; intros; apply key_set_rl.
Qed.

Lemma step_sb_keys c st r j q : keys (fst (step_sb c st r j q)) = keys st /\ shift (fst (step_sb c st r j q)) = shift st.
Proof.
  unfold step_sb. destruct (nth_error (rs st) r) as [x|]; simpl; auto.
  destruct (nth_error (c_qs c) q) as [[[qq qf] qt]|]; simpl; auto.
  destruct (r_op x); simpl; auto. destruct (nth_error (r_snap x) j) as [g|]; simpl; auto.
  repeat match goal with |- context [if ?b then _ else _] => destruct b; simpl; auto end.
  split; auto. unfold set_op; rewrite keys_setr. apply keys_setf_same; intros; apply key_set_rl.
Qed.

Lemma step_fb_keys c st r j ids : keys (fst (step_fb c st r j ids)) = keys st /\ shift (fst (step_fb c st r j ids)) = shift st.
Proof.
  unfold step_fb. destruct (nth_error (rs st) r) as [x|]; simpl; auto.
  destruct (r_op x); simpl; auto. destruct (nth_error (r_snap x) j) as [g|]; simpl; auto.
  destruct ids; simpl; auto.
  repeat match goal with |- context [if ?b then _ else _] => destruct b; simpl; auto end.
  split; auto. unfold set_op; rewrite keys_setr. apply keys_setf_same; intros; apply key_set_rl.
Qed.

Lemma step_snap_keys st r : keys (fst (step_snap st r)) = keys st /\ shift (fst (step_snap st r)) = shift st.
Proof.
  unfold step_snap. destruct (nth_error (rs st) r) as [x|]; simpl; auto. destruct (r_op x); simpl; auto.
Qed.

(* ---------------------------------------------------------------- writer steps *)
Lemma Inv_setw st w h : Inv st -> Inv (setw st w h).
Proof. apply Inv_same; reflexivity. Qed.
Lemma Inv_setf_same st g h : (forall x, key_of (h x) = key_of x) -> Inv st -> Inv (setf st g h).
Proof. intros H; apply Inv_same; [apply keys_setf_same; auto | reflexivity]. Qed.

Ltac same_key := simpl; first [assumption | apply Inv_setw; first [assumption | apply Inv_setf_same; [intros; reflexivity | assumption]]].

Lemma step_w_inv c st w : Inv st -> Inv (fst (step_w c st w)).
Proof.
  intros HI. unfold step_w. destruct (nth_error (ws st) w) as [x|]; simpl; auto.
  destruct (w_pc x) as [|[|[|[|[|[|[|[|[|pc]]]]]]]]]; simpl.
  - destruct (Nat.ltb _ _); same_key.
  - destruct (f_act (getf st (w_g x)) && negb (f_sld (getf st (w_g x))) && negb (f_ro (getf st (w_g x))))%bool eqn:G; [|same_key].
    simpl. apply Inv_setw. apply Inv_setf; auto. intros f Hf [T [S1 [S2 S3]]]. rewrite (nth_error_getf _ _ _ Hf) in G.
    apply andb_prop in G as [G G3]. apply andb_prop in G as [G1 G2].
    unfold pf, key_of, table_ok in *; simpl in *.
    rewrite G1 in *. destruct (f_sld f), (f_ro f); simpl in *; try discriminate.
    repeat split; auto; try discriminate.
    destruct (f_seal f); simpl in *; auto; try discriminate.
  - same_key.
  - destruct (set_multiple _ _ _ _); same_key.
  - same_key.
  - same_key.
  - destruct (put_order _ _); same_key.
  - destruct (Nat.ltb _ _); same_key.
  - same_key.
  - apply Inv_setw. apply Inv_setf; auto. intros f Hf [T [S1 [S2 S3]]].
    unfold pf, key_of in *; simpl in *. repeat split; auto.
    + apply S1; auto.
    + rewrite (proj2 (S1 H H0)); auto.
    + intros H; rewrite S2; auto.
Qed.

(* ---------------------------------------------------------------- maintenance steps *)
Lemma step_rot_inv st : Inv st -> Inv (fst (step_rot st)).
Proof.
  intros HI. unfold step_rot. destruct (Nat.ltb _ _); simpl; auto.
  intros n k Hn. unfold keys in *; simpl in *. rewrite map_app in *. simpl in *.
  rewrite app_length, map_length, length_upd. simpl. rewrite Nat.add_1_r. simpl.
  destruct (Nat.lt_ge_cases n (length (fracs st))) as [L|L].
  - rewrite nth_error_app1 in Hn by (rewrite map_length, length_upd; auto).
    rewrite nth_error_map, nth_error_upd in Hn.
    destruct (Nat.eqb_spec n (last_g st)) as [E0|E0].
    + destruct (nth_error (fracs st) n) as [f|] eqn:E; simpl in Hn; inversion Hn; subst k.
      assert (P : pf (shift st) (length (map key_of (fracs st))) n (key_of f))
        by (apply HI; unfold keys; rewrite nth_error_map, E; auto).
      destruct P as [T [S1 [S2 S3]]]. rewrite map_length in S3. unfold last_g in E0. specialize (S3 E0).
      unfold pf, key_of, table_ok in *; simpl in *. rewrite S3 in *.
      repeat split; auto; try discriminate; intros; try (apply S1; auto); lia.
    + assert (P : pf (shift st) (length (map key_of (fracs st))) n k) by (apply HI; unfold keys; rewrite nth_error_map; auto).
      destruct P as [T [S1 [S2 S3]]]. repeat split; auto; intros; try (apply S1; auto); simpl in *; lia.
  - rewrite nth_error_app2 in Hn by (rewrite map_length, length_upd; auto).
    rewrite map_length, length_upd in Hn.
    destruct (n - length (fracs st)) as [|m] eqn:E; simpl in Hn; [|destruct m; discriminate].
    inversion Hn; subst. unfold pf; simpl. repeat split; auto; discriminate.
Qed.

Lemma step_m_inv c st g : Inv st -> Inv (fst (step_m c st g)).
Proof.
  intros HI. unfold step_m. destruct (nth_error (fracs st) g) as [f|] eqn:E; simpl; auto.
  assert (P : pf (shift st) (length (keys st)) g (key_of f)) by (apply HI; unfold keys; rewrite nth_error_map, E; auto).
  destruct (f_seal f) eqn:ES; simpl; auto.
  - (* SRot *) destruct (negb (f_act f || f_sld f)) eqn:G; simpl; apply Inv_setf; auto; intros f' Hf' _;
      rewrite E in Hf'; inversion Hf'; subst f'; destruct P as [T [S1 [S2 S3]]];
      unfold pf, key_of, table_ok in *; simpl in *; rewrite ES in *;
      destruct (f_act f), (f_sld f), (f_ro f); simpl in *; try discriminate;
      repeat split; auto; try discriminate; intros; try (apply S1; auto); try (match goal with HH : _ = Init.Nat.pred _ |- _ => specialize (S3 HH); discriminate end).
  - (* SRo *) destruct (Nat.eqb_spec (f_wg f) 0) as [W|W]; simpl; auto. apply Inv_setf; auto; intros f' Hf' _.
    rewrite E in Hf'; inversion Hf'; subst f'. destruct P as [T [S1 [S2 S3]]].
    unfold pf, key_of, table_ok in *; simpl in *; rewrite ES in *.
    repeat split; auto; intros; try (apply S1; auto); try (match goal with HH : _ = Init.Nat.pred _ |- _ => specialize (S3 HH); discriminate end).
  - (* SIdle *) apply Inv_setf; auto; intros f' Hf' _.
    rewrite E in Hf'; inversion Hf'; subst f'. destruct P as [T [S1 [S2 S3]]].
    unfold pf, key_of, table_ok in *; simpl in *; rewrite ES in *.
    repeat split; auto; intros; try (apply S1; auto); try (match goal with HH : _ = Init.Nat.pred _ |- _ => specialize (S3 HH); discriminate end).
  - (* SBuilt *) apply Inv_setf; auto; intros f' Hf' _.
    rewrite E in Hf'; inversion Hf'; subst f'. destruct P as [T [S1 [S2 S3]]].
    unfold pf, key_of, table_ok in *; simpl in *; rewrite ES in *.
    destruct (f_act f), (f_sld f), (f_ro f); simpl in *; try discriminate.
    repeat split; auto; intros; try discriminate; try (apply S1; auto); try (match goal with HH : _ = Init.Nat.pred _ |- _ => specialize (S3 HH); discriminate end).
  - (* SSwapped *) destruct (Nat.eqb (f_rl f) 0); simpl; auto. apply Inv_setf; auto; intros f' Hf' _.
    rewrite E in Hf'; inversion Hf'; subst f'. destruct P as [T [S1 [S2 S3]]].
    unfold pf, key_of, table_ok in *; simpl in *; rewrite ES in *.
    repeat split; auto; intros; try (apply S1; auto); try (match goal with HH : _ = Init.Nat.pred _ |- _ => specialize (S3 HH); discriminate end).
  - (* SReleased *) apply Inv_setf; auto; intros f' Hf' _.
    rewrite E in Hf'; inversion Hf'; subst f'. destruct P as [T [S1 [S2 S3]]].
    unfold pf, key_of, table_ok in *; simpl in *; rewrite ES in *.
    repeat split; auto; intros; try (apply S1; auto); try (match goal with HH : _ = Init.Nat.pred _ |- _ => specialize (S3 HH); discriminate end).
  - (* SRepl *) apply Inv_setf; auto; intros f' Hf' _.
    rewrite E in Hf'; inversion Hf'; subst f'. destruct P as [T [S1 [S2 S3]]].
    unfold pf, key_of, table_ok in *; simpl in *; rewrite ES in *.
    repeat split; auto; intros; try (apply S1; auto); try (match goal with HH : _ = Init.Nat.pred _ |- _ => specialize (S3 HH); discriminate end).
Qed.

Lemma step_sui_inv st : Inv st -> Inv (fst (step_sui st)).
Proof.
  intros HI. unfold step_sui. destruct (sui_enabled st) eqn:EN; simpl; auto.
  unfold sui_enabled in EN. apply andb_prop in EN as [EN E4]. apply andb_prop in EN as [EN E3]. apply andb_prop in EN as [E1 E2].
  apply Nat.leb_le in E1. apply Nat.eqb_eq in E2.
  intros n k Hn. unfold keys in *; simpl in *. rewrite map_length, length_upd.
  rewrite nth_error_map, nth_error_upd in Hn.
  destruct (Nat.eqb_spec n (shift st)) as [E0|E0].
  - subst n. destruct (nth_error (fracs st) (shift st)) as [f|] eqn:E; simpl in Hn; inversion Hn; subst k.
    assert (P : pf (shift st) (length (map key_of (fracs st))) (shift st) (key_of f)) by (apply HI; unfold keys; rewrite nth_error_map, E; auto).
    rewrite map_length in P. rewrite (nth_error_getf _ _ _ E) in E2, E4.
    destruct P as [T [S1 [S2 S3]]].
    destruct (replaced (f_seal f)) eqn:R; unfold pf, key_of, table_ok in *; simpl in *.
    + repeat split; auto; intros; try (match goal with A : f_act f = false, B : f_sld f = false |- _ => destruct (S1 A B); lia end); try lia.
    + destruct (f_seal f); simpl in *; try discriminate; repeat split; auto; intros; try lia; try discriminate.
  - assert (P : pf (shift st) (length (map key_of (fracs st))) n k) by (apply HI; unfold keys; rewrite nth_error_map; auto).
    rewrite map_length in P. destruct P as [T [S1 [S2 S3]]]. repeat split; auto; intros;
      try (match goal with A : k_act k = false, B : k_sld k = false |- _ => destruct (S1 A B); auto; lia end).
Qed.

Lemma step_inv c st l : Inv st -> Inv (fst (step c st l)).
Proof.
  intros HI. destruct l; simpl.
  - apply step_w_inv; auto.
  - destruct (step_snap_keys st (N.to_nat r)) as [A B]. eapply Inv_same; eauto.
  - destruct (step_sb_keys c st (N.to_nat r) (N.to_nat j) (N.to_nat q)) as [A B]. eapply Inv_same; eauto.
  - destruct (step_fb_keys c st (N.to_nat r) (N.to_nat j) ids) as [A B]. eapply Inv_same; eauto.
  - destruct (step_r_keys c st (N.to_nat r)) as [A B]. eapply Inv_same; eauto.
  - apply step_rot_inv; auto.
  - apply step_m_inv; auto.
  - apply step_sui_inv; auto.
Qed.

Lemma init_inv c n : Inv (init c n).
Proof.
  intros g k H. unfold keys, init in H; simpl in H. destruct g as [|[|g]]; simpl in H; try discriminate.
  inversion H; subst. unfold pf; simpl. repeat split; auto; discriminate.
Qed.

Lemma exec_inv c ls : forall st, Inv st -> Inv (exec c st ls).
Proof. induction ls; simpl; intros; auto. apply IHls. apply step_inv; auto. Qed.

(* ---------------------------------------------------------------- statements used by Props.v *)
Lemma state_code_table f : table_ok (key_of f) = true -> (state_code f <> 9)%N.
Proof.
  unfold table_ok, key_of, state_code; simpl.
  destruct (f_seal f), (f_act f), (f_sld f), (f_ro f); simpl; intros H; try discriminate; intro; discriminate.
Qed.

Lemma proxy_four_states c n ls g f :
  nth_error (fracs (exec c (init c n) ls)) g = Some f ->
  (state_code f = 0 \/ state_code f = 1 \/ state_code f = 2 \/ state_code f = 3)%N
  /\ (state_code f = 3%N -> g < shift (exec c (init c n) ls)).
Proof.
  intros H. pose proof (exec_inv c ls _ (init_inv c n)) as HI.
  assert (P := HI g (key_of f)). unfold keys in P. rewrite nth_error_map, H in P. specialize (P eq_refl).
  destruct P as [T [S1 _]]. split.
  - pose proof (state_code_table f T) as N9. unfold state_code in *.
    destruct (f_act f), (f_sld f), (f_ro f); auto; exfalso; apply N9; reflexivity.
  - intros C. unfold state_code in C. simpl in S1.
    destruct (f_act f), (f_sld f), (f_ro f); try discriminate; apply S1; auto.
Qed.

(* once the seal thread is past WaitWriteIdle the fraction's index WaitGroup is zero, the fraction is read-only
   (or already deleted) and an append on it is refused and re-routed to the current writer *)
Lemma handover_no_gap c n ls g f :
  let st := exec c (init c n) ls in
  nth_error (fracs st) g = Some f ->
  idle_passed (f_seal f) = true ->
  f_wg f = 0
  /\ (f_act f && negb (f_sld f) && negb (f_ro f) = false)%bool
  /\ g <> last_g st
  /\ forall w x, nth_error (ws st) w = Some x -> w_pc x = 1 -> w_g x = g ->
       snd (step_w c st w) = OHook 1 /\
       nth_error (ws (fst (step_w c st w))) w = Some (mkW (w_cur x) 1 (last_g st) 0 [] 0 [] 0).
Proof.
  intros st H L. pose proof (exec_inv c ls _ (init_inv c n)) as HI. fold st in HI.
  assert (P := HI g (key_of f)). unfold keys in P. rewrite nth_error_map, H in P. specialize (P eq_refl).
  destruct P as [T [S1 [S2 S3]]]. simpl in *.
  assert (RO : (f_act f && negb (f_sld f) && negb (f_ro f))%bool = false).
  { unfold table_ok in T; simpl in T. destruct (f_seal f), (f_act f), (f_sld f), (f_ro f); simpl in *; try discriminate; auto. }
  repeat split; auto.
  - intros E. rewrite map_length in S3. unfold last_g in E. rewrite S3 in L by auto. discriminate.
  - unfold step_w. rewrite H0, H1. rewrite H2, (nth_error_getf _ _ _ H), RO. reflexivity.
  - unfold step_w. rewrite H0, H1. rewrite H2, (nth_error_getf _ _ _ H), RO. simpl.
    unfold setw; simpl. rewrite nth_error_upd, Nat.eqb_refl, H0. reflexivity.
Qed.
