From Coq Require Import List Bool Arith NArith Lia.
From C07 Require Import Model.
Import ListNotations.
Lemma placeholder : True. Proof. exact I. Qed.
