(* C07 — the block-offset table of a sealed fraction and the pooled docBlocksWriter it comes from. Executable, NO proofs.
   frac/active_sealer.go writeSortedDocs: `bw := getDocBlocksWriter(...)` takes a writer out of a sync.Pool and
   re-initialises it with `BlockOffsets: bw.BlockOffsets[:0]` (same backing array, length 0); writeDocBlocksInOrder /
   flushBlock append one offset per block of sorted documents; the function returns `slices.Clone(bw.BlockOffsets)`;
   the deferred putDocBlocksWriter gives the writer back. The returned slice becomes PreloadedData.blocksOffsets ->
   Sealed.BlocksOffsets -> sealedDataProvider.blocksOffsets: the table the sealed fraction's fetch path uses to turn the
   block index of a document position into the offset of the block in ITS .sdocs file.
   Slices are modelled as Go has them: a header (backing array, length) over a heap of arrays, so that two headers on
   one array alias. Which pooled writer a seal gets (or a new one) is a free choice of every seal label: sync.Pool
   promises nothing. With SkipSortDocs=true no writer is involved: the sealed fraction adopts the (read-only by then)
   block table of the active fraction. *)
From Coq Require Import List Bool Arith NArith.
Import ListNotations.

Definition hdr := (nat * nat)%type.               (* backing array, len *)
Definition heap := list (list N).                 (* every array with its full capacity *)
Definition arr (h : heap) (a : nat) : list N := nth a h [].
Definition view (h : heap) (s : hdr) : list N := firstn (snd s) (arr h (fst s)).

Fixpoint hupd (a : nat) (f : list N -> list N) (h : heap) : heap :=
  match h, a with
  | [], _ => []
  | x :: r, O => f x :: r
  | x :: r, S a' => x :: hupd a' f r
  end.

(* append(s, x): in place when the capacity allows, else a new, larger array (first len elements copied; the growth
   policy - here cap' = 2*cap + 1 - is Go's business, nothing below depends on it) *)
Definition app1 (h : heap) (s : hdr) (x : N) : heap * hdr :=
  let a := arr h (fst s) in
  if Nat.ltb (snd s) (length a)
  then (hupd (fst s) (fun l => firstn (snd s) l ++ x :: skipn (S (snd s)) l) h, (fst s, S (snd s)))
  else (h ++ [firstn (snd s) a ++ x :: repeat 0%N (length a)], (length h, S (snd s))).

Fixpoint fill (h : heap) (s : hdr) (xs : list N) : heap * hdr :=
  match xs with
  | [] => (h, s)
  | x :: r => let '(h', s') := app1 h s x in fill h' s' r
  end.

Fixpoint remove_nth {A} (i : nat) (l : list A) : list A :=
  match l, i with
  | [], _ => []
  | _ :: r, O => r
  | x :: r, S i' => x :: remove_nth i' r
  end.

Record pstate := mkP {
  p_heap : heap;
  p_pool : list hdr;                              (* BlockOffsets of the writers sitting in docBlocksWriterPool *)
  p_tabs : list (nat * hdr * list N)              (* fraction, its Sealed.BlocksOffsets, GHOST: the offsets written for it *)
}.
Definition pinit : pstate := mkP [] [] [].

Inductive plabel :=
| PSeal (g : nat) (offs : list N) (pick : option nat)   (* seal of fraction g with sorted docs; pool choice *)
| PAdopt (g : nat) (offs : list N)                      (* seal with SkipSortDocs: the active fraction's block table *)
| PDrop (g : nat).                                      (* retention: the fraction is gone *)

(* clone = true is the code as it is (slices.Clone); false = the seeded change C07-m12 (the writer's slice itself) *)
Definition pstep (clone : bool) (st : pstate) (l : plabel) : pstate :=
  match l with
  | PSeal g offs pick =>
      (* getDocBlocksWriter *)
      let '(h1, pool1, w) :=
        match pick with
        | Some i => match nth_error (p_pool st) i with
                    | Some s => (p_heap st, remove_nth i (p_pool st), (fst s, 0))
                    | None => (p_heap st ++ [[]], p_pool st, (length (p_heap st), 0))
                    end
        | None => (p_heap st ++ [[]], p_pool st, (length (p_heap st), 0))
        end in
      (* writeDocBlocksInOrder: one append per block *)
      let '(h2, w2) := fill h1 w offs in
      (* return value, then the deferred putDocBlocksWriter *)
      if clone
      then mkP (h2 ++ [view h2 w2]) (w2 :: pool1) ((g, (length h2, snd w2), offs) :: p_tabs st)
      else mkP h2 (w2 :: pool1) ((g, w2, offs) :: p_tabs st)
  | PAdopt g offs =>
      mkP (p_heap st ++ [offs]) (p_pool st) ((g, (length (p_heap st), length offs), offs) :: p_tabs st)
  | PDrop g =>
      mkP (p_heap st) (p_pool st) (filter (fun t => negb (Nat.eqb (fst (fst t)) g)) (p_tabs st))
  end.

Fixpoint pexec (clone : bool) (st : pstate) (ls : list plabel) : pstate :=
  match ls with
  | [] => st
  | l :: r => pexec clone (pstep clone st l) r
  end.

(* the table fraction g's sealed provider works with right now *)
Definition table_of (st : pstate) (g : nat) : option (list N) :=
  match find (fun t => Nat.eqb (fst (fst t)) g) (p_tabs st) with
  | Some t => Some (view (p_heap st) (snd (fst t)))
  | None => None
  end.

(* the fetch path: block index k of a document position -> offset through the table -> the block of the fraction's
   own .sdocs file that starts there (`written` = where its blocks start); None = no block starts there (decode error /
   panic in the real reader) *)
Fixpoint index_of (x : N) (l : list N) (i : nat) : option nat :=
  match l with
  | [] => None
  | y :: r => if N.eqb x y then Some i else index_of x r (S i)
  end.
Definition read_block (written table : list N) (k : nat) : option nat :=
  match nth_error table k with
  | Some off => index_of off written 0
  | None => None
  end.
