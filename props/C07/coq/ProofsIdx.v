(* C07 — index invariants of the active fraction over ALL label lists:
   posting ⊆ appended LIDs (every LID in a token's sorted list or queue is below len(MIDs)),
   the ID tables only grow, the published range only widens. *)
From Coq Require Import List Bool Arith NArith Lia.
From C07 Require Import Model ProofsInv.
Import ListNotations.

Definition nids (f : frac) : nat := length (f_ids f).
Definition tl_ok (n : nat) (t : tlids) : Prop := forall lid, In lid (tl_sorted t ++ tl_queue t) -> lid < n.
Definition idx_ok (f : frac) : Prop := Forall (tl_ok (nids f)) (f_toks f).

(* the LIDs a writer holds between AppendIDs and the last queue put are LIDs of its fraction *)
Definition w_ok (st : state) (x : wst) : Prop :=
  (1 <= w_pc x -> w_g x < length (fracs st))
  /\ (5 <= w_pc x <= 7 -> forall lid, In lid (w_lids x) -> lid < nids (getf st (w_g x))).

Definition IInv (st : state) : Prop :=
  (Forall idx_ok (fracs st) /\ 0 < length (fracs st)) /\ Forall (w_ok st) (ws st).

(* st' has at least the fractions and IDs of st, fraction by fraction *)
Definition grow (st st' : state) : Prop :=
  length (fracs st) <= length (fracs st') /\ forall g, nids (getf st g) <= nids (getf st' g).

Lemma nth_upd {A} (h : A -> A) l n g d :
  nth g (upd n h l) d = if (Nat.eqb g n && Nat.ltb g (length l))%bool then h (nth g l d) else nth g l d.
Proof.
  revert n g; induction l; intros n g; simpl.
  - destruct g, n; simpl; auto; rewrite ?andb_false_r; auto.
  - destruct n, g; simpl; auto. rewrite IHl. reflexivity.
Qed.

Lemma getf_setf st g h g' :
  getf (setf st g h) g' = if (Nat.eqb g' g && Nat.ltb g' (length (fracs st)))%bool then h (getf st g') else getf st g'.
Proof. unfold getf, setf; simpl. apply nth_upd. Qed.

Lemma grow_refl st : grow st st. Proof. split; auto. Qed.

Lemma grow_setf st g h : (forall x, nids x <= nids (h x)) -> grow st (setf st g h).
Proof. intros H; split; [unfold setf; simpl; rewrite length_upd; auto|]. intros g'. rewrite getf_setf. destruct (_ && _)%bool; auto. Qed.

Lemma Forall_upd {A} (P : A -> Prop) (h : A -> A) n l :
  Forall P l -> (forall x, nth_error l n = Some x -> P x -> P (h x)) -> Forall P (upd n h l).
Proof.
  revert n; induction l; intros n HF Hh; [destruct n; simpl; auto|].
  inversion HF; subst. destruct n; simpl; constructor; auto.
Qed.

Lemma w_ok_grow st st' x : grow st st' -> w_ok st x -> w_ok st' x.
Proof. unfold w_ok, grow; intros [GL G] [H0 H]; split; [intros R; specialize (H0 R); lia|]. intros R lid HL. specialize (G (w_g x)). specialize (H R lid HL). lia. Qed.

Lemma tl_ok_mono n m t : n <= m -> tl_ok n t -> tl_ok m t.
Proof. unfold tl_ok; intros L H lid HL; specialize (H lid HL); lia. Qed.

Lemma idx_ok_same f f' : f_ids f' = f_ids f -> f_toks f' = f_toks f -> idx_ok f -> idx_ok f'.
Proof. unfold idx_ok, nids; intros -> ->; auto. Qed.

(* ---------------------------------------------------------------- token list operations *)
Lemma add_toks_ok n ts l : Forall (tl_ok n) l -> Forall (tl_ok n) (add_toks ts l).
Proof.
  revert l; induction ts; simpl; auto. intros l H. destruct (has_tok a l); auto.
  apply IHts. apply Forall_app; split; auto. constructor; auto. intros lid [].
Qed.

Lemma upd_tok_ok n t h l :
  (forall x, tl_ok n x -> tl_ok n (h x)) -> Forall (tl_ok n) l -> Forall (tl_ok n) (upd_tok t h l).
Proof.
  intros Hh H. unfold upd_tok. apply Forall_forall. intros y Hy. apply in_map_iff in Hy as [x [E Hx]].
  rewrite Forall_forall in H. specialize (H x Hx). destruct (N.eqb (tl_tok x) t); subst; auto.
Qed.

Lemma merge_tok_ok n x : tl_ok n x -> tl_ok n (merge_tok x).
Proof. unfold tl_ok, merge_tok; simpl. intros H lid HL. rewrite app_nil_r in HL. auto. Qed.

Lemma group_lids_sub t ds lids lid : In lid (group_lids t ds lids) -> In lid lids.
Proof.
  revert lids; induction ds; intros lids H; simpl in *; [contradiction|].
  destruct lids; [contradiction|]. destruct (memN t (d_toks a)); simpl in *; intuition.
Qed.

(* ---------------------------------------------------------------- steps *)
Lemma IInv_frame st st' :
  ws st' = ws st -> grow st st' -> Forall idx_ok (fracs st') -> IInv st -> IInv st'.
Proof.
  intros EW G HF [[_ HL] HW]. split; [split; auto; destruct G; lia|]. rewrite EW. eapply Forall_impl; [|exact HW]. intros x; apply w_ok_grow; auto.
Qed.

(* a step that rewrites fraction g without touching IDs and token lists, and leaves the writers alone *)
Lemma IInv_setf_same st g h :
  (forall x, f_ids (h x) = f_ids x) -> (forall x, f_toks (h x) = f_toks x) -> IInv st -> IInv (setf st g h).
Proof.
  intros H1 H2 HI. apply IInv_frame with st; auto.
  - apply grow_setf. intros; unfold nids; rewrite H1; auto.
  - destruct HI as [[HF _] _]. unfold setf; simpl. apply Forall_upd; auto. intros x _. apply idx_ok_same; auto.
Qed.

Lemma IInv_setr st r h : IInv st -> IInv (setr st r h).
Proof. intros [A B]; split; auto. Qed.

Lemma IInv_set_toks st g (k : frac -> list tlids) :
  (forall x, idx_ok x -> Forall (tl_ok (nids x)) (k x)) -> IInv st -> IInv (setf st g (fun f => set_toks f (k f))).
Proof.
  intros Hk HI. apply IInv_frame with st; auto.
  - apply grow_setf. intros; auto.
  - destruct HI as [[HF _] _]. unfold setf; simpl. apply Forall_upd; auto. intros x _ Hx. change (Forall (tl_ok (nids x)) (k x)). apply Hk; auto.
Qed.

Lemma advance_iinv st r g q a b m n s p : IInv st -> IInv (fst (advance st r g q a b m n s p)).
Proof.
  revert s; induction p; intros s HI; simpl.
  - unfold set_op. apply IInv_setr. apply IInv_setf_same; auto.
  - destruct (has_tok a0 (f_toks (getf st g))); simpl; auto.
Qed.

Lemma step_r_iinv c st r : IInv st -> IInv (fst (step_r c st r)).
Proof.
  intros HI. unfold step_r. destruct (nth_error (rs st) r) as [x|]; simpl; auto.
  destruct (r_op x) as [|g q pc a b m n s p|g ids nb]; simpl; auto.
  - destruct pc; simpl.
    + unfold set_op; apply IInv_setr. apply IInv_set_toks; auto. intros y Hy. apply upd_tok_ok; auto. apply merge_tok_ok.
    + destruct (forallb _ m); simpl; unfold set_op; try apply IInv_setr; auto. apply IInv_setf_same; auto.
    + apply advance_iinv; auto.
    + destruct p as [|t p]; simpl; auto. apply advance_iinv.
      apply IInv_set_toks; auto. intros y Hy. apply upd_tok_ok; auto. apply merge_tok_ok.
  - destruct (existsb _ _); simpl; unfold set_op; apply IInv_setr; apply IInv_setf_same; auto.
Qed.

Lemma step_sb_iinv c st r j q : IInv st -> IInv (fst (step_sb c st r j q)).
Proof.
  intros HI. unfold step_sb. destruct (nth_error (rs st) r) as [x|]; simpl; auto.
  destruct (nth_error (c_qs c) q) as [[[qq qf] qt]|]; simpl; auto.
  destruct (r_op x); simpl; auto. destruct (nth_error (r_snap x) j) as [g|]; simpl; auto.
  repeat match goal with |- context [if ?b then _ else _] => destruct b; simpl; auto end.
  unfold set_op; apply IInv_setr; apply IInv_setf_same; auto.
Qed.

Lemma step_fb_iinv c st r j ids : IInv st -> IInv (fst (step_fb c st r j ids)).
Proof.
  intros HI. unfold step_fb. destruct (nth_error (rs st) r) as [x|]; simpl; auto.
  destruct (r_op x); simpl; auto. destruct (nth_error (r_snap x) j) as [g|]; simpl; auto.
  destruct ids; simpl; auto.
  repeat match goal with |- context [if ?b then _ else _] => destruct b; simpl; auto end.
  unfold set_op; apply IInv_setr; apply IInv_setf_same; auto.
Qed.

Lemma step_snap_iinv st r : IInv st -> IInv (fst (step_snap st r)).
Proof.
  intros HI. unfold step_snap. destruct (nth_error (rs st) r) as [x|]; simpl; auto. destruct (r_op x); simpl; auto.
Qed.

(* writers: the fraction part and the writer part are handled together *)
Lemma IInv_w st w g hf hw :
  IInv st ->
  grow st (setf st g hf) ->
  (forall f, nth_error (fracs st) g = Some f -> idx_ok f -> idx_ok (hf f)) ->
  (forall x, nth_error (ws st) w = Some x -> w_ok st x -> w_ok (setf st g hf) (hw x)) ->
  IInv (setw (setf st g hf) w hw).
Proof.
  intros [[HF HL] HW] G Hf Hw. split; simpl.
  - split; [apply Forall_upd; auto | rewrite length_upd; auto].
  - apply Forall_upd.
    + eapply Forall_impl; [|exact HW]. intros x. apply w_ok_grow. exact G.
    + intros x E Hx. apply Hw; auto.
      (* w_ok st x from HW *)
      rewrite Forall_forall in HW. apply HW. eapply nth_error_In; eauto.
Qed.

Lemma w_ok_out st x : (1 <= w_pc x -> w_g x < length (fracs st)) -> ~ (5 <= w_pc x <= 7) -> w_ok st x.
Proof. unfold w_ok; intros L N; split; auto. intros R; contradiction. Qed.

Ltac growt := apply grow_setf; intros; unfold nids, f_ids; simpl; rewrite ?map_length, ?app_length; lia.
Ltac lenf := unfold setf; simpl; rewrite ?length_upd.

Lemma step_w_iinv c st w : IInv st -> IInv (fst (step_w c st w)).
Proof.
  intros HI. unfold step_w. destruct (nth_error (ws st) w) as [x|] eqn:EX; simpl; auto.
  assert (WX : w_ok st x).
  { destruct HI as [_ HW]. rewrite Forall_forall in HW. apply HW. eapply nth_error_In; eauto. }
  assert (L0 : 0 < length (fracs st)) by (destruct HI as [[_ L] _]; auto).
  assert (LL : last_g st < length (fracs st)) by (unfold last_g; lia).
  destruct WX as [WR WL].
  assert (OUT : forall pc' (y : wst), w_g y = w_g x -> w_pc y = pc' -> 1 <= w_pc x -> ~ (5 <= pc' <= 7) ->
                forall hf, w_ok (setf st (w_g x) hf) y).
  { intros pc' y E1 E2 R N hf. apply w_ok_out; [intros _; lenf; rewrite E1; auto | rewrite E2; auto]. }
  destruct (w_pc x) as [|[|[|[|[|[|[|[|[|pc]]]]]]]]] eqn:PC; simpl.
  - destruct (Nat.ltb _ _); simpl; auto. destruct HI as [A B]; split; auto; simpl; apply Forall_upd; auto.
    intros; apply w_ok_out; simpl; auto; lia.
  - destruct (_ && _ && _)%bool; simpl.
    + apply IInv_w; [assumption | growt | intros ? _; apply idx_ok_same; reflexivity |].
      intros; apply (OUT 2); simpl; auto; lia.
    + destruct HI as [A B]; split; auto; simpl; apply Forall_upd; auto. intros; apply w_ok_out; simpl; auto; lia.
  - apply IInv_w; [assumption | growt | intros ? _; apply idx_ok_same; reflexivity |].
    intros; apply (OUT 3); simpl; auto; lia.
  - destruct (set_multiple _ _ _ _); simpl.
    apply IInv_w; [assumption | growt | intros ? _; apply idx_ok_same; reflexivity |].
    intros; apply (OUT 4); simpl; auto; lia.
  - (* AppendIDs *) apply IInv_w; [assumption | growt | |].
    + intros f _ H. unfold idx_ok, nids, f_ids in *; simpl. eapply Forall_impl; [|exact H].
      intros t; apply tl_ok_mono. rewrite !map_length, app_length; lia.
    + intros y EY _. rewrite EX in EY; inversion EY; subst y. split; simpl; [intros _; lenf; apply WR; lia|]. intros _ lid HL.
      apply in_seq in HL. rewrite getf_setf, Nat.eqb_refl; simpl.
      assert (LT : Nat.ltb (w_g x) (length (fracs st)) = true) by (apply Nat.ltb_lt; apply WR; lia).
      rewrite LT. unfold nids, f_ids in *; simpl. rewrite map_length in *. rewrite app_length. lia.
  - (* TokenList.Append *) apply IInv_w; [assumption | growt | |].
    + intros f _ H. unfold idx_ok, nids in *; simpl. apply add_toks_ok; auto.
    + intros y EY HY. rewrite EX in EY; inversion EY; subst y. split; simpl; [intros _; lenf; apply WR; lia|]. intros _ lid HL.
      rewrite getf_setf. destruct (_ && _)%bool; unfold nids; simpl; apply WL; auto; lia.
  - destruct (put_order _ _); simpl.
    + destruct HI as [A B]; split; auto; simpl; apply Forall_upd; auto. intros; apply w_ok_out; simpl; auto; try lia; try (intros _; apply WR; lia).
    + destruct HI as [A B]; split; auto; simpl; apply Forall_upd; auto.
      intros y EY HY. rewrite EX in EY; inversion EY; subst y. split; simpl; [intros _; apply WR; lia|]. intros _ lid HL. apply WL; auto; lia.
  - (* one queue put *)
    assert (GL : forall t lid, In lid (group_lids t (w_docs x) (w_lids x)) -> lid < nids (getf st (w_g x))).
    { intros t lid HL. apply WL; [lia|]. eapply group_lids_sub; eauto. }
    assert (FR : forall f, nth_error (fracs st) (w_g x) = Some f -> idx_ok f ->
                 idx_ok (mkFrac (f_act f) (f_sld f) (f_ro f) (f_blocks f) (f_pos f) (f_ldocs f)
                   (upd_tok (nth (w_k x) (put_order (c_ver c) (cur_bulk c w x)) 0%N)
                      (fun y => mkTl (tl_tok y) (tl_sorted y)
                         (tl_queue y ++ group_lids (nth (w_k x) (put_order (c_ver c) (cur_bulk c w x)) 0%N) (w_docs x) (w_lids x)))
                      (f_toks f))
                   (f_from f) (f_to f) (f_total f) (f_wg f) (f_rl f) (f_subs f) (f_seal f) (f_sdocs f) (f_ssui f))).
    { intros f Ef H. unfold idx_ok, nids in *; simpl. apply upd_tok_ok; auto.
      intros y Hy lid HL; simpl in HL. rewrite app_assoc in HL. apply in_app_or in HL as [HL|HL].
      - apply Hy; auto.
      - apply GL in HL. rewrite (nth_error_getf _ _ _ Ef) in HL. exact HL. }
    destruct (Nat.ltb _ _); simpl; (apply IInv_w; [assumption | growt | exact FR |]).
    + intros y EY HY. rewrite EX in EY; inversion EY; subst y. split; simpl; [intros _; lenf; apply WR; lia|]. intros _ lid HL.
      rewrite getf_setf. destruct (_ && _)%bool; unfold nids; simpl; apply WL; auto; lia.
    + intros; apply (OUT 8); simpl; auto; lia.
  - apply IInv_w; [assumption | growt | intros ? _; apply idx_ok_same; reflexivity |].
    intros; apply (OUT 9); simpl; auto; lia.
  - apply IInv_w; [assumption | growt | intros ? _; apply idx_ok_same; reflexivity |].
    intros; apply w_ok_out; simpl; lia.
Qed.

Lemma new_frac_ok : idx_ok new_frac.
Proof. unfold idx_ok; simpl. constructor; auto. intros lid []. Qed.

Lemma getf_app_new st g :
  nth g (fracs st ++ [new_frac]) new_frac = getf st g.
Proof.
  unfold getf. destruct (Nat.lt_ge_cases g (length (fracs st))).
  - apply app_nth1; auto.
  - rewrite app_nth2 by auto. rewrite (nth_overflow (fracs st)) by auto.
    destruct (g - length (fracs st)) as [|[|k]]; auto.
Qed.

Lemma step_rot_iinv st : IInv st -> IInv (fst (step_rot st)).
Proof.
  intros HI. unfold step_rot. destruct (Nat.ltb _ _); simpl; auto.
  pose proof (IInv_setf_same st (last_g st) (fun f => set_seal f (f_act f) (f_sld f) (f_ro f) SRot (f_sdocs f))
                             (fun _ => eq_refl) (fun _ => eq_refl) HI) as [[A AL] B].
  split; simpl.
  - split; [apply Forall_app; split; auto; constructor; auto; apply new_frac_ok | rewrite app_length; simpl; lia].
  - eapply Forall_impl; [|exact B]. intros x [H0 Hx]. split; simpl.
    + intros R. specialize (H0 R). simpl in H0. rewrite app_length; simpl. lia.
    + intros R lid HL. specialize (Hx R lid HL).
      unfold getf at 1; simpl.
      change (nth (w_g x) (upd (last_g st) (fun f => set_seal f (f_act f) (f_sld f) (f_ro f) SRot (f_sdocs f)) (fracs st) ++ [new_frac]) new_frac)
        with (nth (w_g x) (fracs (setf st (last_g st) (fun f => set_seal f (f_act f) (f_sld f) (f_ro f) SRot (f_sdocs f))) ++ [new_frac]) new_frac).
      rewrite getf_app_new. exact Hx.
Qed.

Lemma step_m_iinv c st g : IInv st -> IInv (fst (step_m c st g)).
Proof.
  intros HI. unfold step_m. destruct (nth_error (fracs st) g) as [f|]; simpl; auto.
  destruct (f_seal f); simpl; auto;
    repeat match goal with |- context [if ?b then _ else _] => destruct b; simpl; auto end;
    apply IInv_setf_same; auto.
Qed.

Lemma step_sui_iinv st : IInv st -> IInv (fst (step_sui st)).
Proof.
  intros HI. unfold step_sui. destruct (sui_enabled st); simpl; auto.
  pose proof (IInv_setf_same st (shift st)
     (fun f => if replaced (f_seal f)
               then mkFrac (f_act f) (f_sld f) (f_ro f) (f_blocks f) (f_pos f) (f_ldocs f) (f_toks f) (f_from f) (f_to f)
                           (f_total f) (f_wg f) (f_rl f) (f_subs f) (f_seal f) (f_sdocs f) true
               else mkFrac false false (f_ro f) (f_blocks f) (f_pos f) (f_ldocs f) (f_toks f) (f_from f) (f_to f)
                           (f_total f) (f_wg f) (f_rl f) (f_subs f) (f_seal f) (f_sdocs f) true)) as H.
  assert (HH : IInv (setf st (shift st)
     (fun f => if replaced (f_seal f)
               then mkFrac (f_act f) (f_sld f) (f_ro f) (f_blocks f) (f_pos f) (f_ldocs f) (f_toks f) (f_from f) (f_to f)
                           (f_total f) (f_wg f) (f_rl f) (f_subs f) (f_seal f) (f_sdocs f) true
               else mkFrac false false (f_ro f) (f_blocks f) (f_pos f) (f_ldocs f) (f_toks f) (f_from f) (f_to f)
                           (f_total f) (f_wg f) (f_rl f) (f_subs f) (f_seal f) (f_sdocs f) true))).
  { apply H; auto; intros x; destruct (replaced (f_seal x)); reflexivity. }
  destruct HH as [[A AL] B]. split; auto.
Qed.

Lemma step_iinv c st l : IInv st -> IInv (fst (step c st l)).
Proof.
  intros HI. destruct l; simpl.
  - apply step_w_iinv; auto.
  - apply step_snap_iinv; auto.
  - apply step_sb_iinv; auto.
  - apply step_fb_iinv; auto.
  - apply step_r_iinv; auto.
  - apply step_rot_iinv; auto.
  - apply step_m_iinv; auto.
  - apply step_sui_iinv; auto.
Qed.

Lemma init_iinv c n : IInv (init c n).
Proof.
  split; simpl.
  - split; auto. constructor; auto. apply new_frac_ok.
  - apply Forall_forall. intros x Hx. apply in_map_iff in Hx as [b [E _]]. subst x. apply w_ok_out; simpl; lia.
Qed.

Lemma exec_iinv c ls : forall st, IInv st -> IInv (exec c st ls).
Proof. induction ls; simpl; intros; auto. apply IHls. apply step_iinv; auto. Qed.

(* posting ⊆ appended LIDs, in every reachable state, for every fraction and token *)
Lemma postings_bounded c n ls g f t lid :
  nth_error (fracs (exec c (init c n) ls)) g = Some f ->
  In t (f_toks f) -> In lid (tl_sorted t ++ tl_queue t) -> lid < length (f_ids f).
Proof.
  intros H Ht Hl. destruct (exec_iinv c ls _ (init_iinv c n)) as [[A _] _].
  rewrite Forall_forall in A. specialize (A f (nth_error_In _ _ H)).
  unfold idx_ok in A. rewrite Forall_forall in A. apply (A t Ht lid Hl).
Qed.

(* consequence for a reader: the LID universe it takes between search.start and after-mapping (the merged `_all_`
   posting, exactly the expression of step_r) is below the length of the ID tables, which it snapshots afterwards
   and which only grow (ids_only_grow): newInverser never writes out of range *)
Lemma mapping_bounded c n ls g f :
  nth_error (fracs (exec c (init c n) ls)) g = Some f ->
  forallb (fun lid => Nat.ltb lid (length (f_ids f))) (tl_sorted (merge_tok (get_tok 0%N (f_toks f)))) = true.
Proof.
  intros H. apply forallb_forall. intros lid HL. apply Nat.ltb_lt. simpl in HL.
  unfold get_tok in HL. destruct (find _ (f_toks f)) as [t|] eqn:FD; simpl in HL; [|contradiction].
  apply find_some in FD as [IN _]. eapply (postings_bounded c n ls g f t lid); eauto.
Qed.

Lemma step_grow c st l : IInv st -> forall g, g < length (fracs st) -> nids (getf st g) <= nids (getf (fst (step c st l)) g).
Proof.
  intros HI g HG.
  assert (K : forall h, (forall x, nids x <= nids (h x)) -> forall gg, nids (getf st g) <= nids (getf (setf st gg h) g)).
  { intros h Hh gg. destruct (grow_setf st gg h Hh) as [_ G]. apply G. }
  destruct l; simpl.
  - unfold step_w. destruct (nth_error (ws st) (N.to_nat w)) as [x|]; simpl; auto.
    destruct (w_pc x) as [|[|[|[|[|[|[|[|[|pc]]]]]]]]]; simpl;
      repeat match goal with
             | |- context [if ?b then _ else _] => destruct b; simpl
             | |- context [let '(_, _) := ?p in _] => destruct p; simpl
             | |- context [match put_order ?a ?b with _ => _ end] => destruct (put_order a b); simpl
             end; auto;
      match goal with |- _ <= nids (getf (setw (setf ?s ?gg ?h) _ _) _) => apply (K h) end;
      intros; unfold nids, f_ids; simpl; rewrite ?map_length, ?app_length; lia.
  - unfold step_snap. destruct (nth_error _ _) as [x|]; simpl; auto. destruct (r_op x); auto.
  - unfold step_sb. destruct (nth_error (rs st) _) as [x|]; simpl; auto.
    destruct (nth_error (c_qs c) _) as [[[qq qf] qt]|]; simpl; auto.
    destruct (r_op x); simpl; auto. destruct (nth_error (r_snap x) _) as [g0|]; simpl; auto.
    repeat match goal with |- context [if ?b then _ else _] => destruct b; simpl end; auto.
    apply (K (fun f => set_rl f (S (f_rl f)))); auto.
  - unfold step_fb. destruct (nth_error (rs st) _) as [x|]; simpl; auto.
    destruct (r_op x); simpl; auto. destruct (nth_error (r_snap x) _) as [g0|]; simpl; auto.
    destruct ids; simpl; auto.
    repeat match goal with |- context [if ?b then _ else _] => destruct b; simpl end; auto.
    apply (K (fun f => set_rl f (S (f_rl f)))); auto.
  - assert (AD : forall st0 r g0 q a b m n s p gg, nids (getf st0 gg) <= nids (getf (fst (advance st0 r g0 q a b m n s p)) gg)).
    { intros st0 r0 g0 q a b m n s p gg. revert s; induction p; intros s; simpl.
      - destruct (grow_setf st0 g0 (fun f => set_rl f (pred (f_rl f))) (fun _ => le_n _)) as [_ G]. apply G.
      - destruct (has_tok _ _); simpl; auto. }
    unfold step_r. destruct (nth_error (rs st) _) as [x|]; simpl; auto.
    destruct (r_op x) as [|g0 q pc a b m n s p|g0 ids nb]; simpl; auto.
    + destruct pc; simpl.
      * apply (K (fun f => set_toks f (upd_tok 0%N merge_tok (f_toks f)))); auto.
      * destruct (forallb _ m); simpl; auto. apply (K (fun f => set_rl f (pred (f_rl f)))); auto.
      * apply AD.
      * destruct p as [|t p]; simpl; auto. eapply Nat.le_trans; [|apply AD].
        apply (K (fun f => set_toks f (upd_tok t merge_tok (f_toks f)))); auto.
    + destruct (existsb _ _); simpl; apply (K (fun f => set_rl f (pred (f_rl f)))); auto.
  - unfold step_rot. destruct (Nat.ltb _ _); simpl; auto.
    unfold getf at 2; simpl. rewrite app_nth1 by (rewrite length_upd; auto).
    apply (K (fun f => set_seal f (f_act f) (f_sld f) (f_ro f) SRot (f_sdocs f))); auto.
  - unfold step_m. destruct (nth_error (fracs st) _) as [f|]; simpl; auto.
    destruct (f_seal f); simpl; auto;
      repeat match goal with |- context [if ?b then _ else _] => destruct b; simpl end; auto;
      match goal with |- _ <= nids (getf (setf ?s ?gg ?h) _) => apply (K h) end; auto.
  - unfold step_sui. destruct (sui_enabled st); simpl; auto.
    match goal with |- _ <= nids (getf {| fracs := upd ?gg ?h _ |} _) => apply (K h) end.
    intros y; destruct (replaced (f_seal y)); auto.
Qed.

(* ---------------------------------------------------------------- the published range only widens *)
Definition range_le (f f' : frac) : Prop := (f_from f' <= f_from f)%N /\ (f_to f <= f_to f')%N /\ f_total f <= f_total f'.

Lemma range_le_refl f : range_le f f. Proof. unfold range_le; repeat split; auto; apply N.le_refl. Qed.

Ltac rr := intros; unfold range_le; simpl; repeat split; try apply N.le_refl; try apply N.le_min_l; try apply N.le_max_l; try lia.

Lemma range_setf st g h g' : (forall x, range_le x (h x)) -> range_le (getf st g') (getf (setf st g h) g').
Proof. intros H. rewrite getf_setf. destruct (_ && _)%bool; auto. apply range_le_refl. Qed.

Lemma advance_range st r g q a b m n s p g' : range_le (getf st g') (getf (fst (advance st r g q a b m n s p)) g').
Proof.
  revert s; induction p; intros s; simpl.
  - unfold set_op, setr; simpl. apply (range_setf st g (fun f => set_rl f (pred (f_rl f)))). rr.
  - destruct (has_tok _ _); simpl; auto. apply range_le_refl.
Qed.

Lemma range_trans a b c : range_le a b -> range_le b c -> range_le a c.
Proof. unfold range_le; intros [A [B C]] [D [E F]]; repeat split; try lia; eapply N.le_trans; eauto. Qed.

Lemma step_range c st l g : g < length (fracs st) -> range_le (getf st g) (getf (fst (step c st l)) g).
Proof.
  intros HG. destruct l; simpl.
  - unfold step_w. destruct (nth_error (ws st) (N.to_nat w)) as [x|]; simpl; [|apply range_le_refl].
    destruct (w_pc x) as [|[|[|[|[|[|[|[|[|pc]]]]]]]]]; simpl;
      repeat match goal with
             | |- context [if ?b then _ else _] => destruct b; simpl
             | |- context [let '(_, _) := ?p in _] => destruct p; simpl
             | |- context [match put_order ?a ?b with _ => _ end] => destruct (put_order a b); simpl
             end;
      try apply range_le_refl;
      try (match goal with |- range_le _ (getf (setw (setf ?s ?gg ?h) _ _) _) => apply (range_setf s gg h) end;
           intros y; unfold range_le; simpl; repeat split; try apply N.le_refl; try apply N.le_min_l; try apply N.le_max_l; lia).
  - unfold step_snap. destruct (nth_error _ _) as [x|]; simpl; [|apply range_le_refl]. destruct (r_op x); apply range_le_refl.
  - unfold step_sb. destruct (nth_error (rs st) _) as [x|]; simpl; [|apply range_le_refl].
    destruct (nth_error (c_qs c) _) as [[[qq qf] qt]|]; simpl; [|apply range_le_refl].
    destruct (r_op x); simpl; try apply range_le_refl. destruct (nth_error (r_snap x) _) as [g0|]; simpl; [|apply range_le_refl].
    repeat match goal with |- context [if ?b then _ else _] => destruct b; simpl end; try apply range_le_refl.
    apply (range_setf st g0 (fun f => set_rl f (S (f_rl f)))). rr.
  - unfold step_fb. destruct (nth_error (rs st) _) as [x|]; simpl; [|apply range_le_refl].
    destruct (r_op x); simpl; try apply range_le_refl. destruct (nth_error (r_snap x) _) as [g0|]; simpl; [|apply range_le_refl].
    destruct ids; simpl; try apply range_le_refl.
    repeat match goal with |- context [if ?b then _ else _] => destruct b; simpl end; try apply range_le_refl.
    apply (range_setf st g0 (fun f => set_rl f (S (f_rl f)))). rr.
  - unfold step_r. destruct (nth_error (rs st) _) as [x|]; simpl; [|apply range_le_refl].
    destruct (r_op x) as [|g0 q pc a b m n s p|g0 ids nb]; simpl; try apply range_le_refl.
    + destruct pc; simpl.
      * apply (range_setf st g0 (fun f => set_toks f (upd_tok 0%N merge_tok (f_toks f)))). rr.
      * destruct (forallb _ m); simpl; try apply range_le_refl.
        apply (range_setf st g0 (fun f => set_rl f (pred (f_rl f)))). rr.
      * apply advance_range.
      * destruct p as [|t p]; simpl; try apply range_le_refl.
        eapply range_trans; [|apply advance_range].
        apply (range_setf st g0 (fun f => set_toks f (upd_tok t merge_tok (f_toks f)))). rr.
    + destruct (existsb _ _); simpl; apply (range_setf st g0 (fun f => set_rl f (pred (f_rl f)))); rr.
  - unfold step_rot. destruct (Nat.ltb _ _); simpl; [|apply range_le_refl].
    unfold getf at 2; simpl. rewrite app_nth1 by (rewrite length_upd; auto).
    apply (range_setf st (last_g st) (fun f => set_seal f (f_act f) (f_sld f) (f_ro f) SRot (f_sdocs f))). rr.
  - unfold step_m. destruct (nth_error (fracs st) _) as [f|]; simpl; [|apply range_le_refl].
    destruct (f_seal f); simpl; try apply range_le_refl;
      repeat match goal with |- context [if ?b then _ else _] => destruct b; simpl end; try apply range_le_refl;
      match goal with |- range_le _ (getf (setf ?s ?gg ?h) _) => apply (range_setf s gg h) end; rr.
  - unfold step_sui. destruct (sui_enabled st); simpl; [|apply range_le_refl].
    match goal with |- range_le _ (getf {| fracs := upd ?gg ?h _ |} _) => apply (range_setf st gg h) end.
    intros y; destruct (replaced (f_seal y)); rr.
Qed.

Lemma ids_only_grow c n ls l g :
  let st := exec c (init c n) ls in
  g < length (fracs st) -> length (f_ids (getf st g)) <= length (f_ids (getf (fst (step c st l)) g)).
Proof. intros st HG. apply (step_grow c st l); auto. apply exec_iinv. apply init_iinv. Qed.

Lemma range_only_widens c st l g :
  g < length (fracs st) ->
  let f := getf st g in let f' := getf (fst (step c st l)) g in
  (f_from f' <= f_from f)%N /\ (f_to f <= f_to f')%N /\ f_total f <= f_total f'.
Proof. intros HG. apply (step_range c st l g HG). Qed.
