(* C07 — the file / descriptor layer of the hand-over (ModelFiles.v): invariants over ALL label lists, for both
   values of SkipSortDocs and KeepMetaFile. *)
From Coq Require Import List Bool Arith NArith Lia.
From C07 Require Import Model ModelFiles ProofsInv ProofsFetch.
Import ListNotations.

(* ---------------------------------------------------------------- the part of a fraction the file layer looks at *)
Record ckey := mkCk { ck_act : bool; ck_sld : bool; ck_seal : spc; ck_ssui : bool }.
Definition ck_of (f : frac) : ckey := mkCk (f_act f) (f_sld f) (f_seal f) (f_ssui f).
Definition cks (st : state) : list ckey := map ck_of (fracs st).

Lemma cks_setw st w h : cks (setw st w h) = cks st. Proof. reflexivity. Qed.
Lemma cks_setr st r h : cks (setr st r h) = cks st. Proof. reflexivity. Qed.
Lemma cks_setf_same st g h : (forall x, ck_of (h x) = ck_of x) -> cks (setf st g h) = cks st.
Proof. intros; unfold cks, setf; simpl; apply map_upd_same; auto. Qed.
Lemma ck_set_rl f n : ck_of (set_rl f n) = ck_of f. Proof. reflexivity. Qed.
Lemma ck_set_toks f t : ck_of (set_toks f t) = ck_of f. Proof. reflexivity. Qed.

Lemma advance_cks st r g q a b m n s p : cks (fst (advance st r g q a b m n s p)) = cks st.
Proof.
  revert s; induction p; intros s; simpl.
  - unfold set_op. rewrite cks_setr. apply cks_setf_same; intros; apply ck_set_rl.
  - destruct (has_tok a0 (f_toks (getf st g))); simpl; auto.
Qed.

Lemma step_r_cks c st r : cks (fst (step_r c st r)) = cks st.
Proof.
  unfold step_r. destruct (nth_error (rs st) r) as [x|]; simpl; auto.
  destruct (r_op x) as [|g q pc a b m n s p|g ids nb]; simpl; auto.
  - destruct pc; simpl.
    + unfold set_op; rewrite cks_setr. apply cks_setf_same; intros; apply ck_set_toks.
    + destruct (forallb _ m); simpl; auto. unfold set_op; rewrite cks_setr.
      apply cks_setf_same; intros; apply ck_set_rl.
    + apply advance_cks.
    + destruct p as [|t p]; simpl; auto.
      rewrite advance_cks. apply cks_setf_same; intros; apply ck_set_toks.
  - destruct (existsb _ _); simpl; unfold set_op; rewrite cks_setr;
      apply cks_setf_same; intros; apply ck_set_rl.
Qed.

Lemma step_sb_cks c st r j q : cks (fst (step_sb c st r j q)) = cks st.
Proof.
  unfold step_sb. destruct (nth_error (rs st) r) as [x|]; simpl; auto.
  destruct (nth_error (c_qs c) q) as [[[qq qf] qt]|]; simpl; auto.
  destruct (r_op x); simpl; auto. destruct (nth_error (r_snap x) j) as [g|]; simpl; auto.
  repeat match goal with |- context [if ?b then _ else _] => destruct b; simpl; auto end.
  unfold set_op; rewrite cks_setr. apply cks_setf_same; intros; apply ck_set_rl.
Qed.

Lemma step_fb_cks c st r j ids : cks (fst (step_fb c st r j ids)) = cks st.
Proof.
  unfold step_fb. destruct (nth_error (rs st) r) as [x|]; simpl; auto.
  destruct (r_op x); simpl; auto. destruct (nth_error (r_snap x) j) as [g|]; simpl; auto.
  destruct ids; simpl; auto.
  repeat match goal with |- context [if ?b then _ else _] => destruct b; simpl; auto end.
  unfold set_op; rewrite cks_setr. apply cks_setf_same; intros; apply ck_set_rl.
Qed.

Lemma step_snap_cks st r : cks (fst (step_snap st r)) = cks st.
Proof.
  unfold step_snap. destruct (nth_error (rs st) r) as [x|]; simpl; auto. destruct (r_op x); simpl; auto.
Qed.

Ltac same_ck := simpl; rewrite ?cks_setw; first [reflexivity | apply cks_setf_same; intros; reflexivity].

Lemma step_w_cks c st w : cks (fst (step_w c st w)) = cks st.
Proof.
  unfold step_w. destruct (nth_error (ws st) w) as [x|]; simpl; auto.
  destruct (w_pc x) as [|[|[|[|[|[|[|[|[|pc]]]]]]]]]; simpl.
  - destruct (Nat.ltb _ _); same_ck.
  - destruct (f_act (getf st (w_g x)) && negb (f_sld (getf st (w_g x))) && negb (f_ro (getf st (w_g x))))%bool; same_ck.
  - same_ck.
  - destruct (set_multiple _ _ _ _); same_ck.
  - same_ck.
  - same_ck.
  - destruct (put_order _ _); same_ck.
  - destruct (Nat.ltb _ _); same_ck.
  - same_ck.
  - same_ck.
Qed.

(* ---------------------------------------------------------------- the invariant *)
(* what the active form of a fraction needs / what the sealed form built by the seal needs *)
Definition act_ok (r : fres) : bool := (fd_docs r && fd_meta r && fl_docs r && fl_meta r)%bool.
Definition built (o : fopts) (r : fres) : bool :=
  (fd_index r && fl_index r && dsrc_eqb (r_reads r) (if o_skip_sort o then DActive else DSorted)
   && sealed_read_ok r && sealed_file_ok r)%bool.

Definition rinv (o : fopts) (k : ckey) (r : fres) : Prop :=
  (ck_act k = true -> act_ok r = true)
  /\ (ck_seal k = SBuilt -> built o r = true)
  /\ (ck_sld k = true -> ck_ssui k = false -> built o r = true).

Definition RInv (o : fopts) (fs : list frac) (rs : list fres) : Prop :=
  length rs = length fs
  /\ forall n f r, nth_error fs n = Some f -> nth_error rs n = Some r -> rinv o (ck_of f) r.

Definition XInv (o : fopts) (xs : xstate) : Prop := Inv (fst xs) /\ RInv o (fracs (fst xs)) (snd xs).

Lemma RInv_same o fs fs' rs : map ck_of fs' = map ck_of fs -> RInv o fs rs -> RInv o fs' rs.
Proof.
  intros E [L H]. split.
  - rewrite L. rewrite <- (map_length ck_of fs), <- E, map_length. reflexivity.
  - intros n f' r F R.
    assert (E1 : nth_error (map ck_of fs') n = Some (ck_of f')) by (rewrite nth_error_map, F; reflexivity).
    rewrite E, nth_error_map in E1. destruct (nth_error fs n) as [f|] eqn:F0; simpl in E1; [|discriminate].
    assert (E2 : ck_of f' = ck_of f) by congruence. rewrite E2. eapply H; eauto.
Qed.

Lemma RInv_upd o fs rs g h k :
  RInv o fs rs ->
  (forall f r, nth_error fs g = Some f -> nth_error rs g = Some r -> rinv o (ck_of f) r -> rinv o (ck_of (h f)) (k r)) ->
  RInv o (upd g h fs) (upd g k rs).
Proof.
  intros [L H] HK. split; [rewrite !length_upd; auto|].
  intros n f r F R. rewrite nth_error_upd in F. rewrite nth_error_upd in R.
  destruct (Nat.eqb_spec n g) as [E|E].
  - subst n. destruct (nth_error fs g) as [f0|] eqn:F0; simpl in F; [|discriminate].
    destruct (nth_error rs g) as [r0|] eqn:R0; simpl in R; [|discriminate].
    inversion F; inversion R; subst. apply HK; auto. eapply H; eauto.
  - eapply H; eauto.
Qed.

Lemma upd_id {A} g (l : list A) : upd g (fun x => x) l = l.
Proof. revert g; induction l; destruct g; simpl; auto; rewrite IHl; auto. Qed.

Lemma RInv_updf o fs rs g h :
  RInv o fs rs ->
  (forall f r, nth_error fs g = Some f -> nth_error rs g = Some r -> rinv o (ck_of f) r -> rinv o (ck_of (h f)) r) ->
  RInv o (upd g h fs) rs.
Proof. intros A B. rewrite <- (upd_id g rs). apply RInv_upd; auto. Qed.

(* table facts of ProofsInv.Inv for one fraction *)
Lemma inv_table st g f : Inv st -> nth_error (fracs st) g = Some f -> table_ok (key_of f) = true.
Proof.
  intros HI E. assert (P : pf (shift st) (length (keys st)) g (key_of f))
    by (apply HI; unfold keys; rewrite nth_error_map, E; auto).
  destruct P as [T _]. exact T.
Qed.

(* ---------------------------------------------------------------- resource operations *)
Lemma built_release o r : o_close_in_releasemem o = false -> built o r = true -> built o (active_release o r) = true.
Proof.
  intros V B. unfold built, active_release, release_mem, remove_docs_files in *. rewrite V.
  destruct o as [sk km cv]; simpl in *. destruct r as [a b c0 d e f0 g0 h rr]; simpl in *.
  destruct sk, km, rr; simpl in *; auto; try discriminate;
    repeat (apply andb_prop in B as [B ?]); subst; simpl; auto; try discriminate.
Qed.

Lemma built_seal_build o r : act_ok r = true -> built o (seal_build o r) = true.
Proof.
  unfold act_ok, built, seal_build. destruct o as [sk km cv]; destruct r as [a b c0 d e f0 g0 h rr]; simpl.
  intros A. repeat (apply andb_prop in A as [A ?]); subst. destruct sk; reflexivity.
Qed.

Lemma act_ok_seal_build o r : act_ok (seal_build o r) = act_ok r.
Proof. unfold act_ok, seal_build. destruct (o_skip_sort o); reflexivity. Qed.

(* ---------------------------------------------------------------- one step *)
Lemma step_rinv o c st rs l :
  o_close_in_releasemem o = false -> Inv st -> RInv o (fracs st) rs ->
  RInv o (fracs (fst (step c st l))) (res_step o st rs l).
Proof.
  intros V HI HR. destruct l; simpl.
  - eapply RInv_same; [apply (step_w_cks c st (N.to_nat w))|auto].
  - eapply RInv_same; [apply (step_snap_cks st (N.to_nat r))|auto].
  - eapply RInv_same; [apply (step_sb_cks c st (N.to_nat r) (N.to_nat j) (N.to_nat q))|auto].
  - eapply RInv_same; [apply (step_fb_cks c st (N.to_nat r) (N.to_nat j) ids)|auto].
  - eapply RInv_same; [apply (step_r_cks c st (N.to_nat r))|auto].
  - (* rotate *)
    unfold step_rot. destruct (Nat.ltb 0 (f_subs (getf st (last_g st)))); simpl; auto.
    assert (HU : RInv o (upd (last_g st) (fun f => set_seal f (f_act f) (f_sld f) (f_ro f) SRot (f_sdocs f)) (fracs st)) rs).
    { apply RInv_updf; auto. intros f r _ _ [A [B C]]. unfold rinv; simpl. repeat split; auto. discriminate. }
    destruct HU as [L H]. split; [rewrite !app_length, L; reflexivity|].
    intros n f r F R.
    destruct (Nat.lt_ge_cases n (length rs)) as [LT|GE].
    + rewrite nth_error_app1 in R by auto. rewrite nth_error_app1 in F by (rewrite <- L; auto). eapply H; eauto.
    + rewrite nth_error_app2 in R by auto. rewrite nth_error_app2 in F by (rewrite <- L; auto). rewrite <- L in F.
      destruct (n - length rs) as [|m]; simpl in *; [|destruct m; discriminate].
      inversion F; inversion R; subst. unfold rinv; simpl. repeat split; auto; discriminate.
  - (* seal thread *)
    unfold step_m. destruct (nth_error (fracs st) (N.to_nat g)) as [f|] eqn:E; simpl; auto.
    pose proof (inv_table st _ f HI E) as T. unfold table_ok, key_of in T; simpl in T.
    destruct (f_seal f) eqn:ES; simpl; auto.
    + (* SRot *) destruct (negb (f_act f || f_sld f)); simpl; apply RInv_updf; auto;
        intros f' r F' _ [A [B C]]; unfold rinv; simpl; repeat split; auto; discriminate.
    + (* SRo *) destruct (Nat.eqb (f_wg f) 0); simpl; auto. apply RInv_updf; auto.
      intros f' r F' _ [A [B C]]; unfold rinv; simpl; repeat split; auto; discriminate.
    + (* SIdle: frac.Seal *) apply RInv_upd; auto.
      intros f' r F' _ [A [B C]]. rewrite E in F'; inversion F'; subst f'.
      apply andb_prop in T as [T T3]. apply andb_prop in T as [T1 T2]. apply negb_true_iff in T2.
      unfold rinv; simpl. rewrite T1, T2 in *. repeat split; intros; try discriminate.
      * rewrite act_ok_seal_build; auto.
      * apply built_seal_build; auto.
    + (* SBuilt: swap *) apply RInv_updf; auto.
      intros f' r F' _ [A [B C]]. rewrite E in F'; inversion F'; subst f'.
      unfold rinv in *; simpl in *. rewrite ES in B. repeat split; intros; try discriminate. auto.
    + (* SSwapped: Active.Release *) destruct (Nat.eqb (f_rl f) 0); simpl; auto. apply RInv_upd; auto.
      intros f' r F' _ [A [B C]]. rewrite E in F'; inversion F'; subst f'.
      unfold rinv in *; simpl in *. rewrite ES in *.
      assert (FA : f_act f = false).
      { destruct (f_act f); auto; simpl in T; discriminate. }
      rewrite FA in *. repeat split; intros; try discriminate. apply built_release; auto.
    + (* SReleased *) apply RInv_updf; auto.
      intros f' r F' _ [A [B C]]; unfold rinv in *; simpl in *. repeat split; auto; discriminate.
    + (* SRepl *) apply RInv_updf; auto.
      intros f' r F' _ [A [B C]]; unfold rinv in *; simpl in *. repeat split; auto; discriminate.
  - (* retention *)
    unfold step_sui. destruct (sui_enabled st) eqn:EN; simpl; auto.
    apply RInv_upd; auto. intros f r F _ _.
    unfold sui_enabled in EN. apply andb_prop in EN as [_ E4]. rewrite (nth_error_getf _ _ _ F) in E4.
    pose proof (inv_table st _ f HI F) as T. unfold table_ok, key_of in T; simpl in T.
    destruct (replaced (f_seal f)) eqn:RP; unfold rinv; simpl.
    + destruct (f_seal f); simpl in *; try discriminate.
      assert (FA : f_act f = false) by (destruct (f_act f); auto; simpl in T; discriminate).
      rewrite FA. repeat split; intros; discriminate.
    + repeat split; intros; try discriminate. destruct (f_seal f); simpl in *; discriminate.
Qed.

Lemma xstep_fst o c xs l : fst (fst (xstep o c xs l)) = fst (step c (fst xs) l).
Proof. destruct xs as [st rs]. unfold xstep. simpl. destruct (step c st l); reflexivity. Qed.

Lemma xstep_snd o c xs l : snd (fst (xstep o c xs l)) = res_step o (fst xs) (snd xs) l.
Proof. destruct xs as [st rs]. unfold xstep. simpl. destruct (step c st l); reflexivity. Qed.

Lemma xstep_obs o c xs l : snd (xstep o c xs l) = xobs (fst xs) (snd xs) l (snd (step c (fst xs) l)).
Proof. destruct xs as [st rs]. unfold xstep. simpl. destruct (step c st l); reflexivity. Qed.

Lemma xstep_inv o c xs l : o_close_in_releasemem o = false -> XInv o xs -> XInv o (fst (xstep o c xs l)).
Proof.
  intros V [HI HR]. unfold XInv. rewrite xstep_fst, xstep_snd. split.
  - apply step_inv; auto.
  - apply step_rinv; auto.
Qed.

Lemma xinit_inv o c n : XInv o (xinit c n).
Proof.
  split; [apply init_inv|]. simpl. split; auto.
  intros g f r F R. destruct g as [|[|g]]; simpl in *; try discriminate.
  inversion F; inversion R; subst. unfold rinv; simpl. repeat split; auto; discriminate.
Qed.

Lemma xexec_inv o c ls : o_close_in_releasemem o = false -> forall xs, XInv o xs -> XInv o (xexec o c xs ls).
Proof. intros V. induction ls; simpl; intros xs H; auto. apply IHls. apply xstep_inv; auto. Qed.

(* the file layer never changes what the index model does: projection *)
Lemma xexec_fst o c ls : forall xs, fst (xexec o c xs ls) = exec c (fst xs) ls.
Proof. induction ls; simpl; intros xs; auto. rewrite IHls, xstep_fst. reflexivity. Qed.

Lemma xreach_inv o c n ls : o_close_in_releasemem o = false -> XInv o (xexec o c (xinit c n) ls).
Proof. intros V. apply xexec_inv; auto. apply xinit_inv. Qed.

(* ---------------------------------------------------------------- resources and who uses them *)
Inductive rsrc := FdDocs | FdMeta | FdSdocs | FdIndex | FlDocs | FlMeta | FlSdocs | FlIndex.
Definition rget (d : rsrc) (r : fres) : bool :=
  match d with
  | FdDocs => fd_docs r | FdMeta => fd_meta r | FdSdocs => fd_sdocs r | FdIndex => fd_index r
  | FlDocs => fl_docs r | FlMeta => fl_meta r | FlSdocs => fl_sdocs r | FlIndex => fl_index r
  end.
(* the active form writes and reads .docs and .meta through its two descriptors *)
Definition act_uses (d : rsrc) : bool :=
  match d with FdDocs | FdMeta | FlDocs | FlMeta => true | _ => false end.
(* the sealed form reads the index and the documents through the descriptor it was given by the seal *)
Definition sealed_uses (r : fres) (d : rsrc) : bool :=
  match d with
  | FdIndex | FlIndex => true
  | FdDocs | FlDocs => dsrc_eqb (r_reads r) DActive
  | FdSdocs | FlSdocs => dsrc_eqb (r_reads r) DSorted
  | _ => false
  end.
(* d is used by a LIVE provider of the fraction: its active form while proxyFrac.active != nil, its sealed form
   while installed (in the proxy or in the list) and not suicided *)
Definition used (f : frac) (r : fres) (d : rsrc) : bool :=
  ((f_act f && act_uses d) || (f_sld f && negb (f_ssui f) && sealed_uses r d))%bool.

Lemma rinv_used o f r d : rinv o (ck_of f) r -> used f r d = true -> rget d r = true.
Proof.
  intros [A [_ C]] U. unfold used in U. apply orb_prop in U as [U|U].
  - apply andb_prop in U as [U1 U2]. specialize (A U1). unfold act_ok in A.
    repeat (apply andb_prop in A as [A ?]). destruct d; simpl in *; auto; discriminate.
  - apply andb_prop in U as [U U3]. apply andb_prop in U as [U1 U2]. apply negb_true_iff in U2.
    specialize (C U1 U2). unfold built, sealed_read_ok, sealed_file_ok in C.
    repeat (apply andb_prop in C as [C ?]).
    destruct d; simpl in *; auto; try discriminate; destruct (r_reads r); simpl in *; auto; discriminate.
Qed.

(* T1: in every reachable state, in both modes, every resource a live provider uses is there *)
Lemma live_resources_open o c n ls g f r d :
  o_close_in_releasemem o = false ->
  let xs := xexec o c (xinit c n) ls in
  nth_error (fracs (fst xs)) g = Some f -> nth_error (snd xs) g = Some r ->
  used f r d = true -> rget d r = true.
Proof.
  intros V xs F R U. destruct (xreach_inv o c n ls V) as [_ [_ H]]. eapply rinv_used; eauto.
Qed.

(* T2: no step of any thread takes a resource away from a provider that is live after the step *)
Lemma closes_only_unused o c n ls l g f' r r' d :
  o_close_in_releasemem o = false ->
  let xs := xexec o c (xinit c n) ls in
  let xs' := fst (xstep o c xs l) in
  nth_error (snd xs) g = Some r ->
  nth_error (fracs (fst xs')) g = Some f' -> nth_error (snd xs') g = Some r' ->
  rget d r = true -> rget d r' = false -> used f' r' d = false.
Proof.
  intros V xs xs' R F' R' G G'.
  destruct (used f' r' d) eqn:U; auto.
  assert (HX : XInv o xs') by (apply xstep_inv; auto; apply xreach_inv; auto).
  destruct HX as [_ [_ H]]. rewrite (rinv_used o f' r' d (H _ _ _ F' R') U) in G'. discriminate.
Qed.

(* the release step itself: Active.Release is what runs between seal.swapped and seal.released, and what it closes and
   removes belongs to the active form only - in both modes *)
Lemma release_effect o c n ls g f r :
  o_close_in_releasemem o = false ->
  let xs := xexec o c (xinit c n) ls in
  nth_error (fracs (fst xs)) (N.to_nat g) = Some f -> nth_error (snd xs) (N.to_nat g) = Some r ->
  f_seal f = SSwapped -> f_rl f = 0 ->
  let r' := active_release o r in
  snd (xstep o c xs (LM g)) = OHook 34
  /\ nth_error (snd (fst (xstep o c xs (LM g)))) (N.to_nat g) = Some r'
  /\ fd_sdocs r' = fd_sdocs r /\ fd_index r' = fd_index r /\ fl_sdocs r' = fl_sdocs r /\ fl_index r' = fl_index r
  /\ r_reads r' = r_reads r
  /\ (o_skip_sort o = true -> fd_docs r' = fd_docs r /\ fl_docs r' = fl_docs r)
  /\ fd_meta r' = false
  /\ (o_skip_sort o = false -> fd_docs r' = false /\ fl_docs r' = false)
  /\ (o_keep_meta o = false -> fl_meta r' = false)
  /\ (o_keep_meta o = true -> fl_meta r' = fl_meta r)
  /\ (f_sld f = true -> f_ssui f = false ->
        sealed_read_ok r' = true /\ sealed_file_ok r' = true /\ fd_index r' = true /\ fl_index r' = true).
Proof.
  intros V xs F R ES RL r'.
  split; [|split].
  - rewrite xstep_obs. simpl. unfold step_m. rewrite F, ES, RL. reflexivity.
  - rewrite xstep_snd. simpl. rewrite F, ES, RL. simpl. rewrite nth_error_upd, Nat.eqb_refl, R. reflexivity.
  - assert (HB : f_sld f = true -> f_ssui f = false -> built o r' = true).
    { intros S1 S2. destruct (xreach_inv o c n ls V) as [_ [_ H]]. destruct (H _ _ _ F R) as [_ [_ C]].
      apply built_release; auto. }
    subst r'. unfold active_release, release_mem, remove_docs_files in *. rewrite V in *.
    destruct o as [sk km cv]; destruct r as [a b c0 d e f0 g0 h rr]; simpl in *.
    destruct sk, km; simpl in *; repeat split; intros; try discriminate; auto;
      match goal with
      | S1 : f_sld f = true, S2 : f_ssui f = false |- _ =>
          specialize (HB S1 S2); unfold built, sealed_read_ok, sealed_file_ok in HB; simpl in HB;
          repeat (apply andb_prop in HB as [HB ?]); auto
      end.
Qed.

(* T3: the file layer never turns an answer into an error - in every reachable state, for every label, in both modes *)
Lemma no_read_error o c n ls l :
  o_close_in_releasemem o = false ->
  let xs := xexec o c (xinit c n) ls in
  snd (xstep o c xs l) = snd (step c (fst xs) l).
Proof.
  intros V xs. rewrite xstep_obs. destruct (xreach_inv o c n ls V) as [_ [LEN H]]. fold xs in LEN, H.
  assert (K : forall g, sealed_live (getf (fst xs) g) = true ->
                        fd_index (getres (snd xs) g) = true /\ sealed_read_ok (getres (snd xs) g) = true).
  { intros g SL. unfold sealed_live in SL. apply andb_prop in SL as [SL S3]. apply andb_prop in SL as [S1 S2].
    apply negb_true_iff in S3.
    destruct (nth_error (fracs (fst xs)) g) as [f|] eqn:F.
    - assert (LT : g < length (snd xs)) by (rewrite LEN; apply nth_error_Some; congruence).
      assert (R : nth_error (snd xs) g = Some (getres (snd xs) g)) by (unfold getres; apply nth_error_nth'; auto).
      rewrite (nth_error_getf _ _ _ F) in *.
      destruct (H _ _ _ F R) as [_ [_ C]]. specialize (C S2 S3). unfold built in C.
      repeat (apply andb_prop in C as [C ?]). auto.
    - unfold getf in S2. rewrite (nth_error_nth' (fracs (fst xs)) new_frac) in F.
      + discriminate.
      + exfalso. apply nth_error_None in F. unfold getf in S2.
        rewrite nth_overflow in S2 by auto. simpl in S2. discriminate. }
  unfold xobs. destruct l; auto.
  - destruct (nth_error (rs (fst xs)) (N.to_nat r)) as [x|]; auto.
    destruct (r_op x); auto. destruct (nth_error (r_snap x) (N.to_nat j)) as [g|]; auto.
    destruct (snd (step c (fst xs) (LSB r j q))); auto.
    destruct (sealed_live (getf (fst xs) g)) eqn:SL; simpl; auto.
    destruct (K g SL) as [K1 _]. rewrite K1. reflexivity.
  - destruct (nth_error (rs (fst xs)) (N.to_nat r)) as [x|]; auto.
    destruct (r_op x); auto. destruct (nth_error (r_snap x) (N.to_nat j)) as [g|]; auto.
    destruct (snd (step c (fst xs) (LFB r j ids))); auto.
    destruct (sealed_live (getf (fst xs) g)) eqn:SL; simpl; auto.
    destruct (K g SL) as [K1 K2]. rewrite K1, K2. rewrite orb_true_r. reflexivity.
Qed.

(* T4: end to end, both modes. An ID a search on the active fraction returned stays fetchable through the sealed
   provider after the hand-over: whatever happens after the search (ls2: the rest of the bulk, rotations, the whole
   seal with Active.Release, other fractions' retention ...), once the fraction is served by its live sealed form a
   fetch through any list entry that still points to it returns the document, and the descriptors that fetch reads
   through are open. *)
Lemma exec_app c l1 : forall st l2, exec c st (l1 ++ l2) = exec c (exec c st l1) l2.
Proof. induction l1; simpl; intros; auto. Qed.

Lemma fetch_published_sealed_both_modes o c n ls r x g q pc a b m nn s p ids ls2 y r2 x2 j idsF k :
  o_close_in_releasemem o = false -> v_all_last (c_ver c) = true ->
  let st := exec c (init c n) ls in
  nth_error (rs st) (N.to_nat r) = Some x -> r_op x = RSearch g q pc a b m nn s p ->
  snd (step c st (LR r)) = ORes ids -> In y ids ->
  let xs2 := xexec o c (xinit c n) (ls ++ LR r :: ls2) in
  let st2 := fst xs2 in
  nth_error (rs st2) (N.to_nat r2) = Some x2 -> r_op x2 = RIdle -> nth_error (r_snap x2) (N.to_nat j) = Some g ->
  g < length (fracs st2) ->
  f_act (getf st2 g) = false -> f_sld (getf st2 g) = true -> f_ssui (getf st2 g) = false ->
  nth_error idsF k = Some y ->
  sealed_read_ok (getres (snd xs2) g) = true /\ fd_index (getres (snd xs2) g) = true
  /\ exists bodies body, snd (xstep o c xs2 (LFB r2 j idsF)) = OFetch bodies /\ nth_error bodies k = Some (Some body).
Proof.
  intros V VA st EX OP RES HY xs2 st2 EX2 OP2 EG LG FA FS FU NK.
  assert (E2 : st2 = exec c (init c n) (ls ++ LR r :: ls2)).
  { unfold st2, xs2. rewrite xexec_fst. reflexivity. }
  assert (PUB : published (getf st2 g) y).
  { rewrite E2, exec_app. simpl. eapply search_then_published; eauto. }
  split; [|split].
  - destruct (xreach_inv o c n (ls ++ LR r :: ls2) V) as [_ [LEN H]]. fold xs2 in LEN, H. fold st2 in LEN, H.
    assert (F : nth_error (fracs st2) g = Some (getf st2 g)) by (unfold getf; apply nth_error_nth'; auto).
    assert (R : nth_error (snd xs2) g = Some (getres (snd xs2) g))
      by (unfold getres; apply nth_error_nth'; rewrite LEN; auto).
    destruct (H _ _ _ F R) as [_ [_ C]]. simpl in C. specialize (C FS FU). unfold built in C.
    repeat (apply andb_prop in C as [C ?]). auto.
  - destruct (xreach_inv o c n (ls ++ LR r :: ls2) V) as [_ [LEN H]]. fold xs2 in LEN, H. fold st2 in LEN, H.
    assert (F : nth_error (fracs st2) g = Some (getf st2 g)) by (unfold getf; apply nth_error_nth'; auto).
    assert (R : nth_error (snd xs2) g = Some (getres (snd xs2) g))
      by (unfold getres; apply nth_error_nth'; rewrite LEN; auto).
    destruct (H _ _ _ F R) as [_ [_ C]]. simpl in C. specialize (C FS FU). unfold built in C.
    repeat (apply andb_prop in C as [C ?]). auto.
  - unfold xs2. rewrite (no_read_error o c n (ls ++ LR r :: ls2) (LFB r2 j idsF) V). fold xs2. fold st2.
    simpl. rewrite E2 in *. eapply fb_sealed; eauto.
Qed.
