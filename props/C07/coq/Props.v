(* C07 — property theorems. Nothing but statements closed by `exact <lemma>`, Print Assumptions beneath each,
   and the Examples (witness schedules: hypotheses are satisfiable, the three repaired defects stay documented). *)
From Coq Require Import List Bool Arith NArith.
From C07 Require Import Model ModelFiles ModelPool ProofsInv ProofsIdx ProofsSafe ProofsCount ProofsFetch ProofsQuiesce ProofsFiles ProofsPool.
Import ListNotations.

(* thm:C07_handover_no_gap, part 1 — the proxyFrac automaton. In EVERY state reachable by ANY label list (any
   number of writers, readers, rotations, seals, deletions, in any interleaving) every fraction is in one of the
   four states of the table in proxy_frac.go (Active, Sealing, Sealed, Suicided), and `active = nil /\ sealed = nil`
   only for a fraction retention has removed from the list: a listed fraction always has a data provider. *)
Theorem C07_handover_four_states :
  forall c n ls g f,
    nth_error (fracs (exec c (init c n) ls)) g = Some f ->
    (state_code f = 0 \/ state_code f = 1 \/ state_code f = 2 \/ state_code f = 3)%N
    /\ (state_code f = 3%N -> g < shift (exec c (init c n) ls)).
Proof. exact proxy_four_states. Qed.
Print Assumptions C07_handover_four_states.

(* thm:C07_handover_no_gap, part 2 — once the seal thread of a fraction is past WaitWriteIdle (so in particular
   when frac.Seal reads the index and when the sealed fraction replaces the active one) the fraction's index
   WaitGroup is zero, the fraction is not the current writer, it is not writable, and an Append that had picked it
   is refused and goes back to FracManager.Writer() (the current writer): no bulk is indexed into a fraction behind
   the sealer's back, none is dropped. All reachable states, all schedules. *)
Theorem C07_handover_no_gap :
  forall c n ls g f,
    let st := exec c (init c n) ls in
    nth_error (fracs st) g = Some f ->
    idle_passed (f_seal f) = true ->
    f_wg f = 0
    /\ (f_act f && negb (f_sld f) && negb (f_ro f) = false)%bool
    /\ g <> last_g st
    /\ forall w x, nth_error (ws st) w = Some x -> w_pc x = 1 -> w_g x = g ->
         snd (step_w c st w) = OHook 1 /\
         nth_error (ws (fst (step_w c st w))) w = Some (mkW (w_cur x) 1 (last_g st) 0 [] 0 [] 0).
Proof. exact handover_no_gap. Qed.
Print Assumptions C07_handover_no_gap.

(* thm:C07_handover_no_gap, part 3 — the counting invariant: indexWg of a fraction is the number of writers that are
   mid-bulk on it, so indexWg = 0 (which part 2 shows from WaitWriteIdle on) means NO writer is between an accepted
   Append and wg.Done on that fraction: frac.Seal reads a quiescent index. All reachable states. *)
Theorem C07_handover_wg_zero_no_writer :
  forall c n ls g f,
    let st := exec c (init c n) ls in
    nth_error (fracs st) g = Some f -> f_wg f = 0 ->
    forall w x, nth_error (ws st) w = Some x -> 2 <= w_pc x -> w_g x <> g.
Proof. exact wg_zero_no_writer. Qed.
Print Assumptions C07_handover_wg_zero_no_writer.

(* thm:C07_reader_safe — for the code as it is now (all-token queued last), in EVERY state reachable by ANY label
   list, for every reader and every way its next step can produce an answer:
   (1)(2) every ID a search returns (in one step on a sealed/empty fraction, or at the last leaf of a stepwise search
          on the active fraction) is the ID of a document d of a bulk this fraction accepted, lies in the query range,
          and d's tokens satisfy the query (AND / OR / NAND / NOT over literal tokens, as parsed);
   (3)(4) every body a fetch returns for a requested ID is the body of a document with that ID in a bulk this fraction
          accepted (exactly its bytes) - whichever interleaving, whichever fetch-guard setting.
   What holds for NOT-found is C07_fetch_after_search below. *)
Theorem C07_reader_safe :
  forall c n ls, v_all_last (c_ver c) = true ->
  let st := exec c (init c n) ls in
  forall r x, nth_error (rs st) (N.to_nat r) = Some x ->
    (forall j qn g q ids,
        nth_error (r_snap x) (N.to_nat j) = Some g -> nth_error (c_qs c) (N.to_nat qn) = Some q ->
        snd (step c st (LSB r j qn)) = ORes ids -> sound_res c (getf st g) q ids)
    /\ (forall g q pc a b m nn s p ids,
        r_op x = RSearch g q pc a b m nn s p ->
        snd (step c st (LR r)) = ORes ids -> sound_res c (getf st g) q ids)
    /\ (forall j ids g bodies,
        nth_error (r_snap x) (N.to_nat j) = Some g ->
        snd (step c st (LFB r j ids)) = OFetch bodies -> Forall2 (sound_body c (getf st g)) ids bodies)
    /\ (forall g fl nb bodies,
        r_op x = RFetch g fl nb ->
        snd (step c st (LR r)) = OFetch bodies ->
        Forall2 (fun xb ob => sound_body c (getf st g) (fst xb) ob) fl bodies).
Proof. exact reader_safe. Qed.
Print Assumptions C07_reader_safe.

(* the invariant the a28a3f7 repair establishes: a LID in the all-token's posting is in the posting of every token
   of its document (the all-token is queued last by every writer) *)
Theorem C07_reader_safe_all_token_last :
  forall c n ls g f lid d t,
    v_all_last (c_ver c) = true ->
    nth_error (fracs (exec c (init c n) ls)) g = Some f ->
    In lid (post f 0%N) -> ldoc f lid d -> memN t (d_toks d) = true -> In lid (post f t).
Proof. exact all_token_last. Qed.
Print Assumptions C07_reader_safe_all_token_last.

(* thm:C07_reader_safe, "fetched immediately" — what holds for an ID that an EARLIER search returned. `published f y`:
   y has a position in a registered block of f, its MID is inside f's published range (Contains routes the fetch to
   f), and one of its LIDs is in the all-posting.
   (a) every ID a stepwise search on the active fraction returns is published in that fraction, and stays published in
       every later state, whatever any thread does (ls2 arbitrary);
   (b) a fetch of a published ID through a list entry served by the SEALED provider (hand-over finished) finds it;
   (c) a fetch of a published ID served by the ACTIVE provider parks at fetch.start with the ID routed to this
       fraction, and whatever happens before it continues (ls3 arbitrary, the reader itself untouched), its answer has
       the document: the 5d51c58 "newer than the snapshot" not-found can only hit documents that were NOT yet
       published when the fetch's provider was created.
   Not covered: a fraction retention deleted meanwhile (active = sealed = nil: the fetch answers not-found). *)
Theorem C07_fetch_after_search_published :
  forall c n ls r x g q pc a b m nn s p ids ls2 y,
    v_all_last (c_ver c) = true ->
    let st := exec c (init c n) ls in
    nth_error (rs st) (N.to_nat r) = Some x -> r_op x = RSearch g q pc a b m nn s p ->
    snd (step c st (LR r)) = ORes ids -> In y ids ->
    published (getf (exec c (fst (step c st (LR r))) ls2) g) y.
Proof. exact search_then_published. Qed.
Print Assumptions C07_fetch_after_search_published.

Theorem C07_fetch_published_sealed :
  forall c n ls r j ids x g y k,
    let st := exec c (init c n) ls in
    nth_error (rs st) r = Some x -> r_op x = RIdle -> nth_error (r_snap x) j = Some g ->
    g < length (fracs st) ->
    f_act (getf st g) = false -> f_sld (getf st g) = true -> f_ssui (getf st g) = false ->
    published (getf st g) y -> nth_error ids k = Some y ->
    exists bodies body, snd (step_fb c st r j ids) = OFetch bodies /\ nth_error bodies k = Some (Some body).
Proof. exact fb_sealed. Qed.
Print Assumptions C07_fetch_published_sealed.

Theorem C07_fetch_published_active :
  forall c st r j ids x g y k ls3,
    v_fetch_guard (c_ver c) = true ->
    nth_error (rs st) (N.to_nat r) = Some x -> r_op x = RIdle -> nth_error (r_snap x) (N.to_nat j) = Some g ->
    g < length (fracs st) -> f_act (getf st g) = true ->
    published (getf st g) y -> nth_error ids k = Some y ->
    let st' := fst (step c st (LFB r j ids)) in
    snd (step c st (LFB r j ids)) = OHook 24 /\
    forall st3, st3 = exec c st' ls3 -> nth_error (rs st3) (N.to_nat r) = nth_error (rs st') (N.to_nat r) ->
      exists bodies body, snd (step c st3 (LR r)) = OFetch bodies /\ nth_error bodies k = Some (Some body).
Proof. exact fetch_active_chain. Qed.
Print Assumptions C07_fetch_published_active.

(* thm:C07_quiescent_equiv — in EVERY reachable state, for every fraction with no writer mid-bulk (indexWg = 0, which
   by C07_handover_wg_zero_no_writer means no accepted Append is still being indexed), whatever interleaving led
   there, the index is exact:
     every entry of the ID table is in token t's posting iff its document carries t,
     every entry lies inside the published range of a non-empty fraction,
     every document of every accepted bulk has its ID in the table and a position,
     the table holds only documents of accepted bulks.
   These four facts determine the index up to the numbering of the LIDs (and the choice among documents that share
   an ID). A sequential ingest of the same bulks, in ack order or any other, is just another label list, so it yields
   an index with the same four facts; C07_quiescent_answers_equal then says both answer every query alike. *)
Theorem C07_quiescent_equiv :
  forall c n ls g f,
    v_all_last (c_ver c) = true ->
    nth_error (fracs (exec c (init c n) ls)) g = Some f -> f_wg f = 0 -> quiescent_index c f.
Proof. exact quiescent. Qed.
Print Assumptions C07_quiescent_equiv.

Theorem C07_quiescent_answers_equal :
  forall c f1 f2 q x,
    quiescent_index c f1 -> quiescent_index c f2 ->
    (forall wb, In wb (f_blocks f1) <-> In wb (f_blocks f2)) ->
    (forall d d', blocks_docs c f1 d -> blocks_docs c f1 d' -> d_id d = d_id d' ->
                  forall t, memN t (d_toks d) = memN t (d_toks d')) ->
    answers f1 q x -> answers f2 q x.
Proof. exact quiescent_answers_equal. Qed.
Print Assumptions C07_quiescent_answers_equal.

(* thm:C07_handover_no_gap, part 4 — what frac.Seal reads: from WaitWriteIdle on the fraction's index is the exact,
   complete one, so the sealed fraction that replaces the active one holds every acknowledged document *)
Theorem C07_handover_sealer_reads_exact_index :
  forall c n ls g f,
    v_all_last (c_ver c) = true ->
    nth_error (fracs (exec c (init c n) ls)) g = Some f -> idle_passed (f_seal f) = true -> quiescent_index c f.
Proof. exact sealer_reads_exact_index. Qed.
Print Assumptions C07_handover_sealer_reads_exact_index.

(* posting ⊆ appended LIDs: every LID in a token's sorted list or queue is below len(MIDs) of its fraction *)
Theorem C07_reader_safe_postings_within_ids :
  forall c n ls g f t lid,
    nth_error (fracs (exec c (init c n) ls)) g = Some f ->
    In t (f_toks f) -> In lid (tl_sorted t ++ tl_queue t) -> lid < length (f_ids f).
Proof. exact postings_bounded. Qed.
Print Assumptions C07_reader_safe_postings_within_ids.

(* the LID universe a reader takes from the `_all_` posting passes the bound check of newInverser against the ID
   tables as they are at that moment ... *)
Theorem C07_reader_safe_mapping_within_ids :
  forall c n ls g f,
    nth_error (fracs (exec c (init c n) ls)) g = Some f ->
    forallb (fun lid => Nat.ltb lid (length (f_ids f))) (tl_sorted (merge_tok (get_tok 0%N (f_toks f)))) = true.
Proof. exact mapping_bounded. Qed.
Print Assumptions C07_reader_safe_mapping_within_ids.

(* ... and the ID tables only grow with every step of every thread, so the snapshot taken afterwards covers it *)
Theorem C07_reader_safe_ids_only_grow :
  forall c n ls l g,
    let st := exec c (init c n) ls in
    g < length (fracs st) -> length (f_ids (getf st g)) <= length (f_ids (getf (fst (step c st l)) g)).
Proof. exact ids_only_grow. Qed.
Print Assumptions C07_reader_safe_ids_only_grow.

(* the published range [From, To] and DocsTotal only widen with every step of every thread, from ANY state: an ID
   a search returned (clamped to the range its provider snapshotted) is inside the range every later
   Contains / IsIntersecting reads, so the fetch is routed to the fraction *)
Theorem C07_reader_safe_range_only_widens :
  forall c st l g,
    g < length (fracs st) ->
    let f := getf st g in let f' := getf (fst (step c st l)) g in
    (f_from f' <= f_from f)%N /\ (f_to f <= f_to f')%N /\ f_total f <= f_total f'.
Proof. exact range_only_widens. Qed.
Print Assumptions C07_reader_safe_range_only_widens.

(* TokenLIDs.GetLIDs is ONE step under the merge mutex (Model.merge_tok): whoever calls it, in whatever order, gets every
   LID that was queued or sorted before the call - two readers of one token never hide queued LIDs from each other *)
Theorem C07_getlids_atomic_complete :
  forall x lid, In lid (posting x) ->
    In lid (tl_sorted (merge_tok x)) /\ In lid (tl_sorted (merge_tok (merge_tok x))).
Proof. exact getlids_atomic_complete. Qed.
Print Assumptions C07_getlids_atomic_complete.

(* ------------------------------------------------------------------ witnesses *)
Local Open Scope N_scope.
Definition d1 := mkDoc (10, 1) [0; 1] 1.
Definition d2 := mkDoc (10, 2) [0; 2] 2.
Definition qs0 : list qspec := [(QTok 1, 0, 1000); (QNot (QTok 2), 0, 1000)].
Definition v_now := mkVer true true true.
Definition lw (k : nat) : list label := repeat (LW 0) k.
Definition last_obs (c : config) (ls : list label) : obs := last (run c (init c 3) ls) OUnit.

(* defect 1 (repaired by a28a3f7): `_all_` queued in TokensValues order. The second bulk's document (token 2) is in the
   `_all_` posting but not yet in token 2's posting: `not 2` returns it. With the all-token last it does not. *)
Definition neg_midbulk := lw 11 ++ lw 8 ++ [LSnap 0; LSB 0 0 1; LR 0; LR 0; LR 0; LR 0].
Example C07_negation_midbulk_v0_refuted :
  last_obs (mkCfg (mkVer false true true) [[[d1]; [d2]]] qs0) neg_midbulk = ORes [(10, 1); (10, 2)]
  /\ evald (QNot (QTok 2)) (d_toks d2) = false.
Proof. split; vm_compute; reflexivity. Qed.
Example C07_negation_midbulk_now :
  last_obs (mkCfg v_now [[[d1]; [d2]]] qs0) neg_midbulk = ORes [(10, 1)].
Proof. vm_compute; reflexivity. Qed.

(* defect 2 (repaired by 5d51c58): the fetch provider's block table is a snapshot, positions are live *)
Definition fetch_stale := lw 11 ++ [LSnap 0; LFB 0 0 [(10, 2); (10, 1)]] ++ lw 4 ++ [LR 0].
Example C07_fetch_stale_blocks_v0_refuted :
  last_obs (mkCfg (mkVer true false true) [[[d1]; [d2]]] qs0) fetch_stale = OErr.
Proof. vm_compute; reflexivity. Qed.
Example C07_fetch_stale_blocks_now :
  last_obs (mkCfg v_now [[[d1]; [d2]]] qs0) fetch_stale = OFetch [None; Some 1].
Proof. vm_compute; reflexivity. Qed.

(* defect 3 (repaired by 716fc27): a reader's stale list still holds the proxy of a fraction retention deleted *)
Definition sui_proxy := lw 11 ++ [LRot; LSnap 0; LSui; LSB 0 0 0].
Example C07_suicided_proxy_v0_refuted :
  last_obs (mkCfg (mkVer true true false) [[[d1]]] qs0) sui_proxy = OErr.
Proof. vm_compute; reflexivity. Qed.
Example C07_suicided_proxy_now :
  last_obs (mkCfg v_now [[[d1]]] qs0) sui_proxy = ORes [].
Proof. vm_compute; reflexivity. Qed.

(* non-vacuity of C07_handover_no_gap: a schedule in which a writer has picked fraction 0, the seal of fraction 0 is
   past WaitWriteIdle, and the writer's Append is refused and re-routed to fraction 1 *)
Example C07_handover_nonvacuous :
  let c := mkCfg v_now [[[d1]]; [[d2]]] qs0 in
  let st := exec c (init c 3) (lw 11 ++ [LW 1; LRot; LM 0; LM 0]) in
  (exists f, nth_error (fracs st) 0 = Some f /\ idle_passed (f_seal f) = true /\ state_code f = 1)
  /\ (exists x, nth_error (ws st) 1 = Some x /\ w_pc x = 1%nat /\ w_g x = 0%nat)
  /\ snd (step_w c st 1) = OHook 1.
Proof.
  split; [|split].
  - eexists; split; [vm_compute; reflexivity|]. split; vm_compute; reflexivity.
  - eexists; split; [vm_compute; reflexivity|]. split; vm_compute; reflexivity.
  - vm_compute; reflexivity.
Qed.

(* non-vacuity of the index invariants: a state with a non-empty queue, a non-empty sorted list and two writers *)
Example C07_index_nonvacuous :
  let c := mkCfg v_now [[[d1]]; [[d2]]] qs0 in
  let st := exec c (init c 3) (lw 11 ++ [LSnap 0; LSB 0 0 0; LR 0] ++ repeat (LW 1) 9) in
  exists f t, nth_error (fracs st) 0 = Some f /\ In t (f_toks f) /\ tl_sorted t = [1%nat] /\ tl_queue t = [2%nat]
              /\ length (f_ids f) = 3%nat.
Proof.
  eexists; eexists. split; [vm_compute; reflexivity|]. split; [left; reflexivity|]. vm_compute. repeat split.
Qed.

(* non-vacuity of C07_quiescent_equiv and of the reader-safety theorems: two writers interleaved step by step on one
   fraction, then idle: indexWg = 0, three table entries, a reader finishing a stepwise search *)
Example C07_quiescent_nonvacuous :
  let c := mkCfg v_now [[[d1]]; [[d2]]] qs0 in
  let st := exec c (init c 3) (flat_map (fun _ => [LW 0; LW 1]) (repeat tt 11)) in
  (exists f, nth_error (fracs st) 0 = Some f /\ f_wg f = 0%nat /\ length (f_ldocs f) = 3%nat /\ f_total f = 2%nat)
  /\ last (run c st [LSnap 0; LSB 0 0 1; LR 0; LR 0; LR 0; LR 0]) OUnit = ORes [(10, 1)].
Proof. split; [eexists; split; [vm_compute; reflexivity|]; repeat split|]; vm_compute; reflexivity. Qed.

(* the seeded regression (queue detached before sortedMu is taken) as a two-step variant: LID 2 of an acknowledged
   document is queued, no writer is active; reader A detaches the queue, reader B runs GetLIDs completely in between
   and gets the OLD sorted list without LID 2; the atomic step gives both readers [1; 2]. Replayed on the real code
   by the schedule `getlids-overlap` (harness probe) with reader A held inside GetLIDs. *)
Example C07_getlids_split_v0_refuted :
  let x := mkTl 1%N [1%nat] [2%nat] in
  let '(x1, heldA) := getlids_detach x in
  let '(x2, heldB) := getlids_detach x1 in
  let '(x3, ansB) := getlids_publish x2 heldB in
  let '(x4, ansA) := getlids_publish x3 heldA in
  ansB = [1%nat] /\ ansA = [1%nat; 2%nat]
  /\ tl_sorted (merge_tok x) = [1%nat; 2%nat] /\ tl_sorted (merge_tok (merge_tok x)) = [1%nat; 2%nat].
Proof. vm_compute. repeat split. Qed.

(* ================================================================================================================
   File / descriptor layer of the hand-over (ModelFiles.v), for BOTH values of frac.Config.SkipSortDocs and
   KeepMetaFile. `xexec o c (xinit c n) ls` runs the SAME steps as `exec` (xexec_fst) and carries, per fraction, the
   open descriptors, the existing files and which document descriptor the sealed fraction reads from (the active
   fraction's own *os.File with SkipSortDocs=true, a freshly opened .sdocs otherwise). `o_close_in_releasemem o =
   false` selects the code as it is (true = the seeded change C07-m10, kept as a refuted Example below); o_skip_sort
   and o_keep_meta are universally quantified. This is the model the correspondence run executes for the CSchedF
   cases (CaseDefs.case_agrees: xrun, observations AND file states compared after every label). *)

Local Close Scope N_scope.

(* In EVERY state reachable by ANY label list, in both modes: every resource (descriptor or file) that a LIVE provider
   of a fraction uses is there - the active form (while proxyFrac.active != nil) has its descriptors on .docs and .meta
   open and both files present; the sealed form (installed by the swap, not suicided) has the index descriptor open
   and .index present and the document descriptor it reads from open with its file present. *)
Theorem C07_files_live_provider_resources_open :
  forall o c n ls g f r d,
    o_close_in_releasemem o = false ->
    let xs := xexec o c (xinit c n) ls in
    nth_error (fracs (fst xs)) g = Some f -> nth_error (snd xs) g = Some r ->
    used f r d = true -> rget d r = true.
Proof. exact live_resources_open. Qed.
Print Assumptions C07_files_live_provider_resources_open.

(* No step of ANY thread (release, retention, seal, ...) in any reachable state takes away - closes or removes - a
   resource that a provider which is live AFTER the step uses. *)
Theorem C07_files_no_step_closes_used :
  forall o c n ls l g f' r r' d,
    o_close_in_releasemem o = false ->
    let xs := xexec o c (xinit c n) ls in
    let xs' := fst (xstep o c xs l) in
    nth_error (snd xs) g = Some r ->
    nth_error (fracs (fst xs')) g = Some f' -> nth_error (snd xs') g = Some r' ->
    rget d r = true -> rget d r' = false -> used f' r' d = false.
Proof. exact closes_only_unused. Qed.
Print Assumptions C07_files_no_step_closes_used.

(* The release step itself (seal thread parked at seal.swapped, no reader holds the active fraction): it IS
   Active.Release; in both modes it leaves the sorted copy, the index and their descriptors and the sealed fraction's
   document source alone; with SkipSortDocs=true it leaves the .docs descriptor and file alone (the sealed fraction
   reads through them); it closes the meta descriptor, and closes + removes .docs only with SkipSortDocs=false and
   removes .meta only with KeepMetaFile=false; and if the sealed provider is live, everything it reads from is open
   and present after the release. *)
Theorem C07_release_closes_only_unshared :
  forall o c n ls g f r,
    o_close_in_releasemem o = false ->
    let xs := xexec o c (xinit c n) ls in
    nth_error (fracs (fst xs)) (N.to_nat g) = Some f -> nth_error (snd xs) (N.to_nat g) = Some r ->
    f_seal f = SSwapped -> f_rl f = 0 ->
    let r' := active_release o r in
    snd (xstep o c xs (LM g)) = OHook 34
    /\ nth_error (snd (fst (xstep o c xs (LM g)))) (N.to_nat g) = Some r'
    /\ fd_sdocs r' = fd_sdocs r /\ fd_index r' = fd_index r /\ fl_sdocs r' = fl_sdocs r /\ fl_index r' = fl_index r
    /\ r_reads r' = r_reads r
    /\ (o_skip_sort o = true -> fd_docs r' = fd_docs r /\ fl_docs r' = fl_docs r)
    /\ fd_meta r' = false
    /\ (o_skip_sort o = false -> fd_docs r' = false /\ fl_docs r' = false)
    /\ (o_keep_meta o = false -> fl_meta r' = false)
    /\ (o_keep_meta o = true -> fl_meta r' = fl_meta r)
    /\ (f_sld f = true -> f_ssui f = false ->
          sealed_read_ok r' = true /\ sealed_file_ok r' = true /\ fd_index r' = true /\ fl_index r' = true).
Proof. exact release_effect. Qed.
Print Assumptions C07_release_closes_only_unshared.

(* The file layer never turns an answer into an error: in every reachable state, for every label, in both modes, the
   observation of the step with descriptors taken into account is the observation of the index model - no request
   answered by a sealed provider ever meets a closed index or document descriptor. *)
Theorem C07_files_no_read_error :
  forall o c n ls l,
    o_close_in_releasemem o = false ->
    let xs := xexec o c (xinit c n) ls in
    snd (xstep o c xs l) = snd (step c (fst xs) l).
Proof. exact no_read_error. Qed.
Print Assumptions C07_files_no_read_error.

(* "every ID a search returns can be fetched immediately" across the hand-over, end to end, BOTH modes: an ID y that a
   stepwise search on the active fraction g returned (after ANY label list ls) - then ANYTHING happens (ls2: the rest
   of the bulks, rotations, the whole seal of g including Active.Release, retention of other fractions, ...) - and
   once g is served by its live sealed form, a fetch of y by ANY idle reader through ANY list entry that points to g
   (an older list with the proxy or a fresh one with the plain sealed fraction) finds the document, and the descriptors
   that fetch reads through - the index and the document descriptor the sealed fraction was given, i.e. the active
   fraction's own one with SkipSortDocs=true - are open: it is never closed while that provider is live. *)
Theorem C07_fetch_published_sealed_both_modes :
  forall o c n ls r x g q pc a b m nn s p ids ls2 y r2 x2 j idsF k,
    o_close_in_releasemem o = false -> v_all_last (c_ver c) = true ->
    let st := exec c (init c n) ls in
    nth_error (rs st) (N.to_nat r) = Some x -> r_op x = RSearch g q pc a b m nn s p ->
    snd (step c st (LR r)) = ORes ids -> In y ids ->
    let xs2 := xexec o c (xinit c n) (ls ++ LR r :: ls2) in
    let st2 := fst xs2 in
    nth_error (rs st2) (N.to_nat r2) = Some x2 -> r_op x2 = RIdle -> nth_error (r_snap x2) (N.to_nat j) = Some g ->
    g < length (fracs st2) ->
    f_act (getf st2 g) = false -> f_sld (getf st2 g) = true -> f_ssui (getf st2 g) = false ->
    nth_error idsF k = Some y ->
    sealed_read_ok (getres (snd xs2) g) = true /\ fd_index (getres (snd xs2) g) = true
    /\ exists bodies body, snd (xstep o c xs2 (LFB r2 j idsF)) = OFetch bodies /\ nth_error bodies k = Some (Some body).
Proof. exact fetch_published_sealed_both_modes. Qed.
Print Assumptions C07_fetch_published_sealed_both_modes.

(* ------------------------------------------------------------------ witnesses of the file layer *)
Local Open Scope N_scope.
Definition xlast (o : fopts) (c : config) (ls : list label) : obs * list N := last (xrun o c (xinit c 3) ls) (OUnit, []).
Definition seal_all (g : N) : list label := repeat (LM g) 7.
(* write, rotate, seal up to and including Active.Release, take a list, search, fetch *)
Definition handover_fetch := lw 11 ++ [LRot] ++ repeat (LM 0) 5 ++ [LSnap 0; LSB 0 0 0; LFB 0 0 [(10, 1)]].

(* the seeded change C07-m10 (docsFile.Close() moved from removeDocsFiles into releaseMem), SkipSortDocs=true: after
   the release the sealed provider is live, the search still returns the ID, but the descriptor the sealed fraction
   reads documents through is closed and the fetch of the ID just returned fails. The code as it is: fetched. With the
   default SkipSortDocs=false the change is invisible (which is why the default-only schedules missed it). Replayed on
   the real code by the fixed schedules handover-skipsort / handover-files. *)
Example C07_release_misplaced_close_v0_refuted :
  let c := mkCfg v_now [[[d1]]] qs0 in
  let bad := mkOpts true false true in
  let xs := xexec bad c (xinit c 3) (removelast handover_fetch) in
  (sealed_live (getf (fst xs) 0) = true /\ sealed_read_ok (getres (snd xs) 0) = false /\ used (getf (fst xs) 0) (getres (snd xs) 0) FdDocs = true)
  /\ fst (xlast bad c (removelast handover_fetch)) = ORes [(10, 1)]
  /\ fst (xlast bad c handover_fetch) = OErr
  /\ fst (xlast (mkOpts true false false) c handover_fetch) = OFetch [Some 1]
  /\ fst (xlast (mkOpts false false true) c handover_fetch) = OFetch [Some 1]
  /\ xlast (mkOpts false false true) c handover_fetch = xlast (mkOpts false false false) c handover_fetch.
Proof. vm_compute. repeat split. Qed.

(* non-vacuity of C07_release_closes_only_unshared and C07_files_*: in all four configurations the state right before
   the release has a seal thread at seal.swapped, no reader lock, a live sealed provider - and the release closes the
   meta descriptor (and .docs only without SkipSortDocs) *)
Example C07_release_nonvacuous :
  forall skip keep,
  let o := mkOpts skip keep false in
  let c := mkCfg v_now [[[d1]]] qs0 in
  let xs := xexec o c (xinit c 3) (lw 11 ++ [LRot] ++ repeat (LM 0) 4) in
  exists f r, nth_error (fracs (fst xs)) 0 = Some f /\ nth_error (snd xs) 0 = Some r
              /\ f_seal f = SSwapped /\ f_rl f = 0%nat /\ f_sld f = true /\ f_ssui f = false
              /\ used f r FdIndex = true /\ used f r (if skip then FdDocs else FdSdocs) = true
              /\ fd_meta r = true /\ fd_meta (active_release o r) = false
              /\ fd_docs (active_release o r) = skip /\ fl_meta (active_release o r) = keep.
Proof. intros skip keep; destruct skip, keep; eexists; eexists; vm_compute; repeat split. Qed.

(* non-vacuity of C07_fetch_published_sealed_both_modes: reader 0 is parked at the last leaf of a search on the active
   fraction 0 and its next step returns (10,1); then the fraction is rotated out and sealed completely; reader 1 takes
   a fresh list; fraction 0 is served by its live sealed form; the fetch returns the document - in all four
   configurations *)
Definition search_parked := lw 11 ++ [LSnap 0; LSB 0 0 0; LR 0; LR 0; LR 0].
Example C07_fetch_both_modes_nonvacuous :
  forall skip keep,
  let o := mkOpts skip keep false in
  let c := mkCfg v_now [[[d1]]] qs0 in
  let st := exec c (init c 3) search_parked in
  (exists x q pc a b m nn s p, nth_error (rs st) 0 = Some x /\ r_op x = RSearch 0 q pc a b m nn s p)
  /\ snd (step c st (LR 0)) = ORes [(10, 1)]
  /\ let xs2 := xexec o c (xinit c 3) (search_parked ++ LR 0 :: [LRot] ++ seal_all 0 ++ [LSnap 1]) in
     (exists x2, nth_error (rs (fst xs2)) 1 = Some x2 /\ r_op x2 = RIdle /\ nth_error (r_snap x2) 0 = Some 0%nat)
     /\ f_act (getf (fst xs2) 0) = false /\ f_sld (getf (fst xs2) 0) = true /\ f_ssui (getf (fst xs2) 0) = false
     /\ snd (xstep o c xs2 (LFB 1 0 [(10, 1)])) = OFetch [Some 1].
Proof.
  intros skip keep; destruct skip, keep;
    (split; [do 9 eexists; split; vm_compute; reflexivity|]; split; [vm_compute; reflexivity|];
     split; [eexists; split; [vm_compute; reflexivity|]; split; vm_compute; reflexivity|]; vm_compute; repeat split).
Qed.

(* retention while the seal thread is parked between the swap and Active.Release (fixed schedules suicide-at-swap-files and suicide-at-swap-skipsort):
   Sealed.Suicide closes the sealed fraction's descriptors - with SkipSortDocs=true that IS the active fraction's docs
   descriptor - and Active.Release afterwards closes what is left; nothing stays open, nothing is used anymore *)
Example C07_suicide_at_swap_then_release :
  forall skip,
  let o := mkOpts skip false false in
  let c := mkCfg v_now [[[d1]]] qs0 in
  snd (xlast o c (lw 11 ++ [LRot] ++ repeat (LM 0) 4 ++ [LSui])) = [if skip then 290 else 547; 51]
  /\ snd (xlast o c (lw 11 ++ [LRot] ++ repeat (LM 0) 4 ++ [LSui; LM 0])) = [if skip then 256 else 512; 51].
Proof. intros skip; destruct skip; vm_compute; split; reflexivity. Qed.

(* ================================================================================================================
   The sealed fraction's block-offset table and the pooled docBlocksWriter (ModelPool.v). For EVERY sequence of seals
   (with sorted docs: PSeal, through a pooled writer chosen arbitrarily - any pooled one or a new one; with
   SkipSortDocs: PAdopt) and retention steps, every sealed fraction's table (Sealed.BlocksOffsets, as it is in memory
   NOW, after all later seals) is the one written for it; hence, the block starts of a file being distinct, a fetch
   that reads block k of the fraction through its table gets the fraction's own block k - which is where
   C07_fetch_published_sealed_both_modes' document lives. (The correspondence run compares the real
   Sealed.BlocksOffsets of every installed sealed fraction with this model after every label, CaseDefs.prun, and its
   spec checker requires them unchanged since the seal, CaseDefs.pspec.) *)
Local Close Scope N_scope.
Theorem C07_sealed_offsets_private :
  forall ls g s offs,
    In (g, s, offs) (p_tabs (pexec true pinit ls)) ->
    view (p_heap (pexec true pinit ls)) s = offs
    /\ (NoDup offs -> forall k, k < length offs ->
          read_block offs (view (p_heap (pexec true pinit ls)) s) k = Some k).
Proof. exact sealed_offsets_private. Qed.
Print Assumptions C07_sealed_offsets_private.
Local Open Scope N_scope.

(* the seeded change C07-m12 (writeSortedDocs returns bw.BlockOffsets itself instead of slices.Clone): two seals, the
   first fraction has two blocks, the second seal gets the same pooled writer: fraction 0's table becomes fraction
   1's, and a read of its block 1 finds no block start there (error / wrong bytes); block 0 (offset 0) is unaffected.
   The code as it is: private. Replayed on the real code by the fixed schedules seal-pool-3 / seal-pool-3-skipsort. *)
Example C07_sealed_offsets_noclone_v0_refuted :
  let ls := [PSeal 0 [0; 100] None; PSeal 1 [0; 70] (Some 0%nat)] in
  table_of (pexec false pinit ls) 0 = Some [0; 70]
  /\ read_block [0; 100] [0; 70] 1 = None /\ read_block [0; 100] [0; 70] 0 = Some 0%nat
  /\ table_of (pexec true pinit ls) 0 = Some [0; 100] /\ table_of (pexec true pinit ls) 1 = Some [0; 70]
  /\ (exists s, In (0%nat, s, [0; 100]) (p_tabs (pexec true pinit ls))) /\ NoDup [0; 100].
Proof.
  repeat split; try (vm_compute; reflexivity).
  - eexists. vm_compute. right; left; reflexivity.
  - repeat constructor; simpl; intuition discriminate.
Qed.
