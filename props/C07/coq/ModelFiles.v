(* C07 — file / descriptor layer of the hand-over, for BOTH values of frac.Config.SkipSortDocs and KeepMetaFile.
   Executable, NO proofs. It runs in lock-step with Model.step (same labels, same schedule points) and adds, per
   fraction, the state of the four files an active / sealed fraction keeps in the data directory and of the
   descriptors the process holds on them:

     Active.docsFile  (.docs,  O_RDWR, opened by frac.NewActive)          fd_docs  / fl_docs
     Active.metaFile  (.meta,  O_RDWR, opened by frac.NewActive)          fd_meta  / fl_meta
     sorted copy      (.sdocs, written by writeSortedDocs, reopened O_RDONLY by syncRename;
                       exists only with SkipSortDocs=false)                 fd_sdocs / fl_sdocs
     index            (.index, written by frac.Seal, reopened O_RDONLY)     fd_index / fl_index

   and WHICH document descriptor the sealed fraction built by the seal reads from (PreloadedData.docsFile ->
   Sealed.docsFile / Sealed.docsReader):
     SkipSortDocs=false : the freshly opened .sdocs descriptor                 (r_reads = DSorted)
     SkipSortDocs=true  : the ACTIVE fraction's own *os.File on .docs          (r_reads = DActive)
                          (frac/active_sealer.go writeSealedFraction: `docsFile := f.docsFile`)

   Mirrored code: frac/active.go Release / Suicide / releaseMem / removeDocsFiles / removeMetaFile /
   removeIndexFile / removeSortedDocsFile, frac/active_sealer.go Seal / writeSealedFraction / writeSortedDocs /
   syncRename, frac/sealed.go NewSealedPreloaded / Suicide / close, fracmanager/proxy_frac.go Seal / Suicide.
   The steps that touch files are exactly: rotate (NewActive), seal.idle -> seal.built (frac.Seal),
   seal.swapped -> seal.released (Active.Release) and the retention step (proxyFrac.Suicide / Sealed.Suicide).

   A sealed provider that has to read a document through a closed descriptor answers with an error
   ("read ...: file already closed"): `xstep` turns the observation of such a request into OErr. *)
From Coq Require Import List Bool Arith NArith.
From C07 Require Import Model.
Import ListNotations.

(* o_close_in_releasemem is NOT a configuration of the store: it is the `_v0`-style switch for the seeded change
   C07-m10 (docsFile.Close() moved from removeDocsFiles into releaseMem); false = the code as it is. *)
Record fopts := mkOpts { o_skip_sort : bool; o_keep_meta : bool; o_close_in_releasemem : bool }.

Inductive dsrc := DNone | DActive | DSorted.
Definition dsrc_eqb (a b : dsrc) : bool :=
  match a, b with DNone, DNone | DActive, DActive | DSorted, DSorted => true | _, _ => false end.

Record fres := mkRes {
  fd_docs : bool; fd_meta : bool; fd_sdocs : bool; fd_index : bool;     (* descriptor is open *)
  fl_docs : bool; fl_meta : bool; fl_sdocs : bool; fl_index : bool;     (* file exists in the data directory *)
  r_reads : dsrc                                                        (* document descriptor of the sealed fraction *)
}.

(* frac.NewActive: meta and docs created and opened *)
Definition new_res : fres := mkRes true true false false true true false false DNone.

Definition close_docs (r : fres) : fres :=
  mkRes false (fd_meta r) (fd_sdocs r) (fd_index r) (fl_docs r) (fl_meta r) (fl_sdocs r) (fl_index r) (r_reads r).
Definition close_meta (r : fres) : fres :=
  mkRes (fd_docs r) false (fd_sdocs r) (fd_index r) (fl_docs r) (fl_meta r) (fl_sdocs r) (fl_index r) (r_reads r).
Definition close_sdocs (r : fres) : fres :=
  mkRes (fd_docs r) (fd_meta r) false (fd_index r) (fl_docs r) (fl_meta r) (fl_sdocs r) (fl_index r) (r_reads r).
Definition close_index (r : fres) : fres :=
  mkRes (fd_docs r) (fd_meta r) (fd_sdocs r) false (fl_docs r) (fl_meta r) (fl_sdocs r) (fl_index r) (r_reads r).
Definition rm_docs (r : fres) : fres :=
  mkRes (fd_docs r) (fd_meta r) (fd_sdocs r) (fd_index r) false (fl_meta r) (fl_sdocs r) (fl_index r) (r_reads r).
Definition rm_meta (r : fres) : fres :=
  mkRes (fd_docs r) (fd_meta r) (fd_sdocs r) (fd_index r) (fl_docs r) false (fl_sdocs r) (fl_index r) (r_reads r).
Definition rm_sdocs (r : fres) : fres :=
  mkRes (fd_docs r) (fd_meta r) (fd_sdocs r) (fd_index r) (fl_docs r) (fl_meta r) false (fl_index r) (r_reads r).
Definition rm_index (r : fres) : fres :=
  mkRes (fd_docs r) (fd_meta r) (fd_sdocs r) (fd_index r) (fl_docs r) (fl_meta r) (fl_sdocs r) false (r_reads r).

(* Active.releaseMem: caches released, meta descriptor closed (the seeded variant also closes the docs descriptor) *)
Definition release_mem (o : fopts) (r : fres) : fres :=
  let r1 := close_meta r in if o_close_in_releasemem o then close_docs r1 else r1.
(* Active.removeDocsFiles: close the docs descriptor, remove .docs (the seeded variant only removes) *)
Definition remove_docs_files (o : fopts) (r : fres) : fres :=
  rm_docs (if o_close_in_releasemem o then r else close_docs r).

(* Active.Release (end of proxyFrac.Seal, after the swap): releaseMem; meta removed unless KeepMetaFile;
   docs closed+removed unless SkipSortDocs ("we use sorted docs in sealed fraction so we can remove original docs") *)
Definition active_release (o : fopts) (r : fres) : fres :=
  let r1 := release_mem o r in
  let r2 := if o_keep_meta o then r1 else rm_meta r1 in
  if o_skip_sort o then r2 else remove_docs_files o r2.

(* Active.Suicide of a fraction that was NOT released (proxyFrac.active != nil): releaseMem, then index, sorted
   docs (leftovers of an interrupted seal, IsNotExist ignored), docs, meta are removed *)
Definition active_suicide (o : fopts) (r : fres) : fres :=
  rm_meta (remove_docs_files o (rm_sdocs (rm_index (release_mem o r)))).

(* Sealed.Suicide: close() closes the fraction's document descriptor (whichever it is) and the index descriptor;
   .docs and .sdocs (whichever exists) and .index are renamed away and removed *)
Definition sealed_suicide (r : fres) : fres :=
  let r1 := match r_reads r with DActive => close_docs r | DSorted => close_sdocs r | DNone => r end in
  rm_index (rm_sdocs (rm_docs (close_index r1))).

(* frac.Seal: index written and reopened; with SkipSortDocs=false the sorted copy is written (reading the documents
   through Active.sortReader, i.e. the active docs descriptor) and reopened, and becomes the sealed fraction's
   document descriptor; with SkipSortDocs=true the sealed fraction gets the active fraction's descriptor *)
Definition seal_build (o : fopts) (r : fres) : fres :=
  if o_skip_sort o
  then mkRes (fd_docs r) (fd_meta r) (fd_sdocs r) true (fl_docs r) (fl_meta r) (fl_sdocs r) true DActive
  else mkRes (fd_docs r) (fd_meta r) true true (fl_docs r) (fl_meta r) true true DSorted.

(* the descriptor / the file the sealed fraction reads documents from *)
Definition sealed_read_ok (r : fres) : bool :=
  match r_reads r with DActive => fd_docs r | DSorted => fd_sdocs r | DNone => false end.
Definition sealed_file_ok (r : fres) : bool :=
  match r_reads r with DActive => fl_docs r | DSorted => fl_sdocs r | DNone => false end.

(* ------------------------------------------------------------------ lock-step with Model.step *)
Definition xstate := (state * list fres)%type.
Definition xinit (c : config) (nreaders : nat) : xstate := (init c nreaders, [new_res]).
Definition getres (rs : list fres) (g : nat) : fres := nth g rs new_res.

Definition res_step (o : fopts) (st : state) (rs : list fres) (l : label) : list fres :=
  match l with
  | LRot => if Nat.ltb 0 (f_subs (getf st (last_g st))) then rs ++ [new_res] else rs
  | LM g =>
      let g := N.to_nat g in
      match nth_error (fracs st) g with
      | None => rs
      | Some f =>
          match f_seal f with
          | SIdle => upd g (seal_build o) rs                                            (* seal.idle -> seal.built *)
          | SSwapped => if Nat.eqb (f_rl f) 0 then upd g (active_release o) rs else rs  (* seal.swapped -> seal.released *)
          | _ => rs
          end
      end
  | LSui =>
      if sui_enabled st then
        let f := getf st (shift st) in
        upd (shift st) (fun r => if f_act f then active_suicide o r
                                 else if (f_sld f && negb (f_ssui f))%bool then sealed_suicide r else r) rs
      else rs
  | _ => rs
  end.

(* is the next request of reader r on list entry j answered by the live SEALED provider of a fraction? *)
Definition sealed_live (f : frac) : bool := (negb (f_act f) && f_sld f && negb (f_ssui f))%bool.

Definition is_some {A} (o : option A) : bool := match o with Some _ => true | None => false end.

(* the observation of the request once descriptors are taken into account: a sealed search reads index blocks, a
   sealed fetch reads index blocks and - for every ID it finds - the document through Sealed.docsReader. A request
   answered by a live sealed provider whose needed descriptor is closed counts as failed (the real code fails at the
   first block that is not in the fraction's caches, which are fresh after the seal); this can only happen in the
   `_v0` variants: Props.C07_files_no_read_error shows it never happens in the code as it is *)
Definition xobs (st : state) (rs : list fres) (l : label) (ob : obs) : obs :=
  match l with
  | LSB r j _ =>
      match nth_error (Model.rs st) (N.to_nat r) with
      | Some x =>
          match r_op x, nth_error (r_snap x) (N.to_nat j), ob with
          | RIdle, Some g, ORes _ =>
              if (sealed_live (getf st g) && negb (fd_index (getres rs g)))%bool then OErr else ob
          | _, _, _ => ob
          end
      | None => ob
      end
  | LFB r j _ =>
      match nth_error (Model.rs st) (N.to_nat r) with
      | Some x =>
          match r_op x, nth_error (r_snap x) (N.to_nat j), ob with
          | RIdle, Some g, OFetch bodies =>
              if (sealed_live (getf st g)
                  && negb (fd_index (getres rs g) && (negb (existsb is_some bodies) || sealed_read_ok (getres rs g))))%bool
              then OErr else ob
          | _, _, _ => ob
          end
      | None => ob
      end
  | _ => ob
  end.

Definition xstep (o : fopts) (c : config) (xs : xstate) (l : label) : xstate * obs :=
  let '(st, rs) := xs in
  let '(st', ob) := step c st l in
  ((st', res_step o st rs l), xobs st rs l ob).

Fixpoint xexec (o : fopts) (c : config) (xs : xstate) (ls : list label) : xstate :=
  match ls with
  | [] => xs
  | l :: r => xexec o c (fst (xstep o c xs l)) r
  end.

(* ------------------------------------------------------------------ what the correspondence run observes *)
Definition bitN (b : bool) (w : N) : N := if b then w else 0%N.
Definition swapped_passed (p : spc) : bool :=
  match p with SSwapped | SReleased | SRepl | SDone => true | _ => false end.
(* one number per fraction: open descriptors per file (from /proc/self/fd), existing files (stat), and - once the
   sealed fraction is installed in the proxy - the name of the file its document descriptor was opened on *)
Definition res_code (f : frac) (r : fres) : N :=
  (bitN (fd_docs r) 1 + bitN (fd_meta r) 2 + bitN (fd_sdocs r) 4 + bitN (fd_index r) 8
   + bitN (fl_docs r) 16 + bitN (fl_meta r) 32 + bitN (fl_sdocs r) 64 + bitN (fl_index r) 128
   + (if swapped_passed (f_seal f)
      then match r_reads r with DNone => 0 | DActive => 256 | DSorted => 512 end else 0))%N.

Fixpoint res_codes (fs : list frac) (rs : list fres) : list N :=
  match fs, rs with
  | f :: fr, r :: rr => res_code f r :: res_codes fr rr
  | _, _ => []
  end.

Fixpoint xrun (o : fopts) (c : config) (xs : xstate) (ls : list label) : list (obs * list N) :=
  match ls with
  | [] => []
  | l :: r => let '(xs', ob) := xstep o c xs l in (ob, res_codes (fracs (fst xs')) (snd xs')) :: xrun o c xs' r
  end.
