(* C07 — the sealed fraction's block-offset table is private (ModelPool.v): invariant over ALL label lists and ALL
   pool choices. *)
From Coq Require Import List Bool Arith NArith Lia.
From C07 Require Import ModelPool.
Import ListNotations.

Lemma length_hupd a f h : length (hupd a f h) = length h.
Proof. revert a; induction h; intros a0; destruct a0; simpl; auto. Qed.

Lemma arr_hupd_other a b f h : a <> b -> arr (hupd b f h) a = arr h a.
Proof.
  unfold arr. revert a b; induction h as [|x h IH]; intros a b NE; simpl.
  - destruct b; reflexivity.
  - destruct b, a; simpl; auto; try congruence.
Qed.

Lemma arr_hupd_same b f h : b < length h -> arr (hupd b f h) b = f (arr h b).
Proof.
  unfold arr. revert b; induction h as [|x h IH]; intros b L; simpl in L; [lia|]. destruct b; simpl; auto. apply IH. lia.
Qed.

Lemma arr_app_lt h x a : a < length h -> arr (h ++ x) a = arr h a.
Proof. intros; unfold arr; apply app_nth1; auto. Qed.

Lemma arr_app_eq h x : arr (h ++ [x]) (length h) = x.
Proof. unfold arr. rewrite app_nth2 by lia. rewrite Nat.sub_diag. reflexivity. Qed.

Lemma firstn_snoc {A} (l1 l2 : list A) x n : length l1 = n -> firstn (S n) (l1 ++ x :: l2) = l1 ++ [x].
Proof.
  intros L. rewrite firstn_app, L. replace (S n - n) with 1 by lia.
  rewrite (firstn_all2 l1) by lia. reflexivity.
Qed.

Local Opaque firstn skipn.

Definition wf (h : heap) (s : hdr) : Prop := fst s < length h /\ snd s <= length (arr h (fst s)).

Lemma app1_spec h s x h' s' :
  wf h s -> app1 h s x = (h', s') ->
  length h <= length h' /\ wf h' s' /\ view h' s' = view h s ++ [x]
  /\ (forall a, a < length h -> a <> fst s -> arr h' a = arr h a)
  /\ (fst s' = fst s \/ length h <= fst s').
Proof.
  intros [W1 W2] E. unfold app1 in E. destruct s as [a n]; simpl in *.
  destruct (Nat.ltb_spec n (length (arr h a))) as [LT|GE]; inversion E; subst; clear E.
  - rewrite length_hupd. split; [lia|]. unfold wf, view; simpl. rewrite arr_hupd_same by auto.
    assert (LF : length (firstn n (arr h a)) = n) by (rewrite firstn_length; lia).
    split; [split; [rewrite length_hupd; auto|]|split; [|split]].
    + rewrite app_length, LF. simpl. lia.
    + apply firstn_snoc; auto.
    + intros b _ NB. apply arr_hupd_other; auto.
    + left; reflexivity.
  - assert (n = length (arr h a)) by lia. subst n.
    rewrite app_length; simpl. split; [lia|]. unfold wf, view; simpl. rewrite arr_app_eq.
    assert (LF : length (firstn (length (arr h a)) (arr h a)) = length (arr h a)) by (rewrite firstn_length; lia).
    split; [split; [rewrite app_length; simpl; lia|]|split; [|split]].
    + rewrite app_length, LF. simpl. lia.
    + apply firstn_snoc; auto.
    + intros b LB _. apply arr_app_lt; auto.
    + right; lia.
Qed.

Lemma fill_spec xs : forall h s h' s',
  wf h s -> fill h s xs = (h', s') ->
  length h <= length h' /\ wf h' s' /\ view h' s' = view h s ++ xs
  /\ (forall a, a < length h -> a <> fst s -> arr h' a = arr h a)
  /\ (fst s' = fst s \/ length h <= fst s').
Proof.
  induction xs as [|x xs IH]; intros h s h' s' W E; simpl in E.
  - inversion E; subst. rewrite app_nil_r. repeat split; auto; try apply W.
  - destruct (app1 h s x) as [h1 s1] eqn:E1.
    destruct (app1_spec _ _ _ _ _ W E1) as [L1 [W1 [V1 [U1 F1]]]].
    destruct (IH _ _ _ _ W1 E) as [L2 [W2 [V2 [U2 F2]]]].
    split; [lia|]. split; auto. split; [rewrite V2, V1, <- app_assoc; reflexivity|]. split.
    + intros a LA NA. rewrite U2; [apply U1; auto| lia |]. destruct F1 as [F1|F1]; [congruence|lia].
    + destruct F2 as [F2|F2]; [destruct F1 as [F1|F1]; [left; congruence|right; lia]|right; lia].
Qed.

(* ---------------------------------------------------------------- the invariant *)
Definition tinv (h : heap) (pool : list hdr) (t : nat * hdr * list N) : Prop :=
  fst (snd (fst t)) < length h /\ view h (snd (fst t)) = snd t /\ ~ In (fst (snd (fst t))) (map fst pool).

Definition PInv (st : pstate) : Prop :=
  (forall t, In t (p_tabs st) -> tinv (p_heap st) (p_pool st) t)
  /\ (forall p, In p (p_pool st) -> fst p < length (p_heap st)).

Lemma In_remove_nth {A} (x : A) i l : In x (remove_nth i l) -> In x l.
Proof. revert i; induction l; destruct i; simpl; auto. intros [H|H]; auto. right; eauto. Qed.

Lemma view_same h h' s : arr h' (fst s) = arr h (fst s) -> view h' s = view h s.
Proof. unfold view; intros ->; reflexivity. Qed.

(* the pooled writer a seal gets: an array no table lives on *)
Lemma pstep_inv st l : PInv st -> PInv (pstep true st l).
Proof.
  intros [HT HP]. destruct l as [g offs pick|g offs|g]; simpl.
  - (* seal *)
    set (fresh := (p_heap st ++ [[]], p_pool st, (length (p_heap st), 0))).
    assert (G : exists h1 pool1 w,
               match pick with
               | Some i => match nth_error (p_pool st) i with
                           | Some s => (p_heap st, remove_nth i (p_pool st), (fst s, 0))
                           | None => fresh
                           end
               | None => fresh
               end = (h1, pool1, w)
               /\ length (p_heap st) <= length h1 /\ wf h1 w
               /\ (forall a, a < length (p_heap st) -> arr h1 a = arr (p_heap st) a)
               /\ (forall p, In p pool1 -> In p (p_pool st))
               /\ (forall t, In t (p_tabs st) -> fst (snd (fst t)) <> fst w)).
    { assert (FR : exists h1 pool1 w, fresh = (h1, pool1, w)
                   /\ length (p_heap st) <= length h1 /\ wf h1 w
                   /\ (forall a, a < length (p_heap st) -> arr h1 a = arr (p_heap st) a)
                   /\ (forall p, In p pool1 -> In p (p_pool st))
                   /\ (forall t, In t (p_tabs st) -> fst (snd (fst t)) <> fst w)).
      { do 3 eexists. split; [reflexivity|]. rewrite app_length; simpl. split; [lia|]. split; [|split; [|split]].
        - unfold wf; simpl. rewrite app_length; simpl. split; [lia|]. rewrite arr_app_eq. simpl; lia.
        - intros a LA. apply arr_app_lt; auto.
        - auto.
        - intros t IN. destruct (HT t IN) as [A _]. simpl. lia. }
      destruct pick as [i|]; auto. destruct (nth_error (p_pool st) i) as [s|] eqn:EN; auto.
      do 3 eexists. split; [reflexivity|]. split; [lia|]. split; [|split; [|split]].
      - unfold wf; simpl. split; [apply HP; eapply nth_error_In; eauto|lia].
      - auto.
      - intros p. apply In_remove_nth.
      - intros t IN E. destruct (HT t IN) as [_ [_ NI]]. apply NI. simpl in E. rewrite E.
        apply in_map. eapply nth_error_In; eauto. }
    destruct G as [h1 [pool1 [w [EG [L1 [W1 [U1 [P1 N1]]]]]]]]. fold fresh. rewrite EG.
    destruct (fill h1 w offs) as [h2 w2] eqn:EF.
    destruct (fill_spec _ _ _ _ _ W1 EF) as [L2 [W2 [V2 [U2 F2]]]].
    assert (VW : view h1 w = []).
    { destruct pick as [i|]; [destruct (nth_error (p_pool st) i)|]; inversion EG; subst; reflexivity. }
    split; simpl.
    + intros t [ET|IN].
      * subst t. unfold tinv; simpl. rewrite app_length; simpl. split; [lia|]. split.
        -- unfold view at 1; simpl. rewrite arr_app_eq. rewrite V2, VW. simpl.
           assert (LV : length (view h2 w2) = snd w2).
           { unfold view. rewrite firstn_length. destruct W2; lia. }
           rewrite V2, VW in LV. simpl in LV. rewrite <- LV. apply firstn_all.
        -- intros [E|IN]; [destruct W2; lia|]. apply in_map_iff in IN as [p [EP IP]].
           pose proof (HP p (P1 p IP)). lia.
      * destruct (HT t IN) as [A [B C]]. unfold tinv; simpl. rewrite app_length; simpl.
        assert (AR : arr (h2 ++ [view h2 w2]) (fst (snd (fst t))) = arr (p_heap st) (fst (snd (fst t)))).
        { rewrite arr_app_lt by lia. rewrite U2; [apply U1; auto|lia|apply N1; auto]. }
        split; [lia|]. split; [rewrite (view_same _ _ _ AR); auto|].
        intros [E|IN']; [destruct F2 as [F2|F2]; [apply (N1 t IN); congruence|lia]|].
        apply C. apply in_map_iff in IN' as [p [EP IP]]. apply in_map_iff. exists p; split; auto.
    + intros p [E|IP]; rewrite app_length; simpl; [subst; destruct W2; lia|]. pose proof (HP p (P1 p IP)). lia.
  - (* adopt *)
    split; simpl.
    + intros t [ET|IN].
      * subst t. unfold tinv; simpl. rewrite app_length; simpl. split; [lia|]. split.
        -- unfold view; simpl. rewrite arr_app_eq. apply firstn_all.
        -- intros IN. apply in_map_iff in IN as [p [EP IP]]. pose proof (HP p IP). lia.
      * destruct (HT t IN) as [A [B C]]. unfold tinv; simpl. rewrite app_length; simpl. split; [lia|]. split; auto.
        rewrite (view_same (p_heap st) _ (snd (fst t))); auto. apply arr_app_lt; auto.
    + intros p IP. rewrite app_length; simpl. pose proof (HP p IP). lia.
  - (* drop *)
    split; simpl; auto. intros t IN. apply filter_In in IN as [IN _]. apply HT; auto.
Qed.

Lemma pinit_inv : PInv pinit.
Proof. split; simpl; intros ? []. Qed.

Lemma pexec_inv ls : forall st, PInv st -> PInv (pexec true st ls).
Proof. induction ls; simpl; intros; auto. apply IHls. apply pstep_inv; auto. Qed.

(* own block through own table *)
Lemma index_of_nth l : NoDup l -> forall k x i, nth_error l k = Some x -> index_of x l i = Some (i + k).
Proof.
  induction 1 as [|y l NI ND IH]; intros k x i E; [destruct k; discriminate|].
  destruct k; simpl in *.
  - inversion E; subst. rewrite N.eqb_refl. f_equal; lia.
  - destruct (N.eqb_spec x y) as [EQ|NE].
    + subst. exfalso. apply NI. eapply nth_error_In; eauto.
    + rewrite (IH k x (S i) E). f_equal; lia.
Qed.

(* T: for every sequence of seals (with or without sorted docs), retention steps and every pool choice, every sealed
   fraction's table is the one written for it; so a read of block k goes to the fraction's own block k *)
Lemma sealed_offsets_private ls g s offs :
  In (g, s, offs) (p_tabs (pexec true pinit ls)) ->
  view (p_heap (pexec true pinit ls)) s = offs
  /\ (NoDup offs -> forall k, k < length offs -> read_block offs (view (p_heap (pexec true pinit ls)) s) k = Some k).
Proof.
  intros IN. destruct (pexec_inv ls pinit pinit_inv) as [HT _]. destruct (HT _ IN) as [_ [V _]]. simpl in V.
  split; auto. intros ND k LK. rewrite V. unfold read_block.
  destruct (nth_error offs k) as [x|] eqn:E; [|apply nth_error_None in E; lia].
  apply (index_of_nth offs ND k x 0 E).
Qed.
