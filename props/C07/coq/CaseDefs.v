(* C07 — shape of the generated cases and the two executable verdicts. No proofs. *)
From VLib Require Import CaseLib.
From C07 Require Import Model ModelFiles ModelPool.

(* the code as it is now: all-token queued last (a28a3f7), fetch guard (5d51c58), suicided proxy answers Info (716fc27) *)
Definition cur_ver : version := mkVer true true true.
Definition nreaders : nat := 3.

Inductive case :=
(* per writer its bulks; the queries (AST as parsed by the real parser); the schedule; one observation per label
   as made on the real code *)
| CSched (wb : list (list bulk)) (qs : list qspec) (ls : list label) (os : list obs)
(* the same with the fraction options frac.Config{SkipSortDocs, KeepMetaFile} the store ran with, and per label the
   file / descriptor state of every fraction as observed on the real process after the step (ModelFiles.res_code) *)
| CSchedF (skip keep : bool) (wb : list (list bulk)) (qs : list qspec) (ls : list label) (os : list obs)
          (fs : list (list N))
(* the same with, per fraction, the block offsets its docBlocksWriter wrote (wr: Sealed.BlocksOffsets as first seen, at
   seal.swapped) and per label the Sealed.BlocksOffsets of every installed sealed fraction as they are in memory after
   the step (ModelPool) *)
| CSchedP (skip keep : bool) (wb : list (list bulk)) (qs : list qspec) (ls : list label) (os : list obs)
          (fs : list (list N)) (wr : list (list N)) (ps : list (list (list N))).

Definition optN_eqb := option_eqb N.eqb.
Definition obs_eqb (a b : obs) : bool :=
  match a, b with
  | OHook x, OHook y => N.eqb x y
  | OSnap x, OSnap y => list_eqb N.eqb x y
  | ORes x, ORes y => list_eqb id_eqb x y
  | OFetch x, OFetch y => list_eqb optN_eqb x y
  | OErr, OErr | ODone, ODone | OUnit, OUnit | ODisabled, ODisabled => true
  | _, _ => false
  end.

(* the pool layer driven by the schedule: the seal of fraction g fills a pooled writer at seal.idle -> seal.built (hook
   32) - reusing the writer put back last when there is one, as sync.Pool does on one P; by
   Props.C07_sealed_offsets_private the tables do not depend on that choice - and the sealed fraction (with its table)
   is installed at seal.swapped (hook 33) *)
Fixpoint prun (skip : bool) (wr : list (list N)) (st : pstate) (vis : list nat) (nfr : nat)
         (ls : list label) (os : list obs) : list (list (list N)) :=
  match ls, os with
  | l :: lr, o :: or =>
      let st' := match l, o with
                 | LM g, OHook h =>
                     if N.eqb h 32
                     then pstep true st (if skip then PAdopt (N.to_nat g) (nth (N.to_nat g) wr [])
                                         else PSeal (N.to_nat g) (nth (N.to_nat g) wr []) (Some 0))
                     else st
                 | _, _ => st
                 end in
      let vis' := match l, o with LM g, OHook h => if N.eqb h 33 then N.to_nat g :: vis else vis | _, _ => vis end in
      let nfr' := match l, o with LRot, OUnit => S nfr | _, _ => nfr end in
      map (fun g => if memn g vis' then match table_of st' g with Some t => t | None => [] end else []) (seq 0 nfr')
      :: prun skip wr st' vis' nfr' lr or
  | _, _ => []
  end.

Definition llN_eqb := list_eqb (list_eqb N.eqb).

(* model output = implementation output *)
Definition case_agrees (c : case) : bool :=
  match c with
  | CSched wb qs ls os =>
      let cfg := mkCfg cur_ver wb qs in
      list_eqb obs_eqb (run cfg (init cfg nreaders) ls) os
  | CSchedF skip keep wb qs ls os fs =>
      let cfg := mkCfg cur_ver wb qs in
      Nat.eqb (length os) (length fs)
      && list_eqb (fun a b => obs_eqb (fst a) (fst b) && list_eqb N.eqb (snd a) (snd b))
                  (xrun (mkOpts skip keep false) cfg (xinit cfg nreaders) ls) (combine os fs)
  | CSchedP skip keep wb qs ls os fs wr ps =>
      let cfg := mkCfg cur_ver wb qs in
      Nat.eqb (length os) (length fs)
      && list_eqb (fun a b => obs_eqb (fst a) (fst b) && list_eqb N.eqb (snd a) (snd b))
                  (xrun (mkOpts skip keep false) cfg (xinit cfg nreaders) ls) (combine os fs)
      && list_eqb llN_eqb (prun skip wr pinit [] 1 ls os) ps
  end.

(* ------------------------------------------------------------------------------------------------
   Spec checker: the statement of the property evaluated on the implementation's observations. It
   does NOT run the index model; it only keeps the bookkeeping a tester would keep: which bulk was
   accepted by which fraction, which bulks were completely indexed (wg.Done) when a request began,
   which fractions retention has removed. *)
Definition b3 := (nat * nat * nat)%type.   (* writer, bulk number, fraction *)

Inductive gop :=
| GNone
| GSearch (g : nat) (q : qspec) (began : list b3)
| GFetch (g : nat) (ids : list id) (began : list b3) (seen : list (id * nat)).   (* acknowledged / returned when the fetch BEGAN *)

Record ghost := mkG {
  g_nfr : nat; g_shift : nat;
  g_pick : list nat; g_cur : list nat;
  g_started : list b3; g_done : list b3;
  g_snap : list (list nat); g_op : list gop;
  g_seen : list (id * nat);
  g_ok : bool
}.

Definition bulk_at (wb : list (list bulk)) (x : b3) : bulk := nth (snd (fst x)) (nth (fst (fst x)) wb []) [].
Definition all_docs (wb : list (list bulk)) : list doc := flat_map (fun bs => flat_map (fun b => b) bs) wb.
Definition unique_id (wb : list (list bulk)) (x : id) : bool :=
  Nat.eqb (length (filter (fun d => id_eqb (d_id d) x) (all_docs wb))) 1.

Definition docs_of (wb : list (list bulk)) (l : list b3) (g : nat) : list doc :=
  flat_map (fun x => if Nat.eqb (snd x) g then bulk_at wb x else []) l.

Fixpoint strictly_asc (l : list id) : bool :=
  match l with
  | x :: ((y :: _) as r) => id_leb x y && negb (id_eqb x y) && strictly_asc r
  | _ => true
  end.

Definition check_search (wb : list (list bulk)) (gh : ghost) (g : nat) (q : qspec) (began : list b3) (ids : list id) : bool :=
  let '(qq, qfrom, qto) := q in
  let submitted := docs_of wb (g_started gh) g in
  (* every returned ID belongs to a submitted bulk of this fraction, lies in the range, satisfies the query *)
  forallb (fun x => existsb (fun d => id_eqb (d_id d) x && in_range qfrom qto x && evald qq (d_toks d)) submitted) ids
  && strictly_asc ids
  (* every document acknowledged before the request began is visible (unless retention removed the fraction) *)
  && (Nat.ltb g (g_shift gh)
      || forallb (fun d => negb (unique_id wb (d_id d)) || negb (in_range qfrom qto (d_id d) && evald qq (d_toks d))
                           || mem_id (d_id d) ids) (docs_of wb began g)).

Definition check_fetch (wb : list (list bulk)) (gh : ghost) (g : nat) (ids : list id) (began : list b3)
           (seen : list (id * nat)) (bodies : list (option N)) : bool :=
  let submitted := docs_of wb (g_started gh) g in
  Nat.eqb (length ids) (length bodies)
  && forallb (fun xb =>
       match snd xb with
       | Some b => existsb (fun d => id_eqb (d_id d) (fst xb) && N.eqb (d_body d) b) submitted   (* exactly its bytes *)
       | None =>
           (* not found is allowed only for a document that was neither acknowledged nor returned by a search *)
           Nat.ltb g (g_shift gh)
           || negb (existsb (fun d => id_eqb (d_id d) (fst xb) && unique_id wb (d_id d)) (docs_of wb began g)
                    || existsb (fun s => id_eqb (fst s) (fst xb) && Nat.eqb (snd s) g) seen)
       end) (combine ids bodies).

Definition set_nth {A} (n : nat) (x : A) (l : list A) : list A := upd n (fun _ => x) l.
Definition fail (gh : ghost) : ghost :=
  mkG (g_nfr gh) (g_shift gh) (g_pick gh) (g_cur gh) (g_started gh) (g_done gh) (g_snap gh) (g_op gh) (g_seen gh) false.
Definition andok (gh : ghost) (b : bool) : ghost := if b then gh else fail gh.
Definition with_op (gh : ghost) (r : nat) (o : gop) : ghost :=
  mkG (g_nfr gh) (g_shift gh) (g_pick gh) (g_cur gh) (g_started gh) (g_done gh) (g_snap gh) (set_nth r o (g_op gh)) (g_seen gh) (g_ok gh).
Definition with_seen (gh : ghost) (g : nat) (ids : list id) : ghost :=
  mkG (g_nfr gh) (g_shift gh) (g_pick gh) (g_cur gh) (g_started gh) (g_done gh) (g_snap gh) (g_op gh)
      (map (fun x => (x, g)) ids ++ g_seen gh) (g_ok gh).

Definition finish_op (wb : list (list bulk)) (gh : ghost) (r : nat) (op : gop) (o : obs) : ghost :=
  match op, o with
  | GSearch g q began, ORes ids => with_seen (with_op (andok gh (check_search wb gh g q began ids)) r GNone) g ids
  | GFetch g ids began seen, OFetch bodies => with_op (andok gh (check_fetch wb gh g ids began seen bodies)) r GNone
  | GNone, _ => fail gh
  | _, OHook _ => with_op gh r op
  | _, _ => fail gh                    (* error, panic, wrong kind of answer *)
  end.

Definition gstep (wb : list (list bulk)) (qs : list qspec) (gh : ghost) (l : label) (o : obs) : ghost :=
  match l, o with
  | _, ODisabled => gh
  | LW w, OHook h =>
      let w := N.to_nat w in
      if N.eqb h 1 then mkG (g_nfr gh) (g_shift gh) (set_nth w (pred (g_nfr gh)) (g_pick gh)) (g_cur gh) (g_started gh)
                            (g_done gh) (g_snap gh) (g_op gh) (g_seen gh) (g_ok gh)
      else if N.eqb h 2 then mkG (g_nfr gh) (g_shift gh) (g_pick gh) (g_cur gh)
                                 ((w, nth w (g_cur gh) 0, nth w (g_pick gh) 0) :: g_started gh)
                                 (g_done gh) (g_snap gh) (g_op gh) (g_seen gh) (g_ok gh)
      else if N.eqb h 10 then mkG (g_nfr gh) (g_shift gh) (g_pick gh) (set_nth w (S (nth w (g_cur gh) 0)) (g_cur gh))
                                  (g_started gh) ((w, nth w (g_cur gh) 0, nth w (g_pick gh) 0) :: g_done gh)
                                  (g_snap gh) (g_op gh) (g_seen gh) (g_ok gh)
      else gh
  | LW _, _ => fail gh
  | LRot, OUnit => mkG (S (g_nfr gh)) (g_shift gh) (g_pick gh) (g_cur gh) (g_started gh) (g_done gh) (g_snap gh) (g_op gh) (g_seen gh) (g_ok gh)
  | LSui, OUnit => mkG (g_nfr gh) (S (g_shift gh)) (g_pick gh) (g_cur gh) (g_started gh) (g_done gh) (g_snap gh) (g_op gh) (g_seen gh) (g_ok gh)
  | LM _, OHook _ | LM _, ODone => gh
  | LSnap r, OSnap sts =>
      let gs := seq (g_shift gh) (g_nfr gh - g_shift gh) in
      andok (mkG (g_nfr gh) (g_shift gh) (g_pick gh) (g_cur gh) (g_started gh) (g_done gh)
                 (set_nth (N.to_nat r) gs (g_snap gh)) (g_op gh) (g_seen gh) (g_ok gh))
            (Nat.eqb (length sts) (length gs) && forallb (fun s => N.ltb s 4) sts)   (* only the 4 states of the table *)
  | LSB r j q, _ =>
      let r := N.to_nat r in
      match nth_error (nth r (g_snap gh) []) (N.to_nat j), nth_error qs (N.to_nat q) with
      | Some g, Some qq => finish_op wb gh r (GSearch g qq (g_done gh)) o
      | _, _ => fail gh
      end
  | LFB r j ids, _ =>
      let r := N.to_nat r in
      match nth_error (nth r (g_snap gh) []) (N.to_nat j) with
      | Some g => finish_op wb gh r (GFetch g ids (g_done gh) (g_seen gh)) o
      | _ => fail gh
      end
  | LR r, _ => finish_op wb gh (N.to_nat r) (nth (N.to_nat r) (g_op gh) GNone) o
  | _, _ => fail gh
  end.

Fixpoint grun (wb : list (list bulk)) (qs : list qspec) (gh : ghost) (ls : list label) (os : list obs) : bool :=
  match ls, os with
  | [], [] => g_ok gh
  | l :: lr, o :: or => grun wb qs (gstep wb qs gh l o) lr or
  | _, _ => false
  end.

Definition ghost0 (wb : list (list bulk)) : ghost :=
  mkG 1 0 (map (fun _ => 0) wb) (map (fun _ => 0) wb) [] [] (repeat [] nreaders) (repeat GNone nreaders) [] true.

(* ------------------------------------------------------------------------------------------------
   File part of the spec checker, again WITHOUT the model: from the labels and the schedule points the real code
   reached it keeps which fractions exist, which have their sealed fraction installed (seal.swapped reached) and
   which retention has removed; after EVERY step every live provider must have what it reads from:
     a fraction that is still served by its active form: descriptors on .docs and .meta open, both files present;
     a fraction served by the sealed form: the index descriptor open and .index present, and the document
     descriptor it reads from (the active fraction's own one on .docs, or its own on .sdocs) open with its file
     present.
   (A closed descriptor under a live sealed provider = "an ID a search returned cannot be fetched".) *)
Record fghost := mkFG { fg_nfr : nat; fg_shift : nat; fg_swapped : list nat }.

Definition fstep (gh : fghost) (l : label) (o : obs) : fghost :=
  match l, o with
  | LRot, OUnit => mkFG (S (fg_nfr gh)) (fg_shift gh) (fg_swapped gh)
  | LSui, OUnit => mkFG (fg_nfr gh) (S (fg_shift gh)) (fg_swapped gh)
  | LM g, OHook h => if N.eqb h 33 then mkFG (fg_nfr gh) (fg_shift gh) (N.to_nat g :: fg_swapped gh) else gh
  | _, _ => gh
  end.

Definition has_bits (m want : N) : bool := N.eqb (N.land m want) want.

Definition provider_ok (gh : fghost) (g : nat) (m : N) : bool :=
  if Nat.ltb g (fg_shift gh) then true                                   (* removed by retention *)
  else if memn g (fg_swapped gh) then
         has_bits m 136                                                    (* index: descriptor + file *)
         && (if has_bits m 768 then has_bits m 17                          (* its own descriptor on .docs *)
             else if has_bits m 256 then has_bits m 17                     (* the active fraction's descriptor, .docs *)
             else if has_bits m 512 then has_bits m 68                     (* its own descriptor on .sdocs *)
             else false)
       else has_bits m 51.                                                 (* active form: docs + meta *)

Fixpoint all_ok (gh : fghost) (g : nat) (ms : list N) : bool :=
  match ms with
  | [] => true
  | m :: r => provider_ok gh g m && all_ok gh (S g) r
  end.

Fixpoint frun (gh : fghost) (ls : list label) (os : list obs) (fs : list (list N)) : bool :=
  match ls, os, fs with
  | [], [], [] => true
  | l :: lr, o :: or, ms :: fr =>
      let gh' := fstep gh l o in
      Nat.eqb (length ms) (fg_nfr gh') && all_ok gh' 0 ms && frun gh' lr or fr
  | _, _, _ => false
  end.

(* block-offset part of the spec checker, without the pool model: after EVERY step the table of every installed
   sealed fraction is the one its seal wrote (as first seen), and that one names pairwise distinct block starts (with SkipSortDocs
   they are the active fraction's, in block-registration order, not ascending) *)
Fixpoint distinctN (l : list N) : bool :=
  match l with
  | x :: r => negb (memN x r) && distinctN r
  | [] => true
  end.

Fixpoint pspec (wr : list (list N)) (vis : list nat) (ls : list label) (os : list obs) (ps : list (list (list N))) : bool :=
  match ls, os, ps with
  | [], [], [] => true
  | l :: lr, o :: or, p :: pr =>
      let vis' := match l, o with LM g, OHook h => if N.eqb h 33 then N.to_nat g :: vis else vis | _, _ => vis end in
      forallb (fun g => list_eqb N.eqb (nth g p []) (nth g wr []) && distinctN (nth g wr [])
                        && negb (Nat.eqb (length (nth g wr [])) 0)) vis'
      && pspec wr vis' lr or pr
  | _, _, _ => false
  end.

(* implementation output satisfies the property *)
Definition case_spec_ok (c : case) : bool :=
  match c with
  | CSched wb qs ls os => grun wb qs (ghost0 wb) ls os
  | CSchedF _ _ wb qs ls os fs => grun wb qs (ghost0 wb) ls os && frun (mkFG 1 0 []) ls os fs
  | CSchedP _ _ wb qs ls os fs wr ps =>
      grun wb qs (ghost0 wb) ls os && frun (mkFG 1 0 []) ls os fs && pspec wr [] ls os ps
  end.

Definition diff_indices (l : list case) : list nat := bad_indices (fun c => negb (case_agrees c)) l.
Definition specfail_indices (l : list case) : list nat := bad_indices (fun c => negb (case_spec_ok c)) l.
