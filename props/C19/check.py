"""C19 — a finished asynchronous search equals the synchronous one and survives restarts (DESIGN.md section 7, C19)."""
import vcheck

PROP = "C19"

TRUSTED = [
    "Coq 8.16.1 kernel (coqc), vm_compute for case evaluation; no native_compute",
    "hand-written model props/C19/coq/Model.v of mustWriteFileAtomic/StartSearch/doSearch/loadAsyncSearches/"
    "FetchSearchResult and seq.MergeQPRs (tied to /repo by the correspondence run, not verified code)",
    "hand-written model props/C19/coq/ModelStart.v of Ingestor.StartAsyncSearch (replica loop, per-shard error check; every error kind "
    "is one SRefuse) and of the buffer ownership in processFrac (Acquire, Compress, file write, Release as steps; the bytes pool "
    "abstracted to 'any free or fresh buffer may be handed out', size classes and sync.Pool internals not modelled)",
    "proxy-start class: stateful scripted StoreApiClients that behave like storeapi.GrpcV1 (a store that accepted a start answers "
    "later fetches with a real store-handler answer, any other store says NotFound); a deadline is a store that cancels the "
    "caller's context and blocks on it; the fetch with an unreachable holder is judged directly by the harness (not modelled)",
    "pool-pressure class: the interleaving is produced by wrapping the fractions (Info() hands over to another goroutine that "
    "acquires/poisons/releases buffers of 256 B .. 128 KiB, GOMAXPROCS(1)); the plan evaluated in the model is an abstract "
    "rendering of that interleaving (buffer identities inside sync.Pool are not observable)",
    "Go harness harness/cmd/hC19 (generators, canonical rendering of QPRs, classification of file contents) and the "
    "shared crash-state builder harness/internal/crashfs (strace log -> directory states) + storectl (child processes)",
    "overlap class: the fetch takes its snapshot at the resumed state or a later one (scheduler dependent); the model check accepts "
    "any state of the run from the resumed one on, the spec (Done => sync answer; not Done => merge of a prefix of the fraction list) is exact",
    "proxy level: scripted StoreApiClients (answers are real store-handler responses, protobuf round trip included); "
    "QPR.Aggregate of the proxy answer is not compared (C06)",
    "per-fraction search results, JSON+zstd codec of .qpr/.info files, query re-parsing: NOT modelled; exercised through the "
    "real code on every case (a .qpr/.info file counts as complete only if it decodes to exactly the expected value)",
]
ASSUME = [
    "the store's mapping at resume time is the mapping the query was first parsed with; request IDs contain no '.' or '/' "
    "(the store cannot handle them: fracNameFromQPRPath, path.Join)",
    "aggregation group tokens are valid UTF-8 (otherwise the JSON key codec collides: known finding resume/invalid-utf8-group)",
    "at most 8096 samples per aggregation bin (reservoir replacement is order dependent); float values are multiples of 1/16 "
    "with sums below 2^53 (exact arithmetic)",
    "file-system model of crashfs: directory operations durable in issue order, file data durable up to the last fsync",
    "every shard of the proxy's store configuration has at least one replica (an empty shard is skipped by StartAsyncSearch and "
    "makes FetchAsyncSearchResult dereference a nil response); the other users of the global bytes pool respect its contract: they "
    "write only into buffers they hold and release each of them once",
    "fractions that existed at start are not removed and do not change before the request completes (new fractions may "
    "appear: ingest/rotation after a restart is part of the crash chains); one request at a time (Parallelism 1)",
]
RULE = ("request IDs as uuid.New() makes them with every final hex digit 0-f over consecutive worlds, plus client-chosen IDs ending in "
        "i/n/o, ending in or containing 'info', ending in 'fff'; text-mapped field t (one token per word) and path-mapped field p next to "
        "the keyword fields, 3 of 5 queries with several words on the text field (meaning depends on the store's mapping). "
        "worlds = corpus in 0..4 real fractions (sealed/active, some IDs stored in two fractions, JSON-hostile group tokens, "
        "exact decimal values) x query x histogram interval x 0..2 aggregations x order x limit; per world the uninterrupted "
        "run (operation sequence, acknowledgement position, async = sync) and restarts on crash states: after k operations, "
        "a write cut short, power loss, second crashes inside the resumed run, and restarts before which new matching documents "
        "are ingested into a new (optionally sealed) fraction. non-trivial = at least 2 fractions, "
        "histogram or aggregation requested, and (for crash cases) the request published but not done at the crash; "
        "crash variant 3 = every leftover temporary file made longer than any "
        "later payload; overlap class: a resumed worker held in the (harness) mapping provider, FetchSearchResult started, worker "
        "released, the fetch blocked on a named pipe among its listed .qpr files until the request is Done; proxy class: the real "
        "search.Ingestor over 1-3 shards x replicas of scripted clients; StartAsyncSearch's request goes to the real store handler of "
        "every shard, FetchAsyncSearchResult gets REAL store-handler answers taken at every progress of each shard (unknown, i of n "
        "partial results persisted and not resumed, resumed, done) in every combination (sampled in quick); non-trivial there = at least "
        "2 answering shards and one still running; proxy-start class: per cluster 16 (thorough 48) scripted reply patterns to "
        "StartAsyncSearch over 1-3 shards x 1-3 replicas (one shard down single-/multi-replica, first/last shard down, failover only, all "
        "accept, random, all down; refusals Unavailable / plain error / ResourceExhausted / deadline), the calls made and whether an ID came "
        "back, then FetchAsyncSearchResult with that ID against the stores that accepted (real answers at random progress): spec = an ID only "
        "if every shard has an accepting replica, a started search is found, Done only if every shard is done and then the synchronous "
        "answer over ALL shards; plus the same fetch with one holder unreachable (must not be Done); non-trivial there = at least 2 shards and "
        "one refusing replica; pool-pressure class: per world the uninterrupted run with pool traffic between compression and file "
        "write of every fraction: every .qpr must decode to its fraction's result and the answer equal the synchronous one; distinct by input")


def harness_args(tier, seed, outdir):
    return ["-seed", str(seed), "-tier", tier, "-out", outdir]


def main(argv):
    return vcheck.standard_check(PROP, argv, harness_args, TRUSTED, ASSUME, RULE, coqchk=True)
