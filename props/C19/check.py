"""C19 — a finished asynchronous search equals the synchronous one and survives restarts (DESIGN.md section 7, C19)."""
import vcheck

PROP = "C19"

TRUSTED = [
    "Coq 8.16.1 kernel (coqc), vm_compute for case evaluation; no native_compute",
    "hand-written model props/C19/coq/Model.v of mustWriteFileAtomic/StartSearch/doSearch/loadAsyncSearches/"
    "FetchSearchResult and seq.MergeQPRs (tied to /repo by the correspondence run, not verified code)",
    "Go harness harness/cmd/hC19 (generators, canonical rendering of QPRs, classification of file contents) and the "
    "shared crash-state builder harness/internal/crashfs (strace log -> directory states) + storectl (child processes)",
    "overlap class: the fetch takes its snapshot at the resumed state or a later one (scheduler dependent); the model check accepts "
    "any state of the run from the resumed one on, the spec (Done => sync answer; not Done => merge of a prefix of the fraction list) is exact",
    "proxy level: scripted StoreApiClients (answers are real store-handler responses, protobuf round trip included); "
    "QPR.Aggregate of the proxy answer is not compared (C06)",
    "per-fraction search results, JSON+zstd codec of .qpr/.info files, query re-parsing: NOT modelled; exercised through the "
    "real code on every case (a .qpr/.info file counts as complete only if it decodes to exactly the expected value)",
]
ASSUME = [
    "the store's mapping at resume time is the mapping the query was first parsed with; request IDs contain no '.' or '/' "
    "(the store cannot handle them: fracNameFromQPRPath, path.Join)",
    "aggregation group tokens are valid UTF-8 (otherwise the JSON key codec collides: known finding resume/invalid-utf8-group)",
    "at most 8096 samples per aggregation bin (reservoir replacement is order dependent); float values are multiples of 1/16 "
    "with sums below 2^53 (exact arithmetic)",
    "file-system model of crashfs: directory operations durable in issue order, file data durable up to the last fsync",
    "fractions that existed at start are not removed and do not change before the request completes (new fractions may "
    "appear: ingest/rotation after a restart is part of the crash chains); one request at a time (Parallelism 1)",
]
RULE = ("request IDs as uuid.New() makes them with every final hex digit 0-f over consecutive worlds, plus client-chosen IDs ending in "
        "i/n/o, ending in or containing 'info', ending in 'fff'; text-mapped field t (one token per word) and path-mapped field p next to "
        "the keyword fields, 3 of 5 queries with several words on the text field (meaning depends on the store's mapping). "
        "worlds = corpus in 0..4 real fractions (sealed/active, some IDs stored in two fractions, JSON-hostile group tokens, "
        "exact decimal values) x query x histogram interval x 0..2 aggregations x order x limit; per world the uninterrupted "
        "run (operation sequence, acknowledgement position, async = sync) and restarts on crash states: after k operations, "
        "a write cut short, power loss, second crashes inside the resumed run, and restarts before which new matching documents "
        "are ingested into a new (optionally sealed) fraction. non-trivial = at least 2 fractions, "
        "histogram or aggregation requested, and (for crash cases) the request published but not done at the crash; "
        "crash variant 3 = every leftover temporary file made longer than any "
        "later payload; overlap class: a resumed worker held in the (harness) mapping provider, FetchSearchResult started, worker "
        "released, the fetch blocked on a named pipe among its listed .qpr files until the request is Done; proxy class: the real "
        "search.Ingestor over 1-3 shards x replicas of scripted clients; StartAsyncSearch's request goes to the real store handler of "
        "every shard, FetchAsyncSearchResult gets REAL store-handler answers taken at every progress of each shard (unknown, i of n "
        "partial results persisted and not resumed, resumed, done) in every combination (sampled in quick); non-trivial there = at least "
        "2 answering shards and one still running; distinct by input")


def harness_args(tier, seed, outdir):
    return ["-seed", str(seed), "-tier", tier, "-out", outdir]


def main(argv):
    return vcheck.standard_check(PROP, argv, harness_args, TRUSTED, ASSUME, RULE, coqchk=True)
