(* C19 — proofs about ModelStart.v, part B: the pooled compression buffer of processFrac stays private
   from Acquire to Release, so the bytes written to <id>.<frac>.qpr are the compression of the
   fraction's result for every interleaving with other users of the pool. *)
From Coq Require Import List Bool Arith NArith Lia.
From C19 Require Import Model ModelStart ProofsMap.
Import ListNotations.
Open Scope N_scope.

(* every buffer that exists has a number below the next fresh one *)
Definition wfp (st : pstate) : Prop := forall x o, owner_of x st = Some o -> x < p_next st.
(* processFrac holds buffer b, whose backing array holds c *)
Definition held (b : N) (c : bytes) (st : pstate) : Prop :=
  owner_of b st = Some Mine /\ b < p_next st /\ contents b st = c /\ wfp st.

Lemma wfp_set_owner : forall b o st, b < p_next st -> wfp st -> wfp (set_owner b o st).
Proof.
  intros b o st L W x o' H. unfold owner_of, set_owner in H. simpl in *.
  destruct (N.eq_dec x b) as [->|Ne]; [assumption|]. rewrite find_upd_other in H by assumption. now apply (W x o').
Qed.

Lemma acquire_spec : forall pick o st, wfp st ->
  let bs := acquire pick o st in
  owner_of (fst bs) (snd bs) = Some o /\ fst bs < p_next (snd bs) /\ wfp (snd bs)
  /\ p_bufs (snd bs) = p_bufs st /\ p_next st <= p_next (snd bs)
  /\ (forall x, x <> fst bs -> owner_of x (snd bs) = owner_of x st)
  /\ (owner_of (fst bs) st = Some Free \/ fst bs = p_next st)
  /\ p_mine (snd bs) = p_mine st /\ p_slice (snd bs) = p_slice st /\ p_file (snd bs) = p_file st.
Proof.
  intros pick o st W.
  assert (Fresh : let bs := (p_next st,
             {| p_owner := nm_upd (p_next st) (fun _ => o) (p_owner st); p_bufs := p_bufs st;
                p_next := p_next st + 1; p_mine := p_mine st; p_slice := p_slice st; p_file := p_file st |}) in
           owner_of (fst bs) (snd bs) = Some o /\ fst bs < p_next (snd bs) /\ wfp (snd bs)
           /\ p_bufs (snd bs) = p_bufs st /\ p_next st <= p_next (snd bs)
           /\ (forall x, x <> fst bs -> owner_of x (snd bs) = owner_of x st)
           /\ (owner_of (fst bs) st = Some Free \/ fst bs = p_next st)
           /\ p_mine (snd bs) = p_mine st /\ p_slice (snd bs) = p_slice st /\ p_file (snd bs) = p_file st).
  { simpl. unfold owner_of. simpl.
    split; [apply find_upd_const|]. split; [lia|]. split.
    { intros x o' H. unfold owner_of in H. simpl in *.
      destruct (N.eq_dec x (p_next st)) as [->|Ne]; [lia|]. rewrite find_upd_other in H by assumption.
      specialize (W x o' H). lia. }
    split; [reflexivity|]. split; [lia|]. split; [intros x Ne; now apply find_upd_other|].
    split; [now right|]. repeat split. }
  unfold acquire. destruct pick as [b|]; [|exact Fresh].
  destruct (owner_of b st) as [[| |]|] eqn:E; try exact Fresh.
  simpl. pose proof (W b Free E) as L.
  split; [unfold owner_of, set_owner; simpl; apply find_upd_const|]. split; [exact L|].
  split; [now apply wfp_set_owner|]. split; [reflexivity|]. split; [lia|].
  split; [intros x Ne; unfold owner_of, set_owner; simpl; now apply find_upd_other|].
  split; [now left|]. repeat split.
Qed.

(* the frame: a step of another user does not touch what processFrac holds *)
Lemma other_step_frame : forall st o,
  p_mine (other_step st o) = p_mine st /\ p_slice (other_step st o) = p_slice st /\ p_file (other_step st o) = p_file st.
Proof.
  intros st o. destruct o as [pick|b pat|b]; simpl.
  - unfold acquire. destruct pick as [b|]; [destruct (owner_of b st) as [[| |]|]|]; simpl; repeat split.
  - destruct (owner_of b st) as [[| |]|]; simpl; repeat split.
  - destruct (owner_of b st) as [[| |]|]; simpl; repeat split.
Qed.

Lemma other_step_wfp : forall st o, wfp st -> wfp (other_step st o).
Proof.
  intros st o W. destruct o as [pick|b pat|b]; simpl.
  - destruct (acquire_spec pick Other st W) as [_ [_ [W' _]]]. exact W'.
  - destruct (owner_of b st) as [[| |]|] eqn:E; assumption.
  - destruct (owner_of b st) as [[| |]|] eqn:E; try assumption.
    apply wfp_set_owner; [now apply (W b Other)|assumption].
Qed.

Ltac hsplit := split; [|split; [|split]].
Lemma other_step_held : forall b c st o, held b c st -> held b c (other_step st o).
Proof.
  intros b c st o [O [L [C W]]]. destruct o as [pick|x pat|x]; simpl.
  - destruct (acquire_spec pick Other st W) as [A1 [A2 [A3 [A4 [A5 [A6 [A7 _]]]]]]].
    set (bs := acquire pick Other st) in *.
    assert (Ne : b <> fst bs).
    { intro E. destruct A7 as [F|F]; [rewrite <- E in F; congruence|rewrite <- E in F; lia]. }
    hsplit.
    + rewrite A6 by assumption. assumption.
    + lia.
    + unfold contents. now rewrite A4.
    + assumption.
  - destruct (owner_of x st) as [[| |]|] eqn:E; try (hsplit; assumption).
    assert (Ne : b <> x) by (intro; subst; congruence).
    hsplit; try assumption.
    unfold contents, set_contents. simpl. rewrite find_upd_other by assumption. exact C.
  - destruct (owner_of x st) as [[| |]|] eqn:E; try (hsplit; assumption).
    assert (Ne : b <> x) by (intro; subst; congruence).
    hsplit; try assumption.
    + unfold owner_of, set_owner. simpl. now rewrite find_upd_other.
    + apply wfp_set_owner; [now apply (W x Other)|assumption].
Qed.

Lemma run_others_frame : forall l st,
  p_mine (run_others l st) = p_mine st /\ p_slice (run_others l st) = p_slice st /\ p_file (run_others l st) = p_file st.
Proof.
  induction l as [|o r IH]; intro st; simpl; [repeat split|].
  destruct (IH (other_step st o)) as [A [B C]]. destruct (other_step_frame st o) as [A' [B' C']].
  unfold run_others in *. simpl. repeat split; congruence.
Qed.
Lemma run_others_wfp : forall l st, wfp st -> wfp (run_others l st).
Proof.
  induction l as [|o r IH]; intros st W; [assumption|]. unfold run_others in *. simpl. apply IH. now apply other_step_wfp.
Qed.
Lemma run_others_held : forall l b c st, held b c st -> held b c (run_others l st).
Proof.
  induction l as [|o r IH]; intros b c st H; [assumption|]. unfold run_others in *. simpl. apply IH. now apply other_step_held.
Qed.

Lemma firstn_overwrite : forall pat old, firstn (length pat) (overwrite pat old) = pat.
Proof.
  intros pat old. unfold overwrite. rewrite firstn_app, Nat.sub_diag, firstn_all. simpl. apply app_nil_r.
Qed.

(* one processFrac under any interleaving *)
Theorem frac_bytes_private : forall cp payload pick sched st, wfp st ->
  let st' := run_prog cp payload (prog_ok pick) sched st in
  p_file st' = Some (cp payload) /\ wfp st'.
Proof.
  intros cp payload pick sched st W. cbv zeta.
  set (c0 := hd [] sched). set (c1 := hd [] (tl sched)). set (c2 := hd [] (tl (tl sched))).
  set (c3 := hd [] (tl (tl (tl sched)))). set (c4 := hd [] (tl (tl (tl (tl sched))))).
  (* Acquire *)
  set (s1 := run_others c0 st).
  assert (W1 : wfp s1) by now apply run_others_wfp.
  destruct (acquire_spec pick Mine s1 W1) as [A1 [A2 [A3 [A4 _]]]].
  set (bs := acquire pick Mine s1) in *. set (b := fst bs) in *.
  set (s2 := mine_step cp payload s1 (MAcquire pick)).
  assert (H2 : held b (contents b s1) s2 /\ p_mine s2 = Some b).
  { subst s2. simpl. fold bs. split; [|reflexivity]. hsplit.
    - exact A1.
    - exact A2.
    - unfold contents. simpl. now rewrite A4.
    - intros x o H. apply (A3 x o). exact H. }
  destruct H2 as [H2 M2].
  (* others, then Compress *)
  set (s3 := run_others c1 s2).
  assert (H3 : held b (contents b s1) s3) by now apply run_others_held.
  assert (M3 : p_mine s3 = Some b) by (destruct (run_others_frame c1 s2) as [E _]; fold s3 in E; congruence).
  set (s4 := mine_step cp payload s3 MCompress).
  assert (H4 : held b (overwrite (cp payload) (contents b s1)) s4 /\ p_slice s4 = Some (b, length (cp payload))
               /\ p_mine s4 = Some b).
  { subst s4. simpl. rewrite M3. simpl. destruct H3 as [O [L [C W3]]].
    split; [|split; reflexivity]. hsplit; try assumption.
    unfold contents. simpl. rewrite find_upd_const. unfold contents in C. now rewrite C. }
  destruct H4 as [H4 [S4 M4]].
  (* others, then the file write *)
  set (s5 := run_others c2 s4).
  assert (H5 : held b (overwrite (cp payload) (contents b s1)) s5) by now apply run_others_held.
  destruct (run_others_frame c2 s4) as [M5 [S5 _]]. fold s5 in M5, S5.
  set (s6 := mine_step cp payload s5 MWrite).
  assert (F6 : p_file s6 = Some (cp payload) /\ wfp s6 /\ p_mine s6 = Some b).
  { subst s6. simpl. rewrite S5, S4. simpl. destruct H5 as [_ [_ [C W5]]]. rewrite C, firstn_overwrite.
    split; [reflexivity|]. split; [exact W5|congruence]. }
  destruct F6 as [F6 [W6 M6]].
  (* others, Release, others *)
  set (s7 := run_others c3 s6).
  assert (W7 : wfp s7) by now apply run_others_wfp.
  destruct (run_others_frame c3 s6) as [M7 [_ F7]]. fold s7 in M7, F7.
  assert (H7 : held b (overwrite (cp payload) (contents b s1)) s7).
  { apply run_others_held. destruct H5 as [O [L [C W5]]]. subst s6. simpl. rewrite S5, S4. simpl.
    hsplit; assumption. }
  set (s8 := mine_step cp payload s7 MRelease).
  assert (F8 : p_file s8 = Some (cp payload) /\ wfp s8).
  { subst s8. simpl. rewrite M7, M6. simpl. split; [congruence|].
    destruct H7 as [_ [L _]]. intros x o H. apply (wfp_set_owner b Free s7 L W7 x o). exact H. }
  destruct F8 as [F8 W8].
  destruct (run_others_frame c4 s8) as [_ [_ F9]].
  change (p_file (run_others c4 s8) = Some (cp payload) /\ wfp (run_others c4 s8)).
  split; [congruence|now apply run_others_wfp].
Qed.

Lemma bytes_eqb_refl : forall a, bytes_eqb a a = true.
Proof. induction a as [|x r IH]; simpl; [reflexivity|]. now rewrite N.eqb_refl. Qed.

(* every fraction of the request, one after the other on the same pool *)
Definition reset (st : pstate) : pstate :=
  {| p_owner := p_owner st; p_bufs := p_bufs st; p_next := p_next st; p_mine := None; p_slice := None; p_file := None |}.
Lemma pool_fracs_cons : forall cp payload prog f pick sched r st,
  pool_fracs cp payload prog ((f, (pick, sched)) :: r) st =
  (match p_file (run_prog cp (payload f) (prog pick) sched (reset st)) with
   | Some b => if bytes_eqb b (cp (payload f)) then CQpr f else CTorn
   | None => CTorn
   end) :: pool_fracs cp payload prog r (run_prog cp (payload f) (prog pick) sched (reset st)).
Proof. reflexivity. Qed.

Theorem fracs_bytes_private : forall cp payload plan st, wfp st ->
  pool_fracs cp payload prog_ok plan st = map (fun p => CQpr (fst p)) plan.
Proof.
  intros cp payload plan. induction plan as [|[f [pick sched]] r IH]; intros st W; [reflexivity|].
  rewrite pool_fracs_cons.
  assert (W0 : wfp (reset st)) by (intros x o H; apply (W x o); exact H).
  destruct (frac_bytes_private cp (payload f) pick sched (reset st) W0) as [F W']. cbv zeta in F, W'.
  rewrite F, bytes_eqb_refl. simpl map. f_equal. now apply IH.
Qed.

Lemma start_ops_with_ok : forall fs, start_ops_with fs (map CQpr fs) = start_ops fs.
Proof.
  intro fs. unfold start_ops_with, start_ops. f_equal. f_equal. destruct (nullb fs); [reflexivity|].
  unfold dosearch_ops. f_equal. induction fs as [|f r IH]; simpl; [reflexivity|]. now rewrite IH.
Qed.

(* C19_qpr_bytes_private: the directory of a run under pool pressure is the directory of the protocol
   model — every <id>.<frac>.qpr holds exactly the compression of that fraction's result *)
Theorem qpr_bytes_private : forall cp payload plan st, wfp st ->
  pool_fracs cp payload prog_ok plan st = map (fun p => CQpr (fst p)) plan
  /\ pool_run_dir cp payload prog_ok plan st = apply_ops [] (start_ops (map fst plan)).
Proof.
  intros cp payload plan st W. pose proof (fracs_bytes_private cp payload plan st W) as F.
  split; [exact F|]. unfold pool_run_dir. rewrite F.
  rewrite <- (map_map fst CQpr). now rewrite start_ops_with_ok.
Qed.

Lemma pool_empty_wfp : wfp pool_empty.
Proof. intros x o H. discriminate. Qed.

(* the release-before-write order is refuted: another goroutine acquires the released buffer and fills
   it before the file is written; the identical interleaving is harmless for the real order *)
Definition toy_cp (p : bytes) : bytes := 40 :: 181 :: 47 :: 253 :: p.
Lemma release_first_refuted :
  let sched := [[]; []; []; [OAcquire (Some 0); OFill 0 [170; 170; 170]]; []] in
  p_file (run_prog toy_cp [1; 2; 3] (prog_release_first None) sched pool_empty) = Some [170; 170; 170; 253; 1; 2; 3]
  /\ pool_fracs toy_cp (fun f => [f]) prog_release_first [(7, (None, sched))] pool_empty = [CTorn]
  /\ p_file (run_prog toy_cp [1; 2; 3] (prog_ok None) sched pool_empty) = Some (toy_cp [1; 2; 3])
  /\ pool_fracs toy_cp (fun f => [f]) prog_ok [(7, (None, sched))] pool_empty = [CQpr 7].
Proof. vm_compute. repeat split. Qed.
