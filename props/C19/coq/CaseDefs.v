(* C19 — shape of the generated cases and the two executable verdicts. No proofs. *)
From VLib Require Import CaseLib.
From Coq Require Import ZArith.
From C19 Require Import Model ModelStart.
Open Scope N_scope.

(* ---------------------------------------------------------------- equality tests *)
Definition idl_eqb : list id -> list id -> bool := list_eqb id_eqb.
Definition hist_eqb : hist -> hist -> bool := list_eqb (pair_eqb N.eqb N.eqb).
Definition sc_eqb (a b : sc) : bool :=
  Z.eqb (sc_min a) (sc_min b) && Z.eqb (sc_max a) (sc_max b) && Z.eqb (sc_sum a) (sc_sum b)
  && Z.eqb (sc_total a) (sc_total b) && Z.eqb (sc_ne a) (sc_ne b)
  && list_eqb Z.eqb (sc_samples a) (sc_samples b).
Definition agg_eqb (a b : agg) : bool :=
  Z.eqb (fst a) (fst b) && list_eqb (pair_eqb N.eqb sc_eqb) (snd a) (snd b).
(* Aggs nil (no .qpr merged yet) = a list of empty aggregations *)
Definition pad_aggs (n : nat) (a : list agg) : list agg := a ++ repeat agg_empty (n - length a).
Definition aggs_eqb (a b : list agg) : bool :=
  let n := Nat.max (length a) (length b) in list_eqb agg_eqb (pad_aggs n a) (pad_aggs n b).
Definition qpr_eqb (a b : qpr) : bool :=
  idl_eqb (q_ids a) (q_ids b) && hist_eqb (q_hist a) (q_hist b) && aggs_eqb (q_aggs a) (q_aggs b)
  && N.eqb (q_total a) (q_total b).

Definition fname_eqb (a b : fname) : bool := fkey a =? fkey b.
Definition content_eqb (a b : content) : bool :=
  match a, b with
  | CInfo x, CInfo y => Bool.eqb x y
  | CQpr f, CQpr g => f =? g
  | CTorn, CTorn => true
  | CLong, CLong => true
  | _, _ => false
  end.
Definition op_eqb (a b : op) : bool :=
  match a, b with
  | OMkdir, OMkdir | OFsyncDir, OFsyncDir => true
  | OCreate n, OCreate m | OFsync n, OFsync m => fname_eqb n m
  | OWrite n c, OWrite m d => fname_eqb n m && content_eqb c d
  | ORename a1 a2, ORename b1 b2 => fname_eqb a1 b1 && fname_eqb a2 b2
  | _, _ => false
  end.
Definition dir_eqb : dir -> dir -> bool := list_eqb (pair_eqb N.eqb content_eqb).

(* ---------------------------------------------------------------- the property, executable *)
(* the answer of a finished asynchronous search equals the synchronous one: same IDs (up to the
   request's limit), same histogram, same aggregation samples *)
Definition same_answer (limit : N) (async sync : qpr) : bool :=
  idl_eqb (take limit (q_ids async)) (q_ids sync) && hist_eqb (q_hist async) (q_hist sync)
  && aggs_eqb (q_aggs async) (q_aggs sync).

(* durability discipline of a sequence of observed operations (mustWriteFileAtomic): a rename
   publishes only a file whose last write was followed by an fsync of it, and the next operation
   after a rename is the fsync of the directory *)
Fixpoint durable_from (l : list op) (dirty : list fname) : bool :=
  match l with
  | [] => true
  | OWrite n _ :: r => durable_from r (n :: dirty)
  | OCreate n :: r => durable_from r (n :: dirty)
  | OFsync n :: r => durable_from r (filter (fun m => negb (fname_eqb m n)) dirty)
  | ORename a b :: r =>
      negb (existsb (fname_eqb a) dirty)
      && match r with OFsyncDir :: _ => true | _ => false end
      && durable_from r dirty
  | _ :: r => durable_from r dirty
  end.
Definition durable (l : list op) : bool := durable_from l [].
(* temporary names are written, final names only appear by rename *)
Definition is_tmp (n : fname) : bool := match n with FInfoTmp | FQprTmp _ => true | _ => false end.
Definition writes_tmp_only (l : list op) : bool :=
  forallb (fun o => match o with OWrite n _ | OCreate n => is_tmp n | ORename a b => is_tmp a && negb (is_tmp b)
                             | _ => true end) l.

(* fractions whose partial result a run published *)
Definition published_qprs (l : list op) : list N :=
  flat_map (fun o => match o with ORename _ (FQpr f) => [f] | _ => [] end) l.
Definition visible_qprs (s : dir) : list N :=
  flat_map (fun e => if is_qpr_key (fst e) then [(fst e - 2) / 2] else []) s.
Fixpoint insN (x : N) (l : list N) : list N :=
  match l with [] => [x] | y :: r => if y <? x then y :: insN x r else x :: l end.
Definition sortN (l : list N) : list N := fold_right insN [] l.
Definition nl_eqb : list N -> list N -> bool := list_eqb N.eqb.
Definition complete_qprs (s : dir) (fs : list N) : bool :=
  (* one well-formed partial result per fraction of the start-time list, nothing else *)
  forallb (fun e => negb (is_qpr_key (fst e)) ||
                    match snd e with CQpr f => fkey (FQpr f) =? fst e | _ => false end) s
  && nl_eqb (visible_qprs s) (sortN fs).

Fixpoint info_pub_pos (l : list op) (i : nat) : option nat :=
  match l with
  | [] => None
  | ORename _ FInfo :: _ => Some i
  | _ :: r => info_pub_pos r (S i)
  end.
Definition acked_durable (ops : list op) (acked : nat) : bool :=
  match info_pub_pos ops 0 with
  | Some p => (p + 2 <=? acked)%nat && durable (firstn (p + 2) ops)
              && match nth_error ops (S p) with Some OFsyncDir => true | _ => false end
  | None => false
  end.

Record world := {
  w_id : list N;            (* the request ID (bytes) *)
  w_fs : list N;            (* fractions of the request in the order of asyncSearchInfo.Fractions *)
  w_hi : N; w_rev : bool; w_limit : N; w_naggs : nat;
  w_per : list (N * qpr);   (* per-fraction partial results (real DataProvider.Search), by fraction number *)
  w_sync : qpr              (* real Searcher.SearchDocs over the same fraction list *)
}.

Inductive case :=
(* uninterrupted run on an empty directory: observed operations, number of operations completed when
   StartSearch was acknowledged, answer after Done, parameters echoed correctly *)
| CRun (w : world) (ops : list op) (acked : nat) (found done reqok : bool) (res : qpr)
(* the run crashes (chain of (k, variant), each next crash hits the resumed run); obs_state = the
   directory at the last crash as read back by the harness; then a fresh process resumes:
   its operations, the final directory, found/done/parameters, the fetched answer.
   acked: the first crash is after StartSearch was acknowledged; live: the fractions alive when the
   last resume ran (start-time numbers, larger numbers = fractions that appeared later) *)
| CCrash (w : world) (chain : list (nat * N)) (acked : bool) (live : list N) (obs_state : dir)
         (ops : list op) (final : dir) (found done reqok : bool) (res : qpr)
(* proxy level: the replicas of every shard with their (real) store answers, the synchronous answer of
   every shard, and what Ingestor.FetchAsyncSearchResult returned (None = NotFound) *)
(* FetchSearchResult overlapping the worker: the request is resumed on the directory after k operations
   of the first run, the fetch looks it up and lists the files while the worker has not progressed,
   then the worker finishes (Done) while the fetch is still reading; (done, res) = the fetch's answer *)
| CRace (w : world) (k : nat) (found done : bool) (res : qpr)
| CProxy (naggs : nat) (size hi : N) (rev : bool) (shards : list (list replica)) (syncs : list qpr)
         (impl : option (bool * qpr))
(* proxy level, histories that begin with the start: pattern = what every replica of every shard answers
   to StartAsyncSearch; started/calls = whether Ingestor.StartAsyncSearch returned an ID and the calls it
   made as (shard, replica); avail = what the store of each shard answers at fetch time IF it has the
   request (real store-handler answers); syncs = the synchronous answer of every shard; impl = what
   Ingestor.FetchAsyncSearchResult returned for the ID (None = NotFound, or no ID to fetch with) *)
| CPStart (naggs : nat) (size hi : N) (rev : bool) (pattern : list (list sreply)) (avail : list (bool * qpr))
          (syncs : list qpr) (started : bool) (calls : list (nat * nat)) (impl : option (bool * qpr))
(* store level, pool pressure: the uninterrupted run with another goroutine acquiring, poisoning and
   releasing buffers of the global bytes pool at the scheduling point between compression and file
   write; plan = per fraction the buffer handed out and the interleaving (abstract buffers); final = the
   directory afterwards as classified by the harness; (found, done, res) = the fetched answer *)
| CPool (w : world) (plan : list fplan) (final : dir) (found done : bool) (res : qpr).

(* proxy level: the replicas of every shard with their (real) store answers, the synchronous answer of
   every shard, and what Ingestor.FetchAsyncSearchResult returned (None = NotFound) *)
(* spec side, written without the model's functions: first answer of a shard, paired with its sync *)
Fixpoint first_answer (s : list replica) : option (bool * qpr) :=
  match s with
  | [] => None
  | RAnswer d q :: _ => Some (d, q)
  | _ :: r => first_answer r
  end.
Fixpoint answering (shards : list (list replica)) (syncs : list qpr) : list (bool * qpr) :=
  match shards, syncs with
  | s :: shards', y :: syncs' =>
      match first_answer s with
      | Some (d, _) => (d, y) :: answering shards' syncs'
      | None => answering shards' syncs'
      end
  | _, _ => []
  end.
Definition per_list (w : world) (s : dir) := stored_qprs (w_per w) s.

(* stand-ins for zstd.CompressLevel and the JSON of fraction f's result in the pool cases: only the
   equality "file bytes = compression of the payload" matters (C19_qpr_bytes_private holds for every cp) *)
Definition case_cp (p : bytes) : bytes := 40 :: 181 :: 47 :: 253 :: p.
Definition case_payload (f : N) : bytes := [f].
Definition accepts (r : sreply) : bool := match r with SAccept => true | SRefuse => false end.

(* model output = implementation output *)
Definition case_agrees (c : case) : bool :=
  match c with
  | CRun w ops acked fnd dn reqok res =>
      let mops := start_ops (w_fs w) in
      let fin := apply_ops [] mops in
      list_eqb op_eqb mops ops
      && (6 <=? acked)%nat
      && Bool.eqb fnd true && Bool.eqb dn true
      && qpr_eqb (fetch_dir (w_hi w) (w_rev w) (w_per w) fin) res
      && qpr_eqb (sync_search (w_naggs w) (w_limit w) (w_hi w) (w_rev w) (map snd (w_per w))) (w_sync w)
  | CCrash w chain acked live obs ops final fnd dn reqok res =>
      let s := chain_state (w_fs w) [] (start_ops (w_fs w)) chain in
      let rops := fst (resume_live s live (w_fs w)) in
      let fin := apply_ops s rops in
      dir_eqb s obs
      && list_eqb op_eqb rops ops
      && dir_eqb fin final
      && Bool.eqb (found_as (w_id w) s) fnd
      && Bool.eqb (is_done fin) dn
      && qpr_eqb (if found_as (w_id w) s then fetch_dir (w_hi w) (w_rev w) (w_per w) fin else qpr_zero) res
  | CRace w k fnd dn res =>
      (* the fetch took its snapshot at the resumed state or at some later state of the run *)
      let ops := start_ops (w_fs w) in
      fnd
      && existsb (fun k' =>
           let r := fetch_result (w_hi w) (w_rev w) (w_per w) (crash_state [] ops k' 0) in
           Bool.eqb dn (fst r) && qpr_eqb res (snd r))
         (seq k (S (length ops - k)))
  | CProxy naggs size hi rev shards syncs impl =>
      match proxy_fetch naggs size hi rev shards, impl with
      | None, None => true
      | Some (d, q), Some (d', q') => Bool.eqb d d' && qpr_eqb q q'
      | _, _ => false
      end
  | CPStart naggs size hi rev pattern avail syncs started calls impl =>
      list_eqb (pair_eqb Nat.eqb Nat.eqb) (fst (proxy_start pattern)) calls
      && Bool.eqb started (start_succeeds pattern)
      && match start_then_fetch naggs size hi rev pattern avail, started, impl with
         | None, false, None => true
         | Some None, true, None => true
         | Some (Some (d, q)), true, Some (d', q') => Bool.eqb d d' && qpr_eqb q q'
         | _, _, _ => false
         end
  | CPool w plan final fnd dn res =>
      let fin := pool_run_dir case_cp case_payload prog_ok plan pool_empty in
      nl_eqb (map fst plan) (w_fs w)
      && dir_eqb fin final
      && Bool.eqb fnd true && Bool.eqb dn (is_done fin)
      && qpr_eqb (fetch_dir (w_hi w) (w_rev w) (w_per w) fin) res
  end.

(* implementation output satisfies the property (independent of the model's protocol and merge) *)
Definition case_spec_ok (c : case) : bool :=
  match c with
  | CRun w ops acked fnd dn reqok res =>
      durable ops && writes_tmp_only ops
      (* the request is durable before StartSearch returns: the rename that publishes <id>.info and the
         directory fsync after it are among the operations completed before the acknowledgement *)
      && acked_durable ops acked
      && fnd && dn && reqok
      && nl_eqb (sortN (published_qprs ops)) (sortN (w_fs w))
      && same_answer (w_limit w) res (w_sync w)
  | CCrash w chain acked live obs ops final fnd dn reqok res =>
      let pub := match nm_find (fkey FInfo) obs with Some (CInfo _) => true | _ => false end in
      (* an acknowledged request is on disk, complete *)
      (negb acked || pub)
      && (* whatever is visible under a final name is complete *)
         forallb (fun e => negb (N.even (fst e)) || match snd e with CTorn | CLong => false | _ => true end) obs
      && (if pub then
            fnd && dn && reqok
            && durable ops && writes_tmp_only ops
            (* exactly the remaining fractions are searched *)
            && nl_eqb (sortN (published_qprs ops ++ visible_qprs obs)) (sortN (w_fs w))
            && complete_qprs final (w_fs w)
            && same_answer (w_limit w) res (w_sync w)
          else negb fnd)
  | CRace w k fnd dn res =>
      (* Done => the synchronous answer; not Done => the merge of the partial results of a prefix of the
         request's fraction list *)
      fnd
      && (if dn then same_answer (w_limit w) res (w_sync w)
          else existsb (fun j =>
                 let sub := firstn j (w_fs w) in
                 let qs := map snd (filter (fun e => existsb (N.eqb (fst e)) sub) (w_per w)) in
                 let m := sync_search (w_naggs w) 18446744073709551615 (w_hi w) (w_rev w) qs in
                 idl_eqb (q_ids res) (q_ids m) && hist_eqb (q_hist res) (q_hist m) && aggs_eqb (q_aggs res) (q_aggs m))
               (seq 0 (S (length (w_fs w)))))
  | CProxy naggs size hi rev shards syncs impl =>
      let ans := answering shards syncs in
      (length shards =? length syncs)%nat
      && match impl with
         | None => nullb ans
         | Some (d, q) =>
             negb (nullb ans)
             (* Done iff every shard that has the request is done *)
             && Bool.eqb d (forallb fst ans)
             (* a finished search answers like the synchronous search over all shards *)
             && (negb d || same_answer size q (sync_search naggs size hi rev (map snd ans)))
         end
  | CPStart naggs size hi rev pattern avail syncs started calls impl =>
      (length pattern =? length syncs)%nat && (length pattern =? length avail)%nat
      && (if started then
            (* an ID is handed out only if every shard has a replica that accepted the request *)
            forallb (existsb accepts) pattern
            && match impl with
               | None => false                        (* a started search is known to the cluster *)
               | Some (d, q) =>
                   (* Done only when every shard is done, and then it is the synchronous answer over ALL shards *)
                   negb d || (forallb fst avail && same_answer size q (sync_search naggs size hi rev syncs))
               end
          else match impl with None => true | Some _ => false end)
  | CPool w plan final fnd dn res =>
      (* every <id>.<frac>.qpr decodes to that fraction's result; the answer is the synchronous one *)
      fnd && dn
      && match nm_find (fkey FInfo) final with Some (CInfo true) => true | _ => false end
      && complete_qprs final (w_fs w)
      && same_answer (w_limit w) res (w_sync w)
  end.

Definition diff_indices (l : list case) : list nat := bad_indices (fun c => negb (case_agrees c)) l.
Definition specfail_indices (l : list case) : list nat := bad_indices (fun c => negb (case_spec_ok c)) l.
