(* C19 — IDs: insertion sort, removal of repetitions, and what they depend on. *)
From Coq Require Import List Bool Arith NArith Lia Permutation Sorted.
From C19 Require Import Model.
Import ListNotations.
Open Scope N_scope.

(* ---------------------------------------------------------------- strictly sorted lists *)
Section Unique.
  Context {A : Type} (R : A -> A -> Prop).
  Hypothesis R_irrefl : forall a, ~ R a a.
  Hypothesis R_trans : forall a b c, R a b -> R b c -> R a c.

  Lemma ssorted_unique : forall l1 l2, StronglySorted R l1 -> StronglySorted R l2 ->
    (forall x, In x l1 <-> In x l2) -> l1 = l2.
  Proof.
    induction l1 as [|a l1 IH]; intros l2 S1 S2 M.
    - destruct l2 as [|b l2]; [reflexivity|]. exfalso. apply (proj2 (M b)). now left.
    - destruct l2 as [|b l2]; [exfalso; apply (proj1 (M a)); now left|].
      inversion S1 as [|? ? S1' F1]; subst. inversion S2 as [|? ? S2' F2]; subst.
      rewrite Forall_forall in F1, F2.
      assert (a = b).
      { destruct (proj1 (M a) (or_introl eq_refl)) as [E|Ha]; [now symmetry|].
        destruct (proj2 (M b) (or_introl eq_refl)) as [E|Hb]; [assumption|].
        exfalso. apply (R_irrefl a). apply R_trans with b; [now apply F1|now apply F2]. }
      subst b. f_equal. apply IH; try assumption.
      intro x. split; intro H.
      + destruct (proj1 (M x) (or_intror H)) as [E|Hx]; [|assumption].
        subst x. exfalso. apply (R_irrefl a). now apply F1.
      + destruct (proj2 (M x) (or_intror H)) as [E|Hx]; [|assumption].
        subst x. exfalso. apply (R_irrefl a). now apply F2.
  Qed.
End Unique.

(* ---------------------------------------------------------------- the order on IDs *)
Ltac idcmp :=
  repeat match goal with
  | H : context [N.eqb ?a ?b] |- _ => destruct (N.eqb_spec a b)
  | H : context [N.ltb ?a ?b] |- _ => destruct (N.ltb_spec a b)
  | |- context [N.eqb ?a ?b] => destruct (N.eqb_spec a b)
  | |- context [N.ltb ?a ?b] => destruct (N.ltb_spec a b)
  end; try discriminate; try lia; try reflexivity.

Lemma id_ltb_irrefl : forall a, id_ltb a a = false.
Proof. intros [a1 a2]. unfold id_ltb. simpl. idcmp. Qed.
Lemma id_ltb_trans : forall a b c, id_ltb a b = true -> id_ltb b c = true -> id_ltb a c = true.
Proof. intros [a1 a2] [b1 b2] [c1 c2]. unfold id_ltb. simpl. intros H1 H2. idcmp. Qed.
Lemma id_ltb_total : forall a b, a <> b -> id_ltb a b = true \/ id_ltb b a = true.
Proof.
  intros [a1 a2] [b1 b2] Hne. unfold id_ltb. simpl.
  destruct (N.eq_dec a1 b1) as [E1|E1]; destruct (N.eq_dec a2 b2) as [E2|E2]; subst; try congruence; idcmp; auto; lia.
Qed.
Lemma id_eqb_eq : forall a b, id_eqb a b = true <-> a = b.
Proof.
  intros [a1 a2] [b1 b2]. unfold id_eqb. simpl. rewrite andb_true_iff, !N.eqb_eq.
  split; [intros [-> ->]; reflexivity|intro H; inversion H; auto].
Qed.

Definition lt_id (rev : bool) (a b : id) : Prop := before rev a b = true.
Definition le_id (rev : bool) (a b : id) : Prop := before rev b a = false.

Lemma lt_irrefl : forall rev a, ~ lt_id rev a a.
Proof. intros rev a. unfold lt_id, before. destruct rev; rewrite id_ltb_irrefl; discriminate. Qed.
Lemma lt_trans : forall rev a b c, lt_id rev a b -> lt_id rev b c -> lt_id rev a c.
Proof.
  intros rev a b c. unfold lt_id, before. destruct rev; intros H1 H2.
  - now apply id_ltb_trans with b.
  - now apply id_ltb_trans with b.
Qed.
Lemma lt_total : forall rev a b, a <> b -> lt_id rev a b \/ lt_id rev b a.
Proof.
  intros rev a b H. unfold lt_id, before. destruct rev.
  - now apply id_ltb_total.
  - destruct (id_ltb_total a b H); auto.
Qed.
Lemma lt_le : forall rev a b, lt_id rev a b -> le_id rev a b.
Proof.
  intros rev a b H. unfold le_id. destruct (before rev b a) eqn:E; [|reflexivity].
  exfalso. apply (lt_irrefl rev a). now apply lt_trans with b.
Qed.
Lemma le_neq_lt : forall rev a b, le_id rev a b -> a <> b -> lt_id rev a b.
Proof.
  intros rev a b L N. destruct (lt_total rev a b N) as [H|H]; [assumption|].
  unfold le_id in L. unfold lt_id in H. congruence.
Qed.
Lemma le_trans : forall rev a b c, le_id rev a b -> le_id rev b c -> le_id rev a c.
Proof.
  intros rev a b c H1 H2.
  destruct (id_eqb a b) eqn:E1; [apply id_eqb_eq in E1; now subst|].
  destruct (id_eqb b c) eqn:E2; [apply id_eqb_eq in E2; now subst|].
  apply lt_le. apply lt_trans with b; apply le_neq_lt; try assumption.
  - intro E. apply id_eqb_eq in E. congruence.
  - intro E. apply id_eqb_eq in E. congruence.
Qed.
Lemma lt_le_trans : forall rev a b c, lt_id rev a b -> le_id rev b c -> lt_id rev a c.
Proof.
  intros rev a b c H1 H2.
  destruct (id_eqb b c) eqn:E2; [apply id_eqb_eq in E2; now subst|].
  apply lt_trans with b; [assumption|]. apply le_neq_lt; [assumption|].
  intro E. apply id_eqb_eq in E. congruence.
Qed.

(* ---------------------------------------------------------------- insertion sort *)
Lemma ins_perm : forall rev x l, Permutation (ins_id rev x l) (x :: l).
Proof.
  induction l as [|y r IH]; simpl; [reflexivity|].
  destruct (before rev y x); [|reflexivity].
  rewrite IH. apply perm_swap.
Qed.
Lemma sort_perm : forall rev l, Permutation (sort_ids rev l) l.
Proof.
  induction l as [|x r IH]; simpl; [reflexivity|].
  unfold sort_ids in *. simpl. rewrite ins_perm. now constructor.
Qed.

Lemma ins_sorted : forall rev x l, StronglySorted (le_id rev) l -> StronglySorted (le_id rev) (ins_id rev x l).
Proof.
  induction l as [|y r IH]; intro S; simpl.
  - constructor; constructor.
  - inversion S as [|? ? S' F]; subst.
    destruct (before rev y x) eqn:B.
    + constructor; [now apply IH|].
      apply Forall_forall. intros z Hz.
      apply (Permutation_in _ (ins_perm rev x r)) in Hz. destruct Hz as [<-|Hz].
      * now apply lt_le.
      * rewrite Forall_forall in F. now apply F.
    + constructor; [assumption|]. constructor; [exact B|].
      apply Forall_forall. intros z Hz. rewrite Forall_forall in F.
      apply le_trans with y; [exact B|now apply F].
Qed.
Lemma sort_sorted : forall rev l, StronglySorted (le_id rev) (sort_ids rev l).
Proof.
  induction l as [|x r IH]; unfold sort_ids in *; simpl; [constructor|]. now apply ins_sorted.
Qed.

(* ---------------------------------------------------------------- removal of repetitions *)
Lemma dedup_from_perm : forall l last, Permutation (fst (dedup_from last l) ++ snd (dedup_from last l)) l.
Proof.
  induction l as [|x r IH]; intro last; simpl; [reflexivity|].
  destruct (id_eqb last x) eqn:E.
  - apply id_eqb_eq in E. subst x. specialize (IH last).
    destruct (dedup_from last r) as [k d]. simpl in *.
    apply Permutation_sym. apply Permutation_cons_app. now apply Permutation_sym.
  - specialize (IH x). destruct (dedup_from x r) as [k d]. simpl in *. now constructor.
Qed.
Lemma dedup_perm : forall l, Permutation (fst (dedup l) ++ snd (dedup l)) l.
Proof.
  destruct l as [|x r]; simpl; [reflexivity|].
  pose proof (dedup_from_perm r x) as P. destruct (dedup_from x r) as [k d]. simpl in *. now constructor.
Qed.

Lemma dedup_from_spec : forall rev l last, StronglySorted (le_id rev) l -> Forall (le_id rev last) l ->
  StronglySorted (lt_id rev) (fst (dedup_from last l))
  /\ Forall (lt_id rev last) (fst (dedup_from last l))
  /\ (forall x, In x (fst (dedup_from last l)) -> In x l)
  /\ (forall x, In x l -> x = last \/ In x (fst (dedup_from last l))).
Proof.
  induction l as [|x r IH]; intros last S F; simpl.
  - repeat split; try constructor; intros; contradiction.
  - inversion S as [|? ? S' Fx]; subst. inversion F as [|? ? Lx Fr]; subst.
    destruct (id_eqb last x) eqn:E.
    + apply id_eqb_eq in E. subst x. destruct (IH last S' Fr) as [A [B [C D]]].
      destruct (dedup_from last r) as [k d]. simpl in *.
      repeat split; try assumption.
      * intros y Hy. right. now apply C.
      * intros y [<-|Hy]; [now left|now apply D].
    + destruct (IH x S' Fx) as [A [B [C D]]].
      destruct (dedup_from x r) as [k d]. simpl in *.
      assert (Lt : lt_id rev last x).
      { apply le_neq_lt; [assumption|]. intro H. apply id_eqb_eq in H. congruence. }
      repeat split.
      * constructor; assumption.
      * constructor; [assumption|]. apply Forall_forall. intros y Hy. rewrite Forall_forall in B.
        apply lt_trans with x; [assumption|now apply B].
      * intros y [<-|Hy]; [now left|right; now apply C].
      * intros y [<-|Hy]; [right; now left|]. destruct (D y Hy) as [->|H]; right; [now left|now right].
Qed.

Definition kept (rev : bool) (l : list id) : list id := fst (dedup (sort_ids rev l)).
Definition removed (rev : bool) (l : list id) : list id := snd (dedup (sort_ids rev l)).

Lemma kept_spec : forall rev l,
  StronglySorted (lt_id rev) (kept rev l) /\ (forall x, In x (kept rev l) <-> In x l).
Proof.
  intros rev l. unfold kept.
  pose proof (sort_sorted rev l) as S. pose proof (sort_perm rev l) as P.
  destruct (sort_ids rev l) as [|x r] eqn:E; simpl.
  - split; [constructor|]. intro y. split; [intros []|]. intro H.
    apply (Permutation_in _ (Permutation_sym P)) in H. contradiction.
  - inversion S as [|? ? S' F]; subst.
    destruct (dedup_from_spec rev r x S' F) as [A [B [C D]]].
    destruct (dedup_from x r) as [k d]. simpl in *.
    split; [constructor; assumption|].
    intro y. split.
    + intros [<-|H]; apply (Permutation_in _ P); [now left|right; now apply C].
    + intro H. apply (Permutation_in _ (Permutation_sym P)) in H. destruct H as [<-|H]; [now left|].
      destruct (D y H) as [->|H']; [now left|now right].
Qed.

(* the IDs that survive depend only on the set of IDs *)
Lemma kept_same_set : forall rev l1 l2, (forall x, In x l1 <-> In x l2) -> kept rev l1 = kept rev l2.
Proof.
  intros rev l1 l2 M.
  destruct (kept_spec rev l1) as [S1 M1]. destruct (kept_spec rev l2) as [S2 M2].
  apply (ssorted_unique (lt_id rev) (lt_irrefl rev) (lt_trans rev)); try assumption.
  intro x. rewrite M1, M2. apply M.
Qed.

Lemma kept_removed_perm : forall rev l, Permutation (kept rev l ++ removed rev l) l.
Proof.
  intros rev l. unfold kept, removed. rewrite dedup_perm. apply sort_perm.
Qed.

(* merging an already merged list with new IDs = merging everything at once *)
Lemma kept_incremental : forall rev l1 l2, kept rev (kept rev l1 ++ l2) = kept rev (l1 ++ l2).
Proof.
  intros rev l1 l2. apply kept_same_set. intro x.
  rewrite !in_app_iff. destruct (kept_spec rev l1) as [_ M]. now rewrite M.
Qed.
(* the repetitions removed step by step are, as a multiset, those removed at once *)
Lemma removed_incremental : forall rev l1 l2,
  Permutation (removed rev (kept rev l1 ++ l2) ++ removed rev l1) (removed rev (l1 ++ l2)).
Proof.
  intros rev l1 l2.
  apply Permutation_app_inv_l with (kept rev (l1 ++ l2)).
  rewrite kept_removed_perm.
  rewrite <- (kept_incremental rev l1 l2) at 1.
  rewrite app_assoc, kept_removed_perm.
  rewrite <- app_assoc. rewrite (Permutation_app_comm l2). rewrite app_assoc.
  now rewrite kept_removed_perm.
Qed.
Lemma removed_same_multiset : forall rev l1 l2, Permutation l1 l2 -> Permutation (removed rev l1) (removed rev l2).
Proof.
  intros rev l1 l2 P.
  apply Permutation_app_inv_l with (kept rev l1).
  rewrite kept_removed_perm.
  rewrite (kept_same_set rev l1 l2) by (intro x; split; apply Permutation_in; [assumption|now apply Permutation_sym]).
  rewrite kept_removed_perm. assumption.
Qed.
