(* C19 — the persistence protocol: crash states and resumption. *)
From Coq Require Import List Bool Arith NArith Lia.
From C19 Require Import Model ProofsMap.
Import ListNotations.
Open Scope N_scope.

Definition vfind (n : fname) (s : dir) : option content := nm_find (fkey n) s.
(* keys of final names (<id>.info, <id>.<frac>.qpr); temporary names have odd keys *)
Definition vk (k : N) : Prop := N.even k = true.
Definition tmpname (n : fname) : Prop := N.even (fkey n) = false.

Lemma vk_info : vk (fkey FInfo). Proof. reflexivity. Qed.
Lemma vk_qpr : forall f, vk (fkey (FQpr f)).
Proof. intro f. unfold vk, fkey. rewrite N.even_add_mul_2. reflexivity. Qed.
Lemma tmp_infotmp : tmpname FInfoTmp. Proof. reflexivity. Qed.
Lemma tmp_qprtmp : forall f, tmpname (FQprTmp f).
Proof. intro f. unfold tmpname, fkey. rewrite N.even_add_mul_2. reflexivity. Qed.
Lemma vk_ne_tmp : forall k n, vk k -> tmpname n -> k <> fkey n.
Proof. unfold vk, tmpname. intros k n A B E. subst. congruence. Qed.
Lemma fkey_qpr_inj : forall f g, fkey (FQpr f) = fkey (FQpr g) -> f = g.
Proof. unfold fkey. intros. lia. Qed.
Lemma fkey_qpr_info : forall f, fkey (FQpr f) <> fkey FInfo.
Proof. unfold fkey. intros. lia. Qed.

(* ---------------------------------------------------------------- one atomic write *)
Lemma apply_ops_app : forall l1 l2 s, apply_ops s (l1 ++ l2) = apply_ops (apply_ops s l1) l2.
Proof. intros. unfold apply_ops. apply fold_left_app. Qed.

Lemma group_prefix : forall s n tmp c j k, tmpname tmp -> vk k ->
  nm_find k (apply_ops s (firstn j (atomic_write n tmp c)))
  = if (4 <=? j)%nat && (k =? fkey n) then Some c else nm_find k s.
Proof.
  intros s n tmp c j k Ht Hk.
  assert (Hne : k <> fkey tmp) by (apply vk_ne_tmp; assumption).
  assert (R : forall S0, nm_find k
     (match nm_find (fkey tmp) (dset tmp c (dset tmp CTorn S0)) with
      | Some c' => dset n c' (nm_del (fkey tmp) (dset tmp c (dset tmp CTorn S0)))
      | None => dset tmp c (dset tmp CTorn S0) end)
     = if k =? fkey n then Some c else nm_find k S0).
  { intro S0. unfold dset at 1. rewrite find_upd_const. unfold dset at 1.
    destruct (N.eqb_spec k (fkey n)) as [->|Hn].
    - apply find_upd_const.
    - rewrite find_upd_other by assumption. rewrite find_del_other by assumption.
      unfold dset. rewrite !find_upd_other by assumption. reflexivity. }
  destruct j as [|[|[|[|[|j]]]]]; unfold atomic_write, apply_ops; simpl firstn; rewrite ?firstn_nil;
    simpl fold_left; simpl Nat.leb; simpl andb.
  - reflexivity.
  - unfold dset. now rewrite find_upd_other.
  - unfold dset. now rewrite !find_upd_other.
  - unfold dset. now rewrite !find_upd_other.
  - apply R.
  - apply R.
Qed.

Lemma group_full : forall s n tmp c k, tmpname tmp -> vk k ->
  nm_find k (apply_ops s (atomic_write n tmp c)) = if k =? fkey n then Some c else nm_find k s.
Proof.
  intros. pose proof (group_prefix s n tmp c 5 k H H0) as P. simpl in P. exact P.
Qed.

(* ---------------------------------------------------------------- states *)
(* every partial result visible under its final name is the complete result of its own fraction,
   and that fraction belongs to the request *)
Definition wfq (fs : list N) (s : dir) : Prop :=
  forall f c, vfind (FQpr f) s = Some c -> c = CQpr f /\ In f fs.
(* request published, not finished *)
Definition inv (fs : list N) (s : dir) : Prop := vfind FInfo s = Some (CInfo false) /\ wfq fs s.
(* finished: Done is set and there is exactly one complete partial result per fraction of the list *)
Definition final (fs : list N) (s : dir) : Prop :=
  vfind FInfo s = Some (CInfo true) /\ wfq fs s /\ forall f, In f fs -> vfind (FQpr f) s = Some (CQpr f).
(* the request was never published *)
Definition unpublished (s : dir) : Prop := vfind FInfo s = None /\ forall f, vfind (FQpr f) s = None.
Definition safe (fs : list N) (s : dir) : Prop := unpublished s \/ inv fs s \/ final fs s.

Definition vis_eq (s s' : dir) : Prop := forall k, vk k -> nm_find k s = nm_find k s'.
Lemma vis_eq_safe : forall fs s s', vis_eq s s' -> safe fs s' -> safe fs s.
Proof.
  intros fs s s' E. unfold safe, unpublished, inv, final, wfq, vfind.
  assert (EI : nm_find (fkey FInfo) s = nm_find (fkey FInfo) s') by (apply E, vk_info).
  assert (EQ : forall f, nm_find (fkey (FQpr f)) s = nm_find (fkey (FQpr f)) s') by (intro; apply E, vk_qpr).
  intros [[A B]|[[A B]|[A [B C]]]].
  - left. split; [congruence|]. intro f. rewrite EQ. apply B.
  - right; left. split; [congruence|]. intros f c. rewrite EQ. apply B.
  - right; right. split; [congruence|]. split.
    + intros f c. rewrite EQ. apply B.
    + intros f Hf. rewrite EQ. now apply C.
Qed.
Lemma vis_eq_inv_final : forall fs s s', vis_eq s s' -> inv fs s' \/ final fs s' -> inv fs s \/ final fs s.
Proof.
  intros fs s s' E. unfold inv, final, wfq, vfind.
  assert (EI : nm_find (fkey FInfo) s = nm_find (fkey FInfo) s') by (apply E, vk_info).
  assert (EQ : forall f, nm_find (fkey (FQpr f)) s = nm_find (fkey (FQpr f)) s') by (intro; apply E, vk_qpr).
  intros [[A B]|[A [B C]]].
  - left. split; [congruence|]. intros f c. rewrite EQ. apply B.
  - right. split; [congruence|]. split.
    + intros f c. rewrite EQ. apply B.
    + intros f Hf. rewrite EQ. now apply C.
Qed.

(* ---------------------------------------------------------------- the run of doSearch *)
Definition group (f : N) : list op := atomic_write (FQpr f) (FQprTmp f) (CQpr f).
Definition done_write : list op := atomic_write FInfo FInfoTmp (CInfo true).
Definition remaining (s : dir) (fs : list N) : list N := filter (fun f => negb (processed s f)) fs.

Lemma dosearch_groups : forall s fs, dosearch_ops s fs = flat_map group (remaining s fs) ++ done_write.
Proof.
  intros s fs. unfold dosearch_ops. f_equal. induction fs as [|f r IH]; simpl; [reflexivity|].
  unfold frac_ops at 1. destruct (processed s f); simpl; [exact IH|]. now rewrite IH.
Qed.

Definition prog (fs todo : list N) (s : dir) : Prop :=
  inv fs s /\ forall f, In f fs -> vfind (FQpr f) s = Some (CQpr f) \/ In f todo.

Lemma group_step : forall fs f todo s j, In f fs -> prog fs (f :: todo) s ->
  let s' := apply_ops s (firstn j (group f)) in
  inv fs s' /\ ((5 <= j)%nat -> prog fs todo s').
Proof.
  intros fs f todo s j Hf [[I W] P] s'.
  assert (F : forall k, vk k -> nm_find k s' =
            if (4 <=? j)%nat && (k =? fkey (FQpr f)) then Some (CQpr f) else nm_find k s).
  { intros k Hk. apply group_prefix; [apply tmp_qprtmp|assumption]. }
  assert (I' : vfind FInfo s' = Some (CInfo false)).
  { unfold vfind. rewrite F by apply vk_info.
    destruct (N.eqb_spec (fkey FInfo) (fkey (FQpr f))) as [E|_].
    - symmetry in E. now apply fkey_qpr_info in E.
    - now rewrite andb_false_r. }
  assert (W' : wfq fs s').
  { intros g c. unfold vfind. rewrite F by apply vk_qpr.
    destruct ((4 <=? j)%nat && (fkey (FQpr g) =? fkey (FQpr f))) eqn:B.
    - apply andb_true_iff in B. destruct B as [_ B]. apply N.eqb_eq, fkey_qpr_inj in B. subst g.
      intro H. inversion H. split; [reflexivity|assumption].
    - apply W. }
  split; [split; assumption|].
  intro J. split; [split; assumption|].
  intros g Hg. unfold vfind. rewrite F by apply vk_qpr.
  assert ((4 <=? j)%nat = true) as -> by (apply Nat.leb_le; lia). rewrite andb_true_l.
  destruct (N.eqb_spec (fkey (FQpr g)) (fkey (FQpr f))) as [E|E].
  - apply fkey_qpr_inj in E. subst g. now left.
  - destruct (P g Hg) as [A|[A|A]].
    + now left.
    + subst g. congruence.
    + now right.
Qed.

Lemma done_step : forall fs s j, prog fs [] s ->
  let s' := apply_ops s (firstn j done_write) in
  if (4 <=? j)%nat then final fs s' else inv fs s'.
Proof.
  intros fs s j [[I W] P] s'.
  assert (F : forall k, vk k -> nm_find k s' =
            if (4 <=? j)%nat && (k =? fkey FInfo) then Some (CInfo true) else nm_find k s).
  { intros k Hk. apply group_prefix; [apply tmp_infotmp|assumption]. }
  assert (Q : forall g, vfind (FQpr g) s' = vfind (FQpr g) s).
  { intro g. unfold vfind. rewrite F by apply vk_qpr.
    destruct (N.eqb_spec (fkey (FQpr g)) (fkey FInfo)) as [E|_].
    - now apply fkey_qpr_info in E.
    - now rewrite andb_false_r. }
  assert (W' : wfq fs s') by (intros g c; rewrite Q; apply W).
  destruct (4 <=? j)%nat eqn:J.
  - split; [|split; [assumption|]].
    + unfold vfind. rewrite F by apply vk_info. rewrite ?J. now rewrite N.eqb_refl.
    + intros g Hg. rewrite Q. destruct (P g Hg) as [A|[]]. exact A.
  - split; [|assumption]. unfold vfind. rewrite F by apply vk_info. rewrite ?J. rewrite andb_false_l. exact I.
Qed.

Lemma firstn_app_le : forall {A} (l1 l2 : list A) k, (k <= length l1)%nat -> firstn k (l1 ++ l2) = firstn k l1.
Proof.
  intros. rewrite firstn_app. replace (k - length l1)%nat with 0%nat by lia. simpl. apply app_nil_r.
Qed.
Lemma firstn_app_ge : forall {A} (l1 l2 : list A) k, (length l1 <= k)%nat ->
  firstn k (l1 ++ l2) = l1 ++ firstn (k - length l1) l2.
Proof. intros. rewrite firstn_app. now rewrite firstn_all2 by assumption. Qed.

Lemma run_prefix : forall fs todo s k, incl todo fs -> prog fs todo s ->
  let s' := apply_ops s (firstn k (flat_map group todo ++ done_write)) in inv fs s' \/ final fs s'.
Proof.
  intros fs todo. induction todo as [|f todo IH]; intros s k Hin P; cbv zeta.
  - change (flat_map group [] ++ done_write) with done_write.
    pose proof (done_step fs s k P) as D. cbv zeta in D. destruct (4 <=? k)%nat; [right|left]; exact D.
  - assert (Hf : In f fs) by (apply Hin; now left).
    change (flat_map group (f :: todo)) with (group f ++ flat_map group todo).
    rewrite <- app_assoc.
    destruct (Nat.le_gt_cases k 5) as [L|G].
    + rewrite firstn_app_le by (simpl; lia).
      left. destruct (group_step fs f todo s k Hf P) as [A _]. exact A.
    + rewrite firstn_app_ge by (simpl; lia). rewrite apply_ops_app.
      apply IH.
      * intros x Hx. apply Hin. now right.
      * pose proof (group_step fs f todo s 5 Hf P) as [_ Q]. apply Q. lia.
Qed.

Lemma run_full : forall fs todo s, incl todo fs -> prog fs todo s ->
  final fs (apply_ops s (flat_map group todo ++ done_write)).
Proof.
  intros fs todo. induction todo as [|f todo IH]; intros s Hin P.
  - pose proof (done_step fs s 5 P) as D. exact D.
  - assert (Hf : In f fs) by (apply Hin; now left).
    change (flat_map group (f :: todo)) with (group f ++ flat_map group todo).
    rewrite <- app_assoc, apply_ops_app. apply IH.
    + intros x Hx. apply Hin. now right.
    + pose proof (group_step fs f todo s 5 Hf P) as [_ Q]. apply Q. lia.
Qed.

Lemma inv_prog : forall fs s, inv fs s -> prog fs (remaining s fs) s.
Proof.
  intros fs s I. split; [assumption|]. intros f Hf.
  destruct (processed s f) eqn:Pf.
  - left. unfold processed in Pf. destruct I as [_ W]. unfold vfind.
    destruct (nm_find (fkey (FQpr f)) s) as [c|] eqn:E; [|discriminate].
    destruct (W f c E) as [-> _]. reflexivity.
  - right. unfold remaining. apply filter_In. split; [assumption|]. now rewrite Pf.
Qed.
Lemma remaining_incl : forall s fs, incl (remaining s fs) fs.
Proof. intros s fs x H. apply filter_In in H. tauto. Qed.

Lemma resume_ops_inv : forall fs s, inv fs s -> resume_ops s fs = flat_map group (remaining s fs) ++ done_write.
Proof. intros fs s [I _]. unfold resume_ops. unfold vfind in I. rewrite I. apply dosearch_groups. Qed.

(* ---------------------------------------------------------------- crash variants *)
Definition tmpw (o : op) : Prop :=
  match o with OWrite n _ | OCreate n => tmpname n | _ => True end.
Fixpoint sbr (l : list op) (acc : list fname) : bool :=
  match l with
  | [] => true
  | OWrite n _ :: r => sbr r (n :: acc)
  | OFsync n :: r => sbr r (filter (fun m => negb (fkey m =? fkey n)) acc)
  | ORename a b :: r => negb (existsb (fun m => fkey m =? fkey a) acc) && sbr r acc
  | _ :: r => sbr r acc
  end.

Lemma map_not_renamed : forall a b acc, existsb (fun m => fkey m =? fkey a) acc = false ->
  map (fun m => if fkey m =? fkey a then b else m) acc = acc.
Proof.
  induction acc as [|m r IH]; simpl; intro H; [reflexivity|].
  apply orb_false_iff in H. destruct H as [H1 H2]. rewrite H1. f_equal. now apply IH.
Qed.

Lemma unsynced_tmp : forall l acc, Forall tmpw l -> sbr l acc = true -> Forall tmpname acc ->
  Forall tmpname (unsynced l acc).
Proof.
  induction l as [|o r IH]; intros acc F S A; simpl; [assumption|].
  inversion F as [|? ? Ho Fr]; subst.
  destruct o; simpl in S |- *; try (now apply IH).
  - apply IH; try assumption. constructor; assumption.
  - apply IH; try assumption. apply Forall_forall. intros x Hx. apply filter_In in Hx.
    rewrite Forall_forall in A. apply A. tauto.
  - apply andb_true_iff in S. destruct S as [S1 S2]. apply negb_true_iff in S1.
    rewrite map_not_renamed by assumption. now apply IH.
Qed.

Lemma sbr_app : forall l1 l2 acc, sbr (l1 ++ l2) acc = true -> sbr l1 acc = true.
Proof.
  induction l1 as [|o r IH]; intros l2 acc H; simpl in *; [reflexivity|].
  destruct o; try (now apply IH with l2).
  apply andb_true_iff in H. destruct H as [H1 H2]. rewrite H1. simpl. now apply IH with l2.
Qed.

Lemma lose_vis : forall s n, tmpname n -> vis_eq (lose s n) s.
Proof.
  intros s n T k Hk. unfold lose. destruct (nm_find (fkey n) s); [|reflexivity].
  unfold dset. apply find_upd_other. now apply vk_ne_tmp.
Qed.
Lemma lose_all_vis : forall ns s, Forall tmpname ns -> vis_eq (fold_left lose ns s) s.
Proof.
  induction ns as [|n r IH]; intros s F; simpl; [intros k _; reflexivity|].
  inversion F; subst. intros k Hk. rewrite IH by assumption. now apply lose_vis.
Qed.

Lemma pad_vis : forall s, vis_eq (pad_tmp s) s.
Proof.
  induction s as [|[k' c] r IH]; intros k Hk; simpl; [reflexivity|].
  destruct (N.even k') eqn:Ev; simpl; destruct (N.eqb_spec k k') as [->|Hne]; try reflexivity; try (now apply IH).
  unfold vk in Hk. congruence.
Qed.

Lemma firstn_S_nth : forall {A} (l : list A) k o, nth_error l k = Some o -> firstn (S k) l = firstn k l ++ [o].
Proof.
  induction l as [|x r IH]; intros k o H; destruct k; simpl in *; try discriminate.
  - now inversion H.
  - f_equal. now apply IH.
Qed.
Lemma Forall_firstn' : forall {A} (P : A -> Prop) l k, Forall P l -> Forall P (firstn k l).
Proof.
  induction l as [|x r IH]; intros k F; destruct k; simpl; try constructor; inversion F; subst; auto.
Qed.

(* every crash variant shows, under the final names, the state after k or k+1 complete operations *)
Lemma crash_vis : forall s ops k v, Forall tmpw ops -> sbr ops [] = true ->
  exists k', vis_eq (crash_state s ops k v) (apply_ops s (firstn k' ops)).
Proof.
  intros s ops k v F HS. unfold crash_state.
  destruct (v =? 1).
  - destruct (nth_error ops k) as [o|] eqn:E.
    + destruct o; simpl tear_op;
        try (exists (S k); rewrite (firstn_S_nth ops k _ E), apply_ops_app; intros x _; reflexivity).
      exists k. intros x Hx. simpl. unfold dset. apply find_upd_other.
      apply vk_ne_tmp; [assumption|].
      apply nth_error_In in E. rewrite Forall_forall in F. apply (F _ E).
    + exists k. intros x _. reflexivity.
  - destruct (v =? 2).
    + exists k. apply lose_all_vis. apply unsynced_tmp.
      * now apply Forall_firstn'.
      * apply sbr_app with (skipn k ops). now rewrite firstn_skipn.
      * constructor.
    + destruct (v =? 3); [exists k; apply pad_vis|exists k; intros x _; reflexivity].
Qed.

Lemma group_tmpw : forall n tmp c, tmpname tmp -> Forall tmpw (atomic_write n tmp c).
Proof. intros. unfold atomic_write. repeat constructor; assumption. Qed.
Lemma sbr_group : forall n tmp c r, sbr (atomic_write n tmp c ++ r) [] = sbr r [].
Proof. intros. simpl. rewrite N.eqb_refl. reflexivity. Qed.
Lemma groups_ok : forall todo, Forall tmpw (flat_map group todo ++ done_write)
                              /\ sbr (flat_map group todo ++ done_write) [] = true.
Proof.
  induction todo as [|f r [A B]].
  - split; [apply group_tmpw, tmp_infotmp|]. reflexivity.
  - change (flat_map group (f :: r)) with (group f ++ flat_map group r).
    rewrite <- app_assoc. split.
    + apply Forall_app. split; [apply group_tmpw, tmp_qprtmp|assumption].
    + unfold group at 1. rewrite sbr_group. exact B.
Qed.

(* ---------------------------------------------------------------- theorems *)
(* any crash of a resumed run leaves a state from which the request is found again, with only
   complete partial results of its own fractions visible; or the finished state *)
Theorem resume_crash_safe : forall fs s k v, inv fs s ->
  let s' := crash_state s (resume_ops s fs) k v in inv fs s' \/ final fs s'.
Proof.
  intros fs s k v I s'. subst s'. rewrite (resume_ops_inv fs s I).
  destruct (groups_ok (remaining s fs)) as [A B].
  destruct (crash_vis s _ k v A B) as [k' E].
  apply (vis_eq_inv_final fs _ _ E).
  apply run_prefix; [apply remaining_incl|now apply inv_prog].
Qed.

(* the resumed run searches exactly the fractions that have no .qpr file, in the order of the
   request's list, then publishes Done; at the end there is one complete partial result per fraction *)
Theorem resume_complete : forall fs s, inv fs s ->
  resume_ops s fs = flat_map group (remaining s fs) ++ done_write
  /\ final fs (apply_ops s (resume_ops s fs)).
Proof.
  intros fs s I. split; [now apply resume_ops_inv|].
  rewrite (resume_ops_inv fs s I). apply run_full; [apply remaining_incl|now apply inv_prog].
Qed.

Theorem final_stable : forall fs s, final fs s -> resume_ops s fs = [] /\ found s = true /\ is_done s = true.
Proof.
  intros fs s [I _]. unfold resume_ops, found, is_done. unfold vfind in I. rewrite I. auto.
Qed.

Theorem unpublished_inert : forall fs s, unpublished s -> resume_ops s fs = [] /\ found s = false.
Proof.
  intros fs s [I _]. unfold resume_ops, found. unfold vfind in I. rewrite I. auto.
Qed.

Lemma crash_nil_vis : forall s k v, vis_eq (crash_state s [] k v) s.
Proof.
  intros. unfold crash_state. rewrite firstn_nil.
  destruct (v =? 1); [destruct k; intros x _; reflexivity|].
  destruct (v =? 2); [intros x _; reflexivity|].
  destruct (v =? 3); [apply pad_vis|intros x _; reflexivity].
Qed.

(* the first run (StartSearch on an empty directory, then processRequest) *)
Lemma remaining_nil : forall l, remaining [] l = l.
Proof.
  induction l as [|x r IH]; [reflexivity|].
  change (remaining [] (x :: r)) with (x :: remaining [] r). now rewrite IH.
Qed.

Lemma start_ops_shape : forall fs,
  start_ops fs = OMkdir :: atomic_write FInfo FInfoTmp (CInfo (nullb fs))
                 ++ (if nullb fs then [] else flat_map group fs ++ done_write).
Proof.
  intro fs. unfold start_ops. destruct fs as [|f r]; [reflexivity|].
  change (nullb (f :: r)) with false. cbv iota.
  now rewrite dosearch_groups, remaining_nil.
Qed.

Lemma start_ok : forall fs, Forall tmpw (start_ops fs) /\ sbr (start_ops fs) [] = true.
Proof.
  intro fs. rewrite start_ops_shape. split.
  - constructor; [exact I|]. apply Forall_app. split; [apply group_tmpw, tmp_infotmp|].
    destruct (nullb fs); [constructor|apply groups_ok].
  - change (sbr (atomic_write FInfo FInfoTmp (CInfo (nullb fs)) ++
                 (if nullb fs then [] else flat_map group fs ++ done_write)) [] = true).
    rewrite sbr_group. destruct (nullb fs); [reflexivity|apply groups_ok].
Qed.

Lemma start_prefix : forall fs k,
  let s' := apply_ops [] (firstn k (start_ops fs)) in
  if (k <? 5)%nat then unpublished s' else inv fs s' \/ final fs s'.
Proof.
  intros fs k s'. subst s'. rewrite start_ops_shape.
  destruct k as [|k]; [simpl; split; intros; reflexivity|].
  change (firstn (S k) (OMkdir :: ?l)) with (OMkdir :: firstn k l).
  change (apply_ops [] (OMkdir :: ?l)) with (apply_ops [] l).
  set (iw := atomic_write FInfo FInfoTmp (CInfo (nullb fs))).
  assert (F0 : forall j x, vk x -> nm_find x (apply_ops [] (firstn j iw)) =
            if (4 <=? j)%nat && (x =? fkey FInfo) then Some (CInfo (nullb fs)) else None).
  { intros j x Hx. unfold iw. rewrite group_prefix by (try apply tmp_infotmp; assumption). reflexivity. }
  destruct (Nat.le_gt_cases k 5) as [L|G].
  - rewrite firstn_app_le by (simpl; lia).
    destruct (S k <? 5)%nat eqn:K.
    + apply Nat.ltb_lt in K. split.
      * unfold vfind. rewrite F0 by apply vk_info. assert ((4 <=? k)%nat = false) as -> by (apply Nat.leb_gt; lia). reflexivity.
      * intro f. unfold vfind. rewrite F0 by apply vk_qpr.
        assert ((4 <=? k)%nat = false) as -> by (apply Nat.leb_gt; lia). reflexivity.
    + apply Nat.ltb_ge in K.
      assert (J : (4 <=? k)%nat = true) by (apply Nat.leb_le; lia).
      assert (W : wfq fs (apply_ops [] (firstn k iw))).
      { intros f c. unfold vfind. rewrite F0 by apply vk_qpr. rewrite J. rewrite andb_true_l.
        destruct (N.eqb_spec (fkey (FQpr f)) (fkey FInfo)) as [E|_]; [now apply fkey_qpr_info in E|discriminate]. }
      assert (II : vfind FInfo (apply_ops [] (firstn k iw)) = Some (CInfo (nullb fs))).
      { unfold vfind. rewrite F0 by apply vk_info. now rewrite J, N.eqb_refl. }
      destruct fs as [|f r]; simpl in II.
      * right. split; [assumption|]. split; [assumption|]. intros f [].
      * left. split; assumption.
  - assert ((S k <? 5)%nat = false) as -> by (apply Nat.ltb_ge; lia).
    rewrite firstn_app_ge by (simpl; lia). rewrite apply_ops_app.
    set (s1 := apply_ops [] iw).
    assert (F1 : forall x, vk x -> nm_find x s1 = if x =? fkey FInfo then Some (CInfo (nullb fs)) else None).
    { intros x Hx. unfold s1, iw. rewrite group_full by (try apply tmp_infotmp; assumption). reflexivity. }
    assert (W : wfq fs s1).
    { intros f c. unfold vfind. rewrite F1 by apply vk_qpr.
      destruct (N.eqb_spec (fkey (FQpr f)) (fkey FInfo)) as [E|_]; [now apply fkey_qpr_info in E|discriminate]. }
    assert (II : vfind FInfo s1 = Some (CInfo (nullb fs))).
    { unfold vfind. rewrite F1 by apply vk_info. now rewrite N.eqb_refl. }
    destruct fs as [|f r]; simpl nullb in *; cbv iota.
    + rewrite firstn_nil. right. split; [assumption|]. split; [assumption|]. intros f [].
    + apply run_prefix; [apply incl_refl|].
      split; [split; assumption|]. intros g Hg. now right.
Qed.

Theorem start_crash_safe : forall fs k v,
  let s' := crash_state [] (start_ops fs) k v in
  safe fs s' /\ ((6 <= k)%nat -> inv fs s' \/ final fs s').
Proof.
  intros fs k v s'. subst s'.
  destruct (start_ok fs) as [A B].
  destruct (crash_vis [] (start_ops fs) k v A B) as [k' E].
  split.
  - apply (vis_eq_safe fs _ _ E). pose proof (start_prefix fs k') as P. simpl in P.
    destruct (k' <? 5)%nat; [now left|now right].
  - intro K. unfold crash_state in *.
    (* k' is k or k+1: recompute *)
    clear E k'.
    assert (P : forall j, (5 <= j)%nat -> inv fs (apply_ops [] (firstn j (start_ops fs))) \/
                                           final fs (apply_ops [] (firstn j (start_ops fs)))).
    { intros j J. pose proof (start_prefix fs j) as P. simpl in P.
      assert ((j <? 5)%nat = false) as Hj by (apply Nat.ltb_ge; lia). now rewrite Hj in P. }
    destruct (v =? 1).
    + destruct (nth_error (start_ops fs) k) as [o|] eqn:E.
      * assert (V : exists j, (5 <= j)%nat /\ vis_eq (apply_op (apply_ops [] (firstn k (start_ops fs))) (tear_op o))
                                  (apply_ops [] (firstn j (start_ops fs)))).
        { destruct o; simpl tear_op;
            try (exists (S k); split; [lia|]; rewrite (firstn_S_nth _ k _ E), apply_ops_app; intros x _; reflexivity).
          exists k. split; [lia|]. intros x Hx. simpl. unfold dset. apply find_upd_other.
          apply vk_ne_tmp; [assumption|]. apply nth_error_In in E. rewrite Forall_forall in A. apply (A _ E). }
        destruct V as [j [J V]]. apply (vis_eq_inv_final fs _ _ V). now apply P.
      * apply P. lia.
    + destruct (v =? 2).
      * assert (V : vis_eq (fold_left lose (unsynced (firstn k (start_ops fs)) []) (apply_ops [] (firstn k (start_ops fs))))
                           (apply_ops [] (firstn k (start_ops fs)))).
        { apply lose_all_vis. apply unsynced_tmp; [now apply Forall_firstn'| |constructor].
          apply sbr_app with (skipn k (start_ops fs)). now rewrite firstn_skipn. }
        apply (vis_eq_inv_final fs _ _ V). apply P. lia.
      * destruct (v =? 3); [apply (vis_eq_inv_final fs _ _ (pad_vis _))|]; apply P; lia.
Qed.

(* any chain of crashes: run, crash, restart, crash inside the resumed run, ... *)
Theorem chain_safe : forall fs chain s ops,
  (forall k v, safe fs (crash_state s ops k v)) -> safe fs (apply_ops s ops) ->
  safe fs (chain_state fs s ops chain).
Proof.
  intros fs chain. induction chain as [|[k v] rest IH]; intros s ops C Fin; simpl; [assumption|].
  destruct rest as [|p rest']; [apply C|].
  apply IH.
  - intros k2 v2. destruct (C k v) as [U|[I|Fn]].
    + destruct (unpublished_inert fs _ U) as [-> _]. apply (vis_eq_safe fs _ _ (crash_nil_vis _ _ _)). now left.
    + right. now apply resume_crash_safe.
    + destruct (final_stable fs _ Fn) as [-> _]. apply (vis_eq_safe fs _ _ (crash_nil_vis _ _ _)). right; now right.
  - destruct (C k v) as [U|[I|Fn]].
    + destruct (unpublished_inert fs _ U) as [-> _]. now left.
    + right; right. now apply resume_complete.
    + destruct (final_stable fs _ Fn) as [-> _]. right; now right.
Qed.

Theorem any_crash_chain_resumes : forall fs chain,
  let s := chain_state fs [] (start_ops fs) chain in
  safe fs s /\ (inv fs s -> final fs (apply_ops s (resume_ops s fs))).
Proof.
  intros fs chain s. split.
  - apply chain_safe.
    + intros k v. apply start_crash_safe.
    + pose proof (start_prefix fs (length (start_ops fs))) as P. cbv zeta in P.
      rewrite firstn_all in P.
      assert ((length (start_ops fs) <? 5)%nat = false) as H.
      { apply Nat.ltb_ge. rewrite start_ops_shape. simpl. lia. }
      rewrite H in P. now right.
  - intro I. now apply resume_complete.
Qed.

(* ---------------------------------------------------------------- the live fraction list *)
(* doSearch walks the fraction names PERSISTED in <id>.info; the fractions alive at resume time only
   serve to look those names up. Whatever else is alive (fractions created after StartSearch) has no
   influence on the operations. *)
Lemma dosearch_live_indep : forall s live fs,
  (forall f, In f fs -> processed s f = false -> In f live) ->
  dosearch_live s live fs = (dosearch_ops s fs, false).
Proof.
  intros s live fs. unfold dosearch_ops. induction fs as [|f r IH]; intro H; simpl.
  - reflexivity.
  - unfold frac_ops at 1. destruct (processed s f) eqn:Pf.
    + apply IH. intros g Hg. apply H. now right.
    + assert (L : existsb (N.eqb f) live = true).
      { apply existsb_exists. exists f. split; [apply H; [now left|assumption]|apply N.eqb_refl]. }
      rewrite L. rewrite IH by (intros g Hg; apply H; now right). simpl. rewrite <- ?app_assoc. reflexivity.
Qed.

Theorem resume_complete_live : forall fs live s, inv fs s -> incl fs live ->
  resume_live s live fs = (flat_map group (remaining s fs) ++ done_write, false)
  /\ final fs (apply_ops s (fst (resume_live s live fs))).
Proof.
  intros fs live s I Hl.
  assert (E : resume_live s live fs = (resume_ops s fs, false)).
  { unfold resume_live, resume_ops. destruct I as [I0 _]. unfold vfind in I0. rewrite I0.
    apply dosearch_live_indep. intros f Hf _. now apply Hl. }
  rewrite E. simpl. destruct (resume_complete fs s I) as [A B]. rewrite <- A. split; [reflexivity|assumption].
Qed.
