(* C19 — proofs about ModelStart.v, part A: Ingestor.StartAsyncSearch and the fetch after it. *)
From Coq Require Import List Bool Arith NArith Lia.
From C19 Require Import Model ModelStart ProofsMap ProofsProto ProofsProxy.
Import ListNotations.

(* ---------------------------------------------------------------- the replica loop *)
(* number of replicas of a shard that are asked: up to and including the first one that accepts *)
Definition asked (reps : list sreply) : nat :=
  match first_acceptor reps with Some i => S i | None => length reps end.
(* the calls of a start that runs over all the given shards *)
Fixpoint calls_of (si : nat) (shards : list (list sreply)) : list (nat * nat) :=
  match shards with
  | [] => []
  | s :: r => map (fun j => (si, j)) (seq 0 (asked s)) ++ calls_of (S si) r
  end.

Lemma first_acceptor_spec : forall reps i, first_acceptor reps = Some i ->
  nth_error reps i = Some SAccept /\ forall j, (j < i)%nat -> nth_error reps j = Some SRefuse.
Proof.
  induction reps as [|[|] r IH]; intros i H; simpl in H.
  - discriminate.
  - inversion H; subst. split; [reflexivity|]. intros j Hj. lia.
  - destruct (first_acceptor r) as [k|] eqn:E; [|discriminate]. simpl in H. inversion H; subst.
    destruct (IH k eq_refl) as [A B]. split; [exact A|]. intros [|j] Hj; [reflexivity|]. simpl. apply B. lia.
Qed.

Lemma first_acceptor_none : forall reps, first_acceptor reps = None -> Forall (eq SRefuse) reps.
Proof.
  induction reps as [|[|] r IH]; intro H; simpl in H.
  - constructor.
  - discriminate.
  - constructor; [reflexivity|]. apply IH. destruct (first_acceptor r); [discriminate|reflexivity].
Qed.

Lemma asked_refuse : forall r, asked (SRefuse :: r) = S (asked r).
Proof. intro r. unfold asked. simpl. destruct (first_acceptor r); reflexivity. Qed.

Definition shard_err (reps : list sreply) (err : bool) : bool :=
  match first_acceptor reps with
  | Some _ => false
  | None => match reps with [] => err | _ => true end
  end.

Lemma shard_start_spec : forall reps si ri err,
  shard_start si ri reps err = (map (fun j => (si, (ri + j)%nat)) (seq 0 (asked reps)), shard_err reps err).
Proof.
  induction reps as [|[|] r IH]; intros si ri err.
  - reflexivity.
  - simpl. unfold asked, shard_err. simpl. now rewrite Nat.add_0_r.
  - simpl shard_start. rewrite IH. simpl fst. simpl snd. rewrite asked_refuse. f_equal.
    + simpl seq. simpl map. rewrite Nat.add_0_r. f_equal. rewrite <- seq_shift, map_map.
      apply map_ext. intro j. f_equal. lia.
    + unfold shard_err. simpl. destruct (first_acceptor r); [reflexivity|]. now destruct r.
Qed.

(* a shard lets the start go on iff it has no replicas at all or one of them accepts *)
Definition shard_good (s : list sreply) : Prop :=
  s = [] \/ exists i, nth_error s i = Some SAccept /\ forall j, (j < i)%nat -> nth_error s j = Some SRefuse.

Lemma shard_err_false : forall s, shard_err s false = false -> shard_good s.
Proof.
  intros s H. unfold shard_err in H. destruct (first_acceptor s) as [i|] eqn:E.
  - right. exists i. now apply first_acceptor_spec.
  - destruct s; [now left|discriminate].
Qed.

Lemma shard_err_true : forall s, shard_err s false = true -> s <> [] /\ Forall (eq SRefuse) s.
Proof.
  intros s H. unfold shard_err in H. destruct (first_acceptor s) as [i|] eqn:E; [discriminate|].
  split; [destruct s; [discriminate|discriminate]|now apply first_acceptor_none].
Qed.

Lemma start_from_ok : forall shards si calls, start_from si shards = (calls, None) ->
  Forall shard_good shards /\ calls = calls_of si shards.
Proof.
  induction shards as [|s r IH]; intros si calls H; simpl in H.
  - inversion H. split; [constructor|reflexivity].
  - rewrite shard_start_spec in H. simpl fst in H. simpl snd in H.
    destruct (shard_err s false) eqn:E; [discriminate|].
    destruct (start_from (S si) r) as [c2 f2] eqn:R. simpl in H. inversion H; subst.
    destruct (IH _ _ R) as [A B]. split.
    + constructor; [now apply shard_err_false|assumption].
    + simpl. now rewrite B.
Qed.

(* C19_proxy_start_all_shards *)
Theorem proxy_start_all_shards : forall shards calls, proxy_start shards = (calls, None) ->
  Forall shard_good shards /\ calls = calls_of 0 shards.
Proof. intros shards calls. apply start_from_ok. Qed.

Lemma start_from_fail : forall shards si calls k, start_from si shards = (calls, Some k) ->
  exists s, (si <= k)%nat /\ nth_error shards (k - si) = Some s /\ s <> [] /\ Forall (eq SRefuse) s
            /\ calls = calls_of si (firstn (S (k - si)) shards).
Proof.
  induction shards as [|s r IH]; intros si calls k H; simpl in H.
  - discriminate.
  - rewrite shard_start_spec in H. simpl fst in H. simpl snd in H.
    destruct (shard_err s false) eqn:E.
    + inversion H; subst. exists s. rewrite Nat.sub_diag. destruct (shard_err_true s E) as [A B].
      repeat split; try assumption; try lia. simpl. now rewrite app_nil_r.
    + destruct (start_from (S si) r) as [c2 f2] eqn:R. simpl in H. inversion H; subst.
      destruct (IH _ _ _ R) as [s' [L [N [A [B C]]]]]. exists s'.
      assert (Hk : (k - si = S (k - S si))%nat) by lia. rewrite Hk.
      repeat split; try assumption; try lia. simpl. now rewrite C.
Qed.

(* the start fails exactly at the first shard that has replicas none of which accepts; the shards
   after it are not asked and no ID is returned *)
Theorem proxy_start_fails : forall shards calls k, proxy_start shards = (calls, Some k) ->
  exists s, nth_error shards k = Some s /\ s <> [] /\ Forall (eq SRefuse) s
            /\ calls = calls_of 0 (firstn (S k) shards).
Proof.
  intros shards calls k H. destruct (start_from_fail shards 0 calls k H) as [s [_ [N [A [B C]]]]].
  rewrite Nat.sub_0_r in *. now exists s.
Qed.

(* ---------------------------------------------------------------- the fetch after a start *)
(* the store that accepted the start still has the request (it answers, with whatever progress) *)
Definition keeps (reps : list sreply) (c : list replica) : Prop :=
  forall i, first_acceptor reps = Some i -> exists d q, nth_error c i = Some (RAnswer d q).

Lemma answer_exists : forall c i d q, nth_error c i = Some (RAnswer d q) -> exists a, shard_answer c = Some a.
Proof.
  induction c as [|x r IH]; intros i d q H.
  - destruct i; discriminate.
  - destruct i as [|i]; simpl in H.
    + inversion H; subst. simpl. eauto.
    + destruct x; simpl; [now apply (IH i d q)|eauto].
Qed.

Lemma answers_all : forall cluster, Forall (fun c => exists a, shard_answer c = Some a) cluster ->
  Forall2 (fun c a => shard_answer c = Some a) cluster (answers cluster).
Proof.
  induction cluster as [|c r IH]; intro H; simpl.
  - constructor.
  - inversion H as [|? ? [a Ha] Hr]; subst. unfold answers in *. simpl. rewrite Ha. simpl.
    constructor; [assumption|]. now apply IH.
Qed.

Lemma good_nonempty_acceptor : forall s, shard_good s -> s <> [] -> exists i, first_acceptor s = Some i.
Proof.
  intros s [E|[i [A B]]] N; [contradiction|].
  destruct (first_acceptor s) as [k|] eqn:F; [eauto|].
  apply first_acceptor_none in F. rewrite Forall_forall in F.
  apply nth_error_In in A. specialize (F _ A). discriminate.
Qed.

Lemma started_all_answer : forall pattern cluster,
  start_succeeds pattern = true -> Forall (fun s => s <> []) pattern -> Forall2 keeps pattern cluster ->
  Forall (fun c => exists a, shard_answer c = Some a) cluster.
Proof.
  intros pattern cluster S NE K. unfold start_succeeds in S.
  destruct (proxy_start pattern) as [calls f] eqn:P. simpl in S. destruct f; [discriminate|].
  destruct (proxy_start_all_shards _ _ P) as [G _]. clear P S calls.
  induction K as [|s c p cl Ksc K IH]; [constructor|].
  inversion G; subst. inversion NE; subst. constructor; [|now apply IH].
  destruct (good_nonempty_acceptor s H1 H3) as [i Fi]. destruct (Ksc i Fi) as [d [q Hn]].
  now apply (answer_exists c i d q).
Qed.

(* C19_proxy_done_iff for histories that begin with the start: EVERY shard answers *)
Theorem proxy_done_iff_started : forall pattern cluster naggs size hi rev d q,
  start_succeeds pattern = true -> Forall (fun s => s <> []) pattern -> Forall2 keeps pattern cluster ->
  proxy_fetch naggs size hi rev cluster = Some (d, q) ->
  exists ans, Forall2 (fun c a => shard_answer c = Some a) cluster ans
              /\ d = forallb fst ans /\ q = sync_search naggs size hi rev (map snd ans).
Proof.
  intros pattern cluster naggs size hi rev d q S NE K H.
  exists (answers cluster). split; [apply answers_all; now apply (started_all_answer pattern)|].
  unfold proxy_fetch in H. destruct (answers cluster) as [|a r]; [discriminate|]. inversion H. split; reflexivity.
Qed.

Lemma f2_length : forall {A B} (R : A -> B -> Prop) l1 l2, Forall2 R l1 l2 -> length l1 = length l2.
Proof. intros A B R l1 l2 H. induction H; simpl; congruence. Qed.

Lemma all_done_finals : forall cluster (ans : list (bool * qpr)) finals,
  Forall2 (fun c a => shard_answer c = Some a) cluster ans -> forallb fst ans = true ->
  Forall2 (fun c f => forall a, shard_answer c = Some a -> fst a = true -> snd a = f) cluster finals ->
  map snd ans = finals.
Proof.
  intros cluster ans finals A. revert finals. induction A as [|c a cl an Hca A IH]; intros finals D F.
  - inversion F. reflexivity.
  - inversion F as [|? f ? fs Hf F']; subst. simpl in D. apply andb_true_iff in D. destruct D as [D1 D2].
    simpl. rewrite (Hf a Hca D1). f_equal. now apply IH.
Qed.

(* C19_proxy_done_result for histories that begin with the start: finals has one entry per shard of
   the cluster — the Done answer is the synchronous merge over ALL shards *)
Theorem proxy_done_result_started : forall pattern cluster naggs size hi rev q finals,
  start_succeeds pattern = true -> Forall (fun s => s <> []) pattern -> Forall2 keeps pattern cluster ->
  proxy_fetch naggs size hi rev cluster = Some (true, q) ->
  Forall2 (fun c f => forall a, shard_answer c = Some a -> fst a = true -> snd a = f) cluster finals ->
  length finals = length pattern /\ q = sync_search naggs size hi rev finals.
Proof.
  intros pattern cluster naggs size hi rev q finals S NE K H F.
  destruct (proxy_done_iff_started _ _ _ _ _ _ _ _ S NE K H) as [ans [A [D Q]]].
  split.
  - rewrite <- (f2_length _ _ _ F). symmetry. apply (f2_length _ _ _ K).
  - rewrite Q. f_equal. now apply (all_done_finals cluster).
Qed.

(* a started search is never "not found" while the accepting stores keep it *)
Theorem started_is_found : forall pattern cluster naggs size hi rev,
  start_succeeds pattern = true -> Forall (fun s => s <> []) pattern -> pattern <> [] -> Forall2 keeps pattern cluster ->
  proxy_fetch naggs size hi rev cluster <> None.
Proof.
  intros pattern cluster naggs size hi rev S NE NN K.
  pose proof (answers_all cluster (started_all_answer pattern cluster S NE K)) as A.
  unfold proxy_fetch. destruct (answers cluster) as [|a r]; [|discriminate].
  inversion A; subst. inversion K; subst. contradiction.
Qed.

(* the cluster function of the model satisfies the hypothesis *)
Lemma shard_after_keeps : forall s a, keeps s (shard_after s a).
Proof.
  induction s as [|[|] r IH]; intros a i H; simpl in H.
  - discriminate.
  - inversion H; subst. simpl. eauto.
  - destruct (first_acceptor r) as [k|] eqn:E; [|discriminate]. simpl in H. inversion H; subst.
    simpl. now apply IH.
Qed.
Lemma cluster_after_keeps : forall pattern avail, length avail = length pattern ->
  Forall2 keeps pattern (cluster_after pattern avail).
Proof.
  induction pattern as [|s p IH]; intros avail L; destruct avail as [|a av]; try discriminate; simpl.
  - constructor.
  - constructor; [apply shard_after_keeps|]. apply IH. simpl in L. lia.
Qed.

(* ---------------------------------------------------------------- link to the persistence protocol *)
(* StartSearch returns (the store accepts) after mkdir + the atomic write of <id>.info = 6 operations.
   From then on every chain of crashes and restarts leaves the request on disk: resumable or finished. *)
Lemma chain_live : forall fs rest s ops k v,
  inv fs (crash_state s ops k v) \/ final fs (crash_state s ops k v) ->
  inv fs (chain_state fs s ops ((k, v) :: rest)) \/ final fs (chain_state fs s ops ((k, v) :: rest)).
Proof.
  intros fs rest. induction rest as [|[k2 v2] rest' IH]; intros s ops k v H.
  - exact H.
  - change (chain_state fs s ops ((k, v) :: (k2, v2) :: rest'))
      with (chain_state fs (crash_state s ops k v) (resume_ops (crash_state s ops k v) fs) ((k2, v2) :: rest')).
    apply IH. destruct H as [I|Fn].
    + now apply resume_crash_safe.
    + destruct (final_stable fs _ Fn) as [-> _].
      apply (vis_eq_inv_final fs _ _ (crash_nil_vis _ _ _)). now right.
Qed.

Lemma live_found : forall fs s, inv fs s \/ final fs s -> found s = true.
Proof.
  intros fs s [[I _]|[I _]]; unfold found; unfold vfind in I; now rewrite I.
Qed.

Theorem accepted_request_survives : forall fs k v rest hi rev per, (6 <= k)%nat ->
  let s := chain_state fs [] (start_ops fs) ((k, v) :: rest) in
  (inv fs s \/ final fs s) /\ found s = true
  /\ store_reply hi rev per s = RAnswer (is_done s) (fetch_dir hi rev per s).
Proof.
  intros fs k v rest hi rev per K s.
  assert (L : inv fs s \/ final fs s).
  { apply chain_live. destruct (start_crash_safe fs k v) as [_ H]. now apply H. }
  split; [exact L|]. pose proof (live_found fs s L) as F. split; [exact F|].
  unfold store_reply. now rewrite F.
Qed.

(* ---------------------------------------------------------------- the shadowed error, refuted *)
Definition w_s0 : qpr := {| q_ids := [(1040, 1); (1030, 1)]%N; q_hist := [(1030, 1); (1040, 1)]%N; q_aggs := []; q_total := 0 |}.
Definition w_s1 : qpr := {| q_ids := [(1025, 1); (1015, 1)]%N; q_hist := [(1010, 1); (1020, 1)]%N; q_aggs := []; q_total := 0 |}.
Lemma start_shadow_refuted :
  let pattern := [[SAccept]; [SRefuse; SRefuse]] in
  let avail := [(true, w_s0); (true, w_s1)] in
  proxy_start pattern = ([(0, 0); (1, 0); (1, 1)]%nat, Some 1%nat)
  /\ start_then_fetch 0 100 10 false pattern avail = None
  /\ snd (proxy_start_shadow pattern) = None
  /\ option_map (option_map (fun x => (fst x, q_ids (snd x)))) (start_then_fetch_shadow 0 100 10 false pattern avail)
     = Some (Some (true, [(1040, 1); (1030, 1)]%N))
  /\ q_ids (sync_search 0 100 10 false [w_s0; w_s1]) = [(1040, 1); (1030, 1); (1025, 1); (1015, 1)]%N.
Proof. vm_compute. repeat split. Qed.
