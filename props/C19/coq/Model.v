(* C19 — executable model of the asynchronous search of seq-db (NO proofs in this file).

   Part 1: merging of partial results — seq.MergeQPRs / removeRepetitionsAdvanced /
           AggregatableSamples.Merge / SamplesContainer.Merge (seq/qpr.go), the incremental merge of
           AsyncSearcher.FetchSearchResult and the batch merge of Searcher.SearchDocs.
   Part 2: the persistence protocol — mustWriteFileAtomic, StartSearch, doSearch (fractions that
           already have a .qpr file are skipped), restart = loadAsyncSearches + notProcessedTasks
           (fracmanager/async_searcher.go), over an abstract directory.

   Canonical data: maps are association lists sorted by strictly increasing key (Go maps have no
   order; the harness sorts), reservoir samples are kept sorted (the real code sorts them before use),
   float values are exact integers in units of 1/16 (the generator only produces such values, sums
   stay far below 2^53, so float arithmetic is exact). Aggregation bins (MID, token) are numbered by
   the harness, injectively on the byte-exact pair. *)
From Coq Require Import List Bool Arith NArith ZArith.
Import ListNotations.
Open Scope N_scope.

(* ------------------------------------------------------------------ sorted association lists *)
Section NMap.
  Context {V : Type}.
  Fixpoint nm_find (k : N) (m : list (N * V)) : option V :=
    match m with
    | [] => None
    | (k', v) :: r => if k =? k' then Some v else nm_find k r
    end.
  (* m[k] = f (m[k]) — insertion keeps the keys increasing *)
  Fixpoint nm_upd (k : N) (f : option V -> V) (m : list (N * V)) : list (N * V) :=
    match m with
    | [] => [(k, f None)]
    | (k', v) :: r =>
        if k <? k' then (k, f None) :: m
        else if k =? k' then (k, f (Some v)) :: r
        else (k', v) :: nm_upd k f r
    end.
  Fixpoint nm_del (k : N) (m : list (N * V)) : list (N * V) :=
    match m with
    | [] => []
    | (k', v) :: r => if k =? k' then r else (k', v) :: nm_del k r
    end.
End NMap.

(* ------------------------------------------------------------------ IDs *)
Definition id := (N * N)%type.                      (* (MID, RID) *)
Definition id_ltb (a b : id) : bool :=               (* seq.Less *)
  if fst a =? fst b then snd a <? snd b else fst a <? fst b.
Definition id_eqb (a b : id) : bool := (fst a =? fst b) && (snd a =? snd b).
(* rev = DocsOrderAsc (sort.Sort); otherwise descending (sort.Reverse) *)
Definition before (rev : bool) (a b : id) : bool := if rev then id_ltb a b else id_ltb b a.
Fixpoint ins_id (rev : bool) (x : id) (l : list id) : list id :=
  match l with
  | [] => [x]
  | y :: r => if before rev y x then y :: ins_id rev x r else x :: l
  end.
Definition sort_ids (rev : bool) (l : list id) : list id := fold_right (ins_id rev) [] l.

(* removeRepetitionsAdvanced on a sorted list: (kept, removed); one entry in [removed] per dropped
   element (the value of lastID at that moment — the bucket that gets repaired) *)
Fixpoint dedup_from (last : id) (l : list id) : list id * list id :=
  match l with
  | [] => ([], [])
  | x :: r =>
      if id_eqb last x then let (k, d) := dedup_from last r in (k, last :: d)
      else let (k, d) := dedup_from x r in (x :: k, d)
  end.
Definition dedup (l : list id) : list id * list id :=
  match l with
  | [] => ([], [])
  | x :: r => let (k, d) := dedup_from x r in (x :: k, d)
  end.

Fixpoint take {A} (n : N) (l : list A) : list A :=
  match l with
  | [] => []
  | x :: r => if n =? 0 then [] else x :: take (N.pred n) r
  end.

(* ------------------------------------------------------------------ histogram (map[MID]uint64) *)
Definition two64 : N := 18446744073709551616.
Definition hist := list (N * N).
Definition oz (o : option N) : N := match o with Some v => v | None => 0 end.
Definition hadd (k c : N) (h : hist) : hist := nm_upd k (fun o => (oz o + c) mod two64) h.
Definition hdec (k : N) (h : hist) : hist := hadd k (two64 - 1) h.    (* histogram[k]-- on uint64 *)
Definition bucket (hi mid : N) : N := mid - mid mod hi.

(* ------------------------------------------------------------------ aggregation samples *)
Record sc := { sc_min : Z; sc_max : Z; sc_sum : Z; sc_total : Z; sc_ne : Z; sc_samples : list Z }.
(* NewSamplesContainers: Min = float64(MaxInt64) = 2^63, Max = float64(MinInt64) = -2^63; in units of 1/16 *)
Definition sc_new : sc :=
  {| sc_min := 147573952589676412928; sc_max := -147573952589676412928; sc_sum := 0; sc_total := 0;
     sc_ne := 0; sc_samples := [] |}.
Fixpoint ins_z (x : Z) (l : list Z) : list Z :=
  match l with
  | [] => [x]
  | y :: r => if (y <? x)%Z then y :: ins_z x r else x :: l
  end.
Definition ins_all (xs l : list Z) : list Z := fold_left (fun acc v => ins_z v acc) xs l.
(* SamplesContainer.Merge (reservoir not full: InsertSample appends; assumption: <= 8096 samples) *)
Definition merge_sc (h x : sc) : sc :=
  if (sc_total x =? 0)%Z then
    {| sc_min := sc_min h; sc_max := sc_max h; sc_sum := sc_sum h; sc_total := sc_total h;
       sc_ne := (sc_ne h + sc_ne x)%Z; sc_samples := sc_samples h |}
  else
    {| sc_min := if (sc_total h =? 0)%Z then sc_min x else Z.min (sc_min h) (sc_min x);
       sc_max := if (sc_total h =? 0)%Z then sc_max x else Z.max (sc_max h) (sc_max x);
       sc_sum := (sc_sum h + sc_sum x)%Z; sc_total := (sc_total h + sc_total x)%Z;
       sc_ne := (sc_ne h + sc_ne x)%Z; sc_samples := ins_all (sc_samples x) (sc_samples h) |}.
Definition osc (o : option sc) : sc := match o with Some h => h | None => sc_new end.

(* AggregatableSamples: (NotExists, SamplesByBin) *)
Definition agg := (Z * list (N * sc))%type.
Definition agg_empty : agg := (0%Z, []).
Definition bin_merge (m : list (N * sc)) (e : N * sc) : list (N * sc) :=
  nm_upd (fst e) (fun o => merge_sc (osc o) (snd e)) m.
Definition agg_merge (q a : agg) : agg := ((fst q + fst a)%Z, fold_left bin_merge (snd a) (snd q)).
(* for i := range qpr.Aggs { dst.Aggs[i].Merge(qpr.Aggs[i]) } (dst at least as long: otherwise Go panics) *)
Fixpoint zip_merge (d qa : list agg) : list agg :=
  match d, qa with
  | x :: d', y :: qa' => agg_merge x y :: zip_merge d' qa'
  | _, [] => d
  | [], _ => []
  end.
Definition merge_aggs (d qa : list agg) : list agg :=
  zip_merge (match d with [] => map (fun _ => agg_empty) qa | _ => d end) qa.

(* ------------------------------------------------------------------ QPR and MergeQPRs *)
Record qpr := { q_ids : list id; q_hist : hist; q_aggs : list agg; q_total : N }.
Definition qpr_zero : qpr := {| q_ids := []; q_hist := []; q_aggs := []; q_total := 0 |}.

Definition hist_absorb (h : hist) (e : N * N) : hist := hadd (fst e) (snd e) h.
(* body of the first loop of MergeQPRs for one source *)
Definition absorb (d q : qpr) : qpr :=
  {| q_ids := q_ids d ++ q_ids q;
     q_hist := fold_left hist_absorb (q_hist q) (q_hist d);
     q_aggs := merge_aggs (q_aggs d) (q_aggs q);
     q_total := (q_total d + q_total q) mod two64 |}.
Definition repair (hi : N) (h : hist) (r : id) : hist := hdec (bucket hi (fst r)) h.
(* sort, remove repetitions (repairing the histogram when histInterval > 0), cut to the limit
   (None = math.MaxInt) *)
Definition finish (limit : option N) (hi : N) (rev : bool) (d : qpr) : qpr :=
  let kr := dedup (sort_ids rev (q_ids d)) in
  {| q_ids := match limit with Some n => take n (fst kr) | None => fst kr end;
     q_hist := if 0 <? hi then fold_left (repair hi) (snd kr) (q_hist d) else q_hist d;
     q_aggs := q_aggs d;
     q_total := if 0 <? q_total d then (q_total d + two64 - N.of_nat (length (snd kr)) mod two64) mod two64
                else q_total d |}.
Definition merge_qprs (d : qpr) (qs : list qpr) (limit : option N) (hi : N) (rev : bool) : qpr :=
  finish limit hi rev (fold_left absorb qs d).

(* AsyncSearcher.FetchSearchResult: the .qpr files one by one, limit MaxInt, the request's HistInterval *)
Definition fetch (hi : N) (rev : bool) (qs : list qpr) : qpr :=
  fold_left (fun acc q => merge_qprs acc [q] None hi rev) qs qpr_zero.
(* before commit c0f0c39: histInterval = 1 *)
Definition fetch_v0 (rev : bool) (qs : list qpr) : qpr := fetch 1 rev qs.
(* Searcher.SearchDocs (FractionsPerIteration = 0: one MergeQPRs over all fractions) *)
Definition sync_search (naggs : nat) (limit hi : N) (rev : bool) (qs : list qpr) : qpr :=
  merge_qprs {| q_ids := []; q_hist := []; q_aggs := repeat agg_empty naggs; q_total := 0 |}
             qs (Some limit) hi rev.

(* ------------------------------------------------------------------ persistence protocol *)
(* files of ONE request in the async-search directory; f = number of the fraction (rank of its name,
   so that key order = order of filepath.Glob) *)
Inductive fname := FInfo | FInfoTmp | FQpr (f : N) | FQprTmp (f : N).
Definition fkey (n : fname) : N :=
  match n with FInfo => 0 | FInfoTmp => 1 | FQpr f => 2 + 2 * f | FQprTmp f => 3 + 2 * f end.
(* file contents: the complete request state (with Done flag), the complete partial result of a
   fraction, or anything else (empty, cut, unparsable) *)
(* CLong: a leftover temporary file that is longer than anything the protocol writes *)
Inductive content := CInfo (done : bool) | CQpr (f : N) | CTorn | CLong.
Inductive op :=
| OMkdir | OCreate (n : fname) | OWrite (n : fname) (c : content) | OFsync (n : fname)
| ORename (a b : fname) | OFsyncDir.

Definition dir := list (N * content).               (* sorted by fkey *)
Definition dset (n : fname) (c : content) (s : dir) : dir := nm_upd (fkey n) (fun _ => c) s.
Definition apply_op (s : dir) (o : op) : dir :=
  match o with
  | OCreate n => dset n CTorn s
  | OWrite n c => dset n c s
  | ORename a b =>
      match nm_find (fkey a) s with
      | Some c => dset b c (nm_del (fkey a) s)
      | None => s
      end
  | _ => s
  end.
Definition apply_ops (s : dir) (l : list op) : dir := fold_left apply_op l s.

(* mustWriteFileAtomic *)
Definition atomic_write (n tmp : fname) (c : content) : list op :=
  [OCreate tmp; OWrite tmp c; OFsync tmp; ORename tmp n; OFsyncDir].
(* doSearch: fractions with an existing <id>.<frac>.qpr are skipped (existence only) *)
Definition processed (s : dir) (f : N) : bool :=
  match nm_find (fkey (FQpr f)) s with Some _ => true | None => false end.
Definition frac_ops (s : dir) (f : N) : list op :=
  if processed s f then [] else atomic_write (FQpr f) (FQprTmp f) (CQpr f).
Definition dosearch_ops (s : dir) (fs : list N) : list op :=
  flat_map (frac_ops s) fs ++ atomic_write FInfo FInfoTmp (CInfo true).
Definition nullb {A} (l : list A) : bool := match l with [] => true | _ => false end.
(* StartSearch on an empty directory followed by processRequest *)
Definition start_ops (fs : list N) : list op :=
  OMkdir :: atomic_write FInfo FInfoTmp (CInfo (nullb fs))
  ++ (if nullb fs then [] else dosearch_ops [] fs).
(* restart: loadAsyncSearches finds the request iff <id>.info parses; notProcessedTasks = not Done *)
Definition found (s : dir) : bool :=
  match nm_find (fkey FInfo) s with Some (CInfo _) => true | _ => false end.
Definition is_done (s : dir) : bool :=
  match nm_find (fkey FInfo) s with Some (CInfo d) => d | _ => false end.
Definition resume_ops (s : dir) (fs : list N) : list op :=
  match nm_find (fkey FInfo) s with
  | Some (CInfo false) => dosearch_ops s fs
  | _ => []
  end.

(* doSearch looks every unprocessed persisted name up among the fractions alive at that moment
   (fracsByName); a persisted fraction that is gone makes processFrac dereference nil: the process dies
   there (second component). Fractions that are alive but not in the persisted list play no role. *)
Fixpoint dosearch_live (s : dir) (live fs : list N) : list op * bool :=
  match fs with
  | [] => (atomic_write FInfo FInfoTmp (CInfo true), false)
  | f :: r =>
      if processed s f then dosearch_live s live r
      else if existsb (N.eqb f) live then
             let od := dosearch_live s live r in
             (atomic_write (FQpr f) (FQprTmp f) (CQpr f) ++ fst od, snd od)
           else ([], true)
  end.
Definition resume_live (s : dir) (live fs : list N) : list op * bool :=
  match nm_find (fkey FInfo) s with
  | Some (CInfo false) => dosearch_live s live fs
  | _ => ([], false)
  end.

(* crash variants of a run that issues [ops] from state s: after k complete operations (variant 0);
   the k-th operation (from 0), a write, cut short (variant 1: the file holds a strict prefix);
   k complete operations, then power loss: data not yet fsynced is lost (variant 2) *)
Definition tear_op (o : op) : op := match o with OWrite n _ => OWrite n CTorn | _ => o end.
Fixpoint unsynced (l : list op) (acc : list fname) : list fname :=
  match l with
  | [] => acc
  | OWrite n _ :: r => unsynced r (n :: acc)
  | OFsync n :: r => unsynced r (filter (fun m => negb (fkey m =? fkey n)) acc)
  | ORename a b :: r => unsynced r (map (fun m => if fkey m =? fkey a then b else m) acc)
  | _ :: r => unsynced r acc
  end.
Definition lose (s : dir) (n : fname) : dir :=
  match nm_find (fkey n) s with Some _ => dset n CTorn s | None => s end.
(* variant 3: k complete operations, and every temporary file left behind is longer than what a later
   run will write into it (os.Create truncates it, so this must not matter) *)
Definition pad_tmp (s : dir) : dir := map (fun e => if N.even (fst e) then e else (fst e, CLong)) s.
Definition crash_state (s : dir) (ops : list op) (k : nat) (variant : N) : dir :=
  let pre := firstn k ops in
  if variant =? 1 then
    match nth_error ops k with
    | Some o => apply_op (apply_ops s pre) (tear_op o)
    | None => apply_ops s pre
    end
  else if variant =? 2 then fold_left lose (unsynced pre []) (apply_ops s pre)
  else if variant =? 3 then pad_tmp (apply_ops s pre)
  else apply_ops s pre.

(* what FetchSearchResult merges: every <id>*.qpr in name order; an unreadable file counts as empty *)
Definition is_qpr_key (k : N) : bool := (2 <=? k) && (N.even k).
Definition qpr_of (per : list (N * qpr)) (c : content) : qpr :=
  match c with
  | CQpr f => match nm_find f per with Some q => q | None => qpr_zero end
  | _ => qpr_zero
  end.
Definition stored_qprs (per : list (N * qpr)) (s : dir) : list qpr :=
  map (fun e => qpr_of per (snd e)) (filter (fun e => is_qpr_key (fst e)) s).
Definition fetch_dir (hi : N) (rev : bool) (per : list (N * qpr)) (s : dir) : qpr :=
  fetch hi rev (stored_qprs per s).

(* a chain of crashes: run, crash at (k, variant), restart, crash again, ... ; returns the directory
   at the last crash *)
Fixpoint chain_state (fs : list N) (s : dir) (ops : list op) (chain : list (nat * N)) : dir :=
  match chain with
  | [] => apply_ops s ops
  | (k, v) :: rest =>
      let s' := crash_state s ops k v in
      match rest with
      | [] => s'
      | _ => chain_state fs s' (resume_ops s' fs) rest
      end
  end.

(* ------------------------------------------------------------------ the proxy (proxy/search/async.go) *)
(* Ingestor.FetchAsyncSearchResult: per shard the replicas are asked in order; one that does not know
   the request (NotFound) is skipped, the first answer counts; a shard none of whose replicas knows the
   request is left out. Done = every answering shard is done; the answers are merged in one MergeQPRs
   with the fetch request's size. No answering shard at all = NotFound. *)
Inductive replica := RNotFound | RAnswer (done : bool) (q : qpr).
Fixpoint shard_answer (s : list replica) : option (bool * qpr) :=
  match s with
  | [] => None
  | RNotFound :: r => shard_answer r
  | RAnswer d q :: _ => Some (d, q)
  end.
Definition answers (shards : list (list replica)) : list (bool * qpr) :=
  flat_map (fun s => match shard_answer s with Some a => [a] | None => [] end) shards.
Definition proxy_fetch (naggs : nat) (size hi : N) (rev : bool) (shards : list (list replica)) : option (bool * qpr) :=
  match answers shards with
  | [] => None
  | a => Some (forallb fst a, sync_search naggs size hi rev (map snd a))
  end.
(* the same function with the done flag of the last answering shard (a regression seen in review) *)
Definition proxy_fetch_last (naggs : nat) (size hi : N) (rev : bool) (shards : list (list replica)) : option (bool * qpr) :=
  match answers shards with
  | [] => None
  | a => Some (fst (last a (true, qpr_zero)), sync_search naggs size hi rev (map snd a))
  end.

(* ------------------------------------------------------------------ FetchSearchResult as a snapshot *)
(* the request state (Done) and the list of .qpr files are taken from ONE state of the directory; what
   the worker persists while the files are being read does not enter the answer *)
Definition fetch_result (hi : N) (rev : bool) (per : list (N * qpr)) (s : dir) : bool * qpr :=
  (is_done s, fetch_dir hi rev per s).
(* s1 = the state when the fetch looked the request up and listed the files, s2 = a later state *)
Definition fetch_concurrent (hi : N) (rev : bool) (per : list (N * qpr)) (s1 s2 : dir) : bool * qpr :=
  fetch_result hi rev per s1.
(* a regression seen in review: Done is read a second time after the files were merged *)
Definition fetch_two_reads (hi : N) (rev : bool) (per : list (N * qpr)) (s1 s2 : dir) : bool * qpr :=
  (is_done s2, fetch_dir hi rev per s1).

(* mustWriteFileAtomic without O_TRUNC (a regression seen in review): creating an existing temporary
   file keeps its bytes; a payload written over a longer file leaves the old tail behind it *)
Definition apply_op_notrunc (s : dir) (o : op) : dir :=
  match o with
  | OCreate n => match nm_find (fkey n) s with Some _ => s | None => dset n CTorn s end
  | OWrite n c => match nm_find (fkey n) s with Some CLong => s | _ => dset n c s end
  | _ => apply_op s o
  end.
Definition apply_ops_notrunc (s : dir) (l : list op) : dir := fold_left apply_op_notrunc l s.

(* ------------------------------------------------------------------ names of the persisted requests *)
(* <id>.info on disk; loadAsyncSearches recovers the key of the request from the file name:
   requestID = filename[:len(filename)-len(".info")]. IDs are byte strings (as lists of N). *)
Definition dot_info : list N := [46; 105; 110; 102; 111].            (* ".info" *)
Definition info_name (id : list N) : list N := id ++ dot_info.
Definition id_of_name (name : list N) : list N := firstn (length name - length dot_info) name.
(* a regression seen in review: strings.TrimRight(filename, ".info") strips every trailing byte that
   occurs in ".info" *)
Fixpoint drop_while_in (set l : list N) : list N :=
  match l with
  | [] => []
  | x :: r => if existsb (N.eqb x) set then drop_while_in set r else l
  end.
Definition id_of_name_trimset (name : list N) : list N := rev (drop_while_in dot_info (rev name)).
(* after a restart the request is found iff <id>.info parses AND it is registered under its own id *)
Definition found_as (id : list N) (s : dir) : bool :=
  found s && (fix eqb (a b : list N) : bool :=
                match a, b with
                | [], [] => true
                | x :: a', y :: b' => (x =? y) && eqb a' b'
                | _, _ => false
                end) (id_of_name (info_name id)) id.

(* ------------------------------------------------------------------ the query across a restart *)
(* the request is persisted with the query as TEXT (the AST is dropped at load time); doSearch parses it
   again with the mapping of the store (as.mp.GetMapping()). parse and search are oracles. *)
Section Query.
  Context {text mapping ast : Type}.
  Variable parse : text -> mapping -> ast.
  Variable search : ast -> N -> qpr.
  (* partial result of fraction f: in the run that started the search / in a resumed run *)
  Definition started_result (q : text) (m : mapping) (f : N) : qpr := search (parse q m) f.
  Definition resumed_result (q : text) (m_at_resume : mapping) (f : N) : qpr := search (parse q m_at_resume) f.
End Query.
