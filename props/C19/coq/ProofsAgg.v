(* C19 — aggregation samples: the merge does not depend on the order of the partial results. *)
From Coq Require Import List Bool Arith NArith ZArith Lia Permutation Sorted.
From C19 Require Import Model ProofsMap.
Import ListNotations.
Open Scope N_scope.

(* a fold whose step function commutes on the reachable states *)
Lemma fold_left_perm_inv : forall {S E} (f : S -> E -> S) (I : S -> Prop) (P : E -> Prop),
  (forall s a, I s -> P a -> I (f s a)) ->
  (forall s a b, I s -> P a -> P b -> f (f s a) b = f (f s b) a) ->
  forall l1 l2, Permutation l1 l2 -> Forall P l1 -> forall s, I s -> fold_left f l1 s = fold_left f l2 s.
Proof.
  intros S E f I P Hinv C l1 l2 Pm. induction Pm; intros F s Is; simpl.
  - reflexivity.
  - inversion F; subst. apply IHPm; auto.
  - inversion F as [|? ? Py F']; subst. inversion F' as [|? ? Px F'']; subst. rewrite C; auto.
  - rewrite IHPm1 by assumption. apply IHPm2; [|assumption].
    apply Forall_forall. intros x Hx. rewrite Forall_forall in F. apply F.
    now apply (Permutation_in _ (Permutation_sym Pm1)).
Qed.
Lemma fold_left_inv : forall {S E} (f : S -> E -> S) (I : S -> Prop) (P : E -> Prop),
  (forall s a, I s -> P a -> I (f s a)) -> forall l s, Forall P l -> I s -> I (fold_left f l s).
Proof.
  intros S E f I P H. induction l as [|a l IH]; intros s F Is; simpl; [assumption|].
  inversion F; subst. apply IH; auto.
Qed.

(* ---------------------------------------------------------------- samples *)
Lemma ins_z_comm : forall l x y, ins_z x (ins_z y l) = ins_z y (ins_z x l).
Proof.
  induction l as [|z r IH]; intros x y; simpl.
  - destruct (Z.ltb_spec y x); destruct (Z.ltb_spec x y); try lia; try reflexivity.
    assert (x = y) by lia. subst. reflexivity.
  - destruct (Z.ltb_spec z y); destruct (Z.ltb_spec z x); simpl;
      repeat match goal with |- context [Z.ltb ?a ?b] => destruct (Z.ltb_spec a b) end;
      try lia; try reflexivity.
    + f_equal. apply IH.
    + assert (x = y) by lia. subst. reflexivity.
Qed.
Lemma ins_z_ins_all : forall ys l x, ins_z x (ins_all ys l) = ins_all ys (ins_z x l).
Proof.
  induction ys as [|y ys IH]; intros l x; unfold ins_all in *; simpl; [reflexivity|].
  rewrite IH. now rewrite ins_z_comm.
Qed.
Lemma ins_all_comm : forall xs ys l, ins_all xs (ins_all ys l) = ins_all ys (ins_all xs l).
Proof.
  induction xs as [|x xs IH]; intros ys l; [reflexivity|].
  change (ins_all (x :: xs) (ins_all ys l)) with (ins_all xs (ins_z x (ins_all ys l))).
  change (ins_all (x :: xs) l) with (ins_all xs (ins_z x l)).
  rewrite ins_z_ins_all. apply IH.
Qed.

(* ---------------------------------------------------------------- containers *)
Definition nonneg (x : sc) : Prop := (0 <= sc_total x)%Z.
Lemma sc_new_nonneg : nonneg sc_new. Proof. unfold nonneg. simpl. lia. Qed.
Lemma merge_sc_nonneg : forall h x, nonneg h -> nonneg x -> nonneg (merge_sc h x).
Proof.
  intros h x Hh Hx. unfold nonneg, merge_sc in *. destruct (Z.eqb_spec (sc_total x) 0); simpl; lia.
Qed.
Lemma merge_sc_comm : forall h x y, nonneg h -> nonneg x -> nonneg y ->
  merge_sc (merge_sc h x) y = merge_sc (merge_sc h y) x.
Proof.
  intros [hmin hmax hsum ht hne hs] [xmin xmax xsum xt xne xs] [ymin ymax ysum yt yne ys].
  unfold nonneg, merge_sc. simpl. intros Hh Hx Hy.
  destruct (Z.eqb_spec xt 0); destruct (Z.eqb_spec yt 0); simpl;
    repeat match goal with |- context [Z.eqb ?a ?b] => destruct (Z.eqb_spec a b) end;
    try lia; f_equal; try lia.
  all: try apply ins_all_comm.
Qed.

(* ---------------------------------------------------------------- bins *)
Definition binsok (m : list (N * sc)) : Prop := Forall (fun e => nonneg (snd e)) m.
Definition evok (e : N * sc) : Prop := nonneg (snd e).

Lemma upd_forall : forall (Q : sc -> Prop) m k (f : option sc -> sc),
  Forall (fun e => Q (snd e)) m -> Q (f None) -> (forall v, Q v -> Q (f (Some v))) ->
  Forall (fun e : N * sc => Q (snd e)) (nm_upd k f m).
Proof.
  induction m as [|[k' v] r IH]; intros k f F N S; simpl.
  - constructor; [assumption|constructor].
  - inversion F as [|? ? Hv Fr]; subst. simpl in Hv.
    destruct (k <? k'); [constructor; assumption|].
    destruct (k =? k'); [constructor; [simpl; auto|assumption]|].
    constructor; [assumption|]. now apply IH.
Qed.
Lemma upd_ext_in : forall {V} (m : list (N * V)) k (f g : option V -> V),
  f None = g None -> (forall v, In v (map snd m) -> f (Some v) = g (Some v)) -> nm_upd k f m = nm_upd k g m.
Proof.
  induction m as [|[k' v] r IH]; intros k f g HN HS; simpl.
  - now rewrite HN.
  - destruct (k <? k'); [now rewrite HN|].
    destruct (k =? k'); [rewrite HS; [reflexivity|now left]|].
    f_equal. apply IH; [assumption|]. intros w Hw. apply HS. now right.
Qed.

Lemma bin_merge_ok : forall m e, binsok m -> evok e -> binsok (bin_merge m e).
Proof.
  intros m e Hm He. unfold bin_merge, binsok. apply upd_forall; try assumption.
  - apply merge_sc_nonneg; [apply sc_new_nonneg|exact He].
  - intros v Hv. now apply merge_sc_nonneg.
Qed.
Lemma bin_merge_comm : forall m a b, binsok m -> evok a -> evok b ->
  bin_merge (bin_merge m a) b = bin_merge (bin_merge m b) a.
Proof.
  intros m [ka xa] [kb xb] Hm Ha Hb. unfold bin_merge, evok in *. simpl in *.
  destruct (N.eq_dec kb ka) as [->|Hne].
  - rewrite !upd_upd_same. apply upd_ext_in.
    + simpl. apply merge_sc_comm; [apply sc_new_nonneg|assumption|assumption].
    + intros v Hv. simpl. apply merge_sc_comm; try assumption.
      unfold binsok in Hm. rewrite Forall_forall in Hm.
      apply in_map_iff in Hv. destruct Hv as [e [<- He]]. now apply Hm.
  - now apply upd_comm_ne.
Qed.

(* ---------------------------------------------------------------- one aggregation *)
Definition aggok (a : agg) : Prop := Forall evok (snd a).
Lemma aggok_bins : forall a, aggok a -> binsok (snd a). Proof. intros a H. exact H. Qed.
Lemma agg_empty_ok : aggok agg_empty. Proof. constructor. Qed.
Lemma agg_merge_ok : forall q a, aggok q -> aggok a -> aggok (agg_merge q a).
Proof.
  intros q a Hq Ha. unfold aggok, agg_merge. simpl.
  apply (fold_left_inv bin_merge binsok evok bin_merge_ok); assumption.
Qed.
Lemma agg_merge_comm : forall q a b, aggok q -> aggok a -> aggok b ->
  agg_merge (agg_merge q a) b = agg_merge (agg_merge q b) a.
Proof.
  intros q a b Hq Ha Hb. unfold agg_merge. simpl. f_equal; [lia|].
  rewrite <- !fold_left_app.
  apply (fold_left_perm_inv bin_merge binsok evok bin_merge_ok bin_merge_comm).
  - apply Permutation_app_comm.
  - apply Forall_app. split; assumption.
  - exact Hq.
Qed.

(* ---------------------------------------------------------------- the list of aggregations *)
Definition aggsok (n : nat) (d : list agg) : Prop := length d = n /\ Forall aggok d.

Lemma zip_merge_ok : forall n d a, aggsok n d -> aggsok n a -> aggsok n (zip_merge d a).
Proof.
  intros n d. revert n. induction d as [|x d IH]; intros n a [Ld Fd] [La Fa].
  - destruct a; simpl; split; auto.
  - destruct a as [|y a]; [simpl in *; lia|].
    inversion Fd; subst. inversion Fa; subst. simpl in *.
    destruct (IH (length d) a) as [L F]; [split; auto|split; auto; lia|].
    split; [simpl; lia|]. constructor; [now apply agg_merge_ok|assumption].
Qed.
Lemma zip_merge_comm : forall n d a b, aggsok n d -> aggsok n a -> aggsok n b ->
  zip_merge (zip_merge d a) b = zip_merge (zip_merge d b) a.
Proof.
  intros n d. revert n. induction d as [|x d IH]; intros n a b [Ld Fd] [La Fa] [Lb Fb].
  - destruct a; destruct b; reflexivity.
  - destruct a as [|y a]; [simpl in *; lia|]. destruct b as [|z b]; [simpl in *; lia|].
    inversion Fd; subst. inversion Fa; subst. inversion Fb; subst. simpl in *.
    f_equal; [now apply agg_merge_comm|].
    apply (IH (length d)); split; auto; lia.
Qed.
Lemma merge_aggs_zip : forall n d a, aggsok n d -> aggsok n a -> merge_aggs d a = zip_merge d a.
Proof.
  intros n d a [Ld _] [La _]. unfold merge_aggs. destruct d; [|reflexivity].
  destruct a; [reflexivity|simpl in *; lia].
Qed.
Lemma map_empty_repeat : forall (a : list agg), map (fun _ => agg_empty) a = repeat agg_empty (length a).
Proof. induction a; simpl; [reflexivity|]. now rewrite IHa. Qed.
Lemma repeat_ok : forall n, aggsok n (repeat agg_empty n).
Proof.
  intro n. split; [apply repeat_length|]. apply Forall_forall. intros x Hx.
  apply repeat_spec in Hx. subst. apply agg_empty_ok.
Qed.

Lemma fold_merge_aggs_zip : forall n L d, Forall (aggsok n) L -> aggsok n d ->
  fold_left merge_aggs L d = fold_left zip_merge L d /\ aggsok n (fold_left zip_merge L d).
Proof.
  intros n L. induction L as [|a L IH]; intros d F Hd; simpl; [split; [reflexivity|assumption]|].
  inversion F; subst. rewrite (merge_aggs_zip n) by assumption.
  apply IH; [assumption|]. now apply zip_merge_ok.
Qed.

(* the aggregations after merging the partial results in any order, starting from nil (FetchSearchResult)
   or from a list of empty aggregations (SearchDocs) *)
Lemma aggs_fold_perm : forall n L L', Permutation L L' -> Forall (aggsok n) L ->
  fold_left merge_aggs L (repeat agg_empty n) = fold_left merge_aggs L' (repeat agg_empty n).
Proof.
  intros n L L' P F.
  assert (F' : Forall (aggsok n) L').
  { apply Forall_forall. intros x Hx. rewrite Forall_forall in F. apply F.
    now apply (Permutation_in _ (Permutation_sym P)). }
  rewrite (proj1 (fold_merge_aggs_zip n L _ F (repeat_ok n))).
  rewrite (proj1 (fold_merge_aggs_zip n L' _ F' (repeat_ok n))).
  apply (fold_left_perm_inv zip_merge (aggsok n) (aggsok n)); try assumption.
  - intros. now apply zip_merge_ok.
  - intros. now apply (zip_merge_comm n).
  - apply repeat_ok.
Qed.
Lemma aggs_fold_from_nil : forall n a L, aggsok n a ->
  fold_left merge_aggs (a :: L) [] = fold_left merge_aggs (a :: L) (repeat agg_empty n).
Proof.
  intros n a L [La Fa]. simpl. f_equal. unfold merge_aggs.
  rewrite map_empty_repeat, La.
  destruct (repeat agg_empty n) eqn:E; [|reflexivity].
  destruct n; [|discriminate]. destruct a; [reflexivity|simpl in La; lia].
Qed.

Definition aggs_equiv (a b : list agg) : Prop := forall i, nth i a agg_empty = nth i b agg_empty.
Lemma nth_repeat_empty : forall n i, nth i (repeat agg_empty n) agg_empty = agg_empty.
Proof. induction n; destruct i; simpl; auto. Qed.

Theorem aggs_order_free : forall n L L', Permutation L L' -> Forall (aggsok n) L ->
  aggs_equiv (fold_left merge_aggs L' []) (fold_left merge_aggs L (repeat agg_empty n)).
Proof.
  intros n L L' P F i.
  destruct L' as [|a L'].
  - apply Permutation_sym, Permutation_nil in P. subst L. simpl.
    rewrite nth_repeat_empty. now destruct i.
  - assert (Ha : aggsok n a).
    { rewrite Forall_forall in F. apply F. apply (Permutation_in _ (Permutation_sym P)). now left. }
    rewrite (aggs_fold_from_nil n a L' Ha). now rewrite (aggs_fold_perm n L (a :: L') P F).
Qed.

(* ---------------------------------------------------------------- the JSON key codec (oracle) *)
(* codec b = the bin that key "mid|token" of bin b decodes to after the JSON round trip; decoding a
   JSON object with repeated keys keeps the last one *)
Definition rekey (codec : N -> N) (a : agg) : agg :=
  (fst a, fold_left (fun m e => nm_upd (codec (fst e)) (fun _ => snd e) m) (snd a) []).
Definition recode (codec : N -> N) (q : qpr) : qpr :=
  {| q_ids := q_ids q; q_hist := q_hist q; q_aggs := map (rekey codec) (q_aggs q); q_total := q_total q |}.

Lemma upd_append : forall {V} (m : list (N * V)) k (f : option V -> V),
  Forall (fun e => fst e < k) m -> nm_upd k f m = m ++ [(k, f None)].
Proof.
  induction m as [|[k' v] r IH]; intros k f F; simpl; [reflexivity|].
  inversion F as [|? ? Hk Fr]; subst. simpl in Hk.
  assert (k <? k' = false) as -> by (apply N.ltb_ge; lia).
  assert (k =? k' = false) as -> by (apply N.eqb_neq; lia).
  f_equal. now apply IH.
Qed.
Definition keys_sorted {V} (m : list (N * V)) : Prop := StronglySorted N.lt (map fst m).

Lemma rebuild_sorted : forall (r acc : list (N * sc)),
  keys_sorted (acc ++ r) ->
  fold_left (fun m e => nm_upd (fst e) (fun _ => snd e) m) r acc = acc ++ r.
Proof.
  induction r as [|[k v] r IH]; intros acc S; simpl; [now rewrite app_nil_r|].
  rewrite upd_append.
  - rewrite IH; rewrite <- app_assoc; [reflexivity|exact S].
  - unfold keys_sorted in S. rewrite map_app in S. simpl in S.
    apply Forall_forall. intros e He.
    assert (In (fst e) (map fst acc)) as Hi by (apply in_map; assumption).
    clear He. induction (map fst acc) as [|a l IHl]; [contradiction|].
    simpl in S. inversion S as [|? ? S' Fa]; subst. destruct Hi as [<-|Hi].
    + rewrite Forall_forall in Fa. apply Fa. apply in_or_app. right. now left.
    + now apply IHl.
Qed.

Definition codec_id (codec : N -> N) (q : qpr) : Prop :=
  Forall (fun a : agg => keys_sorted (snd a) /\ Forall (fun e => codec (fst e) = fst e) (snd a)) (q_aggs q).

Lemma rekey_id : forall codec (a : agg), keys_sorted (snd a) -> Forall (fun e => codec (fst e) = fst e) (snd a) ->
  rekey codec a = a.
Proof.
  intros codec [ne bins] S F. unfold rekey. simpl in *. f_equal.
  assert (G : forall l acc, Forall (fun e : N * sc => codec (fst e) = fst e) l ->
            fold_left (fun m e => nm_upd (codec (fst e)) (fun _ => snd e) m) l acc
            = fold_left (fun m e => nm_upd (fst e) (fun _ => snd e) m) l acc).
  { induction l as [|e l IHl]; intros acc Fl; simpl; [reflexivity|].
    inversion Fl as [|? ? He Fl']; subst. rewrite He. now apply IHl. }
  rewrite G by assumption. exact (rebuild_sorted bins [] S).
Qed.
Lemma recode_id : forall codec q, codec_id codec q -> recode codec q = q.
Proof.
  intros codec [ids h aggs t] C. unfold recode, codec_id in *. simpl in *. f_equal.
  induction aggs as [|a r IH]; simpl; [reflexivity|].
  inversion C as [|? ? [S F] Cr]; subst. rewrite rekey_id by assumption. f_equal. now apply IH.
Qed.
