(* C19 — lemmas on the association lists of Model.v (no sortedness needed for these). *)
From Coq Require Import List Bool Arith NArith ZArith Lia Permutation.
From C19 Require Import Model.
Import ListNotations.
Open Scope N_scope.

Ltac cmp1 :=
  match goal with
  | |- context [N.ltb ?a ?b] => destruct (N.ltb_spec a b)
  | |- context [N.eqb ?a ?b] => destruct (N.eqb_spec a b)
  end.

Section NMapFacts.
  Context {V : Type}.
  Implicit Types (m : list (N * V)) (k : N).

  Lemma find_upd_const : forall m k (c : V), nm_find k (nm_upd k (fun _ => c) m) = Some c.
  Proof.
    induction m as [|[k' v] r IH]; intros k c; simpl.
    - now rewrite N.eqb_refl.
    - destruct (k <? k') eqn:L; simpl.
      + now rewrite N.eqb_refl.
      + destruct (k =? k') eqn:E; simpl.
        * now rewrite N.eqb_refl.
        * rewrite E. apply IH.
  Qed.

  Lemma find_upd_other : forall m k k' (f : option V -> V), k <> k' -> nm_find k (nm_upd k' f m) = nm_find k m.
  Proof.
    induction m as [|[k2 v] r IH]; intros k k' f Hne; simpl.
    - destruct (k =? k') eqn:E; [apply N.eqb_eq in E; congruence|reflexivity].
    - destruct (k' <? k2) eqn:L; simpl.
      + destruct (k =? k') eqn:E; [apply N.eqb_eq in E; congruence|reflexivity].
      + destruct (k' =? k2) eqn:E2; simpl.
        * apply N.eqb_eq in E2; subst k2.
          destruct (k =? k') eqn:E; [apply N.eqb_eq in E; congruence|reflexivity].
        * destruct (k =? k2); [reflexivity|]. now apply IH.
  Qed.

  Lemma find_del_other : forall m k k', k <> k' -> nm_find k (nm_del k' m) = nm_find k m.
  Proof.
    induction m as [|[k2 v] r IH]; intros k k' Hne; simpl; [reflexivity|].
    destruct (k' =? k2) eqn:E2; simpl.
    - apply N.eqb_eq in E2; subst k2.
      destruct (k =? k') eqn:E; [apply N.eqb_eq in E; congruence|reflexivity].
    - destruct (k =? k2); [reflexivity|]. now apply IH.
  Qed.

  (* updates at different keys commute (any list) *)
  Lemma upd_comm_ne : forall m k1 k2 (f g : option V -> V), k1 <> k2 ->
    nm_upd k1 f (nm_upd k2 g m) = nm_upd k2 g (nm_upd k1 f m).
  Proof.
    induction m as [|[k v] r IH]; intros k1 k2 f g Hne; simpl.
    - repeat (cmp1; simpl); try lia; try congruence; reflexivity.
    - repeat (cmp1; simpl); try lia; try congruence; try reflexivity.
      f_equal. now apply IH.
  Qed.

  (* updates at the same key compose *)
  Lemma upd_upd_same : forall m k (f g : option V -> V),
    nm_upd k f (nm_upd k g m) = nm_upd k (fun o => f (Some (g o))) m.
  Proof.
    induction m as [|[k' v] r IH]; intros k f g; simpl.
    - rewrite N.ltb_irrefl, N.eqb_refl. reflexivity.
    - destruct (k <? k') eqn:L; simpl.
      + rewrite N.ltb_irrefl, N.eqb_refl. reflexivity.
      + destruct (k =? k') eqn:E; simpl.
        * rewrite N.ltb_irrefl, N.eqb_refl. reflexivity.
        * rewrite L, E. f_equal. apply IH.
  Qed.

  Lemma upd_ext : forall m k (f g : option V -> V), (forall o, f o = g o) -> nm_upd k f m = nm_upd k g m.
  Proof.
    induction m as [|[k' v] r IH]; intros k f g H; simpl.
    - now rewrite H.
    - destruct (k <? k'); [now rewrite H|]. destruct (k =? k'); [now rewrite H|]. f_equal. now apply IH.
  Qed.
End NMapFacts.

(* a fold with a step function whose applications commute does not depend on the order of the list *)
Lemma fold_left_perm : forall {S E} (f : S -> E -> S),
  (forall s a b, f (f s a) b = f (f s b) a) ->
  forall l1 l2, Permutation l1 l2 -> forall s, fold_left f l1 s = fold_left f l2 s.
Proof.
  intros S E f C l1 l2 P. induction P; intros s; simpl.
  - reflexivity.
  - apply IHP.
  - now rewrite C.
  - now rewrite IHP1.
Qed.
