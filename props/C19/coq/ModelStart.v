(* C19 — executable model, part 2 (NO proofs in this file).

   Part A: Ingestor.StartAsyncSearch (proxy/search/async.go): per shard the replicas are asked in the
           configured order; a replica that refuses (any error: Unavailable, deadline, internal) is
           skipped, the first one that accepts ends the shard's loop; a shard whose loop ends with the
           error of its last replica makes the whole start fail: no ID is handed out and the
           remaining shards are not asked. Then the cluster a later FetchAsyncSearchResult sees.
   Part B: the ownership of the pooled compression buffer in AsyncSearcher.processFrac
           (fracmanager/async_searcher.go): bytespool.Acquire, zstd.CompressLevel into the buffer,
           mustWriteFileAtomic(fpath, buf.B), deferred bytespool.Release — as four steps interleaved
           with arbitrary steps of other users of the global pool. *)
From Coq Require Import List Bool Arith NArith.
From C19 Require Import Model.
Import ListNotations.
Open Scope N_scope.

(* ------------------------------------------------------------------ A. StartAsyncSearch *)
(* what a replica answers to StartAsyncSearch; err != nil is all the proxy looks at *)
Inductive sreply := SAccept | SRefuse.

(* the replica loop of shard si from replica ri on; err = the shard's `var err error` so far.
   Result: the calls made, as (shard, replica), and err after the loop. *)
Fixpoint shard_start (si ri : nat) (reps : list sreply) (err : bool) : list (nat * nat) * bool :=
  match reps with
  | [] => ([], err)
  | SAccept :: _ => ([(si, ri)], false)                              (* err = nil; break *)
  | SRefuse :: r => let cr := shard_start si (S ri) r true in       (* err != nil; continue *)
                    ((si, ri) :: fst cr, snd cr)
  end.
(* the shard loop: calls made and the shard whose error ended the start (None = an ID is returned) *)
Fixpoint start_from (si : nat) (shards : list (list sreply)) : list (nat * nat) * option nat :=
  match shards with
  | [] => ([], None)
  | s :: r =>
      let cr := shard_start si 0 s false in
      if snd cr then (fst cr, Some si)
      else let rest := start_from (S si) r in (fst cr ++ fst rest, snd rest)
  end.
Definition proxy_start (shards : list (list sreply)) : list (nat * nat) * option nat := start_from 0 shards.
Definition start_succeeds (shards : list (list sreply)) : bool :=
  match snd (proxy_start shards) with None => true | Some _ => false end.

(* a regression: `_, err := client.StartAsyncSearch(...)` inside the replica loop declares a new err;
   the shard's own err stays nil, so the check after the loop never fires *)
Fixpoint start_from_shadow (si : nat) (shards : list (list sreply)) : list (nat * nat) * option nat :=
  match shards with
  | [] => ([], None)
  | s :: r => let rest := start_from_shadow (S si) r in
              (fst (shard_start si 0 s false) ++ fst rest, snd rest)
  end.
Definition proxy_start_shadow (shards : list (list sreply)) := start_from_shadow 0 shards.

Fixpoint first_acceptor (reps : list sreply) : option nat :=
  match reps with
  | [] => None
  | SAccept :: _ => Some 0%nat
  | SRefuse :: r => option_map S (first_acceptor r)
  end.

(* the cluster at fetch time: the replica that accepted the start has the request and answers a
   (its progress at that time: done flag and merged partial results); a replica that refused or was
   never asked does not know the request *)
Fixpoint shard_after (reps : list sreply) (a : bool * qpr) : list replica :=
  match reps with
  | [] => []
  | SAccept :: r => RAnswer (fst a) (snd a) :: map (fun _ => RNotFound) r
  | SRefuse :: r => RNotFound :: shard_after r a
  end.
Fixpoint cluster_after (pattern : list (list sreply)) (avail : list (bool * qpr)) : list (list replica) :=
  match pattern, avail with
  | s :: p, a :: av => shard_after s a :: cluster_after p av
  | _, _ => []
  end.

(* start followed by fetch: None = no ID was handed out (nothing can be fetched);
   Some None = the fetch says NotFound; Some (Some (done, answer)) *)
Definition start_then_fetch (naggs : nat) (size hi : N) (rev : bool) (pattern : list (list sreply))
           (avail : list (bool * qpr)) : option (option (bool * qpr)) :=
  if start_succeeds pattern then Some (proxy_fetch naggs size hi rev (cluster_after pattern avail)) else None.
Definition start_then_fetch_shadow (naggs : nat) (size hi : N) (rev : bool) (pattern : list (list sreply))
           (avail : list (bool * qpr)) : option (option (bool * qpr)) :=
  match snd (proxy_start_shadow pattern) with
  | None => Some (proxy_fetch naggs size hi rev (cluster_after pattern avail))
  | Some _ => None
  end.

(* what a store answers to FetchAsyncSearchResult from the state s of its request directory
   (storeapi/grpc_async_search.go: NotFound iff the searcher does not have the request) *)
Definition store_reply (hi : N) (rev : bool) (per : list (N * qpr)) (s : dir) : replica :=
  if found s then RAnswer (is_done s) (fetch_dir hi rev per s) else RNotFound.

(* ------------------------------------------------------------------ B. the pooled buffer *)
Definition bytes := list N.
(* who may touch a buffer of the global pool: nobody (it lies in the pool), some other goroutine that
   acquired it, or processFrac *)
Inductive owner := Free | Other | Mine.
Record pstate := {
  p_owner : list (N * owner);      (* every buffer that exists *)
  p_bufs : list (N * bytes);       (* contents of the backing arrays *)
  p_next : N;                      (* the next fresh buffer (make([]byte, 0, capacity)) *)
  p_mine : option N;               (* the *Buffer processFrac holds *)
  p_slice : option (N * nat);      (* the []byte handed to mustWriteFileAtomic: backing array, length *)
  p_file : option bytes            (* the bytes written to <id>.<frac>.qpr *)
}.
Definition owner_of (b : N) (st : pstate) : option owner := nm_find b (p_owner st).
Definition contents (b : N) (st : pstate) : bytes := match nm_find b (p_bufs st) with Some c => c | None => [] end.
(* writing pat from the start of the array leaves the old tail behind it *)
Definition overwrite (pat old : bytes) : bytes := pat ++ skipn (length pat) old.

Definition set_owner (b : N) (o : owner) (st : pstate) : pstate :=
  {| p_owner := nm_upd b (fun _ => o) (p_owner st); p_bufs := p_bufs st; p_next := p_next st;
     p_mine := p_mine st; p_slice := p_slice st; p_file := p_file st |}.
Definition set_contents (b : N) (c : bytes) (st : pstate) : pstate :=
  {| p_owner := p_owner st; p_bufs := nm_upd b (fun _ => c) (p_bufs st); p_next := p_next st;
     p_mine := p_mine st; p_slice := p_slice st; p_file := p_file st |}.
(* Pool.Acquire: some buffer lying in the pool (pick — the size classes and sync.Pool's choice are
   abstracted: ANY free buffer may come out), or a fresh one *)
Definition acquire (pick : option N) (o : owner) (st : pstate) : N * pstate :=
  match pick with
  | Some b => match owner_of b st with
              | Some Free => (b, set_owner b o st)
              | _ => (p_next st,
                      {| p_owner := nm_upd (p_next st) (fun _ => o) (p_owner st); p_bufs := p_bufs st;
                         p_next := p_next st + 1; p_mine := p_mine st; p_slice := p_slice st; p_file := p_file st |})
              end
  | None => (p_next st,
             {| p_owner := nm_upd (p_next st) (fun _ => o) (p_owner st); p_bufs := p_bufs st;
                p_next := p_next st + 1; p_mine := p_mine st; p_slice := p_slice st; p_file := p_file st |})
  end.

(* steps of the other users of the pool (bulk, fetch, other searches ...): they write only into
   buffers they hold and release only those *)
Inductive ostep := OAcquire (pick : option N) | OFill (b : N) (pat : bytes) | ORelease (b : N).
Definition other_step (st : pstate) (o : ostep) : pstate :=
  match o with
  | OAcquire pick => snd (acquire pick Other st)
  | OFill b pat => match owner_of b st with
                   | Some Other => set_contents b (overwrite pat (contents b st)) st
                   | _ => st
                   end
  | ORelease b => match owner_of b st with
                  | Some Other => set_owner b Free st
                  | _ => st
                  end
  end.
Definition run_others (l : list ostep) (st : pstate) : pstate := fold_left other_step l st.

(* steps of processFrac; cp = zstd.CompressLevel(_, _, 3), payload = json.Marshal(qpr) *)
Inductive mstep := MAcquire (pick : option N) | MCompress | MWrite | MRelease.
Definition mine_step (cp : bytes -> bytes) (payload : bytes) (st : pstate) (m : mstep) : pstate :=
  match m with
  | MAcquire pick =>
      let bs := acquire pick Mine st in
      {| p_owner := p_owner (snd bs); p_bufs := p_bufs (snd bs); p_next := p_next (snd bs);
         p_mine := Some (fst bs); p_slice := p_slice st; p_file := p_file st |}
  | MCompress =>
      match p_mine st with
      | Some b => let st' := set_contents b (overwrite (cp payload) (contents b st)) st in
                  {| p_owner := p_owner st'; p_bufs := p_bufs st'; p_next := p_next st'; p_mine := p_mine st';
                     p_slice := Some (b, length (cp payload)); p_file := p_file st' |}
      | None => st
      end
  | MWrite =>
      match p_slice st with
      | Some (b, n) => {| p_owner := p_owner st; p_bufs := p_bufs st; p_next := p_next st; p_mine := p_mine st;
                          p_slice := p_slice st; p_file := Some (firstn n (contents b st)) |}
      | None => st
      end
  | MRelease =>
      match p_mine st with
      | Some b => let st' := set_owner b Free st in
                  {| p_owner := p_owner st'; p_bufs := p_bufs st'; p_next := p_next st'; p_mine := None;
                     p_slice := p_slice st'; p_file := p_file st' |}
      | None => st
      end
  end.
(* the code: buf := Acquire; defer Release(buf); buf.B = Compress(...); mustWriteFileAtomic(fpath, buf.B) *)
Definition prog_ok (pick : option N) : list mstep := [MAcquire pick; MCompress; MWrite; MRelease].
(* a regression: compression moved into a helper that does `defer bytespool.Release(buf)` and returns
   buf.B — the file is written from a buffer that is back in the pool *)
Definition prog_release_first (pick : option N) : list mstep := [MAcquire pick; MCompress; MRelease; MWrite].

(* a run of one processFrac: sched = what the other users do before the first step, between the steps
   and after the last one (every interleaving has this shape) *)
Fixpoint run_prog (cp : bytes -> bytes) (payload : bytes) (prog : list mstep) (sched : list (list ostep))
         (st : pstate) : pstate :=
  match prog with
  | [] => run_others (hd [] sched) st
  | m :: prog' => run_prog cp payload prog' (tl sched) (mine_step cp payload (run_others (hd [] sched) st) m)
  end.

Fixpoint bytes_eqb (a b : bytes) : bool :=
  match a, b with
  | [], [] => true
  | x :: a', y :: b' => (x =? y) && bytes_eqb a' b'
  | _, _ => false
  end.

(* doSearch over the fractions of the request: one processFrac after the other on the same pool;
   per fraction: its number, the buffer Acquire hands out, the interleaving. Result: what each
   <id>.<frac>.qpr holds — the complete partial result iff the bytes are the compression of it. *)
Definition fplan := (N * (option N * list (list ostep)))%type.
Fixpoint pool_fracs (cp : bytes -> bytes) (payload : N -> bytes) (prog : option N -> list mstep)
         (plan : list fplan) (st : pstate) : list content :=
  match plan with
  | [] => []
  | (f, (pick, sched)) :: r =>
      let st' := run_prog cp (payload f) (prog pick) sched
                   {| p_owner := p_owner st; p_bufs := p_bufs st; p_next := p_next st; p_mine := None;
                      p_slice := None; p_file := None |} in
      (match p_file st' with
       | Some b => if bytes_eqb b (cp (payload f)) then CQpr f else CTorn
       | None => CTorn
       end) :: pool_fracs cp payload prog r st'
  end.
(* StartSearch + processRequest on an empty directory with the given file contents per fraction *)
Definition start_ops_with (fs : list N) (cs : list content) : list op :=
  OMkdir :: atomic_write FInfo FInfoTmp (CInfo (nullb fs))
  ++ (if nullb fs then []
      else flat_map (fun fc => atomic_write (FQpr (fst fc)) (FQprTmp (fst fc)) (snd fc)) (combine fs cs)
           ++ atomic_write FInfo FInfoTmp (CInfo true)).
Definition pool_empty : pstate :=
  {| p_owner := []; p_bufs := []; p_next := 0; p_mine := None; p_slice := None; p_file := None |}.
Definition pool_run_dir (cp : bytes -> bytes) (payload : N -> bytes) (prog : option N -> list mstep)
           (plan : list fplan) (st : pstate) : dir :=
  apply_ops [] (start_ops_with (map fst plan) (pool_fracs cp payload prog plan st)).
