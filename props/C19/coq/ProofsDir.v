(* C19 — the directory as a sorted list: what FetchSearchResult reads from a finished directory. *)
From Coq Require Import List Bool Arith NArith Lia Permutation Sorted.
From C19 Require Import Model ProofsMap ProofsProto ProofsAgg.
Import ListNotations.
Open Scope N_scope.

Definition dir_sorted (s : dir) : Prop := keys_sorted s.

Lemma upd_keys_in : forall {V} (m : list (N * V)) k f x, In x (map fst (nm_upd k f m)) -> x = k \/ In x (map fst m).
Proof.
  induction m as [|[k' v] r IH]; intros k f x H; simpl in *.
  - destruct H as [<-|[]]. now left.
  - destruct (k <? k'); simpl in H.
    + destruct H as [<-|H]; [now left|now right].
    + destruct (k =? k') eqn:E; simpl in H.
      * apply N.eqb_eq in E. subst. destruct H as [<-|H]; [now left|right; now right].
      * destruct H as [<-|H]; [right; now left|]. destruct (IH _ _ _ H); [now left|right; now right].
Qed.
Lemma upd_sorted : forall {V} (m : list (N * V)) k f, keys_sorted m -> keys_sorted (nm_upd k f m).
Proof.
  unfold keys_sorted. induction m as [|[k' v] r IH]; intros k f S; simpl.
  - constructor; constructor.
  - simpl in S. inversion S as [|? ? S' F]; subst.
    destruct (N.ltb_spec k k'); simpl.
    + constructor; [assumption|]. constructor; [assumption|].
      apply Forall_forall. intros x Hx. rewrite Forall_forall in F. specialize (F x Hx). lia.
    + destruct (N.eqb_spec k k'); simpl.
      * subst. constructor; assumption.
      * constructor; [now apply IH|]. apply Forall_forall. intros x Hx.
        apply upd_keys_in in Hx. destruct Hx as [->|Hx]; [lia|]. rewrite Forall_forall in F. now apply F.
Qed.
Lemma del_keys_in : forall {V} (m : list (N * V)) k x, In x (map fst (nm_del k m)) -> In x (map fst m).
Proof.
  induction m as [|[k' v] r IH]; intros k x H; simpl in *; [assumption|].
  destruct (k =? k'); simpl in H; [now right|]. destruct H as [<-|H]; [now left|right; now apply IH with k].
Qed.
Lemma del_sorted : forall {V} (m : list (N * V)) k, keys_sorted m -> keys_sorted (nm_del k m).
Proof.
  unfold keys_sorted. induction m as [|[k' v] r IH]; intros k S; simpl; [constructor|].
  simpl in S. inversion S as [|? ? S' F]; subst.
  destruct (k =? k'); simpl; [assumption|].
  constructor; [now apply IH|]. apply Forall_forall. intros x Hx. apply del_keys_in in Hx.
  rewrite Forall_forall in F. now apply F.
Qed.

Lemma apply_op_sorted : forall s o, dir_sorted s -> dir_sorted (apply_op s o).
Proof.
  intros s o S. destruct o; simpl; try assumption; unfold dset.
  - now apply upd_sorted.
  - now apply upd_sorted.
  - destruct (nm_find (fkey a) s); [|assumption]. apply upd_sorted. now apply del_sorted.
Qed.
Lemma apply_ops_sorted : forall l s, dir_sorted s -> dir_sorted (apply_ops s l).
Proof.
  induction l as [|o l IH]; intros s S; [assumption|]. apply IH. now apply apply_op_sorted.
Qed.
Lemma lose_sorted : forall s n, dir_sorted s -> dir_sorted (lose s n).
Proof. intros s n S. unfold lose. destruct (nm_find (fkey n) s); [|assumption]. now apply upd_sorted. Qed.
Lemma pad_sorted : forall s, dir_sorted s -> dir_sorted (pad_tmp s).
Proof.
  intros s S. unfold dir_sorted, keys_sorted, pad_tmp in *. rewrite map_map.
  erewrite map_ext; [exact S|]. intros [k c]. simpl. now destruct (N.even k).
Qed.
Lemma crash_state_sorted : forall s ops k v, dir_sorted s -> dir_sorted (crash_state s ops k v).
Proof.
  intros s ops k v S. unfold crash_state.
  destruct (v =? 1).
  - destruct (nth_error ops k); [apply apply_op_sorted|]; now apply apply_ops_sorted.
  - destruct (v =? 2); [|destruct (v =? 3); [apply pad_sorted|]; now apply apply_ops_sorted].
    generalize (unsynced (firstn k ops) []). intro ns.
    assert (G : forall ns s0, dir_sorted s0 -> dir_sorted (fold_left lose ns s0)).
    { induction ns0 as [|n r IH]; intros s0 S0; [assumption|]. apply IH. now apply lose_sorted. }
    apply G. now apply apply_ops_sorted.
Qed.
Lemma chain_state_sorted : forall fs chain s ops, dir_sorted s -> dir_sorted (chain_state fs s ops chain).
Proof.
  intros fs chain. induction chain as [|[k v] rest IH]; intros s ops S; simpl.
  - now apply apply_ops_sorted.
  - destruct rest; [now apply crash_state_sorted|]. apply IH. now apply crash_state_sorted.
Qed.
Lemma nil_sorted : dir_sorted []. Proof. constructor. Qed.

(* in a sorted directory, lookup = membership *)
Lemma find_in : forall {V} (m : list (N * V)) k v, nm_find k m = Some v -> In (k, v) m.
Proof.
  induction m as [|[k' w] r IH]; intros k v H; simpl in *; [discriminate|].
  destruct (N.eqb_spec k k'); [inversion H; subst; now left|right; now apply IH].
Qed.
Lemma in_find : forall {V} (m : list (N * V)) k v, keys_sorted m -> In (k, v) m -> nm_find k m = Some v.
Proof.
  unfold keys_sorted. induction m as [|[k' w] r IH]; intros k v S H; simpl in *; [contradiction|].
  inversion S as [|? ? S' F]; subst. destruct H as [E|H].
  - inversion E; subst. now rewrite N.eqb_refl.
  - destruct (N.eqb_spec k k') as [->|_]; [|now apply IH].
    exfalso. rewrite Forall_forall in F. specialize (F k' (in_map fst _ _ H)). simpl in F. lia.
Qed.
Lemma sorted_nodup_keys : forall {V} (m : list (N * V)), keys_sorted m -> NoDup (map fst m).
Proof.
  unfold keys_sorted. intros V m. induction (map fst m) as [|a l IH]; intro S; constructor;
    inversion S as [|? ? S' F]; subst.
  - intro H. rewrite Forall_forall in F. specialize (F a H). lia.
  - now apply IH.
Qed.

Lemma is_qpr_key_spec : forall k, is_qpr_key k = true -> k = fkey (FQpr ((k - 2) / 2)).
Proof.
  intros k H. unfold is_qpr_key in H. apply andb_true_iff in H. destruct H as [L E].
  apply N.leb_le in L. apply N.even_spec in E. destruct E as [m ->]. unfold fkey.
  replace (2 * m - 2) with ((m - 1) * 2) by lia. rewrite N.div_mul by discriminate. lia.
Qed.
Lemma qpr_key_is : forall f, is_qpr_key (fkey (FQpr f)) = true.
Proof.
  intro f. unfold is_qpr_key, fkey. apply andb_true_iff. split; [apply N.leb_le; lia|].
  rewrite N.even_add_mul_2. reflexivity.
Qed.

Lemma qpr_key_inv : forall f, (fst (fkey (FQpr f), CQpr f) - 2) / 2 = f.
Proof.
  intro f. cbn [fst]. unfold fkey. replace (2 + 2 * f - 2) with (f * 2) by lia. now rewrite N.div_mul.
Qed.

(* the partial results a finished directory holds are exactly those of the fractions of the request *)
Theorem final_stored : forall fs per s, final fs s -> dir_sorted s -> NoDup fs ->
  Permutation (stored_qprs per s) (map (fun f => qpr_of per (CQpr f)) fs).
Proof.
  intros fs per s [_ [W C]] S ND. unfold stored_qprs.
  set (qe := filter (fun e : N * content => is_qpr_key (fst e)) s).
  set (fl := map (fun e : N * content => (fst e - 2) / 2) qe).
  assert (Hq : forall e, In e qe -> snd e = CQpr ((fst e - 2) / 2) /\ In ((fst e - 2) / 2) fs).
  { intros [k c] He. apply filter_In in He. destruct He as [Hi Hk]. simpl in *.
    pose proof (is_qpr_key_spec k Hk) as Ek.
    apply (in_find _ _ _ S) in Hi. rewrite Ek in Hi. apply (W _ _ Hi). }
  assert (M : map (fun e => qpr_of per (snd e)) qe = map (fun f => qpr_of per (CQpr f)) fl).
  { unfold fl. rewrite map_map. apply map_ext_in. intros e He. now rewrite (proj1 (Hq e He)). }
  rewrite M. apply Permutation_map. apply NoDup_Permutation; [|assumption|].
  - (* fl has no repetitions: the keys are distinct and f is determined by the key *)
    assert (NK : NoDup (map fst qe)).
    { pose proof (sorted_nodup_keys s S) as N0. unfold qe. clear -N0.
      induction s as [|[k c] r IH]; simpl in *; [constructor|].
      inversion N0; subst. destruct (is_qpr_key k); simpl; [|now apply IH].
      constructor; [|now apply IH]. intro H. apply H1.
      apply in_map_iff in H. destruct H as [e [E He]]. apply filter_In in He.
      rewrite <- E. apply in_map. tauto. }
    assert (KE : forall e, In e qe -> fst e = fkey (FQpr ((fst e - 2) / 2))).
    { intros e He. apply is_qpr_key_spec. unfold qe in He. apply filter_In in He. tauto. }
    unfold fl. clear -NK KE. induction qe as [|e r IH]; simpl in *; [constructor|].
    inversion NK; subst. constructor.
    + intro H. apply H1. apply in_map_iff in H. destruct H as [e' [E He']].
      rewrite (KE e (or_introl eq_refl)), <- E, <- (KE e' (or_intror He')). now apply in_map.
    + apply IH; [assumption|]. intros e' He'. apply KE. now right.
  - intro f. split.
    + intro H. unfold fl in H. apply in_map_iff in H. destruct H as [e [<- He]]. apply (Hq e He).
    + intro Hf. pose proof (C f Hf) as Hfind. unfold vfind in Hfind. apply find_in in Hfind.
      unfold fl. apply in_map_iff. exists (fkey (FQpr f), CQpr f). split.
      * apply qpr_key_inv.
      * apply filter_In. split; [assumption|]. apply qpr_key_is.
Qed.

(* ---------------------------------------------------------------- thm:C19_equals_sync *)
From C19 Require Import ProofsMerge.

Theorem equals_sync_dir : forall fs per s hi rev naggs limit codec,
  final fs s -> dir_sorted s -> NoDup fs ->
  let qs := map (fun f => qpr_of per (CQpr f)) fs in
  Forall (fun q => aggsok naggs (q_aggs q) /\ codec_id codec q) qs ->
  let a := fetch hi rev (map (recode codec) (stored_qprs per s)) in
  let sy := sync_search naggs limit hi rev qs in
  take limit (q_ids a) = q_ids sy /\ q_hist a = q_hist sy /\ aggs_equiv (q_aggs a) (q_aggs sy).
Proof.
  intros fs per s hi rev naggs limit codec Fn S ND qs W a sy. subst a sy.
  pose proof (final_stored fs per s Fn S ND) as P. fold qs in P.
  assert (E : map (recode codec) (stored_qprs per s) = stored_qprs per s).
  { rewrite <- (map_id (stored_qprs per s)) at 2. apply map_ext_in. intros q Hq.
    apply recode_id. apply (Permutation_in _ P) in Hq. rewrite Forall_forall in W. apply (W q Hq). }
  rewrite E. apply equals_sync_lists.
  - now apply Permutation_sym.
  - apply Forall_forall. intros q Hq. rewrite Forall_forall in W. apply (W q Hq).
Qed.

(* capstone: after ANY chain of crashes, once the request is on disk, the (last) restart finishes it
   and the fetched answer equals the synchronous search over the start-time fraction list *)
Theorem resumed_equals_sync : forall fs chain live per hi rev naggs limit codec,
  NoDup fs -> incl fs live ->
  let qs := map (fun f => qpr_of per (CQpr f)) fs in
  Forall (fun q => aggsok naggs (q_aggs q) /\ codec_id codec q) qs ->
  let s := chain_state fs [] (start_ops fs) chain in
  found s = true ->
  let s' := apply_ops s (fst (resume_live s live fs)) in
  let a := fetch hi rev (map (recode codec) (stored_qprs per s')) in
  let sy := sync_search naggs limit hi rev qs in
  is_done s' = true /\ snd (resume_live s live fs) = false
  /\ take limit (q_ids a) = q_ids sy /\ q_hist a = q_hist sy /\ aggs_equiv (q_aggs a) (q_aggs sy).
Proof.
  intros fs chain live per hi rev naggs limit codec ND Hl qs W s Fd s' a sy.
  assert (Ss : dir_sorted s) by (apply chain_state_sorted, nil_sorted).
  destruct (any_crash_chain_resumes fs chain) as [Sf _]. fold s in Sf.
  assert (G : final fs s' /\ snd (resume_live s live fs) = false).
  { destruct Sf as [[U _]|[I|Fn]].
    - unfold found in Fd. unfold vfind in U. rewrite U in Fd. discriminate.
    - destruct (resume_complete_live fs live s I Hl) as [E Fn]. split; [exact Fn|now rewrite E].
    - subst s'. unfold resume_live. destruct Fn as [I0 R]. unfold vfind in I0. rewrite I0. simpl.
      split; [split; assumption|reflexivity]. }
  destruct G as [Fn Dd].
  assert (S' : dir_sorted s') by (apply apply_ops_sorted; assumption).
  split; [|split; [exact Dd|]].
  - unfold is_done. destruct Fn as [I0 _]. unfold vfind in I0. now rewrite I0.
  - apply equals_sync_dir; assumption.
Qed.

(* ---------------------------------------------------------------- FetchSearchResult overlapping the worker *)
Lemma done_is_final : forall fs s, safe fs s -> is_done s = true -> final fs s.
Proof.
  intros fs s [[U _]|[[I _]|Fn]] D; [| |assumption]; unfold is_done in D; unfold vfind in *.
  - rewrite U in D. discriminate.
  - rewrite I in D. discriminate.
Qed.

(* the Done flag and the merged list of a fetch belong to the same directory state s1, whatever the
   directory has become (s2) while the files were read; so an answer that says Done is the answer of a
   finished directory, i.e. the synchronous one *)
Theorem fetch_concurrent_done : forall fs per s1 s2 hi rev naggs limit,
  safe fs s1 -> dir_sorted s1 -> NoDup fs ->
  let qs := map (fun f => qpr_of per (CQpr f)) fs in
  Forall (fun q => aggsok naggs (q_aggs q)) qs ->
  let r := fetch_concurrent hi rev per s1 s2 in
  r = (is_done s1, fetch_dir hi rev per s1)
  /\ (fst r = true ->
      let sy := sync_search naggs limit hi rev qs in
      final fs s1 /\ take limit (q_ids (snd r)) = q_ids sy /\ q_hist (snd r) = q_hist sy
      /\ aggs_equiv (q_aggs (snd r)) (q_aggs sy)).
Proof.
  intros fs per s1 s2 hi rev naggs limit Sf Ss ND qs W r. subst r. split; [reflexivity|].
  unfold fetch_concurrent, fetch_result. simpl. intro D.
  pose proof (done_is_final fs s1 Sf D) as Fn. split; [assumption|].
  unfold fetch_dir. apply equals_sync_lists; [|assumption].
  apply Permutation_sym. now apply final_stored.
Qed.

(* the two-reads variant is refuted: fraction 0 persisted when the files were listed, the request
   finished (fractions 0 and 1) when Done was read again *)
Definition w_p0 : qpr := {| q_ids := [(1005, 1)]; q_hist := []; q_aggs := []; q_total := 0 |}.
Definition w_p1 : qpr := {| q_ids := [(1012, 2)]; q_hist := []; q_aggs := []; q_total := 0 |}.
Lemma two_reads_refuted :
  let per := [(0, w_p0); (1, w_p1)] in
  let s1 : dir := [(0, CInfo false); (2, CQpr 0)] in
  let s2 := apply_ops s1 (resume_ops s1 [0; 1]) in
  fetch_two_reads 0 false per s1 s2 = (true, w_p0)
  /\ q_ids (fetch_dir 0 false per s2) = [(1012, 2); (1005, 1)]
  /\ fetch_concurrent 0 false per s1 s2 = (false, w_p0).
Proof. vm_compute. repeat split. Qed.

(* mustWriteFileAtomic without O_TRUNC is refuted: a longer leftover temporary file ends up under the
   final name, the fraction counts as processed, Done is set, and its partial result is lost *)
Lemma notrunc_refuted :
  let per := [(0, w_p0)] in
  let s : dir := [(0, CInfo false); (3, CLong)] in
  let bad := apply_ops_notrunc s (resume_ops s [0]) in
  let good := apply_ops s (resume_ops s [0]) in
  nm_find 2 bad = Some CLong /\ is_done bad = true /\ q_ids (fetch_dir 0 false per bad) = []
  /\ nm_find 2 good = Some (CQpr 0) /\ q_ids (fetch_dir 0 false per good) = [(1005, 1)].
Proof. vm_compute. repeat split. Qed.
