(* C19 — merging of partial results: the histogram part (additions and duplicate repairs). *)
From Coq Require Import List Bool Arith NArith ZArith Lia Permutation.
From C19 Require Import Model ProofsMap ProofsIds ProofsAgg.
Import ListNotations.
Open Scope N_scope.

Lemma two64_pos : two64 <> 0. Proof. discriminate. Qed.

(* additions to histogram buckets (uint64 arithmetic) commute *)
Lemma hadd_comm : forall h k1 c1 k2 c2, hadd k1 c1 (hadd k2 c2 h) = hadd k2 c2 (hadd k1 c1 h).
Proof.
  intros h k1 c1 k2 c2. unfold hadd.
  destruct (N.eq_dec k1 k2) as [->|Hne].
  - rewrite !upd_upd_same. apply upd_ext. intro o. simpl.
    rewrite !N.add_mod_idemp_l by apply two64_pos. f_equal. lia.
  - now apply upd_comm_ne.
Qed.

(* an entry of a partial result's histogram, or the repair of one duplicate (histogram[b]--) *)
Definition hist_event (h : hist) (e : N * N) : hist := hadd (fst e) (snd e) h.
Definition repair_event (hi : N) (r : id) : N * N := (bucket hi (fst r), two64 - 1).

Lemma hist_absorb_is_event : forall h e, hist_absorb h e = hist_event h e.
Proof. reflexivity. Qed.
Lemma repair_is_event : forall hi h r, repair hi h r = hist_event h (repair_event hi r).
Proof. reflexivity. Qed.
Lemma repairs_are_events : forall hi rs h,
  fold_left (repair hi) rs h = fold_left hist_event (map (repair_event hi) rs) h.
Proof. induction rs as [|r rs IH]; intro h; simpl; [reflexivity|]. now rewrite IH. Qed.

(* the histogram after any sequence of additions and repairs depends only on the multiset of events:
   the order in which FetchSearchResult meets the .qpr files (Glob order) and the order in which
   duplicates are repaired (one at a time there, all at the end in SearchDocs) do not matter *)
Theorem hist_events_order_free : forall e1 e2 h, Permutation e1 e2 ->
  fold_left hist_event e1 h = fold_left hist_event e2 h.
Proof.
  intros e1 e2 h P. apply fold_left_perm; [|assumption].
  intros s a b. unfold hist_event. apply hadd_comm.
Qed.

(* one step of FetchSearchResult on the histogram = events of the file, then the repairs *)
Lemma merge_step_hist : forall acc q hi rev, 0 <? hi = true ->
  q_hist (merge_qprs acc [q] None hi rev)
  = fold_left hist_event
      (q_hist q ++ map (repair_event hi) (snd (dedup (sort_ids rev (q_ids acc ++ q_ids q)))))
      (q_hist acc).
Proof.
  intros acc q hi rev H. unfold merge_qprs, finish. simpl. rewrite H.
  rewrite repairs_are_events, fold_left_app. reflexivity.
Qed.

(* without a histogram interval nothing is repaired (the repaired FetchSearchResult passes the
   request's interval; the old code passed 1 and repaired bucket `mid` of a histogram that may not
   even exist) *)
Lemma merge_step_hist0 : forall acc q rev,
  q_hist (merge_qprs acc [q] None 0 rev) = fold_left hist_event (q_hist q) (q_hist acc).
Proof. reflexivity. Qed.

(* defect #12 (repaired by c0f0c39), kept as a witness: document (1005, 1) stored in two fractions,
   histogram interval 10 *)
Definition w_q1 : qpr := {| q_ids := [(1005, 1)]; q_hist := [(1000, 1)]; q_aggs := []; q_total := 0 |}.
Definition w_q2 : qpr := {| q_ids := [(1005, 1); (1012, 2)]; q_hist := [(1000, 1); (1010, 1)]; q_aggs := []; q_total := 0 |}.

(* ---------------------------------------------------------------- the whole merge *)
Definition ids_of (qs : list qpr) : list id := flat_map q_ids qs.
Definition hists_of (qs : list qpr) : list (N * N) := flat_map q_hist qs.
(* the repairs of the repetitions of a list of IDs (none when no histogram is requested) *)
Definition reps (hi : N) (rev : bool) (l : list id) : list (N * N) :=
  if 0 <? hi then map (repair_event hi) (removed rev l) else [].

Lemma reps_incremental : forall hi rev l1 l2,
  Permutation (reps hi rev (kept rev l1 ++ l2) ++ reps hi rev l1) (reps hi rev (l1 ++ l2)).
Proof.
  intros. unfold reps. destruct (0 <? hi); [|constructor].
  rewrite <- map_app. apply Permutation_map. apply removed_incremental.
Qed.
Lemma reps_perm : forall hi rev l1 l2, Permutation l1 l2 -> Permutation (reps hi rev l1) (reps hi rev l2).
Proof.
  intros. unfold reps. destruct (0 <? hi); [|constructor].
  apply Permutation_map. now apply removed_same_multiset.
Qed.

Lemma merge_step : forall acc q hi rev,
  let r := merge_qprs acc [q] None hi rev in
  q_ids r = kept rev (q_ids acc ++ q_ids q)
  /\ q_hist r = fold_left hist_event (q_hist q ++ reps hi rev (q_ids acc ++ q_ids q)) (q_hist acc)
  /\ q_aggs r = merge_aggs (q_aggs acc) (q_aggs q).
Proof.
  intros acc q hi rev. unfold merge_qprs, finish, reps, kept, removed. simpl.
  split; [reflexivity|]. split; [|reflexivity].
  rewrite fold_left_app. destruct (0 <? hi); [|reflexivity].
  now rewrite repairs_are_events.
Qed.

Lemma flat_map_perm : forall {A B} (f : A -> list B) l l', Permutation l l' ->
  Permutation (flat_map f l) (flat_map f l').
Proof.
  intros A B f l l' P. induction P; simpl.
  - constructor.
  - now apply Permutation_app_head.
  - rewrite !app_assoc. apply Permutation_app_tail. apply Permutation_app_comm.
  - now rewrite IHP1.
Qed.

(* the state of FetchSearchResult after any number of files *)
Lemma fetch_state : forall hi rev qs acc A H,
  q_ids acc = kept rev A ->
  q_hist acc = fold_left hist_event (H ++ reps hi rev A) [] ->
  let r := fold_left (fun acc q => merge_qprs acc [q] None hi rev) qs acc in
  q_ids r = kept rev (A ++ ids_of qs)
  /\ q_hist r = fold_left hist_event ((H ++ hists_of qs) ++ reps hi rev (A ++ ids_of qs)) []
  /\ q_aggs r = fold_left merge_aggs (map q_aggs qs) (q_aggs acc).
Proof.
  intros hi rev qs. induction qs as [|q qs IH]; intros acc A H HI HH; simpl.
  - unfold ids_of, hists_of. simpl. rewrite !app_nil_r. auto.
  - destruct (merge_step acc q hi rev) as [SI [SH SA]].
    assert (HI' : q_ids (merge_qprs acc [q] None hi rev) = kept rev (A ++ q_ids q)).
    { rewrite SI, HI. apply kept_incremental. }
    assert (HH' : q_hist (merge_qprs acc [q] None hi rev)
                  = fold_left hist_event ((H ++ q_hist q) ++ reps hi rev (A ++ q_ids q)) []).
    { rewrite SH, HH, HI. rewrite <- fold_left_app.
      apply hist_events_order_free.
      rewrite <- !app_assoc. apply Permutation_app_head.
      rewrite (Permutation_app_comm (reps hi rev A)). rewrite <- app_assoc.
      apply Permutation_app_head. apply reps_incremental. }
    destruct (IH _ _ _ HI' HH') as [RI [RH RA]].
    unfold ids_of, hists_of in *. simpl. rewrite !app_assoc in *. rewrite <- !app_assoc in RH.
    split; [exact RI|]. split; [|rewrite RA, SA; reflexivity].
    rewrite RH. now rewrite <- !app_assoc.
Qed.

Lemma absorb_fold : forall qs d,
  q_ids (fold_left absorb qs d) = q_ids d ++ ids_of qs
  /\ q_hist (fold_left absorb qs d) = fold_left hist_event (hists_of qs) (q_hist d)
  /\ q_aggs (fold_left absorb qs d) = fold_left merge_aggs (map q_aggs qs) (q_aggs d).
Proof.
  induction qs as [|q qs IH]; intro d; simpl.
  - unfold ids_of. simpl. now rewrite app_nil_r.
  - destruct (IH (absorb d q)) as [A [B C]]. unfold ids_of, hists_of in *. simpl in *.
    rewrite A, B, C. rewrite app_assoc, fold_left_app. auto.
Qed.

(* thm:C19_equals_sync on lists of partial results: FetchSearchResult over the partial results in ANY
   order gives the IDs (up to the limit), the histogram and the aggregation samples of SearchDocs *)
Theorem equals_sync_lists : forall hi rev naggs limit qs qs', Permutation qs qs' ->
  Forall (fun q => aggsok naggs (q_aggs q)) qs ->
  let a := fetch hi rev qs' in
  let s := sync_search naggs limit hi rev qs in
  take limit (q_ids a) = q_ids s /\ q_hist a = q_hist s /\ aggs_equiv (q_aggs a) (q_aggs s).
Proof.
  intros hi rev naggs limit qs qs' P F a s. subst a s. unfold fetch, sync_search.
  destruct (fetch_state hi rev qs' qpr_zero [] []) as [FI [FH FA]].
  { reflexivity. }
  { unfold reps, removed. simpl. now destruct (0 <? hi). }
  rewrite FI, FH, FA. simpl app.
  unfold merge_qprs, finish.
  set (d0 := {| q_ids := []; q_hist := []; q_aggs := repeat agg_empty naggs; q_total := 0 |}).
  destruct (absorb_fold qs d0) as [SI [SH SA]]. simpl in SI, SH, SA.
  cbn [q_ids q_hist q_aggs]. rewrite SI, SH, SA.
  assert (PI : Permutation (ids_of qs') (ids_of qs)) by (apply flat_map_perm; now apply Permutation_sym).
  assert (K : kept rev (ids_of qs') = kept rev (ids_of qs)).
  { apply kept_same_set. intro x. split; apply Permutation_in; [assumption|now apply Permutation_sym]. }
  split; [|split].
  - fold (kept rev (ids_of qs)). now rewrite K.
  - transitivity (fold_left hist_event (hists_of qs ++ reps hi rev (ids_of qs)) []).
    + apply hist_events_order_free. apply Permutation_app.
      * apply flat_map_perm. now apply Permutation_sym.
      * now apply reps_perm.
    + rewrite fold_left_app. unfold reps, removed.
      destruct (0 <? hi); [now rewrite repairs_are_events|reflexivity].
  - apply aggs_order_free.
    + now apply Permutation_map.
    + apply Forall_forall. intros x Hx. apply in_map_iff in Hx. destruct Hx as [q [<- Hq]].
      rewrite Forall_forall in F. now apply F.
Qed.
