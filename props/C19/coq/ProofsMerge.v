(* C19 — merging of partial results: the histogram part (additions and duplicate repairs). *)
From Coq Require Import List Bool Arith NArith ZArith Lia Permutation.
From C19 Require Import Model ProofsMap.
Import ListNotations.
Open Scope N_scope.

Lemma two64_pos : two64 <> 0. Proof. discriminate. Qed.

(* additions to histogram buckets (uint64 arithmetic) commute *)
Lemma hadd_comm : forall h k1 c1 k2 c2, hadd k1 c1 (hadd k2 c2 h) = hadd k2 c2 (hadd k1 c1 h).
Proof.
  intros h k1 c1 k2 c2. unfold hadd.
  destruct (N.eq_dec k1 k2) as [->|Hne].
  - rewrite !upd_upd_same. apply upd_ext. intro o. simpl.
    rewrite !N.add_mod_idemp_l by apply two64_pos. f_equal. lia.
  - now apply upd_comm_ne.
Qed.

(* an entry of a partial result's histogram, or the repair of one duplicate (histogram[b]--) *)
Definition hist_event (h : hist) (e : N * N) : hist := hadd (fst e) (snd e) h.
Definition repair_event (hi : N) (r : id) : N * N := (bucket hi (fst r), two64 - 1).

Lemma hist_absorb_is_event : forall h e, hist_absorb h e = hist_event h e.
Proof. reflexivity. Qed.
Lemma repair_is_event : forall hi h r, repair hi h r = hist_event h (repair_event hi r).
Proof. reflexivity. Qed.
Lemma repairs_are_events : forall hi rs h,
  fold_left (repair hi) rs h = fold_left hist_event (map (repair_event hi) rs) h.
Proof. induction rs as [|r rs IH]; intro h; simpl; [reflexivity|]. now rewrite IH. Qed.

(* the histogram after any sequence of additions and repairs depends only on the multiset of events:
   the order in which FetchSearchResult meets the .qpr files (Glob order) and the order in which
   duplicates are repaired (one at a time there, all at the end in SearchDocs) do not matter *)
Theorem hist_events_order_free : forall e1 e2 h, Permutation e1 e2 ->
  fold_left hist_event e1 h = fold_left hist_event e2 h.
Proof.
  intros e1 e2 h P. apply fold_left_perm; [|assumption].
  intros s a b. unfold hist_event. apply hadd_comm.
Qed.

(* one step of FetchSearchResult on the histogram = events of the file, then the repairs *)
Lemma merge_step_hist : forall acc q hi rev, 0 <? hi = true ->
  q_hist (merge_qprs acc [q] None hi rev)
  = fold_left hist_event
      (q_hist q ++ map (repair_event hi) (snd (dedup (sort_ids rev (q_ids acc ++ q_ids q)))))
      (q_hist acc).
Proof.
  intros acc q hi rev H. unfold merge_qprs, finish. simpl. rewrite H.
  rewrite repairs_are_events, fold_left_app. reflexivity.
Qed.

(* without a histogram interval nothing is repaired (the repaired FetchSearchResult passes the
   request's interval; the old code passed 1 and repaired bucket `mid` of a histogram that may not
   even exist) *)
Lemma merge_step_hist0 : forall acc q rev,
  q_hist (merge_qprs acc [q] None 0 rev) = fold_left hist_event (q_hist q) (q_hist acc).
Proof. reflexivity. Qed.

(* defect #12 (repaired by c0f0c39), kept as a witness: document (1005, 1) stored in two fractions,
   histogram interval 10 *)
Definition w_q1 : qpr := {| q_ids := [(1005, 1)]; q_hist := [(1000, 1)]; q_aggs := []; q_total := 0 |}.
Definition w_q2 : qpr := {| q_ids := [(1005, 1); (1012, 2)]; q_hist := [(1000, 1); (1010, 1)]; q_aggs := []; q_total := 0 |}.
