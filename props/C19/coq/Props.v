(* C19 — property theorems. Statements only, each closed by `exact <lemma>`, with Print Assumptions
   beneath, and the non-vacuity examples. Definitions used in the statements:
     inv fs s        the request is published (<id>.info complete, Done = false) and every file visible
                     as <id>.<frac>.qpr is the complete partial result of that fraction, a fraction of fs
     final fs s      Done = true and exactly one complete partial result per fraction of fs
     unpublished s   neither <id>.info nor any <id>.*.qpr exists (temporary files are ignored)
     crash_state s ops k v   directory after a crash of a run issuing ops from s: k complete operations
                     (v = 0), the k-th one a write cut short (v = 1), power loss after k operations (v = 2) *)
From Coq Require Import List NArith Lia.
From Coq Require Import Permutation ZArith.
From C19 Require Import Model ModelStart ProofsMap ProofsIds ProofsAgg ProofsProto ProofsMerge ProofsDir ProofsProxy ProofsNames
  ProofsStart ProofsPool.
Import ListNotations.

(* thm:C19_resume_complete, part 1 — the first run (StartSearch + processRequest on an empty directory):
   at every crash point the directory is unpublished, resumable, or finished; from the 6th completed
   operation on (= before StartSearch returns) the request is on disk. *)
Theorem C19_start_crash_safe : forall fs k v,
  let s' := crash_state [] (start_ops fs) k v in
  safe fs s' /\ ((6 <= k)%nat -> inv fs s' \/ final fs s').
Proof. exact start_crash_safe. Qed.
Print Assumptions C19_start_crash_safe.

(* thm:C19_resume_complete, part 2 — restart on ANY resumable directory: the resumed run searches
   exactly the fractions without a .qpr file (in the order of the request), then sets Done; the final
   directory holds one complete partial result per fraction of the start-time list. *)
Theorem C19_resume_complete : forall fs s, inv fs s ->
  resume_ops s fs = flat_map group (remaining s fs) ++ done_write
  /\ final fs (apply_ops s (resume_ops s fs)).
Proof. exact resume_complete. Qed.
Print Assumptions C19_resume_complete.

(* part 3 — a crash at any point of a resumed run (torn write, power loss included) leaves a
   resumable or finished directory again: restarts can be repeated any number of times. *)
Theorem C19_resume_crash_safe : forall fs s k v, inv fs s ->
  let s' := crash_state s (resume_ops s fs) k v in inv fs s' \/ final fs s'.
Proof. exact resume_crash_safe. Qed.
Print Assumptions C19_resume_crash_safe.

(* part 4 — every chain of crashes (run, crash, restart, crash in the resumed run, ...) ends in a
   safe directory, and if the request is still unfinished there, one more restart finishes it. *)
Theorem C19_any_crash_chain_resumes : forall fs chain,
  let s := chain_state fs [] (start_ops fs) chain in
  safe fs s /\ (inv fs s -> final fs (apply_ops s (resume_ops s fs))).
Proof. exact any_crash_chain_resumes. Qed.
Print Assumptions C19_any_crash_chain_resumes.

(* a finished request stays finished and is found at restart; an unpublished one is not resumed *)
Theorem C19_final_stable : forall fs s, final fs s ->
  resume_ops s fs = [] /\ found s = true /\ is_done s = true.
Proof. exact final_stable. Qed.
Print Assumptions C19_final_stable.

(* non-vacuity: a resumable state with one of three partial results persisted and a torn temporary
   file; the resumed run writes fractions 0 and 2 *)
Example C19_inv_witness :
  let s : dir := [(0, CInfo false); (4, CQpr 1); (7, CTorn)]%N in
  inv [0; 1; 2]%N s /\ remaining s [0; 1; 2]%N = [0; 2]%N
  /\ is_done (apply_ops s (resume_ops s [0; 1; 2]%N)) = true.
Proof.
  split; [|split; reflexivity].
  split; [reflexivity|].
  intros f c H. cbv [vfind nm_find fkey] in H.
  repeat match type of H with context [N.eqb ?a ?b] => destruct (N.eqb_spec a b) end;
    try discriminate; try lia.
  assert (f = 1%N) by lia. subst. inversion H. split; [reflexivity|]. simpl. auto.
Qed.

(* thm:C19_resume_complete with the fraction list that is ALIVE when the resume runs as an arbitrary
   extra parameter: as long as the persisted fractions still exist (incl fs live), fractions that
   appeared after StartSearch (new active fraction after a restart, rotation, ingest) do not change a
   single operation of the resumed run — it walks the names persisted in <id>.info. *)
Theorem C19_resume_complete_any_live_list : forall fs live s, inv fs s -> incl fs live ->
  resume_live s live fs = (flat_map group (remaining s fs) ++ done_write, false)
  /\ final fs (apply_ops s (fst (resume_live s live fs))).
Proof. exact resume_complete_live. Qed.
Print Assumptions C19_resume_complete_any_live_list.

(* thm:C19_equals_sync on lists of partial results: merging them one by one in ANY order, each time
   sorting, removing repetitions and repairing the histogram (FetchSearchResult) gives the IDs (up to
   the request's limit), the histogram and the aggregation samples of one batch merge (SearchDocs).
   No hypothesis about IDs stored in two fractions is needed for the repaired code.
   aggsok n: every partial result carries n aggregations whose sample counts are not negative. *)
Theorem C19_equals_sync_lists : forall hi rev naggs limit qs qs', Permutation qs qs' ->
  Forall (fun q => aggsok naggs (q_aggs q)) qs ->
  let a := fetch hi rev qs' in
  let s := sync_search naggs limit hi rev qs in
  take limit (q_ids a) = q_ids s /\ q_hist a = q_hist s /\ aggs_equiv (q_aggs a) (q_aggs s).
Proof. exact equals_sync_lists. Qed.
Print Assumptions C19_equals_sync_lists.

(* thm:C19_equals_sync: what FetchSearchResult reads from a finished directory (every <id>.*.qpr in
   Glob order, each decoded through the JSON key codec) merges to the synchronous answer over the
   start-time fraction list. Hypothesis codec_id: the key codec maps every bin of the partial results
   to itself — true when the group tokens are valid UTF-8; see C19_json_key_collision_refuted. *)
Theorem C19_equals_sync : forall fs per s hi rev naggs limit codec,
  final fs s -> dir_sorted s -> NoDup fs ->
  let qs := map (fun f => qpr_of per (CQpr f)) fs in
  Forall (fun q => aggsok naggs (q_aggs q) /\ codec_id codec q) qs ->
  let a := fetch hi rev (map (recode codec) (stored_qprs per s)) in
  let sy := sync_search naggs limit hi rev qs in
  take limit (q_ids a) = q_ids sy /\ q_hist a = q_hist sy /\ aggs_equiv (q_aggs a) (q_aggs sy).
Proof. exact equals_sync_dir. Qed.
Print Assumptions C19_equals_sync.

(* the property end to end: after ANY chain of crashes of the run and of resumed runs, with ANY live
   fraction list containing the start-time fractions, a request that is on disk is finished by the
   restart (Done, process alive) and its fetched answer equals the synchronous search over the
   start-time fraction list. *)
Theorem C19_resumed_equals_sync : forall fs chain live per hi rev naggs limit codec,
  NoDup fs -> incl fs live ->
  let qs := map (fun f => qpr_of per (CQpr f)) fs in
  Forall (fun q => aggsok naggs (q_aggs q) /\ codec_id codec q) qs ->
  let s := chain_state fs [] (start_ops fs) chain in
  found s = true ->
  let s' := apply_ops s (fst (resume_live s live fs)) in
  let a := fetch hi rev (map (recode codec) (stored_qprs per s')) in
  let sy := sync_search naggs limit hi rev qs in
  is_done s' = true /\ snd (resume_live s live fs) = false
  /\ take limit (q_ids a) = q_ids sy /\ q_hist a = q_hist sy /\ aggs_equiv (q_aggs a) (q_aggs sy).
Proof. exact resumed_equals_sync. Qed.
Print Assumptions C19_resumed_equals_sync.

(* FetchSearchResult while the worker is running: the request state (Done) and the list of .qpr files
   are ONE snapshot s1 of the directory (s2 = what the directory became meanwhile, arbitrary). Hence an
   answer that says Done comes from a finished directory and equals the synchronous search. *)
Theorem C19_fetch_concurrent_done : forall fs per s1 s2 hi rev naggs limit,
  safe fs s1 -> dir_sorted s1 -> NoDup fs ->
  let qs := map (fun f => qpr_of per (CQpr f)) fs in
  Forall (fun q => aggsok naggs (q_aggs q)) qs ->
  let r := fetch_concurrent hi rev per s1 s2 in
  r = (is_done s1, fetch_dir hi rev per s1)
  /\ (fst r = true ->
      let sy := sync_search naggs limit hi rev qs in
      final fs s1 /\ take limit (q_ids (snd r)) = q_ids sy /\ q_hist (snd r) = q_hist sy
      /\ aggs_equiv (q_aggs (snd r)) (q_aggs sy)).
Proof. exact fetch_concurrent_done. Qed.
Print Assumptions C19_fetch_concurrent_done.

(* reading Done a second time after the files were merged is refuted *)
Example C19_fetch_two_reads_refuted :
  let per := [(0, w_p0); (1, w_p1)]%N in
  let s1 : dir := [(0, CInfo false); (2, CQpr 0)]%N in
  let s2 := apply_ops s1 (resume_ops s1 [0; 1]%N) in
  fetch_two_reads 0 false per s1 s2 = (true, w_p0)
  /\ q_ids (fetch_dir 0 false per s2) = [(1012, 2); (1005, 1)]%N
  /\ fetch_concurrent 0 false per s1 s2 = (false, w_p0).
Proof. exact two_reads_refuted. Qed.

(* mustWriteFileAtomic = create-TRUNCATE, write, fsync, rename, fsync dir (C19_resume_crash_safe covers
   crash variant 3: every leftover temporary file longer than any later payload). Without the
   truncation the property is refuted: *)
Example C19_write_without_truncate_refuted :
  let per := [(0, w_p0)]%N in
  let s : dir := [(0, CInfo false); (3, CLong)]%N in
  let bad := apply_ops_notrunc s (resume_ops s [0]%N) in
  let good := apply_ops s (resume_ops s [0]%N) in
  nm_find 2%N bad = Some CLong /\ is_done bad = true /\ q_ids (fetch_dir 0 false per bad) = []
  /\ nm_find 2%N good = Some (CQpr 0) /\ q_ids (fetch_dir 0 false per good) = [(1005, 1)]%N.
Proof. exact notrunc_refuted. Qed.

(* state carried across a restart, 1: the file name <id>.info gives back exactly the ID, for EVERY ID
   (byte strings; '/' and '.' inside IDs are excluded by the store itself: path and fracNameFromQPRPath),
   so found_as (found under ITS id) = found *)
Theorem C19_request_id_roundtrip : forall id, id_of_name (info_name id) = id.
Proof. exact id_roundtrip. Qed.
Print Assumptions C19_request_id_roundtrip.

Example C19_request_id_trimset_refuted :
  id_of_name_trimset (info_name w_uuid_f) <> w_uuid_f /\ id_of_name (info_name w_uuid_f) = w_uuid_f.
Proof. exact (proj2 trimset_refuted). Qed.

(* state carried across a restart, 2: the query is persisted as text and parsed again by the resumed
   run with the store's mapping; hypothesis: the mapping at resume time is the one of the first parse.
   Then every partial result written after the restart is the one the original run would have written. *)
Theorem C19_resumed_same_ast : forall (text mapping ast : Type) (parse : text -> mapping -> ast)
  (search : ast -> N -> qpr) q m m' f,
  m' = m -> resumed_result parse search q m' f = started_result parse search q m f.
Proof. exact resumed_same_result. Qed.
Print Assumptions C19_resumed_same_ast.

Example C19_resume_without_mapping_refuted :
  q_ids (started_result toy_parse toy_search [1; 2]%N true 0%N) = [(7, 7)]%N
  /\ q_ids (resumed_result toy_parse toy_search [1; 2]%N false 0%N) = [].
Proof. exact nomapping_refuted. Qed.

(* proxy level (proxy/search/async.go FetchAsyncSearchResult): the proxy reports Done exactly when
   every shard that knows the request is done (shards none of whose replicas knows it are left out) *)
Theorem C19_proxy_done_iff : forall naggs size hi rev shards d q,
  proxy_fetch naggs size hi rev shards = Some (d, q) ->
  d = forallb fst (answers shards) /\ answers shards <> [].
Proof. exact proxy_done_iff. Qed.
Print Assumptions C19_proxy_done_iff.

(* ... and a Done answer is the synchronous merge (one MergeQPRs with the fetch size) of what the
   shards answer when they are done — by C19_resumed_equals_sync their own synchronous answers *)
Theorem C19_proxy_done_result : forall naggs size hi rev shards q finals,
  proxy_fetch naggs size hi rev shards = Some (true, q) ->
  Forall2 (fun x f => fst x = true -> snd x = f) (answers shards) finals ->
  q = sync_search naggs size hi rev finals.
Proof. exact proxy_done_result. Qed.
Print Assumptions C19_proxy_done_result.

Example C19_proxy_last_done_refuted :
  let shards := [[RAnswer false w_run]; [RNotFound; RAnswer true w_fin]] in
  option_map fst (proxy_fetch_last 0 10 0 false shards) = Some true
  /\ option_map fst (proxy_fetch 0 10 0 false shards) = Some false.
Proof. exact proxy_last_refuted. Qed.

(* the histogram is a fold of commuting events (used above; kept as a statement of its own) *)
Theorem C19_hist_events_order_free : forall e1 e2 h, Permutation e1 e2 ->
  fold_left hist_event e1 h = fold_left hist_event e2 h.
Proof. exact hist_events_order_free. Qed.
Print Assumptions C19_hist_events_order_free.

(* ex:C19_hist_interval_witness — the code before commit c0f0c39 (histInterval = 1 in
   FetchSearchResult) is refuted: bucket 1000 stays over-counted and a bucket 1005 with count 2^64-1
   appears, while the synchronous search and the repaired fetch give {1000: 1, 1010: 1}. *)
Example C19_hist_interval_v0_refuted :
  q_hist (fetch_v0 false [w_q1; w_q2]) = [(1000, 2); (1005, 18446744073709551615); (1010, 1)]%N
  /\ q_hist (sync_search 0 100 10 false [w_q1; w_q2]) = [(1000, 1); (1010, 1)]%N
  /\ q_hist (fetch 10 false [w_q1; w_q2]) = [(1000, 1); (1010, 1)]%N
  /\ q_ids (fetch 10 false [w_q1; w_q2]) = q_ids (sync_search 0 100 10 false [w_q1; w_q2]).
Proof. vm_compute. repeat split. Qed.

(* known finding resume/invalid-utf8-group at model level: a codec that maps bins 1 and 2 (tokens
   "\xfe", "\xff") to one key (U+FFFD) loses a bin; with the identity codec nothing is lost. *)
Definition w_x : sc := {| sc_min := 48; sc_max := 48; sc_sum := 48; sc_total := 1; sc_ne := 0; sc_samples := [] |}%Z.
Definition w_y : sc := {| sc_min := 32; sc_max := 32; sc_sum := 32; sc_total := 1; sc_ne := 0; sc_samples := [] |}%Z.
Definition w_agg : agg := (0%Z, [(1, w_x); (2, w_y)]%N).
Definition w_codec (b : N) : N := if orb (b =? 1)%N (b =? 2)%N then 3%N else b.
Example C19_json_key_collision_refuted :
  length (snd (rekey w_codec w_agg)) = 1%nat /\ rekey (fun b => b) w_agg = w_agg.
Proof. vm_compute. split; reflexivity. Qed.

(* non-vacuity of the hypotheses of C19_equals_sync: a finished sorted directory with two fractions whose
   partial results carry one aggregation each and share an ID *)
Definition w_qa : qpr := {| q_ids := [(1005, 1)]; q_hist := [(1000, 1)]; q_aggs := [w_agg]; q_total := 0 |}.
Definition w_qb : qpr := {| q_ids := [(1005, 1); (1012, 2)]; q_hist := [(1000, 1); (1010, 1)];
                            q_aggs := [(1%Z, [(2, w_y)]%N)]; q_total := 0 |}.
Example C19_equals_sync_hypotheses_witness :
  let s : dir := [(0, CInfo true); (2, CQpr 0); (4, CQpr 1)]%N in
  let per := [(0, w_qa); (1, w_qb)]%N in
  dir_sorted s /\ NoDup [1; 0]%N
  /\ Forall (fun q => aggsok 1 (q_aggs q) /\ codec_id (fun b => b) q) (map (fun f => qpr_of per (CQpr f)) [1; 0]%N)
  /\ is_done s = true
  /\ q_hist (fetch 10 false (stored_qprs per s)) = [(1000, 1); (1010, 1)]%N.
Proof.
  split; [|split; [|split; [|split; reflexivity]]].
  - unfold dir_sorted, keys_sorted. simpl. repeat constructor; lia.
  - repeat constructor; simpl; intuition discriminate.
  - simpl. repeat constructor; simpl; unfold evok, nonneg; simpl; try lia; try reflexivity.
Qed.

(* ======================================================================================================
   Histories that begin with the start (proxy/search/async.go StartAsyncSearch) and the ownership of the
   pooled compression buffer (fracmanager/async_searcher.go processFrac). Definitions:
     proxy_start pattern   the calls Ingestor.StartAsyncSearch makes, as (shard, replica), and the shard whose
                           error ended it (None = an ID is returned); pattern = what every replica of every
                           shard answers (SAccept / SRefuse = any error), in the configured order
     shard_good s          s has no replicas, or some replica accepts and all before it refuse
     calls_of i shards     per shard the replicas 0 .. first acceptor (all of them if none accepts)
     keeps reps c          the replica that accepted the start answers the fetch (it still has the request)
     wfp st                pool state: every existing buffer has a number below the next fresh one *)

(* an ID is returned only if every shard (that has replicas) has a replica that accepted the request — for
   every number of shards and replicas, every replica order and every failure pattern; the calls are exactly
   the replicas up to the first acceptor of every shard *)
Theorem C19_proxy_start_all_shards : forall shards calls, proxy_start shards = (calls, None) ->
  Forall shard_good shards /\ calls = calls_of 0 shards.
Proof. exact proxy_start_all_shards. Qed.
Print Assumptions C19_proxy_start_all_shards.

(* ... and the start fails at the first shard that has replicas none of which accepts; later shards are
   not asked *)
Theorem C19_proxy_start_fails : forall shards calls k, proxy_start shards = (calls, Some k) ->
  exists s, nth_error shards k = Some s /\ s <> [] /\ Forall (eq SRefuse) s
            /\ calls = calls_of 0 (firstn (S k) shards).
Proof. exact proxy_start_fails. Qed.
Print Assumptions C19_proxy_start_fails.

(* a store that accepted the start (StartSearch returns after mkdir + the atomic write of <id>.info = 6
   operations) has the request after ANY chain of crashes and restarts: resumable or finished, found at
   load time, and its handler answers (never NotFound) — a restart does not lose the request *)
Theorem C19_accepted_request_survives : forall fs k v rest hi rev per, (6 <= k)%nat ->
  let s := chain_state fs [] (start_ops fs) ((k, v) :: rest) in
  (inv fs s \/ final fs s) /\ found s = true
  /\ store_reply hi rev per s = RAnswer (is_done s) (fetch_dir hi rev per s).
Proof. exact accepted_request_survives. Qed.
Print Assumptions C19_accepted_request_survives.

(* C19_proxy_done_iff for histories that begin with a successful start: as long as the stores that
   accepted keep the request (previous theorem), EVERY shard of the cluster answers the fetch; Done is the
   conjunction over all shards and the answer is one MergeQPRs over all of them *)
Theorem C19_proxy_done_iff_started : forall pattern cluster naggs size hi rev d q,
  start_succeeds pattern = true -> Forall (fun s => s <> []) pattern -> Forall2 keeps pattern cluster ->
  proxy_fetch naggs size hi rev cluster = Some (d, q) ->
  exists ans, Forall2 (fun c a => shard_answer c = Some a) cluster ans
              /\ d = forallb fst ans /\ q = sync_search naggs size hi rev (map snd ans).
Proof. exact proxy_done_iff_started. Qed.
Print Assumptions C19_proxy_done_iff_started.

(* C19_proxy_done_result for such histories: finals = what each shard of the cluster answers once it is done
   (one entry per shard of the start, by C19_resumed_equals_sync its synchronous answer); a Done answer is the
   synchronous merge over ALL shards *)
Theorem C19_proxy_done_result_started : forall pattern cluster naggs size hi rev q finals,
  start_succeeds pattern = true -> Forall (fun s => s <> []) pattern -> Forall2 keeps pattern cluster ->
  proxy_fetch naggs size hi rev cluster = Some (true, q) ->
  Forall2 (fun c f => forall a, shard_answer c = Some a -> fst a = true -> snd a = f) cluster finals ->
  length finals = length pattern /\ q = sync_search naggs size hi rev finals.
Proof. exact proxy_done_result_started. Qed.
Print Assumptions C19_proxy_done_result_started.

(* non-vacuity: a start that succeeds through a second replica, the cluster afterwards, the Done answer *)
Example C19_started_hypotheses_witness :
  let pattern := [[SAccept]; [SRefuse; SAccept]] in
  let cluster := cluster_after pattern [(true, w_s0); (true, w_s1)] in
  proxy_start pattern = ([(0, 0); (1, 0); (1, 1)]%nat, None)
  /\ start_succeeds pattern = true /\ Forall (fun s => s <> []) pattern /\ Forall2 keeps pattern cluster
  /\ cluster = [[RAnswer true w_s0]; [RNotFound; RAnswer true w_s1]]
  /\ option_map (fun x => (fst x, q_ids (snd x))) (proxy_fetch 0 100 10 false cluster)
     = Some (true, [(1040, 1); (1030, 1); (1025, 1); (1015, 1)]%N).
Proof.
  split; [reflexivity|]. split; [reflexivity|]. split; [repeat constructor; discriminate|].
  split; [apply cluster_after_keeps; reflexivity|]. split; reflexivity.
Qed.

(* the shadowed error (`_, err := ...` inside the replica loop) is refuted: every replica of shard 1 refuses,
   the real start fails at shard 1 and hands out no ID; the shadowed variant returns an ID, and the fetch
   reports Done with the IDs of shard 0 only *)
Example C19_proxy_start_shadowed_err_refuted :
  let pattern := [[SAccept]; [SRefuse; SRefuse]] in
  let avail := [(true, w_s0); (true, w_s1)] in
  proxy_start pattern = ([(0, 0); (1, 0); (1, 1)]%nat, Some 1%nat)
  /\ start_then_fetch 0 100 10 false pattern avail = None
  /\ snd (proxy_start_shadow pattern) = None
  /\ option_map (option_map (fun x => (fst x, q_ids (snd x)))) (start_then_fetch_shadow 0 100 10 false pattern avail)
     = Some (Some (true, [(1040, 1); (1030, 1)]%N))
  /\ q_ids (sync_search 0 100 10 false [w_s0; w_s1]) = [(1040, 1); (1030, 1); (1025, 1); (1015, 1)]%N.
Proof. exact start_shadow_refuted. Qed.

(* processFrac: Acquire, Compress into the buffer, write the file, Release — interleaved with ARBITRARY steps
   of other users of the global bytes pool (who acquire any free or fresh buffer, write only into buffers
   they hold and release those): the bytes written to <id>.<frac>.qpr are the compression of the fraction's
   result, for every compression function, payload, buffer handed out and interleaving *)
Theorem C19_frac_bytes_private : forall cp payload pick sched st, wfp st ->
  let st' := run_prog cp payload (prog_ok pick) sched st in
  p_file st' = Some (cp payload) /\ wfp st'.
Proof. exact frac_bytes_private. Qed.
Print Assumptions C19_frac_bytes_private.

(* ... for all fractions of a request on the same pool: every file is complete, so the directory of a run
   under pool pressure is the directory of the persistence protocol (C19_start_crash_safe etc. apply) *)
Theorem C19_qpr_bytes_private : forall cp payload plan st, wfp st ->
  pool_fracs cp payload prog_ok plan st = map (fun p => CQpr (fst p)) plan
  /\ pool_run_dir cp payload prog_ok plan st = apply_ops [] (start_ops (map fst plan)).
Proof. exact qpr_bytes_private. Qed.
Print Assumptions C19_qpr_bytes_private.

Example C19_pool_hypothesis_witness : wfp pool_empty.
Proof. exact pool_empty_wfp. Qed.

(* the release-before-write order (compression in a helper with `defer Release`, returning buf.B) is
   refuted: another goroutine acquires the released buffer and fills it before the file is written *)
Example C19_release_before_write_refuted :
  let sched := [[]; []; []; [OAcquire (Some 0); OFill 0 [170; 170; 170]]; []]%N in
  p_file (run_prog toy_cp [1; 2; 3]%N (prog_release_first None) sched pool_empty) = Some [170; 170; 170; 253; 1; 2; 3]%N
  /\ pool_fracs toy_cp (fun f => [f]) prog_release_first [(7, (None, sched))]%N pool_empty = [CTorn]
  /\ p_file (run_prog toy_cp [1; 2; 3]%N (prog_ok None) sched pool_empty) = Some (toy_cp [1; 2; 3]%N)
  /\ pool_fracs toy_cp (fun f => [f]) prog_ok [(7, (None, sched))]%N pool_empty = [CQpr 7%N].
Proof. exact release_first_refuted. Qed.
