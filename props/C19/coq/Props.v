(* C19 — property theorems. Statements only, each closed by `exact <lemma>`, with Print Assumptions
   beneath, and the non-vacuity examples. Definitions used in the statements:
     inv fs s        the request is published (<id>.info complete, Done = false) and every file visible
                     as <id>.<frac>.qpr is the complete partial result of that fraction, a fraction of fs
     final fs s      Done = true and exactly one complete partial result per fraction of fs
     unpublished s   neither <id>.info nor any <id>.*.qpr exists (temporary files are ignored)
     crash_state s ops k v   directory after a crash of a run issuing ops from s: k complete operations
                     (v = 0), the k-th one a write cut short (v = 1), power loss after k operations (v = 2) *)
From Coq Require Import List NArith Lia.
From Coq Require Import Permutation ZArith.
From C19 Require Import Model ProofsMap ProofsProto ProofsMerge.
Import ListNotations.

(* thm:C19_resume_complete, part 1 — the first run (StartSearch + processRequest on an empty directory):
   at every crash point the directory is unpublished, resumable, or finished; from the 6th completed
   operation on (= before StartSearch returns) the request is on disk. *)
Theorem C19_start_crash_safe : forall fs k v,
  let s' := crash_state [] (start_ops fs) k v in
  safe fs s' /\ ((6 <= k)%nat -> inv fs s' \/ final fs s').
Proof. exact start_crash_safe. Qed.
Print Assumptions C19_start_crash_safe.

(* thm:C19_resume_complete, part 2 — restart on ANY resumable directory: the resumed run searches
   exactly the fractions without a .qpr file (in the order of the request), then sets Done; the final
   directory holds one complete partial result per fraction of the start-time list. *)
Theorem C19_resume_complete : forall fs s, inv fs s ->
  resume_ops s fs = flat_map group (remaining s fs) ++ done_write
  /\ final fs (apply_ops s (resume_ops s fs)).
Proof. exact resume_complete. Qed.
Print Assumptions C19_resume_complete.

(* part 3 — a crash at any point of a resumed run (torn write, power loss included) leaves a
   resumable or finished directory again: restarts can be repeated any number of times. *)
Theorem C19_resume_crash_safe : forall fs s k v, inv fs s ->
  let s' := crash_state s (resume_ops s fs) k v in inv fs s' \/ final fs s'.
Proof. exact resume_crash_safe. Qed.
Print Assumptions C19_resume_crash_safe.

(* part 4 — every chain of crashes (run, crash, restart, crash in the resumed run, ...) ends in a
   safe directory, and if the request is still unfinished there, one more restart finishes it. *)
Theorem C19_any_crash_chain_resumes : forall fs chain,
  let s := chain_state fs [] (start_ops fs) chain in
  safe fs s /\ (inv fs s -> final fs (apply_ops s (resume_ops s fs))).
Proof. exact any_crash_chain_resumes. Qed.
Print Assumptions C19_any_crash_chain_resumes.

(* a finished request stays finished and is found at restart; an unpublished one is not resumed *)
Theorem C19_final_stable : forall fs s, final fs s ->
  resume_ops s fs = [] /\ found s = true /\ is_done s = true.
Proof. exact final_stable. Qed.
Print Assumptions C19_final_stable.

(* non-vacuity: a resumable state with one of three partial results persisted and a torn temporary
   file; the resumed run writes fractions 0 and 2 *)
Example C19_inv_witness :
  let s : dir := [(0, CInfo false); (4, CQpr 1); (7, CTorn)]%N in
  inv [0; 1; 2]%N s /\ remaining s [0; 1; 2]%N = [0; 2]%N
  /\ is_done (apply_ops s (resume_ops s [0; 1; 2]%N)) = true.
Proof.
  split; [|split; reflexivity].
  split; [reflexivity|].
  intros f c H. cbv [vfind nm_find fkey] in H.
  repeat match type of H with context [N.eqb ?a ?b] => destruct (N.eqb_spec a b) end;
    try discriminate; try lia.
  assert (f = 1%N) by lia. subst. inversion H. split; [reflexivity|]. simpl. auto.
Qed.

(* thm:C19_equals_sync — PARTIAL (see the report): the full statement is
     forall qs qs', Permutation qs qs' ->
       same_answer limit (fetch hi rev qs') (sync_search naggs limit hi rev qs) = true
   (under: group tokens valid UTF-8, i.e. the JSON key codec is injective on them; <= 8096 samples per
   bin). Proved here: the histogram component is a fold of commuting events (bucket additions modulo
   2^64 and duplicate repairs), so it does not depend on the order of the files nor on when the
   duplicates are repaired. The ID and aggregation components are checked on every generated case
   (case_spec_ok on the real outputs, case_agrees against this model), not proved. *)
Theorem C19_equals_sync_hist_partial : forall e1 e2 h, Permutation e1 e2 ->
  fold_left hist_event e1 h = fold_left hist_event e2 h.
Proof. exact hist_events_order_free. Qed.
Print Assumptions C19_equals_sync_hist_partial.

Theorem C19_fetch_step_hist : forall acc q hi rev, (0 <? hi)%N = true ->
  q_hist (merge_qprs acc [q] None hi rev)
  = fold_left hist_event
      (q_hist q ++ map (repair_event hi) (snd (dedup (sort_ids rev (q_ids acc ++ q_ids q)))))
      (q_hist acc).
Proof. exact merge_step_hist. Qed.
Print Assumptions C19_fetch_step_hist.

(* ex:C19_hist_interval_witness — the code before commit c0f0c39 (histInterval = 1 in
   FetchSearchResult) is refuted: bucket 1000 stays over-counted and a bucket 1005 with count 2^64-1
   appears, while the synchronous search and the repaired fetch give {1000: 1, 1010: 1}. *)
Example C19_hist_interval_v0_refuted :
  q_hist (fetch_v0 false [w_q1; w_q2]) = [(1000, 2); (1005, 18446744073709551615); (1010, 1)]%N
  /\ q_hist (sync_search 0 100 10 false [w_q1; w_q2]) = [(1000, 1); (1010, 1)]%N
  /\ q_hist (fetch 10 false [w_q1; w_q2]) = [(1000, 1); (1010, 1)]%N
  /\ q_ids (fetch 10 false [w_q1; w_q2]) = q_ids (sync_search 0 100 10 false [w_q1; w_q2]).
Proof. vm_compute. repeat split. Qed.

(* known finding resume/invalid-utf8-group, as a model-level witness: if the JSON key codec maps two
   bins to one key (tokens "\xff" and "\xfe" both become U+FFFD) the decoded partial result has lost
   a bin, so the merged answer differs from the synchronous one. The equality statement above
   therefore carries the hypothesis that the codec is injective on the group tokens. *)
Definition rekey (codec : N -> N) (a : agg) : agg :=
  (fst a, fold_left (fun m e => nm_upd (codec (fst e)) (fun _ => snd e) m) (snd a) []).
Example C19_json_key_collision_refuted :
  let x := {| sc_min := 48; sc_max := 48; sc_sum := 48; sc_total := 1; sc_ne := 0; sc_samples := [] |}%Z in
  let y := {| sc_min := 32; sc_max := 32; sc_sum := 32; sc_total := 1; sc_ne := 0; sc_samples := [] |}%Z in
  let a : agg := (0%Z, [(1, x); (2, y)]%N) in
  let codec := fun b : N => if orb (b =? 1)%N (b =? 2)%N then 3%N else b in
  length (snd (rekey codec a)) = 1%nat /\ length (snd (rekey (fun b => b) a)) = 2%nat.
Proof. vm_compute. split; reflexivity. Qed.
