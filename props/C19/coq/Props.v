(* C19 — property theorems. Statements only, each closed by `exact <lemma>`, with Print Assumptions
   beneath, and the non-vacuity examples. Definitions used in the statements:
     inv fs s        the request is published (<id>.info complete, Done = false) and every file visible
                     as <id>.<frac>.qpr is the complete partial result of that fraction, a fraction of fs
     final fs s      Done = true and exactly one complete partial result per fraction of fs
     unpublished s   neither <id>.info nor any <id>.*.qpr exists (temporary files are ignored)
     crash_state s ops k v   directory after a crash of a run issuing ops from s: k complete operations
                     (v = 0), the k-th one a write cut short (v = 1), power loss after k operations (v = 2) *)
From Coq Require Import List NArith Lia.
From C19 Require Import Model ProofsMap ProofsProto.
Import ListNotations.

(* thm:C19_resume_complete, part 1 — the first run (StartSearch + processRequest on an empty directory):
   at every crash point the directory is unpublished, resumable, or finished; from the 6th completed
   operation on (= before StartSearch returns) the request is on disk. *)
Theorem C19_start_crash_safe : forall fs k v,
  let s' := crash_state [] (start_ops fs) k v in
  safe fs s' /\ ((6 <= k)%nat -> inv fs s' \/ final fs s').
Proof. exact start_crash_safe. Qed.
Print Assumptions C19_start_crash_safe.

(* thm:C19_resume_complete, part 2 — restart on ANY resumable directory: the resumed run searches
   exactly the fractions without a .qpr file (in the order of the request), then sets Done; the final
   directory holds one complete partial result per fraction of the start-time list. *)
Theorem C19_resume_complete : forall fs s, inv fs s ->
  resume_ops s fs = flat_map group (remaining s fs) ++ done_write
  /\ final fs (apply_ops s (resume_ops s fs)).
Proof. exact resume_complete. Qed.
Print Assumptions C19_resume_complete.

(* part 3 — a crash at any point of a resumed run (torn write, power loss included) leaves a
   resumable or finished directory again: restarts can be repeated any number of times. *)
Theorem C19_resume_crash_safe : forall fs s k v, inv fs s ->
  let s' := crash_state s (resume_ops s fs) k v in inv fs s' \/ final fs s'.
Proof. exact resume_crash_safe. Qed.
Print Assumptions C19_resume_crash_safe.

(* part 4 — every chain of crashes (run, crash, restart, crash in the resumed run, ...) ends in a
   safe directory, and if the request is still unfinished there, one more restart finishes it. *)
Theorem C19_any_crash_chain_resumes : forall fs chain,
  let s := chain_state fs [] (start_ops fs) chain in
  safe fs s /\ (inv fs s -> final fs (apply_ops s (resume_ops s fs))).
Proof. exact any_crash_chain_resumes. Qed.
Print Assumptions C19_any_crash_chain_resumes.

(* a finished request stays finished and is found at restart; an unpublished one is not resumed *)
Theorem C19_final_stable : forall fs s, final fs s ->
  resume_ops s fs = [] /\ found s = true /\ is_done s = true.
Proof. exact final_stable. Qed.
Print Assumptions C19_final_stable.

(* non-vacuity: a resumable state with one of three partial results persisted and a torn temporary
   file; the resumed run writes fractions 0 and 2 *)
Example C19_inv_witness :
  let s : dir := [(0, CInfo false); (4, CQpr 1); (7, CTorn)]%N in
  inv [0; 1; 2]%N s /\ remaining s [0; 1; 2]%N = [0; 2]%N
  /\ is_done (apply_ops s (resume_ops s [0; 1; 2]%N)) = true.
Proof.
  split; [|split; reflexivity].
  split; [reflexivity|].
  intros f c H. cbv [vfind nm_find fkey] in H.
  repeat match type of H with context [N.eqb ?a ?b] => destruct (N.eqb_spec a b) end;
    try discriminate; try lia.
  assert (f = 1%N) by lia. subst. inversion H. split; [reflexivity|]. simpl. auto.
Qed.
