(* C19 — state carried across a restart: the name codec of <id>.info and the re-parsed query. *)
From Coq Require Import List Bool Arith NArith Lia.
From C19 Require Import Model.
Import ListNotations.
Open Scope N_scope.

(* the request is registered after a restart under exactly the ID it was started with — for every ID *)
Theorem id_roundtrip : forall id, id_of_name (info_name id) = id.
Proof.
  intro id. unfold id_of_name, info_name. rewrite app_length.
  replace (length id + length dot_info - length dot_info)%nat with (length id) by lia.
  rewrite firstn_app, Nat.sub_diag, firstn_all. simpl. apply app_nil_r.
Qed.

Lemma found_as_found : forall id s, found_as id s = found s.
Proof.
  intros id s. unfold found_as. rewrite id_roundtrip.
  assert (R : forall l : list N,
    (fix eqb (a b : list N) : bool :=
       match a, b with [] , [] => true | x :: a', y :: b' => (x =? y) && eqb a' b' | _, _ => false end) l l = true).
  { induction l as [|x l IH]; [reflexivity|]. now rewrite N.eqb_refl, IH. }
  rewrite R. apply andb_true_r.
Qed.

(* the trim-set variant is refuted: an ID that ends with the hex digit f (a UUID does, 1 in 16) *)
Definition w_uuid_f : list N := [100; 51; 98; 48; 45; 52; 99; 49; 57; 45; 57; 97; 102].   (* "d3b0-4c19-9af" *)
Lemma trimset_refuted :
  id_of_name_trimset (info_name w_uuid_f) = [100; 51; 98; 48; 45; 52; 99; 49; 57; 45; 57; 97]
  /\ id_of_name_trimset (info_name w_uuid_f) <> w_uuid_f
  /\ id_of_name (info_name w_uuid_f) = w_uuid_f.
Proof. split; [reflexivity|]. split; [discriminate|reflexivity]. Qed.

(* the resumed run evaluates the same AST as the run that started the search, PROVIDED the store's
   mapping at resume time is the mapping the query was first parsed with *)
Theorem resumed_same_result : forall (text mapping ast : Type) (parse : text -> mapping -> ast)
  (search : ast -> N -> qpr) q m m' f,
  m' = m -> resumed_result parse search q m' f = started_result parse search q m f.
Proof. intros. subst. reflexivity. Qed.

(* parsing the persisted text without the mapping is refuted: two words on a text-mapped field are a
   conjunction of two tokens; without mapping they are one keyword token that no document has *)
Inductive toy_ast := TAnd (ws : list N) | TKeyword (ws : list N).
Definition toy_parse (q : list N) (text_mapped : bool) : toy_ast := if text_mapped then TAnd q else TKeyword q.
(* one fraction with one document (ID (7,7)) holding the word tokens 1 and 2 *)
Definition toy_search (a : toy_ast) (f : N) : qpr :=
  let hit := match a with
             | TAnd ws => forallb (fun w => existsb (N.eqb w) [1; 2]) ws
             | TKeyword ws => match ws with [w] => existsb (N.eqb w) [1; 2] | _ => false end
             end in
  {| q_ids := if hit then [(7, 7)] else []; q_hist := []; q_aggs := []; q_total := 0 |}.
Lemma nomapping_refuted :
  q_ids (started_result toy_parse toy_search [1; 2] true 0) = [(7, 7)]
  /\ q_ids (resumed_result toy_parse toy_search [1; 2] false 0) = [].
Proof. split; reflexivity. Qed.
