(* C19 — the proxy: Done is the conjunction over the answering shards; a Done answer is the
   synchronous merge of the shards' final answers. *)
From Coq Require Import List Bool Arith NArith.
From C19 Require Import Model.
Import ListNotations.

Theorem proxy_done_iff : forall naggs size hi rev shards d q,
  proxy_fetch naggs size hi rev shards = Some (d, q) ->
  d = forallb fst (answers shards) /\ answers shards <> [].
Proof.
  intros naggs size hi rev shards d q H. unfold proxy_fetch in H.
  destruct (answers shards) as [|a r] eqn:E; [discriminate|]. inversion H. split; [reflexivity|discriminate].
Qed.

Lemma all_done_map : forall (a : list (bool * qpr)) finals,
  forallb fst a = true -> Forall2 (fun x f => fst x = true -> snd x = f) a finals -> map snd a = finals.
Proof.
  intros a finals D F. induction F as [|x f a' fs Hx F IH]; simpl in *; [reflexivity|].
  apply andb_true_iff in D. destruct D as [D1 D2]. rewrite (Hx D1). f_equal. now apply IH.
Qed.

(* finals: what every answering shard answers once it is done (by C19_resumed_equals_sync: its own
   synchronous answer) *)
Theorem proxy_done_result : forall naggs size hi rev shards q finals,
  proxy_fetch naggs size hi rev shards = Some (true, q) ->
  Forall2 (fun x f => fst x = true -> snd x = f) (answers shards) finals ->
  q = sync_search naggs size hi rev finals.
Proof.
  intros naggs size hi rev shards q finals H F. unfold proxy_fetch in H.
  destruct (answers shards) as [|a r] eqn:E; [discriminate|].
  injection H as D Q. rewrite <- Q. f_equal. exact (all_done_map (a :: r) finals D F).
Qed.

Theorem proxy_none_iff : forall naggs size hi rev shards,
  proxy_fetch naggs size hi rev shards = None <-> answers shards = [].
Proof.
  intros. unfold proxy_fetch. destruct (answers shards); split; intro H; try reflexivity; discriminate.
Qed.

(* the regression "Done of the last answering shard" is refuted: first shard still running *)
Definition w_run : qpr := {| q_ids := [(1005, 1)%N]; q_hist := []; q_aggs := []; q_total := 0 |}.
Definition w_fin : qpr := {| q_ids := [(1012, 2)%N]; q_hist := []; q_aggs := []; q_total := 0 |}.
Lemma proxy_last_refuted :
  let shards := [[RAnswer false w_run]; [RNotFound; RAnswer true w_fin]] in
  option_map fst (proxy_fetch_last 0 10 0 false shards) = Some true
  /\ option_map fst (proxy_fetch 0 10 0 false shards) = Some false.
Proof. vm_compute. split; reflexivity. Qed.
