"""C11 — whatever the indexer tokenizes, the query language can find (DESIGN.md section 7, C11)."""
import os

import vcheck

# the repository's logger writes an init line to stderr at import time; `hC11 -consts` output is captured
# together with stderr, so keep the logger quiet
os.environ["LOG_LEVEL"] = "fatal"

PROP = "C11"

TRUSTED = [
    "Coq 8.16.1 kernel (coqc), vm_compute for case evaluation; no native_compute",
    "hand-written byte/rune-level model props/C11/coq/ModelLex.v: SeqQL lexer (Next, unquotePrefix, unquoteChar,"
    " strconv.UnquoteChar, QuotedPrefix), composite tokens, one-field-filter part of ParseSeqQL (plain, in(...), range),"
    " legacy scanner (parseSimpleTerm, parseQuotedTerms, parseTerms, keyword/text builders) and the seven literal"
    " renderers of the harness (tied to /repo by the classes lex-*, qtext-*, roundtrip-*; the harness text must equal"
    " the model renderer's text byte for byte)",
    "hand-written byte-level model props/C11/coq/Model.v + ModelDoc.v: keyword/text/path tokenizers, toLowerTryInplace,"
    " indexer.Index/decodeInternal/decodeTags/index over an abstract JSON tree (in-place lower-casing threaded from one"
    " title of a multi-type field to the next), parseSeqQLKeyword/parseSeqQLText, the legacy keyword/text token"
    " builders, strings.ToLower/bytes.Map, utf8.DecodeRune/AppendRune (tied to /repo by the correspondence run)",
    "props/C11/coq/Consts.v: unicode.IsLetter/IsNumber/ToLower/IsSpace/IsDigit of the Go toolchain, dumped by `hC11 -consts`"
    " on every run (data, not axioms; the oracle hypotheses of the theorems are re-proved over it by vm_compute)",
    "Go harness harness/cmd/hC11 (generators, quoting functions for the five SeqQL literal styles and the two legacy"
    " ones, rendering of observations); export files /repo/proxy/bulk/export_verif_c11.go, /repo/parser/export_verif_c11.go",
    "insaneJSON (decoding, unescaping, Encode of containers): NOT modelled; the JSON tree given to the model is the one"
    " insaneJSON decodes. Query-text round trip PROVED only for the double-/single-quoted styles in the plain position;"
    " back-quoted, bare, escape-choice styles, in(...)/range positions at text level and the legacy forms are modelled"
    " and validated on the real lexer/parsers by the cases",
    "end-to-end search (tests/setup single-mode ingestor + store, both parsers) is a per-run sample with a negative"
    " control: a test, not a proof",
    "hand-written model props/C11/coq/ModelWire.v of the WIRING: the three flags of cmd/seq-db (--max-token-size,"
    " --case-sensitive, --partial-indexing), startProxy()'s bulk.IngestorConfig literal, main()'s conf.CaseSensitive,"
    " NewIngestor's tokenizer map with the three constructors as curried functions in the Go argument order, the"
    " struct fields each Tokenize reads, indexer.index / decodeInternal looking the tokenizer up in the map (tied to"
    " /repo by the classes wire-* which build the indexer ONLY through bulk.NewIngestor + Ingestor.ProcessDocuments"
    " with a recording storage client and read the tokens back from the compressed meta block)",
    "cmd/seq-db is package main and cannot be called: harness/cmd/hC11/wire.go binaryWiring() is a transcription of"
    " main()/startProxy() (mirrored by ModelWire.start_proxy_bulk / main_conf_case_sensitive); it is checked, as a"
    " per-run sample (a test, not a proof), by class bin-e2e: the driver builds ./cmd/seq-db from the tree under test,"
    " starts it in single mode for every combination of --case-sensitive x --partial-indexing and queries it over"
    " HTTP; when no toolchain / port is available that class is skipped and counted under binary:* in the statistics",
]
ASSUME = [
    "case-sensitive mode: the keyword/path value (or its partial-indexing cut prefix) is valid UTF-8"
    " (otherwise the known finding cs-invalid-utf8: index keeps raw bytes, both query parsers re-encode them as U+FFFD)",
    "multi-type fields, case-insensitive mode, titles after the first: the theorem speaks about the value as that"
    " title's tokenizer sees it (after earlier in-place lower-casing); invariance of its tokens under that"
    " lower-casing (C11_multitype_inplace_invariant) is NOT proved in full (proved: in-place lower-casing keeps the UTF-8"
    " segmentation of every byte string, C11_inplace_*_keeps_segments; and the invariant itself for keyword/exists titles within their limits, C11_multitype_inplace_invariant_keyword_within_limits; missing: text/path titles, cuts inside a rune): class multitype checks on the real bulk processor"
    " that every title's tokens equal the real tokenizer's tokens on a fresh copy of the original value",
    "query text theorems: the value (word, path) is valid UTF-8 and free of U+E000; the field name is written bare"
    " ([A-Za-z0-9_.]+, not `not`); tokens that alias the shared value buffer are observed after all titles ran",
    "wiring: one process (--mode single) or processes started with the SAME --case-sensitive value: in a proxy/store"
    " split the tokens are made in the proxy process and the query is parsed in the store process, each from its own"
    " flag; likewise both read the same mapping file. Mapping reloads and flag parsing (kingpin) are not modelled",
    "the matcher is read at specification level (literal = equality, wildcard = ordered substrings); pattern.go"
    " itself is property C13",
]
RULE = ("random values over ASCII word/separator/quote characters, letters and numbers of all scripts, upper-case runes"
        " whose lower case has the same / another UTF-8 width, invalid byte sequences (lone continuation, overlong,"
        " surrogate, truncated, > U+10FFFF), U+FFFD, U+E000; x keyword/text/path x case-sensitive on/off x partial"
        " indexing on/off x small and default size limits x SeqQL (five quoting styles) or legacy ParseQuery (quoted /"
        " bare). For every value: the real tokenizer's tokens, and for every query the property names (whole value /"
        " each word / each leading path of the indexed part) the real parser's literals and the real pattern.Search"
        " verdict; the same values through the other filter forms of SeqQL: `f:in(v)`, `f:in(x, v, y)` with unrelated members"
        " and `f:[v to v]` (keyword/path), the member/bounds compared with the plain form's literals on the real ASTs."
        " Free SeqQL query cases (unescaped wildcards, U+E000). Random mappings + nested documents (objects,"
        " tag arrays, nested arrays, multi-type fields, type/value mismatches, tags without value) through the real bulk"
        " processor: all metas compared with the model, `_exists_:<title>` queried in the plain, in(...) and range forms with the parser"
        " in case-insensitive and case-sensitive mode. End to end: documents through a real ingestor + store, every named query through both parsers must"
        " return the document. Extension streams: (roundtrip) values dense in quote kinds, backslash, `*`, space, tab, newline,"
        " `:`, parentheses, brackets, `|`, multi-byte runes, U+FFFD, very long values, rendered in every style (the random"
        " escape choices recorded and replayed by the model's renderer) at the plain / in(...) with other members / range"
        " position or in the legacy quoted/bare form: the real parser's literal must be the one text term equal to a token the"
        " real tokenizer emitted; (lex) the real lexer's complete token stream on rendered and free texts; (qtext) mostly"
        " well-formed and malformed query texts (bad escapes, unterminated quotes, comments, stray delimiters, invalid UTF-8)"
        " through both real parsers; (multitype) the real bulk processor on {k: v} with 2-4 titles in permuted order, small"
        " size limits, values with length-preserving and length-changing upper-case runes and invalid bytes; (wire) for every"
        " combination of case-sensitive x partial-indexing x small (2..14) / large (64..100) MaxTokenSize, equally often: the"
        " document {f: v} (keyword / text / path, per-field size 0 or 1..40; upper-case letters and values / words beyond the"
        " limit in every combination, counted per combination) through bulk.NewIngestor(configuration as startProxy fills it)"
        " + ProcessDocuments + recording client, all tokens of the stored meta compared with the wiring model, the property's"
        " queries parsed by ParseSeqQL / ParseQuery under conf.CaseSensitive as main() sets it, `_exists_:f`; spec read off the"
        " flags alone; (wire-doc) generated nested documents with random mappings through the same path; (bin-e2e) the built"
        " seq-db binary, 4 starts, ~100 queries each over HTTP. non-trivial = value has a non-ASCII byte, an upper-case letter, a"
        " quote/backslash/'*'/'_'/'/' or is cut by a size limit, is not skipped and yields at least one query /"
        " document with a container field and more than 3 tokens; distinct by input")


def harness_args(tier, seed, outdir):
    return ["-seed", str(seed), "-tier", tier, "-out", outdir, "-repo", vcheck.REPO]


def main(argv):
    return vcheck.standard_check(PROP, argv, harness_args, TRUSTED, ASSUME, RULE, coqchk=True, consts=True)
