"""C11 — whatever the indexer tokenizes, the query language can find (DESIGN.md section 7, C11)."""
import os

import vcheck

# the repository's logger writes an init line to stderr at import time; `hC11 -consts` output is captured
# together with stderr, so keep the logger quiet
os.environ["LOG_LEVEL"] = "fatal"

PROP = "C11"

TRUSTED = [
    "Coq 8.16.1 kernel (coqc), vm_compute for case evaluation; no native_compute",
    "hand-written byte-level model props/C11/coq/Model.v of the keyword/text/path tokenizers, toLowerTryInplace,"
    " parseSeqQLKeyword/parseSeqQLText, strings.ToLower/bytes.Map, utf8.DecodeRune/AppendRune"
    " (tied to /repo by the correspondence run, not verified code)",
    "props/C11/coq/Consts.v: unicode.IsLetter/IsNumber/ToLower of the Go toolchain, dumped by `hC11 -consts`"
    " on every run (data, not axioms; the oracle hypotheses of the theorems are re-proved over it by vm_compute)",
    "Go harness harness/cmd/hC11 (generators, quoting functions for the five literal styles, rendering of"
    " observations); export file /repo/proxy/bulk/export_verif_c11.go",
    "SeqQL lexer (unquoting) and JSON unescaping: NOT modelled; each quoting style is validated on the real lexer by"
    " the cases (the model starts from the unquoted string)",
    "document flattening (decodeInternal/index: dotted names inside objects, multi-type titles) is driven on the real"
    " bulk processor and checked directly (every present mapped field has its _exists_ token, no other), not"
    " modelled in Coq; tags/nested arrays, the legacy ParseQuery builders and end-to-end search are not covered",
]
ASSUME = [
    "case-sensitive mode: the keyword/path value (or its partial-indexing cut prefix) is valid UTF-8"
    " (otherwise the known finding cs-invalid-utf8: index keeps raw bytes, query side re-encodes them as U+FFFD)",
    "the matcher is read at specification level (literal = equality, wildcard = ordered substrings); pattern.go"
    " itself is property C13",
]
RULE = ("random values over ASCII word/separator/quote characters, letters and numbers of all scripts, upper-case runes"
        " whose lower case has the same / another UTF-8 width, invalid byte sequences (lone continuation, overlong,"
        " surrogate, truncated, > U+10FFFF), U+FFFD, U+E000; x keyword/text/path x case-sensitive on/off x partial"
        " indexing on/off x small and default size limits x five quoting styles. For every value: the real tokenizer's"
        " tokens, and for every query the property names (whole value / each word / each leading path of the indexed"
        " part) the real ParseSeqQL literals and the real pattern.Search verdict. non-trivial = value has a non-ASCII"
        " byte, an upper-case letter, a quote/backslash/'*'/'_'/'/' or is cut by a size limit, is not skipped and"
        " yields at least one query; distinct by input. Plus free query cases (unescaped wildcards, U+E000) and"
        " documents with flat, object and multi-type fields through the real bulk processor: `_exists_:<title>`"
        " queried with the parser in case-insensitive mode")


def harness_args(tier, seed, outdir):
    return ["-seed", str(seed), "-tier", tier, "-out", outdir]


def main(argv):
    return vcheck.standard_check(PROP, argv, harness_args, TRUSTED, ASSUME, RULE, coqchk=True, consts=True)
