(* C11 — text fields: the byte-level scan of TextTokenizer yields exactly the rune-level words
   (lower-cased), and parseSeqQLText splits on the same class and produces the same terms. *)
From Coq Require Import List Bool NArith ZArith Lia ZifyN ZifyBool ZifyNat.
From C11 Require Import Model ProofsUtf8 ProofsLower.
Open Scope N_scope.

Lemma fst_let2 : forall {A B C D E} (x : A * B) (y : C * D) (f : A -> C -> E) (g : B -> D -> list N),
  fst (let (a, b) := x in let (c, d) := y in (f a c, g b d)) = f (fst x) (fst y).
Proof. intros. destruct x, y. reflexivity. Qed.

Lemma step_nonascii_bytes : forall s r raw rest, step s = Some (r, raw, rest) ->
  first_byte raw <? 128 = false -> forallb (fun b => 128 <=? b) raw = true.
Proof.
  intros s r raw rest H. apply step_spec_of in H.
  destruct H; subst; cbn [first_byte forallb]; intros; lia.
Qed.

Section Text.
  Variables (is_letter is_number : N -> bool) (to_lower : N -> N).
  Hypothesis H_ascii_lower : forall c, c < 128 -> to_lower c = ascii_lower c.
  Hypothesis H_idem : forall r, to_lower (to_lower r) = to_lower r.
  (* lem:same_token_class: the ASCII table of the tokenizer = the rune classes on ASCII *)
  Hypothesis H_class : forall c, c < 128 -> is_letter c || is_number c = is_alnum_ascii c.
  Hypothesis H_fffd : is_word_rune is_letter is_number RuneError = false.
  Hypothesis H_wild : is_word_rune is_letter is_number WildcardRune = false.

  Notation is_word := (is_word_rune is_letter is_number).
  Notation words := (words_of is_letter is_number).

  Definition word_token (c : icfg) (w : list N) : list N := if cs c then w else map_lower to_lower w.
  Definition sizeok (c : icfg) (w : list N) : bool := Nat.leb (length w) (N.to_nat (max_tok c)).
  Definition no_upper (s : list N) : bool := forallb (fun b => negb (is_upper_ascii b)) s.
  Definition flags_ok (cur : list N) (hu ao : bool) : Prop :=
    (ao = true -> all_ascii cur = true) /\ (hu = false -> no_upper cur = true).

  Lemma map_ascii_lower_id : forall s, no_upper s = true -> map ascii_lower s = s.
  Proof.
    induction s as [|b t IH]; intros H; [reflexivity|]. cbn in H. apply andb_true_iff in H.
    destruct H as [Hb Ht]. cbn [map]. rewrite IH by assumption. unfold ascii_lower.
    destruct (is_upper_ascii b); [discriminate|reflexivity].
  Qed.

  Lemma tok_of_flags : forall c cur hu ao, flags_ok cur hu ao ->
    (if negb (cs c) && (negb ao || hu) then fst (lower_full to_lower cur) else cur) = word_token c cur.
  Proof.
    intros c cur hu ao [Hao Hhu]. unfold word_token. destruct (cs c); [reflexivity|]. cbn [negb andb].
    fold (lower_ip to_lower cur).
    destruct ao, hu; cbn [negb orb]; try (apply lower_ip_map_lower; assumption).
    rewrite (map_lower_all_ascii to_lower H_ascii_lower) by auto. symmetry. apply map_ascii_lower_id. auto.
  Qed.

  Lemma text_emit_fst : forall c cur hu ao, flags_ok cur hu ao ->
    fst (text_emit to_lower c cur hu ao) =
    map (word_token c) (filter (sizeok c) (if nonempty cur then [cur] else [])).
  Proof.
    intros c cur hu ao Hf. unfold text_emit.
    destruct (nonempty cur) eqn:Hn; cbn [andb filter].
    - fold (sizeok c cur). destruct (sizeok c cur); [|reflexivity]. cbn [map].
      rewrite <- (tok_of_flags c cur hu ao Hf).
      destruct (negb (cs c) && (negb ao || hu)); [|reflexivity].
      destruct (lower_full to_lower cur). reflexivity.
    - reflexivity.
  Qed.

  Lemma is_word_ascii : forall b, b < 128 -> is_word b = is_text_token b.
  Proof. intros b Hb. unfold is_word_rune, is_text_token. rewrite H_class by assumption. reflexivity. Qed.

  Lemma is_word_nonascii : forall r, 128 <= r -> is_word r = is_letter r || is_number r.
  Proof.
    intros r Hr. unfold is_word_rune.
    replace (r =? 95) with false by lia. replace (r =? 42) with false by lia.
    rewrite !orb_false_r. reflexivity.
  Qed.

  Lemma all_ascii_app : forall a b, all_ascii (a ++ b) = all_ascii a && all_ascii b.
  Proof. intros. unfold all_ascii. apply forallb_app. Qed.
  Lemma no_upper_app : forall a b, no_upper (a ++ b) = no_upper a && no_upper b.
  Proof. intros. unfold no_upper. apply forallb_app. Qed.

  Lemma no_upper_high : forall raw, forallb (fun b => 128 <=? b) raw = true -> no_upper raw = true.
  Proof.
    unfold no_upper.
    induction raw as [|b t IH]; intros H; [reflexivity|]. cbn [forallb] in *. apply andb_true_iff in H.
    destruct H as [Hb Ht]. rewrite IH by assumption. unfold is_upper_ascii.
    destruct ((65 <=? b) && (b <=? 90)) eqn:E; [lia|reflexivity].
  Qed.

  (* the tokenizer's scan = rune-level words of the scanned part, size-filtered, lower-cased *)
  Lemma text_loop_words : forall c l cur hu ao, is_segs l -> flags_ok cur hu ao ->
    fst (text_loop is_letter is_number to_lower c l cur hu ao) =
    map (word_token c) (filter (sizeok c) (words l cur)).
  Proof.
    intros c. induction l as [|[r raw] rest IH]; intros cur hu ao Hs Hf.
    - cbn [text_loop words_of].
      destruct (nonempty cur) eqn:Hn; cbn [negb orb]; [|reflexivity].
      cbn [filter]. unfold sizeok.
      destruct (Nat.ltb (N.to_nat (max_tok c)) (length cur)) eqn:Hl.
      + apply Nat.ltb_lt in Hl. replace (Nat.leb (length cur) (N.to_nat (max_tok c))) with false
          by (symmetry; apply Nat.leb_gt; assumption). reflexivity.
      + apply Nat.ltb_ge in Hl. replace (Nat.leb (length cur) (N.to_nat (max_tok c))) with true
          by (symmetry; apply Nat.leb_le; assumption). cbn [map].
        rewrite <- (tok_of_flags c cur hu ao Hf).
        replace (ao && hu || negb ao) with (negb ao || hu) by (destruct ao, hu; reflexivity).
        destruct (negb (cs c) && (negb ao || hu)); [|reflexivity].
        destruct (lower_full to_lower cur). reflexivity.
    - pose proof (is_segs_inv _ _ _ Hs) as [E Hrest].
      pose proof (step_first_byte _ _ _ _ E) as [Hasc Hnasc].
      destruct Hf as [Hao Hhu].
      cbn [text_loop words_of]. cbv zeta.
      destruct (first_byte raw <? 128) eqn:Hfb.
      + destruct (Hasc eq_refl) as [-> Hr]. cbn [first_byte].
        rewrite (is_word_ascii r Hr).
        destruct (is_text_token r) eqn:Hw.
        * apply IH; [assumption|]. split.
          -- intros Ha. rewrite all_ascii_app, (Hao Ha). cbn. replace (r <? 128) with true by lia. reflexivity.
          -- intros Hh. apply orb_false_iff in Hh. destruct Hh as [Hh1 Hh2].
             rewrite no_upper_app, (Hhu Hh1). cbn. rewrite Hh2. reflexivity.
        * rewrite fst_let2.
          rewrite text_emit_fst.
          2:{ split; [assumption|]. intros Hh. apply orb_false_iff in Hh. apply Hhu. tauto. }
          rewrite IH; [|assumption|split; reflexivity].
          destruct (nonempty cur); cbn [filter]; [|reflexivity].
          destruct (sizeok c cur); reflexivity.
      + specialize (Hnasc eq_refl). rewrite (is_word_nonascii r Hnasc).
        destruct (is_letter r || is_number r) eqn:Hw.
        * apply IH; [assumption|]. split; [discriminate|].
          intros Hh. rewrite no_upper_app, (Hhu Hh). cbn [andb].
          apply no_upper_high. eapply step_nonascii_bytes; eauto.
        * rewrite fst_let2.
          rewrite text_emit_fst by (split; [discriminate|assumption]).
          rewrite IH; [|assumption|split; reflexivity].
          destruct (nonempty cur); cbn [filter]; [|reflexivity].
          destruct (sizeok c cur); reflexivity.
  Qed.

  (* ---------------------------------------------------------------- query side *)

  Lemma nonempty_flush : forall sens d, nonempty (flush to_lower sens d) = nonempty d.
  Proof. intros. unfold flush. destruct (nonempty d); reflexivity. Qed.

  (* parseSeqQLText splits where the words end, and each literal is the single lower-cased word *)
  Lemma qtext_loop_words : forall sens l cur, is_segs l ->
    existsb (fun sg : seg => fst sg =? WildcardRune) l = false ->
    qtext_loop is_letter is_number to_lower sens l cur [] =
    map (fun w => [TText (qlower to_lower sens w)]) (words l cur).
  Proof.
    intros sens. induction l as [|[r raw] rest IH]; intros cur Hs Hw.
    - cbn [qtext_loop words_of app]. rewrite nonempty_flush.
      unfold flush. destruct (nonempty cur); reflexivity.
    - pose proof (is_segs_inv _ _ _ Hs) as [E Hrest].
      cbn in Hw. apply orb_false_iff in Hw. destruct Hw as [Hr Hw].
      cbn [qtext_loop words_of].
      destruct (is_word r) eqn:Hwr.
      + pose proof (step_canon _ _ _ _ E) as [_ [Hc|[Hc _]]].
        * rewrite <- Hc. apply IH; assumption.
        * subst r. rewrite H_fffd in Hwr. discriminate.
      + cbn [app]. rewrite Hr, nonempty_flush. unfold flush.
        destruct (nonempty cur); cbn [map]; rewrite IH by assumption; reflexivity.
  Qed.

  Lemma qlower_word_token : forall c w, qlower to_lower (cs c) w = word_token c w.
  Proof.
    intros. unfold qlower, word_token. destruct (cs c); [reflexivity|].
    apply str_to_lower_map_lower; assumption.
  Qed.

  (* a word: non-empty concatenation of canonical encodings of word runes *)
  Definition wordy (w : list N) : Prop :=
    exists rs, Forall (fun r => valid_rune r = true /\ is_word r = true) rs /\ w = concat (map encode rs).

  Lemma words_wordy : forall l cur, is_segs l -> wordy cur ->
    Forall (fun w => wordy w /\ w <> []) (words l cur).
  Proof.
    induction l as [|[r raw] rest IH]; intros cur Hs Hc.
    - cbn [words_of]. destruct cur eqn:Ec; cbn [nonempty]; constructor; [|constructor].
      split; [assumption|discriminate].
    - pose proof (is_segs_inv _ _ _ Hs) as [E Hrest].
      cbn [words_of]. destruct (is_word r) eqn:Hwr.
      + apply IH; [assumption|].
        pose proof (step_canon _ _ _ _ E) as [Hv [Hcn|[Hcn _]]].
        * destruct Hc as [rs [Hrs ->]]. exists (rs ++ [r]). split.
          -- apply Forall_app. split; [assumption|]. constructor; [tauto|constructor].
          -- rewrite map_app, concat_app. cbn. rewrite app_nil_r, Hcn. reflexivity.
        * subst r. rewrite H_fffd in Hwr. discriminate.
      + assert (Hnil : wordy []) by (exists []; split; [constructor|reflexivity]).
        destruct cur eqn:Ec; cbn [nonempty].
        * apply IH; assumption.
        * constructor; [split; [assumption|discriminate]|]. apply IH; assumption.
  Qed.

  Lemma qtext_loop_wordrunes : forall sens rs tm,
    Forall (fun r => valid_rune r = true /\ is_word r = true) rs ->
    qtext_loop is_letter is_number to_lower sens (map (fun r => (r, encode r)) rs) tm [] =
    (let d := tm ++ concat (map encode rs) in
     if nonempty d then [[TText (qlower to_lower sens d)]] else []).
  Proof.
    intros sens. induction rs as [|r rs IH]; intros tm H.
    - cbn. rewrite app_nil_r, nonempty_flush. unfold flush. destruct (nonempty tm); reflexivity.
    - inversion H as [|? ? [Hv Hw] Hrs]; subst. cbn [map qtext_loop]. rewrite Hw.
      rewrite IH by assumption. cbn [map concat]. rewrite app_assoc. reflexivity.
  Qed.

  (* the query made from one word is the single literal with the single term = the lower-cased word *)
  Lemma qtext_word : forall sens w, wordy w -> w <> [] ->
    qtext is_letter is_number to_lower sens w = [[TText (qlower to_lower sens w)]].
  Proof.
    intros sens w [rs [Hrs Hw]] Hne. unfold qtext. destruct w as [|b t] eqn:Ew; [congruence|].
    rewrite <- Ew in *. clear Ew.
    assert (Hsegs : segs w = map (fun r => (r, encode r)) rs).
    { rewrite Hw. rewrite <- (app_nil_r (concat _)). rewrite segs_concat_encode.
      - cbn [segs]. apply app_nil_r.
      - eapply Forall_impl; [|exact Hrs]. cbn. tauto. }
    rewrite Hsegs, qtext_loop_wordrunes by assumption. cbn [app]. rewrite <- Hw.
    destruct w; [congruence|reflexivity].
  Qed.

  Lemma lit_matches_single : forall d, lit_matches [TText d] d = true.
  Proof. intros. cbn. apply list_eqb_N_refl. Qed.

  (* TextTokenizer.Tokenize against parseSeqQLText, any value, any limits *)
  Lemma text_consistent : forall c fmax v, v <> [] ->
    let p := indexed_part TyText c fmax v in
    let toks := fst (text_tokenize is_letter is_number to_lower c fmax v) in
    if skipped TyText c fmax v then toks = []
    else
      (* the tokens are the words of the indexed part that fit the word size, lower-cased *)
      toks = map (word_token c) (filter (sizeok c) (words (segs p) []))
      (* the query made from any word is exactly the token of that word, and finds it *)
      /\ (forall w, In w (words (segs p) []) ->
            qtext is_letter is_number to_lower (cs c) w = [[TText (word_token c w)]]
            /\ (sizeok c w = true ->
                query_finds (qtext is_letter is_number to_lower (cs c) w) toks = true))
      (* the query made from the whole indexed part splits on exactly the index side's separators *)
      /\ (has_rune WildcardRune p = false -> words (segs p) [] <> [] ->
            qtext is_letter is_number to_lower (cs c) p =
            map (fun w => [TText (word_token c w)]) (words (segs p) [])).
  Proof.
    intros c fmax v Hv p toks. subst toks. unfold skipped, text_tokenize.
    destruct (Nat.ltb (limit_of (def_field c) fmax) (length v) && negb (partial c)) eqn:Esk; [reflexivity|].
    destruct v as [|b0 v0]; [congruence|]. cbv iota. set (v := b0 :: v0) in *. clearbody v.
    subst p. unfold indexed_part. set (p := firstn (limit_of (def_field c) fmax) v).
    assert (Htok : fst (let (ts, m) := text_loop is_letter is_number to_lower c (segs p) [] false true in
                        (ts, m ++ skipn (limit_of (def_field c) fmax) v)) =
                   map (word_token c) (filter (sizeok c) (words (segs p) []))).
    { rewrite <- (text_loop_words c (segs p) [] false true (is_segs_segs p)) by (split; reflexivity).
      destruct (text_loop is_letter is_number to_lower c (segs p) [] false true). reflexivity. }
    rewrite Htok. split; [reflexivity|]. split.
    - intros w Hin.
      pose proof (words_wordy (segs p) [] (is_segs_segs p)) as Hw.
      assert (Hnil : wordy []) by (exists []; split; [constructor|reflexivity]).
      specialize (Hw Hnil). rewrite Forall_forall in Hw. destruct (Hw _ Hin) as [Hwd Hne].
      rewrite (qtext_word (cs c) w Hwd Hne), qlower_word_token. split; [reflexivity|].
      intros Hsz. unfold query_finds. cbn [forallb]. rewrite andb_true_r.
      apply existsb_exists. exists (word_token c w). split; [|apply lit_matches_single].
      apply in_map. apply filter_In. split; assumption.
    - intros Hnw Hne. unfold qtext.
      destruct p as [|pb pt] eqn:Ep.
      { cbn in Hne. congruence. }
      rewrite <- Ep in *.
      rewrite qtext_loop_words by (try apply is_segs_segs; exact Hnw).
      destruct (words (segs p) []) eqn:Ews; [congruence|].
      cbn [map]. rewrite !qlower_word_token.
      f_equal. apply map_ext. intros. rewrite qlower_word_token. reflexivity.
  Qed.
End Text.
