(* C11 — proofs about the query-text model (ModelLex.v): what the renderers write is what the lexer reads. *)
From Coq Require Import Lia.
From C11 Require Import Model ModelDoc ModelLex ProofsUtf8 ProofsLower.
Open Scope N_scope.

Definition qok (q : N) : Prop := q = 34 \/ q = 39.

(* ------------------------------------------------------------------ small facts *)
Lemma contains_cons : forall b c x, contains_byte b (c :: x) = (c =? b) || contains_byte b x.
Proof.
  intros. unfold contains_byte. cbn [index_byte]. destruct (c =? b); [reflexivity|].
  destruct (index_byte b x); reflexivity.
Qed.

Lemma need_unquote_cons : forall c x, need_unquote (c :: x) = (c =? 92) || (c =? 42) || need_unquote x.
Proof.
  intros. unfold need_unquote. rewrite !contains_cons.
  destruct (c =? 92), (c =? 42), (contains_byte 92 x), (contains_byte 42 x); reflexivity.
Qed.

Lemma dec1_ascii : forall b t, b < 128 -> dec1 (b :: t) = (b, [b], t).
Proof. intros. unfold dec1. cbn [step]. brk. reflexivity. Qed.

Lemma dec1_encode : forall r t, valid_rune r = true -> dec1 (encode r ++ t) = (r, encode r, t).
Proof. intros. unfold dec1. rewrite step_encode by assumption. reflexivity. Qed.

Lemma encode_high : forall r, 128 <= r -> forallb (fun c => 128 <=? c) (encode r) = true.
Proof.
  intros r H. unfold encode. brk; cbn [forallb]; rewrite ?andb_true_r; repeat (apply andb_true_iff; split);
    apply N.leb_le; lia.
Qed.

Lemma esc_app : forall q a b, esc q (a ++ b) = esc q a ++ esc q b.
Proof. intros. unfold esc. rewrite flat_map_app. reflexivity. Qed.

Lemma esc_high : forall q x, qok q -> forallb (fun c => 128 <=? c) x = true -> esc q x = x.
Proof.
  intros q x Hq. induction x as [|c x IH]; intros H; [reflexivity|].
  cbn [forallb] in H. apply andb_true_iff in H. destruct H as [Hc Hx]. apply N.leb_le in Hc.
  unfold esc in *. cbn [flat_map]. rewrite IH by assumption.
  unfold esc1, is_special. destruct Hq; subst q; brk; reflexivity.
Qed.

(* valid UTF-8 as a list of canonical segments *)
Definition canon_segs (l : list seg) : Prop :=
  Forall (fun sg : seg => valid_rune (fst sg) = true /\ snd sg = encode (fst sg)) l.

Lemma valid_utf8_canon : forall v, valid_utf8 v = true -> canon_segs (segs v).
Proof.
  intros v H. unfold valid_utf8 in H. rewrite forallb_forall in H.
  pose proof (is_segs_valid _ (is_segs_segs v)) as Hv. rewrite Forall_forall in Hv.
  apply Forall_forall. intros sg Hin. split; [apply Hv; assumption|].
  specialize (H _ Hin). unfold seg_canon in H. apply list_eqb_N_eq in H. exact H.
Qed.

(* ------------------------------------------------------------------ unquotePrefix on a rendered literal *)
Section Unquote.
  Variable q : N.
  Hypothesis Hq : qok q.

  Lemma q_lt : q < 128. Proof. destruct Hq; subst; lia. Qed.

  Lemma special_cases : forall c, is_special q c = true -> c = q \/ c = 92 \/ c = 42.
  Proof.
    intros c H. unfold is_special in H. apply orb_true_iff in H. destruct H as [H|H].
    - apply orb_true_iff in H. destruct H as [H|H]; apply N.eqb_eq in H; auto.
    - apply N.eqb_eq in H. auto.
  Qed.

  Lemma unquote_char_special : forall c P, is_special q c = true ->
    unquote_char (92 :: c :: P) q = Some (c, P).
  Proof.
    intros c P H. apply special_cases in H.
    destruct Hq; subst q; destruct H as [H|[H|H]]; subst c; reflexivity.
  Qed.

  Lemma unquote_char_plain : forall c P, c < 128 -> is_special q c = false ->
    unquote_char (c :: P) q = Some (c, P).
  Proof.
    intros c P Hc H. unfold is_special in H.
    apply orb_false_iff in H. destruct H as [H H42]. apply orb_false_iff in H. destruct H as [Hcq H92].
    unfold unquote_char. rewrite H42.
    assert (Hs : strconv_unquote_char (c :: P) q = Some (c, P)).
    { unfold strconv_unquote_char. rewrite Hcq. cbn [andb].
      replace (128 <=? c) with false by (symmetry; apply N.leb_gt; lia).
      rewrite H92. reflexivity. }
    destruct P as [|c1 t1]; [exact Hs|]. rewrite H92. cbn [andb]. exact Hs.
  Qed.

  Lemma unquote_char_rune : forall r P, 128 <= r -> valid_rune r = true ->
    unquote_char (encode r ++ P) q = Some (r, P).
  Proof.
    intros r P Hr Hv.
    pose proof (encode_high r Hr) as Hh. pose proof (dec1_encode r P Hv) as Hd.
    destruct (encode r) as [|c x] eqn:E; [exfalso; apply (encode_nonempty r); assumption|].
    cbn [forallb] in Hh. apply andb_true_iff in Hh. destruct Hh as [Hc _]. apply N.leb_le in Hc.
    cbn [app] in *. pose proof q_lt as Hql.
    assert (Hs : strconv_unquote_char (c :: x ++ P) q = Some (r, P)).
    { unfold strconv_unquote_char.
      replace (c =? q) with false by (symmetry; apply N.eqb_neq; lia). cbn [andb].
      replace (128 <=? c) with true by (symmetry; apply N.leb_le; lia).
      rewrite Hd. reflexivity. }
    unfold unquote_char.
    replace (c =? 42) with false by (symmetry; apply N.eqb_neq; lia).
    replace (c =? 92) with false by (symmetry; apply N.eqb_neq; lia). cbn [andb].
    destruct (x ++ P); exact Hs.
  Qed.

  Lemma uq_loop_render : forall l, canon_segs l -> forall fuel b remIdx rest,
    (length (esc q (raws l) ++ q :: rest) < fuel)%nat ->
    uq_loop fuel q (esc q (raws l) ++ q :: rest) b remIdx
    = ROk (q :: rest, b ++ raws l, (remIdx + length (esc q (raws l)))%nat).
  Proof.
    induction l as [|[r raw] l IH]; intros Hc fuel b remIdx rest Hf.
    - destruct fuel; [exfalso; eapply Nat.nlt_0_r; eassumption|]. cbn. rewrite N.eqb_refl, app_nil_r, Nat.add_0_r. reflexivity.
    - inversion Hc as [|? ? [Hv Hraw] Hc']; subst. cbn [fst snd] in *. subst raw.
      rewrite raws_cons, esc_app, <- app_assoc in Hf. rewrite raws_cons, esc_app, <- app_assoc.
      destruct fuel as [|f]; [exfalso; eapply Nat.nlt_0_r; eassumption|].
      destruct (r <? 128) eqn:Hr.
      + apply N.ltb_lt in Hr. rewrite (encode_ascii r Hr) in *.
        unfold esc at 1. unfold esc at 1 in Hf. cbn [flat_map app] in *. rewrite app_nil_r in *.
        unfold esc1 in *. destruct (is_special q r) eqn:Hs.
        * cbn [app uq_loop] in *.
          replace (92 =? q) with false by (symmetry; apply N.eqb_neq; destruct Hq; subst; lia).
          rewrite (unquote_char_special r _ Hs).
          rewrite IH; [| assumption | cbn [length] in Hf; lia].
          rewrite (encode_ascii r Hr).
          replace (esc q [r]) with [92; r] by (unfold esc, esc1; cbn [flat_map app]; rewrite Hs; reflexivity).
          rewrite <- app_assoc. cbn [app length].
          f_equal. f_equal. lia.
        * cbn [app uq_loop] in *.
          assert (Hrq : (r =? q) = false).
          { unfold is_special in Hs. apply orb_false_iff in Hs. destruct Hs as [Hs _].
            apply orb_false_iff in Hs. tauto. }
          rewrite Hrq. rewrite (unquote_char_plain r _ Hr Hs).
          rewrite IH; [| assumption | cbn [length] in Hf; lia].
          rewrite (encode_ascii r Hr).
          replace (esc q [r]) with [r] by (unfold esc, esc1; cbn [flat_map app]; rewrite Hs; reflexivity).
          rewrite <- app_assoc. cbn [app length].
          f_equal. f_equal. lia.
      + apply N.ltb_ge in Hr.
        pose proof (encode_high r Hr) as Hh.
        rewrite (esc_high q _ Hq Hh) in *.
        destruct (encode r) as [|c x] eqn:E; [exfalso; apply (encode_nonempty r); assumption|].
        cbn [app uq_loop].
        assert (Hcq : (c =? q) = false).
        { cbn [forallb] in Hh. apply andb_true_iff in Hh. destruct Hh as [Hc1 _]. apply N.leb_le in Hc1.
          pose proof q_lt. apply N.eqb_neq. lia. }
        rewrite Hcq.
        change (c :: x ++ esc q (raws l) ++ q :: rest) with ((c :: x) ++ esc q (raws l) ++ q :: rest).
        rewrite <- E. rewrite (unquote_char_rune r _ Hr Hv).
        rewrite IH; [| assumption |].
        * rewrite <- app_assoc. rewrite E. cbn [app]. f_equal. f_equal.
          change (c :: x ++ esc q (raws l) ++ q :: rest) with ((c :: x) ++ esc q (raws l) ++ q :: rest).
          change (c :: x ++ esc q (raws l)) with ((c :: x) ++ esc q (raws l)).
          rewrite !app_length. lia.
        * cbn [app length] in Hf. rewrite app_length in Hf. lia.
  Qed.

  Lemma index_byte_exists : forall a rest, exists e, index_byte q (a ++ q :: rest) = Some e.
  Proof.
    induction a as [|c a IH]; intros rest.
    - exists 0%nat. cbn. rewrite N.eqb_refl. reflexivity.
    - cbn [app index_byte]. destruct (c =? q); [eexists; reflexivity|].
      destruct (IH rest) as [e He]. rewrite He. eexists; reflexivity.
  Qed.

  (* the fast path is taken only when nothing had to be escaped *)
  Lemma idx_fast : forall v e rest, index_byte q (esc q v ++ q :: rest) = Some e ->
    need_unquote (firstn e (esc q v ++ q :: rest)) = false -> esc q v = v /\ e = length v.
  Proof.
    induction v as [|c v IH]; intros e rest Hi Hn.
    - unfold esc in Hi. cbn [flat_map app index_byte] in Hi. rewrite N.eqb_refl in Hi.
      injection Hi as <-. split; reflexivity.
    - unfold esc in *. cbn [flat_map] in *. fold (esc q v) in *. unfold esc1 in *.
      destruct (is_special q c) eqn:Hs.
      + exfalso. cbn [app index_byte] in Hi.
        replace (92 =? q) with false in Hi by (symmetry; apply N.eqb_neq; destruct Hq; subst; lia).
        cbv iota in Hi.
        match type of Hi with match ?X with _ => _ end = _ => destruct X as [n|]; [|discriminate] end.
        injection Hi as <-. cbn [app firstn] in Hn.
        rewrite need_unquote_cons in Hn. discriminate.
      + cbn [app index_byte] in Hi.
        assert (Hcq : (c =? q) = false).
        { unfold is_special in Hs. apply orb_false_iff in Hs. destruct Hs as [Hs _].
          apply orb_false_iff in Hs. tauto. }
        rewrite Hcq in Hi. cbv iota in Hi.
        destruct (index_byte q (esc q v ++ q :: rest)) as [n|] eqn:E; cbv iota in Hi; [|discriminate].
        injection Hi as <-. cbn [app firstn] in Hn. rewrite need_unquote_cons in Hn.
        apply orb_false_iff in Hn. destruct Hn as [_ Hn].
        destruct (IH n rest E Hn) as [H1 H2]. cbn [app]. rewrite H1, H2. split; reflexivity.
  Qed.

  Lemma firstn_app_len : forall (a b : list N), firstn (length a) (a ++ b) = a.
  Proof. induction a; intros; cbn; [reflexivity|]. rewrite IHa. reflexivity. Qed.
  Lemma skipn_app_len1 : forall (a : list N) x b, skipn (S (length a)) (a ++ x :: b) = b.
  Proof. induction a; intros; cbn; [reflexivity|]. apply IHa. Qed.

  (* unquotePrefix undoes render_q exactly, whatever follows the closing quote *)
  Lemma unquote_render : forall v rest, valid_utf8 v = true ->
    unquote_prefix (render_q q v ++ rest) = ROk (Some (v, rest)).
  Proof.
    intros v rest Hv. unfold render_q. cbn [app]. rewrite <- app_assoc. cbn [app].
    unfold unquote_prefix.
    replace (Nat.ltb (length (q :: esc q v ++ q :: rest)) 2) with false
      by (symmetry; apply Nat.ltb_ge; cbn [length]; rewrite app_length; cbn [length]; lia).
    replace (negb ((q =? 34) || (q =? 96) || (q =? 39))) with false by (destruct Hq; subst; reflexivity).
    destruct (index_byte_exists (esc q v) rest) as [e He]. rewrite He.
    destruct (need_unquote (firstn e (esc q v ++ q :: rest))) eqn:Hn; cbn [negb].
    - pose proof (uq_loop_render (segs v) (valid_utf8_canon v Hv) (S (length (esc q v ++ q :: rest))) [] 1%nat rest) as Hl.
      rewrite raws_segs in Hl. rewrite Hl by lia. cbn [rbind]. rewrite N.eqb_refl. cbn [negb app].
      f_equal. f_equal. f_equal.
      change (skipn (S (1 + length (esc q v))) (q :: esc q v ++ q :: rest))
        with (skipn (S (length (esc q v))) (esc q v ++ q :: rest)).
      apply skipn_app_len1.
    - destruct (idx_fast v e rest He Hn) as [H1 H2]. subst e. rewrite H1.
      rewrite firstn_app_len, skipn_app_len1. reflexivity.
  Qed.
End Unquote.

(* ------------------------------------------------------------------ lexer.Next on a rendered literal *)
Section NextQ.
  Variables is_space is_letter is_digit : N -> bool.
  Variable q : N.
  Hypothesis Hq : qok q.
  Hypothesis Hq_space : is_space q = false.
  Hypothesis Hq_tok : is_token_rune is_letter is_digit q = false.

  (* Next, standing at the opening quote: one quoted token whose text is the value, the tail is what follows the
     closing quote — whatever it is *)
  Lemma next_render_q : forall v rest sp f, valid_utf8 v = true ->
    next is_space is_letter is_digit (S f) (render_q q v ++ rest) sp = ROk (mkTok v true false sp, rest).
  Proof.
    intros v rest sp f Hv. pose proof (q_lt q Hq) as Hl.
    pose proof (unquote_render q Hq v rest Hv) as Hu.
    unfold render_q in *. cbn [app] in *.
    cbn [next]. rewrite (dec1_ascii q _ Hl).
    replace (q =? RuneError) with false by (symmetry; apply N.eqb_neq; unfold RuneError; lia).
    cbn [skip_spaces length]. rewrite (dec1_ascii q _ Hl). rewrite Hq_space. cbn [rbind].
    rewrite (dec1_ascii q _ Hl).
    replace (q =? 35) with false by (destruct Hq; subst; reflexivity).
    cbn [scan_token length]. rewrite (dec1_ascii q _ Hl). rewrite Hq_tok. cbn [rbind nonempty].
    replace (q =? 42) with false by (destruct Hq; subst; reflexivity).
    replace ((q =? 39) || (q =? 34)) with true by (destruct Hq; subst; reflexivity).
    rewrite Hu. reflexivity.
  Qed.
End NextQ.

(* ------------------------------------------------------------------ the token stream of `name:LIT` *)
(* a field name the harness writes bare: ASCII letters, digits, '_' and '.', not empty *)
Definition name_byte (b : N) : bool := is_alnum_ascii b || (b =? 95) || (b =? 46).
Definition simple_name (n : list N) : bool := nonempty n && forallb name_byte n.

Section LexPlain.
  Variables is_space is_letter is_digit : N -> bool.
  Hypothesis H_name_tok : forall b, name_byte b = true -> is_token_rune is_letter is_digit b = true.
  Hypothesis H_name_space : forall b, name_byte b = true -> is_space b = false.
  Hypothesis H_colon : is_space 58 = false /\ is_token_rune is_letter is_digit 58 = false.
  Hypothesis H_quotes : forall q, qok q -> is_space q = false /\ is_token_rune is_letter is_digit q = false.

  Lemma name_byte_lt : forall b, name_byte b = true -> b < 128.
  Proof. intros b H. unfold name_byte, is_alnum_ascii in H. brk; try lia; discriminate. Qed.

  Lemma scan_name : forall n fuel acc c rest, forallb name_byte n = true ->
    is_token_rune is_letter is_digit c = false -> c < 128 -> (length n < fuel)%nat ->
    scan_token is_letter is_digit fuel (n ++ c :: rest) acc = ROk (acc ++ n, c :: rest).
  Proof.
    induction n as [|b n IH]; intros fuel acc c rest Hn Hc Hl Hf.
    - destruct fuel; [lia|]. cbn [app scan_token]. rewrite (dec1_ascii c _ Hl), Hc, app_nil_r. reflexivity.
    - cbn [forallb] in Hn. apply andb_true_iff in Hn. destruct Hn as [Hb Hn].
      destruct fuel; [cbn in Hf; lia|]. cbn [app scan_token].
      rewrite (dec1_ascii b _ (name_byte_lt b Hb)), (H_name_tok b Hb).
      rewrite IH by (try assumption; cbn in Hf; lia). rewrite <- app_assoc. reflexivity.
  Qed.

  (* Next on `name:...` gives the name *)
  Lemma next_name : forall n rest f, simple_name n = true ->
    next is_space is_letter is_digit (S f) (n ++ 58 :: rest) false = ROk (mkTok n false false false, 58 :: rest).
  Proof.
    intros n rest f Hn. unfold simple_name in Hn. apply andb_true_iff in Hn. destruct Hn as [Hne Hn].
    destruct n as [|b n]; [discriminate|].
    pose proof Hn as Hn'. cbn [forallb] in Hn'. apply andb_true_iff in Hn'. destruct Hn' as [Hb _].
    pose proof (name_byte_lt b Hb) as Hl.
    cbn [app next]. rewrite (dec1_ascii b _ Hl).
    replace (b =? RuneError) with false by (symmetry; apply N.eqb_neq; unfold RuneError; lia).
    cbn [skip_spaces]. rewrite (dec1_ascii b _ Hl), (H_name_space b Hb). cbn [rbind].
    rewrite (dec1_ascii b _ Hl).
    replace (b =? 35) with false
      by (symmetry; apply N.eqb_neq; intros ->; unfold name_byte, is_alnum_ascii in Hb; cbn in Hb; discriminate).
    change (b :: n ++ 58 :: rest) with ((b :: n) ++ 58 :: rest).
    rewrite (scan_name (b :: n) _ [] 58 rest Hn (proj2 H_colon)) by (try lia; rewrite app_length; cbn [length]; lia).
    cbn [rbind app nonempty]. reflexivity.
  Qed.

  Lemma next_colon : forall rest f,
    next is_space is_letter is_digit (S f) (58 :: rest) false = ROk (mkTok [58] false false false, rest).
  Proof.
    intros rest f. destruct H_colon as [Hs Ht].
    cbn [next]. rewrite (dec1_ascii 58 rest) by lia.
    change (58 =? RuneError) with false. cbv iota.
    cbn [skip_spaces]. rewrite (dec1_ascii 58 rest) by lia. rewrite Hs. cbn [rbind].
    rewrite (dec1_ascii 58 rest) by lia. change (58 =? 35) with false. cbv iota.
    cbn [scan_token]. rewrite (dec1_ascii 58 rest) by lia. rewrite Ht. cbn [rbind nonempty].
    reflexivity.
  Qed.

  (* the whole query `name:<q-quoted v>` *)
  Lemma lex_plain_q : forall q n v, qok q -> simple_name n = true -> valid_utf8 v = true ->
    lex is_space is_letter is_digit (n ++ 58 :: render_q q v)
    = ROk [mkTok n false false false; mkTok [58] false false false; mkTok v true false false].
  Proof.
    intros q n v Hq Hn Hv. unfold lex.
    assert (Hne : n <> []) by (intros ->; discriminate).
    cbn [lex_all]. rewrite (next_name n (render_q q v) _ Hn). cbn [rbind].
    replace (is_end (mkTok n false false false) (58 :: render_q q v)) with false by reflexivity.
    destruct (length (n ++ 58 :: render_q q v)) as [|k] eqn:El.
    { rewrite app_length in El. cbn [length] in El. lia. }
    cbn [lex_all]. rewrite next_colon. cbn [rbind].
    replace (is_end (mkTok [58] false false false) (render_q q v)) with false by reflexivity.
    destruct k as [|k].
    { rewrite app_length in El. unfold render_q in El. cbn [length] in El. rewrite app_length in El. cbn [length] in El. lia. }
    cbn [lex_all].
    destruct (H_quotes q Hq) as [Hs Ht].
    pose proof (next_render_q is_space is_letter is_digit q Hq Hs Ht v [] false (length (render_q q v)) Hv) as Hx.
    rewrite app_nil_r in Hx. rewrite Hx. cbn [rbind].
    replace (is_end (mkTok v true false false) []) with false by (unfold is_end; cbn; destruct v; reflexivity).
    destruct k as [|k].
    { rewrite app_length in El. unfold render_q in El. cbn [length] in El. rewrite app_length in El. cbn [length] in El. lia. }
    cbn [lex_all next dec1 step]. change (RuneError =? RuneError) with true. cbv iota. cbn [rbind].
    reflexivity.
  Qed.
End LexPlain.

(* ------------------------------------------------------------------ the parser on these tokens *)
Definition name_ok (n : list N) : bool := simple_name n && negb (list_eqb_N (fold_norm n) kw_not).
Definition searchable (t : ttype) : bool := match t with TyKeyword | TyText | TyPath => true | _ => false end.

Lemma fold_norm_ascii_hd : forall b n, b < 128 ->
  fold_norm (b :: n) = (if (65 <=? b) && (b <=? 90) then b + 32 else b) :: fold_norm n.
Proof.
  intros b n Hb. cbn [fold_norm].
  replace (b =? 197) with false by (symmetry; apply N.eqb_neq; lia).
  replace (b =? 226) with false by (symmetry; apply N.eqb_neq; lia). cbn [andb].
  destruct n as [|c1 [|c2 t2]]; reflexivity.
Qed.

Lemma replace_wild_ascii : forall n, forallb (fun b => b <? 128) n = true -> replace_wild n = n.
Proof.
  induction n as [|c t IH]; intros H; [reflexivity|].
  cbn [forallb] in H. apply andb_true_iff in H. destruct H as [Hc Ht]. apply N.ltb_lt in Hc.
  cbn [replace_wild]. rewrite (IH Ht).
  replace (c =? 238) with false by (symmetry; apply N.eqb_neq; lia). cbn [andb].
  destruct t as [|c1 [|c2 t2]]; reflexivity.
Qed.

Section ParsePlain.
  Variables is_space is_letter is_digit is_number : N -> bool.
  Variable to_lower : N -> N.
  Hypothesis H_name_tok : forall b, name_byte b = true -> is_token_rune is_letter is_digit b = true.
  Hypothesis H_colon_tok : is_token_rune is_letter is_digit 58 = false.

  Lemma single_filter_plain : forall ftype sens n v t lits,
    name_ok n = true -> ftype n = t -> searchable t = true ->
    query_lits is_letter is_number to_lower t (sens || list_eqb_N n K_EXISTS) v = Some lits ->
    single_filter is_letter is_digit is_number to_lower ftype sens
      [mkTok n false false false; mkTok [58] false false false; mkTok v true false false]
    = ROk (QPlain lits).
  Proof.
    intros ftype sens n v t lits Hn Hft Hs Hq.
    unfold name_ok in Hn. apply andb_true_iff in Hn. destruct Hn as [Hsn Hnot].
    unfold simple_name in Hsn. apply andb_true_iff in Hsn. destruct Hsn as [Hne Hall].
    destruct n as [|b n']; [discriminate|].
    pose proof Hall as Hall'. cbn [forallb] in Hall'. apply andb_true_iff in Hall'. destruct Hall' as [Hb Hn'].
    assert (Hbl : b < 128) by (unfold name_byte, is_alnum_ascii in Hb; brk; try lia; discriminate).
    assert (Hascii : forallb (fun b => b <? 128) (b :: n') = true).
    { apply forallb_forall. intros x Hx. rewrite forallb_forall in Hall. specialize (Hall x Hx).
      apply N.ltb_lt. unfold name_byte, is_alnum_ascii in Hall. brk; try lia; discriminate. }
    set (b' := if (65 <=? b) && (b <=? 90) then b + 32 else b).
    assert (Hb'1 : b' <> 238 /\ b' <> 40).
    { subst b'. unfold name_byte, is_alnum_ascii in Hb. brk; split; lia. }
    unfold single_filter. cbn [cur].
    assert (Hk1 : is_kw wildcard_bytes (mkTok (b :: n') false false false) = false).
    { unfold is_kw, wildcard_bytes. cbn [t_quoted t_txt negb andb]. rewrite (fold_norm_ascii_hd b n' Hbl). fold b'.
      cbn [list_eqb_N list_eqb]. replace (b' =? 238) with false by (symmetry; apply N.eqb_neq; tauto). reflexivity. }
    assert (Hk2 : is_kw kw_lp (mkTok (b :: n') false false false) = false).
    { unfold is_kw, kw_lp. cbn [t_quoted t_txt negb andb]. rewrite (fold_norm_ascii_hd b n' Hbl). fold b'.
      cbn [list_eqb_N list_eqb]. replace (b' =? 40) with false by (symmetry; apply N.eqb_neq; tauto). reflexivity. }
    assert (Hk3 : is_kw kw_not (mkTok (b :: n') false false false) = false).
    { unfold is_kw. cbn [t_quoted t_txt negb andb]. apply negb_true_iff in Hnot. exact Hnot. }
    rewrite Hk1, Hk2, Hk3. cbn [orb].
    (* the field name *)
    unfold parse_composite at 1. cbn [cur tl].
    assert (Hk0 : is_kw [] (mkTok (b :: n') false false false) = false).
    { unfold is_kw. cbn [t_quoted t_txt negb andb]. rewrite (fold_norm_ascii_hd b n' Hbl). reflexivity. }
    rewrite Hk0.
    assert (Hc1 : is_composite is_letter is_digit (mkTok (b :: n') false false false) = true).
    { unfold is_composite. rewrite Hk0. cbn [t_txt t_quoted]. rewrite (dec1_ascii b n' Hbl).
      rewrite (H_name_tok b Hb). cbn [orb]. destruct (Nat.ltb 1 (length n')); reflexivity. }
    rewrite Hc1. cbn [negb].
    assert (Hc2 : is_composite is_letter is_digit (mkTok [58] false false false) = false).
    { unfold is_composite, is_kw. cbn [t_txt t_quoted negb andb fold_norm list_eqb_N list_eqb].
      rewrite (dec1_ascii 58 []) by lia. cbn [length Nat.ltb Nat.leb orb]. rewrite H_colon_tok. reflexivity. }
    cbn [join_composite t_space negb andb]. rewrite Hc2. cbn [t_txt].
    rewrite (replace_wild_ascii _ Hascii). rewrite Hft.
    destruct t; try discriminate;
    ( cbn [cur tl];
      replace (is_kw kw_colon (mkTok [58] false false false)) with true by reflexivity;
      cbn [negb];
      replace (is_kw [] (mkTok v true false false)) with false by reflexivity;
      replace (is_kws [kw_lb; kw_lp] (mkTok v true false false)) with false by reflexivity;
      replace (is_kw kw_in (mkTok v true false false)) with false by reflexivity;
      unfold fulltext, parse_composite; cbn [cur tl];
      replace (is_kw [] (mkTok v true false false)) with false by reflexivity;
      replace (is_composite is_letter is_digit (mkTok v true false false)) with true
        by (unfold is_composite, is_kw; cbn [t_txt t_quoted negb andb]; destruct v as [|x v']; [reflexivity|];
            destruct (dec1 (x :: v')) as [[r raw] rest]; rewrite orb_true_r; reflexivity);
      cbn [negb join_composite rbind t_txt]; rewrite Hq; cbn [rbind finish]; reflexivity ).
  Qed.
End ParsePlain.

(* ------------------------------------------------------------------ the back-quoted style, value without a back quote *)
Lemma split96_nobq : forall v, contains_byte 96 v = false -> split96 v = [v].
Proof.
  induction v as [|c v IH]; intros H; [reflexivity|].
  rewrite contains_cons in H. apply orb_false_iff in H. destruct H as [Hc Hv].
  cbn [split96]. rewrite Hc, (IH Hv). reflexivity.
Qed.

Lemma render_raw_nobq : forall v, contains_byte 96 v = false -> render_raw v = 96 :: v ++ [96].
Proof. intros v H. unfold render_raw. rewrite (split96_nobq v H). reflexivity. Qed.

Lemma index_byte_nobq : forall b v rest, contains_byte b v = false -> index_byte b (v ++ b :: rest) = Some (length v).
Proof.
  intros b. induction v as [|c v IH]; intros rest H.
  - cbn. rewrite N.eqb_refl. reflexivity.
  - rewrite contains_cons in H. apply orb_false_iff in H. destruct H as [Hc Hv].
    cbn [app index_byte length]. rewrite Hc, (IH rest Hv). reflexivity.
Qed.

Section NextRaw.
  Variables is_space is_letter is_digit : N -> bool.
  Hypothesis H_space : is_space 96 = false.
  Hypothesis H_tok : is_token_rune is_letter is_digit 96 = false.

  (* Next standing at a raw literal: ANY bytes without a back quote come back untouched (no escape processing, an
     asterisk stays an asterisk, invalid UTF-8 stays as it is) *)
  Lemma next_render_raw : forall v rest sp f, contains_byte 96 v = false ->
    next is_space is_letter is_digit (S f) (render_raw v ++ rest) sp = ROk (mkTok v true true sp, rest).
  Proof.
    intros v rest sp f Hv. rewrite (render_raw_nobq v Hv). cbn [app]. rewrite <- app_assoc. cbn [app].
    cbn [next]. rewrite (dec1_ascii 96) by lia.
    change (96 =? RuneError) with false. cbv iota.
    cbn [skip_spaces]. rewrite (dec1_ascii 96) by lia. rewrite H_space. cbn [rbind].
    rewrite (dec1_ascii 96) by lia. change (96 =? 35) with false. cbv iota.
    cbn [scan_token]. rewrite (dec1_ascii 96) by lia. rewrite H_tok. cbn [rbind nonempty].
    change (96 =? 42) with false. change ((96 =? 39) || (96 =? 34)) with false. change (96 =? 96) with true. cbv iota.
    unfold quoted_prefix_raw.
    replace (Nat.ltb (length (96 :: v ++ 96 :: rest)) 2) with false
      by (symmetry; apply Nat.ltb_ge; cbn [length]; rewrite app_length; cbn [length]; lia).
    rewrite (index_byte_nobq 96 v rest Hv).
    rewrite (firstn_app_len v), (skipn_app_len1 v). reflexivity.
  Qed.
End NextRaw.
