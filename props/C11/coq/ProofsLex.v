(* C11 — proofs about the query-text model (ModelLex.v): what the renderers write is what the lexer reads. *)
From Coq Require Import Lia.
From C11 Require Import Model ModelDoc ModelLex ProofsUtf8 ProofsLower.
Open Scope N_scope.

Definition qok (q : N) : Prop := q = 34 \/ q = 39.

(* ------------------------------------------------------------------ small facts *)
Lemma contains_cons : forall b c x, contains_byte b (c :: x) = (c =? b) || contains_byte b x.
Proof.
  intros. unfold contains_byte. cbn [index_byte]. destruct (c =? b); [reflexivity|].
  destruct (index_byte b x); reflexivity.
Qed.

Lemma need_unquote_cons : forall c x, need_unquote (c :: x) = (c =? 92) || (c =? 42) || need_unquote x.
Proof.
  intros. unfold need_unquote. rewrite !contains_cons.
  destruct (c =? 92), (c =? 42), (contains_byte 92 x), (contains_byte 42 x); reflexivity.
Qed.

Lemma dec1_ascii : forall b t, b < 128 -> dec1 (b :: t) = (b, [b], t).
Proof. intros. unfold dec1. cbn [step]. brk. reflexivity. Qed.

Lemma dec1_encode : forall r t, valid_rune r = true -> dec1 (encode r ++ t) = (r, encode r, t).
Proof. intros. unfold dec1. rewrite step_encode by assumption. reflexivity. Qed.

Lemma encode_high : forall r, 128 <= r -> forallb (fun c => 128 <=? c) (encode r) = true.
Proof.
  intros r H. unfold encode. brk; cbn [forallb]; rewrite ?andb_true_r; repeat (apply andb_true_iff; split);
    apply N.leb_le; lia.
Qed.

Lemma esc_app : forall q a b, esc q (a ++ b) = esc q a ++ esc q b.
Proof. intros. unfold esc. rewrite flat_map_app. reflexivity. Qed.

Lemma esc_high : forall q x, qok q -> forallb (fun c => 128 <=? c) x = true -> esc q x = x.
Proof.
  intros q x Hq. induction x as [|c x IH]; intros H; [reflexivity|].
  cbn [forallb] in H. apply andb_true_iff in H. destruct H as [Hc Hx]. apply N.leb_le in Hc.
  unfold esc in *. cbn [flat_map]. rewrite IH by assumption.
  unfold esc1, is_special. destruct Hq; subst q; brk; reflexivity.
Qed.

(* valid UTF-8 as a list of canonical segments *)
Definition canon_segs (l : list seg) : Prop :=
  Forall (fun sg : seg => valid_rune (fst sg) = true /\ snd sg = encode (fst sg)) l.

Lemma valid_utf8_canon : forall v, valid_utf8 v = true -> canon_segs (segs v).
Proof.
  intros v H. unfold valid_utf8 in H. rewrite forallb_forall in H.
  pose proof (is_segs_valid _ (is_segs_segs v)) as Hv. rewrite Forall_forall in Hv.
  apply Forall_forall. intros sg Hin. split; [apply Hv; assumption|].
  specialize (H _ Hin). unfold seg_canon in H. apply list_eqb_N_eq in H. exact H.
Qed.

(* ------------------------------------------------------------------ unquotePrefix on a rendered literal *)
Section Unquote.
  Variable q : N.
  Hypothesis Hq : qok q.

  Lemma q_lt : q < 128. Proof. destruct Hq; subst; lia. Qed.

  Lemma special_cases : forall c, is_special q c = true -> c = q \/ c = 92 \/ c = 42.
  Proof.
    intros c H. unfold is_special in H. apply orb_true_iff in H. destruct H as [H|H].
    - apply orb_true_iff in H. destruct H as [H|H]; apply N.eqb_eq in H; auto.
    - apply N.eqb_eq in H. auto.
  Qed.

  Lemma unquote_char_special : forall c P, is_special q c = true ->
    unquote_char (92 :: c :: P) q = Some (c, P).
  Proof.
    intros c P H. apply special_cases in H.
    destruct Hq; subst q; destruct H as [H|[H|H]]; subst c; reflexivity.
  Qed.

  Lemma unquote_char_plain : forall c P, c < 128 -> is_special q c = false ->
    unquote_char (c :: P) q = Some (c, P).
  Proof.
    intros c P Hc H. unfold is_special in H.
    apply orb_false_iff in H. destruct H as [H H42]. apply orb_false_iff in H. destruct H as [Hcq H92].
    unfold unquote_char. rewrite H42.
    assert (Hs : strconv_unquote_char (c :: P) q = Some (c, P)).
    { unfold strconv_unquote_char. rewrite Hcq. cbn [andb].
      replace (128 <=? c) with false by (symmetry; apply N.leb_gt; lia).
      rewrite H92. reflexivity. }
    destruct P as [|c1 t1]; [exact Hs|]. rewrite H92. cbn [andb]. exact Hs.
  Qed.

  Lemma unquote_char_rune : forall r P, 128 <= r -> valid_rune r = true ->
    unquote_char (encode r ++ P) q = Some (r, P).
  Proof.
    intros r P Hr Hv.
    pose proof (encode_high r Hr) as Hh. pose proof (dec1_encode r P Hv) as Hd.
    destruct (encode r) as [|c x] eqn:E; [exfalso; apply (encode_nonempty r); assumption|].
    cbn [forallb] in Hh. apply andb_true_iff in Hh. destruct Hh as [Hc _]. apply N.leb_le in Hc.
    cbn [app] in *. pose proof q_lt as Hql.
    assert (Hs : strconv_unquote_char (c :: x ++ P) q = Some (r, P)).
    { unfold strconv_unquote_char.
      replace (c =? q) with false by (symmetry; apply N.eqb_neq; lia). cbn [andb].
      replace (128 <=? c) with true by (symmetry; apply N.leb_le; lia).
      rewrite Hd. reflexivity. }
    unfold unquote_char.
    replace (c =? 42) with false by (symmetry; apply N.eqb_neq; lia).
    replace (c =? 92) with false by (symmetry; apply N.eqb_neq; lia). cbn [andb].
    destruct (x ++ P); exact Hs.
  Qed.

  Lemma uq_loop_render : forall l, canon_segs l -> forall fuel b remIdx rest,
    (length (esc q (raws l) ++ q :: rest) < fuel)%nat ->
    uq_loop fuel q (esc q (raws l) ++ q :: rest) b remIdx
    = ROk (q :: rest, b ++ raws l, (remIdx + length (esc q (raws l)))%nat).
  Proof.
    induction l as [|[r raw] l IH]; intros Hc fuel b remIdx rest Hf.
    - destruct fuel; [exfalso; eapply Nat.nlt_0_r; eassumption|]. cbn. rewrite N.eqb_refl, app_nil_r, Nat.add_0_r. reflexivity.
    - inversion Hc as [|? ? [Hv Hraw] Hc']; subst. cbn [fst snd] in *. subst raw.
      rewrite raws_cons, esc_app, <- app_assoc in Hf. rewrite raws_cons, esc_app, <- app_assoc.
      destruct fuel as [|f]; [exfalso; eapply Nat.nlt_0_r; eassumption|].
      destruct (r <? 128) eqn:Hr.
      + apply N.ltb_lt in Hr. rewrite (encode_ascii r Hr) in *.
        unfold esc at 1. unfold esc at 1 in Hf. cbn [flat_map app] in *. rewrite app_nil_r in *.
        unfold esc1 in *. destruct (is_special q r) eqn:Hs.
        * cbn [app uq_loop] in *.
          replace (92 =? q) with false by (symmetry; apply N.eqb_neq; destruct Hq; subst; lia).
          rewrite (unquote_char_special r _ Hs).
          rewrite IH; [| assumption | cbn [length] in Hf; lia].
          rewrite (encode_ascii r Hr).
          replace (esc q [r]) with [92; r] by (unfold esc, esc1; cbn [flat_map app]; rewrite Hs; reflexivity).
          rewrite <- app_assoc. cbn [app length].
          f_equal. f_equal. lia.
        * cbn [app uq_loop] in *.
          assert (Hrq : (r =? q) = false).
          { unfold is_special in Hs. apply orb_false_iff in Hs. destruct Hs as [Hs _].
            apply orb_false_iff in Hs. tauto. }
          rewrite Hrq. rewrite (unquote_char_plain r _ Hr Hs).
          rewrite IH; [| assumption | cbn [length] in Hf; lia].
          rewrite (encode_ascii r Hr).
          replace (esc q [r]) with [r] by (unfold esc, esc1; cbn [flat_map app]; rewrite Hs; reflexivity).
          rewrite <- app_assoc. cbn [app length].
          f_equal. f_equal. lia.
      + apply N.ltb_ge in Hr.
        pose proof (encode_high r Hr) as Hh.
        rewrite (esc_high q _ Hq Hh) in *.
        destruct (encode r) as [|c x] eqn:E; [exfalso; apply (encode_nonempty r); assumption|].
        cbn [app uq_loop].
        assert (Hcq : (c =? q) = false).
        { cbn [forallb] in Hh. apply andb_true_iff in Hh. destruct Hh as [Hc1 _]. apply N.leb_le in Hc1.
          pose proof q_lt. apply N.eqb_neq. lia. }
        rewrite Hcq.
        change (c :: x ++ esc q (raws l) ++ q :: rest) with ((c :: x) ++ esc q (raws l) ++ q :: rest).
        rewrite <- E. rewrite (unquote_char_rune r _ Hr Hv).
        rewrite IH; [| assumption |].
        * rewrite <- app_assoc. rewrite E. cbn [app]. f_equal. f_equal.
          change (c :: x ++ esc q (raws l) ++ q :: rest) with ((c :: x) ++ esc q (raws l) ++ q :: rest).
          change (c :: x ++ esc q (raws l)) with ((c :: x) ++ esc q (raws l)).
          rewrite !app_length. lia.
        * cbn [app length] in Hf. lia.
  Qed.

  Lemma index_byte_exists : forall a rest, exists e, index_byte q (a ++ q :: rest) = Some e.
  Proof.
    induction a as [|c a IH]; intros rest.
    - exists 0%nat. cbn. rewrite N.eqb_refl. reflexivity.
    - cbn [app index_byte]. destruct (c =? q); [eexists; reflexivity|].
      destruct (IH rest) as [e He]. rewrite He. eexists; reflexivity.
  Qed.

  (* the fast path is taken only when nothing had to be escaped *)
  Lemma idx_fast : forall v e rest, index_byte q (esc q v ++ q :: rest) = Some e ->
    need_unquote (firstn e (esc q v ++ q :: rest)) = false -> esc q v = v /\ e = length v.
  Proof.
    induction v as [|c v IH]; intros e rest Hi Hn.
    - cbn in Hi. rewrite N.eqb_refl in Hi. inversion Hi. split; reflexivity.
    - unfold esc in *. cbn [flat_map] in *. fold (esc q v) in *. unfold esc1 in *.
      destruct (is_special q c) eqn:Hs.
      + exfalso. cbn [app index_byte] in Hi.
        replace (92 =? q) with false in Hi by (symmetry; apply N.eqb_neq; destruct Hq; subst; lia).
        destruct (match index_byte q (c :: esc q v ++ q :: rest) with Some n => Some (S n) | None => None end)
          as [n|] eqn:E; [|discriminate].
        destruct (index_byte q (c :: esc q v ++ q :: rest)); [|discriminate].
        inversion E; subst. inversion Hi; subst. cbn [app firstn] in Hn.
        rewrite need_unquote_cons in Hn. discriminate.
      + cbn [app index_byte] in Hi.
        assert (Hcq : (c =? q) = false).
        { unfold is_special in Hs. apply orb_false_iff in Hs. destruct Hs as [Hs _].
          apply orb_false_iff in Hs. tauto. }
        rewrite Hcq in Hi.
        destruct (index_byte q (esc q v ++ q :: rest)) as [n|] eqn:E; [|discriminate].
        inversion Hi; subst. cbn [app firstn] in Hn. rewrite need_unquote_cons in Hn.
        apply orb_false_iff in Hn. destruct Hn as [_ Hn].
        destruct (IH n rest E Hn) as [H1 H2]. cbn [app]. rewrite H1, H2. split; reflexivity.
  Qed.

  Lemma firstn_app_len : forall (a b : list N), firstn (length a) (a ++ b) = a.
  Proof. induction a; intros; cbn; [reflexivity|]. rewrite IHa. reflexivity. Qed.
  Lemma skipn_app_len1 : forall (a : list N) x b, skipn (S (length a)) (a ++ x :: b) = b.
  Proof. induction a; intros; cbn; [reflexivity|]. apply IHa. Qed.

  (* unquotePrefix undoes render_q exactly, whatever follows the closing quote *)
  Lemma unquote_render : forall v rest, valid_utf8 v = true ->
    unquote_prefix (render_q q v ++ rest) = ROk (Some (v, rest)).
  Proof.
    intros v rest Hv. unfold render_q. cbn [app]. rewrite <- app_assoc. cbn [app].
    unfold unquote_prefix.
    replace (Nat.ltb (length (q :: esc q v ++ q :: rest)) 2) with false
      by (symmetry; apply Nat.ltb_ge; cbn [length]; rewrite app_length; cbn [length]; lia).
    replace (negb ((q =? 34) || (q =? 96) || (q =? 39))) with false by (destruct Hq; subst; reflexivity).
    destruct (index_byte_exists (esc q v) rest) as [e He]. rewrite He.
    destruct (need_unquote (firstn e (esc q v ++ q :: rest))) eqn:Hn; cbn [negb].
    - pose proof (uq_loop_render (segs v) (valid_utf8_canon v Hv) (S (length (esc q v ++ q :: rest))) [] 1%nat rest) as Hl.
      rewrite raws_segs in Hl. rewrite Hl by lia. cbn [rbind]. rewrite N.eqb_refl. cbn [negb app].
      f_equal. f_equal. f_equal.
      change (skipn (S (1 + length (esc q v))) (q :: esc q v ++ q :: rest))
        with (skipn (S (length (esc q v))) (esc q v ++ q :: rest)).
      apply skipn_app_len1.
    - destruct (idx_fast v e rest He Hn) as [H1 H2]. subst e. rewrite H1.
      rewrite firstn_app_len, skipn_app_len1. reflexivity.
  Qed.
End Unquote.
