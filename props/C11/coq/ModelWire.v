(* C11 — executable model, part 5: the WIRING from the configuration of the binary to the tokenizers of the
   index side and to the case rule of the query side. No proofs in this file.

   Transcribed from
     cmd/seq-db/flags.go      --max-token-size, --case-sensitive, --partial-indexing
     cmd/seq-db/seq-db.go     main():       conf.CaseSensitive = *flagCaseSensitive
                              startProxy(): bulk.IngestorConfig{ MaxTokenSize: *flagMaxTokenSize,
                                               CaseSensitive: *flagCaseSensitive,
                                               PartialFieldIndexing: *flagPartialFieldIndexing, .. }
     proxy/bulk/ingestor.go   NewIngestor(): the tokenizer map
                                 Text    -> NewTextTokenizer(c.MaxTokenSize, c.CaseSensitive, c.PartialFieldIndexing,
                                                             consts.MaxTextFieldValueLength)
                                 Keyword -> NewKeywordTokenizer(c.MaxTokenSize, c.CaseSensitive, c.PartialFieldIndexing)
                                 Path    -> NewPathTokenizer(c.MaxTokenSize, c.CaseSensitive, c.PartialFieldIndexing)
                                 Exists  -> NewExistsTokenizer()
     tokenizer/*_tokenizer.go the three constructors (POSITIONAL arguments -> struct fields) and the fields each
                              Tokenize method reads
     proxy/bulk/indexer.go    index(): `i.tokenizers[tokenType.TokenizerType]` — the tokenizer is looked up in the MAP
                              by the mapping type; a type without an entry is passed over
     parser/seqql_filter.go:38, parser/token_parser.go:217   caseSensitive := conf.CaseSensitive

   The constructors take their arguments by position (an int and two adjacent bools): the model keeps them as
   curried functions of the same argument order, so that a call with two arguments exchanged is a DIFFERENT term
   (wire_swapped_path below) — that is the seeded change C11-m10 the earlier machinery could not see, because the
   driver built the tokenizers itself. *)
From C11 Require Export Model ModelDoc.

(* consts.MaxTextFieldValueLength = 32 * 1024 *)
Definition MaxTextFieldValueLength : N := 32768.

(* ------------------------------------------------------------------ cmd/seq-db: the flags the wiring reads *)
Record flags := Flags {
  flagMaxTokenSize : N;              (* --max-token-size, default 72 *)
  flagCaseSensitive : bool;          (* --case-sensitive *)
  flagPartialFieldIndexing : bool    (* --partial-indexing *)
}.

(* bulk.IngestorConfig, the fields NewIngestor reads for tokenization *)
Record ingestor_config := IngestorConfig {
  MaxTokenSize : N;
  CaseSensitive : bool;
  PartialFieldIndexing : bool
}.

(* startProxy(): the struct literal *)
Definition start_proxy_bulk (f : flags) : ingestor_config :=
  {| MaxTokenSize := flagMaxTokenSize f;
     CaseSensitive := flagCaseSensitive f;
     PartialFieldIndexing := flagPartialFieldIndexing f |}.

(* main(): conf.CaseSensitive = *flagCaseSensitive — the package variable both parsers read *)
Definition main_conf_case_sensitive (f : flags) : bool := flagCaseSensitive f.

(* ------------------------------------------------------------------ tokenizer structs and constructors *)
Record keyword_tokenizer := KeywordTokenizer {
  kt_defaultMaxTokenSize : N; kt_caseSensitive : bool; kt_partialIndexing : bool }.
Record path_tokenizer := PathTokenizer {
  pt_defaultMaxTokenSize : N; pt_caseSensitive : bool; pt_partialIndexing : bool }.   (* separator = '/' *)
Record text_tokenizer := TextTokenizer {
  tt_maxTokenSize : N; tt_caseSensitive : bool; tt_partialIndexing : bool; tt_defaultMaxFieldValueLength : N }.

(* func NewKeywordTokenizer(maxTokenSize int, caseSensitive, partialIndexing bool) *)
Definition NewKeywordTokenizer (maxTokenSize : N) (caseSensitive partialIndexing : bool) : keyword_tokenizer :=
  {| kt_defaultMaxTokenSize := maxTokenSize; kt_caseSensitive := caseSensitive; kt_partialIndexing := partialIndexing |}.

(* func NewPathTokenizer(maxTokenSize int, caseSensitive bool, partialIndexing bool) *)
Definition NewPathTokenizer (maxTokenSize : N) (caseSensitive partialIndexing : bool) : path_tokenizer :=
  {| pt_defaultMaxTokenSize := maxTokenSize; pt_caseSensitive := caseSensitive; pt_partialIndexing := partialIndexing |}.

(* func NewTextTokenizer(maxTokenSize int, caseSensitive, partialIndexing bool, maxFieldValueLength int) *)
Definition NewTextTokenizer (maxTokenSize : N) (caseSensitive partialIndexing : bool) (maxFieldValueLength : N)
  : text_tokenizer :=
  {| tt_maxTokenSize := maxTokenSize; tt_caseSensitive := caseSensitive;
     tt_defaultMaxFieldValueLength := maxFieldValueLength; tt_partialIndexing := partialIndexing |}.

(* the receiver fields each Tokenize method reads, as the parameter record of the tokenizer models of Model.v
   (keyword and path never read a default field length: 0 stands for "not there") *)
Definition kw_icfg (t : keyword_tokenizer) : icfg :=
  ICfg (kt_caseSensitive t) (kt_partialIndexing t) (kt_defaultMaxTokenSize t) 0.
Definition path_icfg (t : path_tokenizer) : icfg :=
  ICfg (pt_caseSensitive t) (pt_partialIndexing t) (pt_defaultMaxTokenSize t) 0.
Definition text_icfg (t : text_tokenizer) : icfg :=
  ICfg (tt_caseSensitive t) (tt_partialIndexing t) (tt_maxTokenSize t) (tt_defaultMaxFieldValueLength t).

(* a value of the interface tokenizer.Tokenizer *)
Inductive tokenizer :=
| TkText (t : text_tokenizer) | TkKeyword (t : keyword_tokenizer) | TkPath (t : path_tokenizer) | TkExists.

(* map[seq.TokenizerType]tokenizer.Tokenizer *)
Definition tkmap := ttype -> option tokenizer.

(* NewIngestor(): the map literal *)
Definition new_ingestor_tokenizers (c : ingestor_config) : tkmap := fun ty =>
  match ty with
  | TyText => Some (TkText (NewTextTokenizer (MaxTokenSize c) (CaseSensitive c) (PartialFieldIndexing c) MaxTextFieldValueLength))
  | TyKeyword => Some (TkKeyword (NewKeywordTokenizer (MaxTokenSize c) (CaseSensitive c) (PartialFieldIndexing c)))
  | TyPath => Some (TkPath (NewPathTokenizer (MaxTokenSize c) (CaseSensitive c) (PartialFieldIndexing c)))
  | TyExists => Some TkExists
  | _ => None
  end.

(* the seeded change C11-m10: the two adjacent bool arguments of the path tokenizer exchanged *)
Definition new_ingestor_tokenizers_swapped_path (c : ingestor_config) : tkmap := fun ty =>
  match ty with
  | TyPath => Some (TkPath (NewPathTokenizer (MaxTokenSize c) (PartialFieldIndexing c) (CaseSensitive c)))
  | _ => new_ingestor_tokenizers c ty
  end.

(* ------------------------------------------------------------------ the wiring as one function *)
(* configuration of the binary -> (keyword_cfg, text_cfg, path_cfg, query_cfg): the parameter records the three
   tokenizer models run with, and the case rule of the query side *)
Definition cfg_of_map (tk : tkmap) (ty : ttype) : option icfg :=
  match tk ty with
  | Some (TkKeyword t) => Some (kw_icfg t)
  | Some (TkText t) => Some (text_icfg t)
  | Some (TkPath t) => Some (path_icfg t)
  | _ => None
  end.

Definition no_cfg : icfg := ICfg false false 0 0.
Definition get_cfg (o : option icfg) : icfg := match o with Some c => c | None => no_cfg end.

Definition wire (f : flags) : icfg * icfg * icfg * bool :=
  let tk := new_ingestor_tokenizers (start_proxy_bulk f) in
  (get_cfg (cfg_of_map tk TyKeyword), get_cfg (cfg_of_map tk TyText), get_cfg (cfg_of_map tk TyPath),
   main_conf_case_sensitive f).

Definition wire_swapped_path (f : flags) : icfg * icfg * icfg * bool :=
  let tk := new_ingestor_tokenizers_swapped_path (start_proxy_bulk f) in
  (get_cfg (cfg_of_map tk TyKeyword), get_cfg (cfg_of_map tk TyText), get_cfg (cfg_of_map tk TyPath),
   main_conf_case_sensitive f).

Definition keyword_cfg (w : icfg * icfg * icfg * bool) : icfg := fst (fst (fst w)).
Definition text_cfg (w : icfg * icfg * icfg * bool) : icfg := snd (fst (fst w)).
Definition path_cfg (w : icfg * icfg * icfg * bool) : icfg := snd (fst w).
Definition query_cfg (w : icfg * icfg * icfg * bool) : bool := snd w.

(* what the property calls "the configuration": one case mode, one partial-indexing flag, one token size; the
   findability theorems of Props.v are stated for ONE icfg used on both sides (cs c as the query's case rule) *)
Definition flags_cfg (f : flags) : icfg :=
  ICfg (flagCaseSensitive f) (flagPartialFieldIndexing f) (flagMaxTokenSize f) MaxTextFieldValueLength.

(* same three parameters the Tokenize method of this mapping type reads *)
Definition cfg_same_for (ty : ttype) (a b : icfg) : bool :=
  Bool.eqb (cs a) (cs b) && Bool.eqb (partial a) (partial b) && (max_tok a =? max_tok b)
  && match ty with TyText => def_field a =? def_field b | _ => true end.

Section Oracles.
  Variables (is_letter is_number : N -> bool) (to_lower : N -> N).

  (* Tokenizer.Tokenize dispatched on the dynamic type: (token values, value bytes afterwards) *)
  Definition tk_tokenize (t : tokenizer) (fmax : N) (v : list N) : list (list N) * list N :=
    match t with
    | TkKeyword k => kw_tokenize to_lower (kw_icfg k) fmax v
    | TkText x => text_tokenize is_letter is_number to_lower (text_icfg x) fmax v
    | TkPath p => path_tokenize to_lower (path_icfg p) fmax v
    | TkExists => ([], v)
    end.

  (* indexer.index with the tokenizer MAP: `if _, has := i.tokenizers[ty]; !has { continue }` *)
  Fixpoint index_types_w (tk : tkmap) (all : list mtype) (key : list N) (value : option (list N)) : list token :=
    match all with
    | [] => []
    | (title, ty, mx) :: rest =>
      match tk ty with
      | Some t =>
        let ttl := title_of title key in
        match value with
        | Some v =>
          let (toks, v') := tk_tokenize t mx v in
          map (pair ttl) toks ++ (K_EXISTS, ttl) :: index_types_w tk rest key (Some v')
        | None => (K_EXISTS, ttl) :: index_types_w tk rest key None
        end
      | None => index_types_w tk rest key value
      end
    end.

  (* decodeTags / decodeInternal / Index with the tokenizer map (same traversal as ModelDoc.dec) *)
  Definition tag_tokens_w (tk : tkmap) (m : mapping) (name : list N) (el : jval) : list token :=
    let fs := match el with JObj fs _ => fs | _ => [] end in
    let k := match dig fs [107; 101; 121] with Some n => jbytes n | None => [] end in
    let v := match dig fs [118; 97; 108; 117; 101] with Some n => jvalue n | None => None end in
    let fname := name ++ Dot :: k in
    index_types_w tk (snd (mlookup m fname)) fname v.

  Fixpoint dec_w (tk : tkmap) (m : mapping) (name : list N) (n : jval) {struct n}
    : list token * list (list token) :=
    match n with
    | JObj fs _ =>
      (fix go (fs : list (list N * jval)) : list token * list (list token) :=
         match fs with
         | [] => ([], [])
         | (k, v) :: r =>
           let fname := join name k in
           let mt := mlookup m fname in
           let here :=
             match fst mt, v with
             | TyNoop, _ => ([], [])
             | TyObject, JObj _ _ => dec_w tk m fname v
             | TyTags, JArr els _ => (flat_map (tag_tokens_w tk m fname) els, [])
             | TyNested, JArr els _ =>
               ([], (fix each (els : list jval) : list (list token) :=
                       match els with
                       | [] => []
                       | e :: er =>
                         let (t, ms) := dec_w tk m fname e in
                         (((K_ALL, []) :: t) :: ms) ++ each er
                       end) els)
             | _, _ => (index_types_w tk (snd mt) fname (jvalue v), [])
             end in
           let (t2, m2) := go r in
           (fst here ++ t2, snd here ++ m2)
         end) fs
    | _ => ([], [])
    end.

  Definition doc_metas_w (tk : tkmap) (m : mapping) (doc : jval) : list (list token) :=
    let (t0, ms) := dec_w tk m [] doc in
    ((K_ALL, []) :: t0) :: map (fun mt => mt ++ t0) ms.

  (* the binary started with flags f: what the bulk path indexes for a document, and what a query means *)
  Definition binary_tokenizers (f : flags) : tkmap := new_ingestor_tokenizers (start_proxy_bulk f).
  Definition binary_doc_metas (f : flags) (m : mapping) (doc : jval) : list (list token) :=
    doc_metas_w (binary_tokenizers f) m doc.
  (* tokens of a single value under mapping type ty with per-field size fmax *)
  Definition binary_tokenize (f : flags) (ty : ttype) (fmax : N) (v : list N) : list (list N) :=
    match binary_tokenizers f ty with Some t => fst (tk_tokenize t fmax v) | None => [] end.
  Definition binary_query (legacy : bool) (f : flags) (ty : ttype) (s : list N) : option (list (list term)) :=
    (if legacy then lquery_lits is_letter is_number to_lower else query_lits is_letter is_number to_lower)
      ty (main_conf_case_sensitive f) s.

  (* the same with the seeded wiring *)
  Definition swapped_tokenize (f : flags) (ty : ttype) (fmax : N) (v : list N) : list (list N) :=
    match new_ingestor_tokenizers_swapped_path (start_proxy_bulk f) ty with
    | Some t => fst (tk_tokenize t fmax v) | None => [] end.
End Oracles.
