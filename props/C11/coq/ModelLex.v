(* C11 — executable model, part 3: from query TEXT to literals. No proofs in this file.
   (a) the SeqQL lexer's string handling, parser/seqql.go: lexer.Next (spaces, comments, simple tokens, `*`,
       quoted tokens, raw tokens, one-rune tokens), unquotePrefix (fast and slow path), needUnquote, unquoteChar
       (`\*`, bare `*` = U+E000), strconv.UnquoteChar (all escapes), strconv.QuotedPrefix for back quotes;
   (b) parser/seqql_filter.go: parseCompositeToken / isCompositeToken, parseSeqQLFieldFilter (case rule fixed
       before the form is looked at), parseFulltextSearchFilter, parseFilterIn; token_range.go:
       parseSeqQLTokenRange / parseRangeTerm — for a query that consists of ONE field filter (the shape
       `f:<literal>`, `f:in(..)`, `f:[a to b]`; anything else is reported as outside the fragment, RUnsup);
   (c) the legacy parser's term scanning, parser/token_parser.go: []rune conversion, parseSimpleTerm (field
       name), parseTokenQuery, parseLiteral, parseQuotedTerms, parseTerms with keywordTokenBuilder /
       textTokenBuilder (term_builder.go) — again for a query that is one `field:literal`;
   (d) the renderers the harness uses to write a value as a literal (hC11 quote(): double, single, back quote
       with a double-quoted back quote spliced in, bare, double with random escapes; legacyQuote()).
   The model follows the Go code branch by branch; string positions are kept as (taken, rest) pairs instead of
   indices (q[:n], q[n:]); it is tied to the code by the classes lex / qtext / roundtrip of the correspondence
   run. The lexer's own arithmetic (remIdx) is kept as in the code. Same design as props/C12/coq/Lexer.v,
   re-modelled here over the UTF-8 functions of Model.v. *)
From C11 Require Export Model ModelDoc.

Inductive R (A : Type) := ROk (a : A) | RErr | RUnsup | RFuel.
Arguments ROk {A} a. Arguments RErr {A}. Arguments RUnsup {A}. Arguments RFuel {A}.
Definition rbind {A B} (m : R A) (f : A -> R B) : R B :=
  match m with ROk a => f a | RErr => RErr | RUnsup => RUnsup | RFuel => RFuel end.
Notation "'do' x <- m ; f" := (rbind m (fun x => f))
  (at level 200, x pattern, m at level 100, f at level 200, right associativity).

Definition bytes := list N.

(* utf8.DecodeRuneInString(q): rune, the bytes q[:size], the rest q[size:]; "" gives (RuneError, 0) *)
Definition dec1 (q : bytes) : N * bytes * bytes :=
  match step q with Some x => x | None => (RuneError, [], []) end.

(* strings.IndexByte *)
Fixpoint index_byte (b : N) (s : bytes) : option nat :=
  match s with
  | [] => None
  | x :: t => if x =? b then Some 0%nat
              else match index_byte b t with Some n => Some (S n) | None => None end
  end.
Definition contains_byte (b : N) (s : bytes) : bool :=
  match index_byte b s with Some _ => true | None => false end.

Definition wildcard_bytes : bytes := [238; 128; 128].   (* string(wildcardRune) *)

(* ------------------------------------------------------------------ strconv.UnquoteChar *)
Definition unhex (c : N) : option N :=
  if (48 <=? c) && (c <=? 57) then Some (c - 48)
  else if (97 <=? c) && (c <=? 102) then Some (c - 97 + 10)
  else if (65 <=? c) && (c <=? 70) then Some (c - 65 + 10)
  else None.

Fixpoint hexval (n : nat) (s : bytes) (v : N) : option (N * bytes) :=
  match n with
  | O => Some (v, s)
  | S n' => match s with
            | [] => None
            | c :: t => match unhex c with Some x => hexval n' t (v * 16 + x) | None => None end
            end
  end.

Definition octdigit (c : N) : option N := if (48 <=? c) && (c <=? 55) then Some (c - 48) else None.

(* (value, tail); None = ErrSyntax *)
Definition strconv_unquote_char (s : bytes) (quote : N) : option (N * bytes) :=
  match s with
  | [] => None
  | c :: t =>
    if (c =? quote) && ((quote =? 39) || (quote =? 34)) then None
    else if 128 <=? c then let '(r, _, rest) := dec1 s in Some (r, rest)
    else if negb (c =? 92) then Some (c, t)
    else match t with
         | [] => None
         | c1 :: s2 =>
           if c1 =? 97 then Some (7, s2)
           else if c1 =? 98 then Some (8, s2)
           else if c1 =? 102 then Some (12, s2)
           else if c1 =? 110 then Some (10, s2)
           else if c1 =? 114 then Some (13, s2)
           else if c1 =? 116 then Some (9, s2)
           else if c1 =? 118 then Some (11, s2)
           else if c1 =? 120 then hexval 2 s2 0
           else if (c1 =? 117) || (c1 =? 85) then
             match hexval (if c1 =? 117 then 4 else 8) s2 0 with
             | Some (v, s3) => if valid_rune v then Some (v, s3) else None
             | None => None
             end
           else if (48 <=? c1) && (c1 <=? 55) then
             match s2 with
             | d1 :: d2 :: s3 =>
                 match octdigit d1, octdigit d2 with
                 | Some x1, Some x2 =>
                     let v := ((c1 - 48) * 8 + x1) * 8 + x2 in
                     if 255 <? v then None else Some (v, s3)
                 | _, _ => None
                 end
             | _ => None
             end
           else if c1 =? 92 then Some (92, s2)
           else if (c1 =? 39) || (c1 =? 34) then
             if c1 =? quote then Some (c1, s2) else None
           else None
         end
  end.

(* seqql.go unquoteChar: `\*` is an asterisk, a bare `*` is the wildcard rune *)
Definition unquote_char (s : bytes) (quote : N) : option (N * bytes) :=
  match s with
  | c :: t =>
    if c =? 42 then Some (WildcardRune, t)
    else match t with
         | c1 :: t1 => if (c =? 92) && (c1 =? 42) then Some (42, t1)
                       else strconv_unquote_char s quote
         | [] => strconv_unquote_char s quote
         end
  | [] => strconv_unquote_char s quote
  end.

Definition need_unquote (s : bytes) : bool := contains_byte 92 s || contains_byte 42 s.

(* slow path loop of unquotePrefix: (prefix, b, remIdx) at loop exit *)
Fixpoint uq_loop (fuel : nat) (quote : N) (prefix b : bytes) (remIdx : nat) : R (bytes * bytes * nat) :=
  match fuel with
  | O => RFuel
  | S f =>
    match prefix with
    | [] => ROk (prefix, b, remIdx)
    | c :: pt =>
      if c =? quote then ROk (prefix, b, remIdx)
      else match unquote_char prefix quote with
           | None => uq_loop f quote pt (b ++ [92]) (S remIdx)
           | Some (ch, tail) => uq_loop f quote tail (b ++ encode ch) (remIdx + (length prefix - length tail))
           end
    end
  end.

(* unquotePrefix: ROk None = ErrSyntax *)
Definition unquote_prefix (q : bytes) : R (option (bytes * bytes)) :=
  if Nat.ltb (length q) 2 then ROk None else
  match q with
  | [] => ROk None
  | quote :: q1 =>
    if negb ((quote =? 34) || (quote =? 96) || (quote =? 39)) then ROk None else
    match index_byte quote q1 with
    | None => ROk None
    | Some e =>
      let content := firstn e q1 in
      if negb (need_unquote content) then ROk (Some (content, skipn (S e) q1))
      else
        do st <- uq_loop (S (length q1)) quote q1 [] 1;
        let '(prefix, b, remIdx) := st in
        match prefix with
        | [] => ROk None
        | c :: _ => if negb (c =? quote) then ROk None else ROk (Some (b, skipn (S remIdx) q))
        end
    end
  end.

(* strconv.QuotedPrefix on a back-quoted prefix: (content between the quotes, rest) *)
Definition quoted_prefix_raw (q : bytes) : option (bytes * bytes) :=
  if Nat.ltb (length q) 2 then None else
  match q with
  | [] => None
  | quote :: q1 =>
    match index_byte quote q1 with
    | None => None
    | Some e => Some (firstn e q1, skipn (S e) q1)
    end
  end.

(* ------------------------------------------------------------------ lexer.Next *)
Record ltok := mkTok { t_txt : bytes; t_quoted : bool; t_raw : bool; t_space : bool }.

Section Lex.
  Variables is_space is_letter is_digit is_number : N -> bool.
  Variable to_lower : N -> N.

  Definition is_token_rune (r : N) : bool := is_letter r || is_digit r || (r =? 95) || (r =? 46).

  (* for unicode.IsSpace(r) { q = q[size:]; r, size = decode(q); SpaceSkipped = true } *)
  Fixpoint skip_spaces (fuel : nat) (q : bytes) (sp : bool) : R (bytes * bool) :=
    match fuel with
    | O => RFuel
    | S f => let '(r, _, rest) := dec1 q in
             if is_space r then skip_spaces f rest true else ROk (q, sp)
    end.

  (* for isTokenRune(r) { tokenLen += size; r, size = decode(q[tokenLen:]) }: (q[:tokenLen], q[tokenLen:]) *)
  Fixpoint scan_token (fuel : nat) (rest acc : bytes) : R (bytes * bytes) :=
    match fuel with
    | O => RFuel
    | S f => let '(r, raw, rest') := dec1 rest in
             if is_token_rune r then scan_token f rest' (acc ++ raw) else ROk (acc, rest)
    end.

  Fixpoint next (fuel : nat) (q : bytes) (sp : bool) : R (ltok * bytes) :=
    match fuel with
    | O => RFuel
    | S f =>
      let '(r0, raw0, rest0) := dec1 q in
      if r0 =? RuneError then ROk (mkTok raw0 false false sp, rest0)
      else
        do st <- skip_spaces (S (length q)) q sp;
        let '(q1, sp1) := st in
        let '(r, raw, rest) := dec1 q1 in
        if r =? 35 then
          match index_byte 10 (tl q1) with
          | None => next f [] sp1
          | Some n => next f (skipn (n + 1) q1) sp1
          end
        else
          do sc <- scan_token (S (length q1)) q1 [];
          let '(tok, after) := sc in
          if nonempty tok then ROk (mkTok tok false false sp1, after)
          else if r =? 42 then ROk (mkTok wildcard_bytes false false sp1, rest)
          else if (r =? 39) || (r =? 34) then
            do u <- unquote_prefix q1;
            match u with
            | None => ROk (mkTok (firstn 1 q1) false false sp1, skipn 1 q1)
            | Some (out, rem) => ROk (mkTok out true false sp1, rem)
            end
          else if r =? 96 then
            match quoted_prefix_raw q1 with
            | None => ROk (mkTok (firstn 1 q1) false false sp1, skipn 1 q1)
            | Some (t, rem) => ROk (mkTok t true true sp1, rem)
            end
          else ROk (mkTok raw false false sp1, rest)
    end.

  (* lex.IsEnd() *)
  Definition is_end (t : ltok) (q : bytes) : bool :=
    match q, t_txt t with [], [] => negb (t_quoted t) | _, _ => false end.

  (* Next until IsEnd *)
  Fixpoint lex_all (fuel : nat) (q : bytes) : R (list ltok) :=
    match fuel with
    | O => RFuel
    | S f =>
      do st <- next (S (length q)) q false;
      let '(t, q') := st in
      if is_end t q' then ROk []
      else do ts <- lex_all f q'; ROk (t :: ts)
    end.
  Definition lex (q : bytes) : R (list ltok) := lex_all (S (length q)) q.

  (* ------------------------------------------------------------------ keywords, composite tokens *)
  (* strings.EqualFold against an ASCII keyword: ASCII folding plus U+017F -> s, U+212A -> k *)
  Fixpoint fold_norm (s : bytes) : bytes :=
    match s with
    | [] => []
    | c :: t =>
      let dflt := (if (65 <=? c) && (c <=? 90) then c + 32 else c) :: fold_norm t in
      match t with
      | c1 :: t1 =>
        if (c =? 197) && (c1 =? 191) then 115 :: fold_norm t1
        else match t1 with
             | c2 :: t2 => if (c =? 226) && (c1 =? 132) && (c2 =? 170) then 107 :: fold_norm t2 else dflt
             | [] => dflt
             end
      | [] => dflt
      end
    end.

  Definition end_tok : ltok := mkTok [] false false false.
  Definition cur (ts : list ltok) : ltok := match ts with [] => end_tok | t :: _ => t end.
  Definition is_kw (kw : bytes) (t : ltok) : bool := negb (t_quoted t) && list_eqb_N (fold_norm (t_txt t)) kw.
  Definition is_kws (kws : list bytes) (t : ltok) : bool := existsb (fun k => is_kw k t) kws.

  Definition kw_and : bytes := [97; 110; 100].
  Definition kw_or : bytes := [111; 114].
  Definition kw_not : bytes := [110; 111; 116].
  Definition kw_in : bytes := [105; 110].
  Definition kw_to : bytes := [116; 111].
  Definition kw_lp : bytes := [40].
  Definition kw_rp : bytes := [41].
  Definition kw_lb : bytes := [91].
  Definition kw_rb : bytes := [93].
  Definition kw_comma : bytes := [44].
  Definition kw_colon : bytes := [58].
  Definition kw_pipe : bytes := [124].

  (* isCompositeToken *)
  Definition is_composite (t : ltok) : bool :=
    if is_kw [] t then false
    else match t_txt t with
         | [] => true
         | txt =>
           let '(r, _, rest) := dec1 txt in
           if Nat.ltb 1 (length rest) || t_quoted t then true
           else is_token_rune r || (r =? 45) || (r =? 42) || (r =? WildcardRune)
         end.

  Fixpoint join_composite (ts : list ltok) (acc : bytes) : bytes * list ltok :=
    match ts with
    | [] => (acc, [])
    | t :: r => if negb (t_space t) && is_composite t then join_composite r (acc ++ t_txt t) else (acc, ts)
    end.

  (* parseCompositeToken *)
  Definition parse_composite (ts : list ltok) : R (bytes * list ltok) :=
    let c := cur ts in
    if is_kw [] c then RErr
    else if negb (is_composite c) then RErr
    else ROk (join_composite (tl ts) (t_txt c)).

  (* strings.ReplaceAll(s, string(wildcardRune), "*") *)
  Fixpoint replace_wild (s : bytes) : bytes :=
    match s with
    | [] => []
    | c :: t =>
      match t with
      | c1 :: c2 :: t2 => if (c =? 238) && (c1 =? 128) && (c2 =? 128) then 42 :: replace_wild t2
                          else c :: replace_wild t
      | _ => c :: replace_wild t
      end
    end.

  (* ------------------------------------------------------------------ one field filter *)
  Inductive qform :=
  | QPlain (lits : list (list term))
  | QIn (members : list (list (list term)))
  | QRange (from to : term) (inc_from inc_to : bool).

  Variable ftype : bytes -> ttype.          (* indexType(mapping, field) *)
  Variable case_sensitive : bool.           (* conf.CaseSensitive *)

  (* parseFulltextSearchFilter *)
  Definition fulltext (t : ttype) (sens : bool) (ts : list ltok) : R (list (list term) * list ltok) :=
    do st <- parse_composite ts;
    let '(value, ts') := st in
    match query_lits is_letter is_number to_lower t sens value with
    | Some lits => ROk (lits, ts')
    | None => RErr
    end.

  Fixpoint in_loop (fuel : nat) (t : ttype) (sens : bool) (ts : list ltok) (acc : list (list (list term)))
    : R (list (list (list term)) * list ltok) :=
    match fuel with
    | O => RFuel
    | S f =>
      if is_kw kw_comma (cur ts) then
        do st <- fulltext t sens (tl ts);
        let '(e, ts') := st in
        in_loop f t sens ts' (acc ++ [e])
      else ROk (acc, ts)
    end.

  (* parseFilterIn, after `in` was consumed *)
  Definition filter_in (t : ttype) (sens : bool) (ts : list ltok) : R (list (list (list term)) * list ltok) :=
    if negb (is_kw kw_lp (cur ts)) then RErr else
    let ts1 := tl ts in
    if is_kw kw_rp (cur ts1) then RErr else
    do st <- fulltext t sens ts1;
    let '(e, ts2) := st in
    do st2 <- in_loop (S (length ts2)) t sens ts2 [e];
    let '(es, ts3) := st2 in
    if negb (is_kw kw_rp (cur ts3)) then RErr else ROk (es, tl ts3).

  (* parseRangeTerm *)
  Definition range_bound (sens : bool) (ts : list ltok) : R (term * list ltok) :=
    do st <- parse_composite ts;
    let '(value, ts') := st in
    match qkw to_lower sens value with
    | [t] => ROk (t, ts')
    | [] => ROk (TText [], ts')
    | _ => RErr
    end.

  (* parseSeqQLTokenRange (IncludeFrom / IncludeTo are returned as flags) *)
  Definition token_range (sens : bool) (ts : list ltok) : R (term * term * bool * bool * list ltok) :=
    if negb (is_kws [kw_lp; kw_lb] (cur ts)) then RErr else
    let incf := list_eqb_N (t_txt (cur ts)) kw_lb in
    do st1 <- range_bound sens (tl ts);
    let '(from, ts1) := st1 in
    if negb (is_kws [kw_comma; kw_to] (cur ts1)) then RErr else
    do st2 <- range_bound sens (tl ts1);
    let '(to, ts2) := st2 in
    if negb (is_kws [kw_rp; kw_rb] (cur ts2)) then RErr else
    ROk (from, to, incf, list_eqb_N (t_txt (cur ts2)) kw_rb, tl ts2).

  (* after the filter: end of query, or something this model does not follow (and / or / pipes / `)`) *)
  Definition finish {A} (a : A) (rest : list ltok) : R A :=
    match rest with
    | [] => ROk a
    | t :: _ => if is_kws [kw_and; kw_or; kw_pipe] t then RUnsup else RErr
    end.

  (* ParseSeqQL on a query that is one field filter: parseSeqQLFilter -> parseSeqQLSubexpr ->
     parseSeqQLFieldFilter *)
  Definition single_filter (ts : list ltok) : R qform :=
    let c := cur ts in
    match ts with [] => RErr | _ =>
    if is_kw wildcard_bytes c || is_kw kw_lp c || is_kw kw_not c then RUnsup else
    match parse_composite ts with
    | ROk (name0, ts1) =>
      let name := replace_wild name0 in
      match name with
      | [] => RErr
      | _ =>
        let t := ftype name in
        match t with
        | TyNoop => RErr
        | _ =>
          if negb (is_kw kw_colon (cur ts1)) then RErr else
          let ts2 := tl ts1 in
          if is_kw [] (cur ts2) then RErr else
          let sens := case_sensitive || list_eqb_N name K_EXISTS in
          if is_kws [kw_lb; kw_lp] (cur ts2) then
            do st <- token_range sens ts2;
            let '(from, to, incf, inct, rest) := st in
            finish (QRange from to incf inct) rest
          else if is_kw kw_in (cur ts2) then
            do st <- filter_in t sens (tl ts2);
            let '(ms, rest) := st in finish (QIn ms) rest
          else
            do st <- fulltext t sens ts2;
            let '(lits, rest) := st in finish (QPlain lits) rest
        end
      end
    | _ => RErr
    end end.

  Definition seqql_filter_text (q : bytes) : R qform :=
    do lts <- lex q; single_filter lts.

  (* ------------------------------------------------------------------ legacy parser, one `field:literal` *)
  (* the query as []rune *)
  Definition runes_of (q : bytes) : list N := map fst (segs q).

  Definition special_symbol (r : N) : bool :=
    (r =? 40) || (r =? 41) || (r =? 123) || (r =? 125) || (r =? 91) || (r =? 93) || (r =? 42) || (r =? 34)
    || (r =? 92) || (r =? 58).
  Definition graylog_escaped (r : N) : bool := (r =? 45) || (r =? 47).
  Definition quote_escaped (r : N) : bool := (r =? 34) || (r =? 92) || (r =? 42).

  Fixpoint lskip (rs : list N) : list N :=
    match rs with r :: t => if is_space r then lskip t else rs | [] => [] end.

  (* parseSimpleTerm: (word, rest after the spaces) *)
  Fixpoint simple_term (rs : list N) (acc : list N) : list N * list N :=
    match rs with
    | r :: t => if is_space r || special_symbol r then (acc, lskip rs) else simple_term t (acc ++ [r])
    | [] => (acc, [])
    end.

  (* the builders see a sequence of events *)
  Inductive lev := LRune (r : N) | LWild.

  (* parseQuotedTerms after the opening quote: events, rest after the closing quote and spaces; None = error *)
  Fixpoint quoted_terms (rs : list N) (acc : list lev) : option (list lev * list N) :=
    match rs with
    | [] => None
    | r :: t =>
      if r =? 92 then
        match t with
        | [] => None
        | r1 :: t1 => if quote_escaped r1 then quoted_terms t1 (acc ++ [LRune r1])
                      else quoted_terms t1 (acc ++ [LRune 92; LRune r1])
        end
      else if r =? 42 then quoted_terms t (acc ++ [LWild])
      else if r =? 34 then Some (acc, lskip t)
      else quoted_terms t (acc ++ [LRune r])
    end.

  (* parseTerms (unquoted) *)
  Fixpoint bare_terms (rs : list N) (acc : list lev) : option (list lev * list N) :=
    match rs with
    | [] => Some (acc, [])
    | r :: t =>
      if r =? 42 then bare_terms t (acc ++ [LWild])
      else if r =? 92 then
        match t with
        | [] => None
        | r1 :: t1 => if is_space r1 || special_symbol r1 || graylog_escaped r1 then bare_terms t1 (acc ++ [LRune r1])
                      else None
        end
      else if is_space r || special_symbol r then Some (acc, lskip rs)
      else bare_terms t (acc ++ [LRune r])
    end.

  Definition lowr2 (sens : bool) (r : N) : N := if sens then r else to_lower r.

  (* keywordTokenBuilder: terms of the one literal; None = "duplicate wildcard" *)
  Fixpoint lkw_build (sens : bool) (evs : list lev) (tm : bytes) (terms : list term) : option (list term) :=
    match evs with
    | [] => Some (terms ++ (if nonempty tm then [TText tm] else []))
    | LRune r :: t => lkw_build sens t (tm ++ encode (lowr2 sens r)) terms
    | LWild :: t =>
      if negb (nonempty tm) && match last terms (TText []) with TStar => nonempty terms | _ => false end then None
      else lkw_build sens t [] (terms ++ (if nonempty tm then [TText tm] else []) ++ [TStar])
    end.

  (* textTokenBuilder *)
  Fixpoint ltext_build (sens : bool) (evs : list lev) (tm : bytes) (terms : list term) (toks : list (list term))
    : list (list term) :=
    let fin_term := terms ++ (if nonempty tm then [TText tm] else []) in
    match evs with
    | [] => toks ++ (if nonempty fin_term then [fin_term] else [])
    | LRune r :: t =>
      if is_word_rune is_letter is_number r then ltext_build sens t (tm ++ encode (lowr2 sens r)) terms toks
      else ltext_build sens t [] [] (toks ++ (if nonempty fin_term then [fin_term] else []))
    | LWild :: t =>
      if negb (nonempty tm) && match last terms (TText []) with TStar => nonempty terms | _ => false end
      then ltext_build sens t [] [TStar] (toks ++ (if nonempty fin_term then [fin_term] else []))
      else ltext_build sens t [] (fin_term ++ [TStar]) toks
    end.

  (* strings.ToLower of a simple term compared with and / or; strings.EqualFold with not *)
  Definition lfold (w : list N) : bytes := fold_norm (concat (map encode w)).

  (* ParseQuery on `field:literal` with nothing after it *)
  Definition legacy_filter_text (q : bytes) : R (list (list term)) :=
    let rs := lskip (runes_of q) in
    match rs with
    | [] => RErr
    | r0 :: _ =>
      if r0 =? 40 then RUnsup else
      let '(name, rs1) := simple_term rs [] in
      if list_eqb_N (lfold name) kw_not then RUnsup else
      match name with
      | [] => RErr
      | _ =>
        let fname := concat (map encode name) in
        let t := ftype fname in
        match t with
        | TyNoop => RErr
        | _ =>
          match rs1 with
          | [] => RErr
          | c :: rs2 =>
            if negb (c =? 58) then RErr else
            let rs3 := lskip rs2 in
            let sens := case_sensitive || list_eqb_N fname K_EXISTS in
            match rs3 with
            | [] => RErr
            | r :: after =>
              if (r =? 91) || (r =? 123) then RUnsup else
              match t with
              | TyKeyword | TyPath | TyText =>
                let scanned := if r =? 34 then quoted_terms after [] else bare_terms rs3 [] in
                match scanned with
                | None => RErr
                | Some (evs, rest) =>
                  let lits :=
                    match t with
                    | TyText => Some (ltext_build sens evs [] [] [])
                    | _ => match lkw_build sens evs [] [] with
                           | Some [] => Some []
                           | Some ts => Some [ts]
                           | None => None
                           end
                    end in
                  let final :=
                    match lits with
                    | None => None
                    | Some [] => if r =? 34 then Some [[TText []]] else None
                    | Some ls => Some ls
                    end in
                  match final with
                  | None => RErr
                  | Some ls =>
                    match rest with
                    | [] => ROk ls
                    | _ => RUnsup      (* something after the literal: outside the fragment *)
                    end
                  end
                end
              | _ => RErr
              end
            end
          end
        end
      end
    end.
End Lex.

(* ------------------------------------------------------------------ renderers of the harness *)
Inductive style := StDouble | StSingle | StRaw | StBare | StDoubleEsc (choices : list bool).

Definition is_special (q c : N) : bool := (c =? q) || (c =? 92) || (c =? 42).
Definition esc1 (q c : N) : bytes := if is_special q c then [92; c] else [c].
Definition esc (q : N) (v : bytes) : bytes := flat_map (esc1 q) v.
Definition render_q (q : N) (v : bytes) : bytes := q :: esc q v ++ [q].

(* raw strings cannot hold a back quote: the value is split at back quotes and a double-quoted back quote
   (bytes 34 96 34) is spliced between the raw parts *)
Fixpoint split96 (v : bytes) : list bytes :=
  match v with
  | [] => [[]]
  | c :: t => if c =? 96 then [] :: split96 t
              else match split96 t with p :: r => (c :: p) :: r | [] => [[c]] end
  end.
Definition raw_part (p : bytes) : bytes := if nonempty p then 96 :: p ++ [96] else [].
Fixpoint raw_more (ps : list bytes) : bytes :=
  match ps with [] => [] | p :: r => [34; 96; 34] ++ raw_part p ++ raw_more r end.
Definition render_raw (v : bytes) : bytes :=
  match split96 v with
  | [p] => 96 :: p ++ [96]
  | p :: r => raw_part p ++ raw_more r
  | [] => []
  end.

Definition hexdigit (n : N) : N := if n <? 10 then 48 + n else 87 + n.
Fixpoint hexn (k : nat) (x : N) : bytes :=    (* %0kx *)
  match k with O => [] | S k' => hexn k' (x / 16) ++ [hexdigit (x mod 16)] end.

(* one decoded unit of the value in the double-escaped style; esc = the random choice made for it *)
Definition esc_unit (choice : bool) (sg : seg) : bytes :=
  let '(r, raw) := sg in
  let c := first_byte raw in
  if c <? 128 then
    if is_special 34 c then [92; c]
    else if (c <? 32) || choice then
      if c =? 10 then [92; 110] else if c =? 9 then [92; 116] else [92; 120] ++ hexn 2 c
    else [c]
  else if negb (r =? RuneError) && choice then
    if 65535 <? r then [92; 85] ++ hexn 8 r else [92; 117] ++ hexn 4 r
  else raw.
Fixpoint esc_units (choices : list bool) (l : list seg) : bytes :=
  match l with
  | [] => []
  | sg :: l' => esc_unit (hd false choices) sg ++ esc_units (tl choices) l'
  end.
Definition render_esc (choices : list bool) (v : bytes) : bytes := 34 :: esc_units choices (segs v) ++ [34].

Definition render (st : style) (v : bytes) : bytes :=
  match st with
  | StDouble => render_q 34 v
  | StSingle => render_q 39 v
  | StRaw => render_raw v
  | StBare => v
  | StDoubleEsc ch => render_esc ch v
  end.

(* legacyQuote: double quote, the value with double quote / backslash / asterisk escaped by a backslash, double quote *)
Definition render_legacy (v : bytes) : bytes := render_q 34 v.

(* ------------------------------------------------------------------ instantiation *)
Definition go_is_space : N -> bool := rmem space_tree.
Definition go_is_digit : N -> bool := rmem digit_tree.
Definition m_lex := lex go_is_space go_is_letter go_is_digit.
Definition m_seqql_text := seqql_filter_text go_is_space go_is_letter go_is_digit go_is_number go_to_lower.
Definition m_legacy_text := legacy_filter_text go_is_space go_is_letter go_is_number go_to_lower.
