(* C11 — multi-type fields: in-place lower-casing keeps the UTF-8 segmentation of ANY byte string. *)
From Coq Require Import List Bool NArith Lia.
From C11 Require Import Model ModelDoc ModelMulti ProofsUtf8 ProofsLower.
Open Scope N_scope.

(* what follows an invalid lead byte, before and after rewriting: a common run of continuation bytes (never
   rewritten), then the end of both strings or a non-continuation byte in both *)
Inductive tail_rel : list N -> list N -> Prop :=
| tr_nil : tail_rel [] []
| tr_cont c t t' : cont c = true -> tail_rel t t' -> tail_rel (c :: t) (c :: t')
| tr_stop x y t t' : cont x = false -> cont y = false -> tail_rel (x :: t) (y :: t').

Lemma noncont_range : forall lo hi y, 128 <= lo -> hi <= 191 -> cont y = false ->
  negb ((lo <=? y) && (y <=? hi)) = true.
Proof.
  intros lo hi y Hlo Hhi Hc. unfold cont in Hc.
  destruct (lo <=? y) eqn:E1; [|reflexivity]. destruct (y <=? hi) eqn:E2; [|reflexivity].
  apply N.leb_le in E1, E2. exfalso.
  assert ((128 <=? y) && (y <=? 191) = true) by (apply andb_true_iff; split; apply N.leb_le; lia).
  congruence.
Qed.

(* whether a lead byte fails to decode depends on the bytes after it only up to the first non-continuation byte *)
Lemma step_invalid_stable : forall b0 t t', 128 <= b0 ->
  step (b0 :: t) = Some (RuneError, [b0], t) -> tail_rel t t' ->
  step (b0 :: t') = Some (RuneError, [b0], t').
Proof.
  intros b0 t t' Hb H Htr. cbn [step] in *.
  replace (b0 <? 128) with false in * by (symmetry; apply N.ltb_ge; lia).
  destruct (lead_info b0) as [[[sz lo] hi]|] eqn:El; [|reflexivity].
  destruct (lead_info_spec _ _ _ _ El) as [Hlo [Hhi _]].
  inversion Htr as [|c1 u1 u1' Hc1 Htr1|x y u u' Hx Hy]; subst; [reflexivity| |].
  2:{ rewrite (noncont_range lo hi y Hlo Hhi Hy). reflexivity. }
  destruct (negb ((lo <=? c1) && (c1 <=? hi))); [reflexivity|].
  destruct sz as [|[|[|sz]]].
  - (* 0 *) inversion Htr1 as [|c2 u2 u2' Hc2 Htr2|x y u u' Hx Hy]; subst; [reflexivity| |].
    2:{ rewrite Hy. reflexivity. }
    rewrite Hc2 in *. cbn [negb] in *.
    inversion Htr2 as [|c3 u3 u3' Hc3 Htr3|x y u u' Hx Hy]; subst; [reflexivity| |].
    2:{ rewrite Hy. reflexivity. }
    rewrite Hc3 in *. cbn [negb] in *. discriminate.
  - (* 1 *) inversion Htr1 as [|c2 u2 u2' Hc2 Htr2|x y u u' Hx Hy]; subst; [reflexivity| |].
    2:{ rewrite Hy. reflexivity. }
    rewrite Hc2 in *. cbn [negb] in *.
    inversion Htr2 as [|c3 u3 u3' Hc3 Htr3|x y u u' Hx Hy]; subst; [reflexivity| |].
    2:{ rewrite Hy. reflexivity. }
    rewrite Hc3 in *. cbn [negb] in *. discriminate.
  - (* 2 *) discriminate.
  - (* >= 3 *) inversion Htr1 as [|c2 u2 u2' Hc2 Htr2|x y u u' Hx Hy]; subst; [reflexivity| |].
    2:{ rewrite Hy. reflexivity. }
    rewrite Hc2 in *. cbn [negb] in *.
    destruct sz as [|sz]; [discriminate|].
    inversion Htr2 as [|c3 u3 u3' Hc3 Htr3|x y u u' Hx Hy]; subst; [reflexivity| |].
    2:{ rewrite Hy. reflexivity. }
    rewrite Hc3 in *. cbn [negb] in *. discriminate.
Qed.

Lemma tail_rel_refl : forall t, tail_rel t t.
Proof.
  induction t as [|c t IH]; [constructor|].
  destruct (cont c) eqn:E; [apply tr_cont; assumption | apply tr_stop; assumption].
Qed.

Lemma encode_hd_noncont : forall r, exists y t, encode r = y :: t /\ cont y = false.
Proof.
  intros r. unfold encode.
  destruct (r <? 128) eqn:E1.
  { exists r, []. split; [reflexivity|]. apply N.ltb_lt in E1. unfold cont.
    replace (128 <=? r) with false by (symmetry; apply N.leb_gt; lia). reflexivity. }
  destruct (r <? 2048).
  { eexists; eexists. split; [reflexivity|]. unfold cont.
    replace (192 + r / 64 <=? 191) with false by (symmetry; apply N.leb_gt; lia). apply andb_false_r. }
  destruct (surrogate r || (1114111 <? r)).
  { eexists; eexists. split; [reflexivity|]. reflexivity. }
  destruct (r <? 65536).
  { eexists; eexists. split; [reflexivity|]. unfold cont.
    replace (224 + r / 4096 <=? 191) with false by (symmetry; apply N.leb_gt; lia). apply andb_false_r. }
  eexists; eexists. split; [reflexivity|]. unfold cont.
  replace (240 + r / 262144 <=? 191) with false by (symmetry; apply N.leb_gt; lia). apply andb_false_r.
Qed.

(* a decoded segment starts with a non-continuation byte, or it is one stray continuation byte *)
Lemma seg_head : forall s r raw rest, step s = Some (r, raw, rest) ->
  exists x raw', raw = x :: raw' /\ (cont x = true -> raw' = [] /\ r = RuneError /\ 128 <= x).
Proof.
  intros s r raw rest H. apply step_spec_of in H.
  destruct H; subst; eexists; eexists; (split; [reflexivity|]); intros Hc; unfold cont in Hc;
    try (split; [reflexivity|split; [reflexivity|assumption]]);
    exfalso; apply andb_true_iff in Hc; destruct Hc as [Hc1 Hc2]; apply N.leb_le in Hc1, Hc2; lia.
Qed.

Section InPlace.
  Variable to_lower : N -> N.
  Hypothesis H_ascii_lower : forall c, c < 128 -> to_lower c = ascii_lower c.
  Hypothesis H_fffd : to_lower RuneError = RuneError.

  (* the segment that stands in the buffer after the in-place loop went over it *)
  Definition lowsg (sg : seg) : seg :=
    if first_byte (snd sg) <? 128 then (ascii_lower (first_byte (snd sg)), [ascii_lower (first_byte (snd sg))])
    else if Nat.eqb (rune_len (to_lower (fst sg))) (length (snd sg)) then (to_lower (fst sg), encode (to_lower (fst sg)))
    else sg.

  Fixpoint lowsegs (sel : list bool) (l : list seg) : list seg :=
    match l with
    | [] => []
    | sg :: l' => match sel with
                  | [] => l
                  | b :: sel' => (if b then lowsg sg else sg) :: lowsegs sel' l'
                  end
    end.

  Lemma lowsg_snd : forall sg, snd (lowsg sg) = lowseg to_lower sg.
  Proof.
    intros sg. unfold lowsg, lowseg. destruct (first_byte (snd sg) <? 128); [reflexivity|].
    destruct (Nat.eqb _ _); reflexivity.
  Qed.

  (* a stray byte is never rewritten *)
  Lemma lowseg_bad : forall b, 128 <= b -> lowseg to_lower (RuneError, [b]) = [b].
  Proof.
    intros b Hb. unfold lowseg. cbn [fst snd first_byte length].
    replace (b <? 128) with false by (symmetry; apply N.ltb_ge; lia).
    rewrite H_fffd. reflexivity.
  Qed.

  Lemma tail_rel_apply : forall l sel, is_segs l -> tail_rel (raws l) (apply_low to_lower sel l).
  Proof.
    induction l as [|[r raw] l IH]; intros sel Hs; [destruct sel; exact tr_nil|].
    destruct (is_segs_inv _ _ _ Hs) as [E Hl].
    destruct sel as [|b sel]; [cbn [apply_low]; apply tail_rel_refl|].
    cbn [apply_low]. rewrite raws_cons.
    destruct (seg_head _ _ _ _ E) as [x [raw' [-> Hx]]].
    destruct (cont x) eqn:Ec.
    - destruct (Hx eq_refl) as [-> [-> Hx128]].
      replace (if b then lowseg to_lower (RuneError, [x]) else snd (RuneError, [x])) with [x]
        by (destruct b; [rewrite lowseg_bad by assumption|]; reflexivity).
      cbn [app]. apply tr_cont; [assumption|apply IH; assumption].
    - destruct b; [|cbn [snd app]; apply tr_stop; assumption].
      unfold lowseg. cbn [fst snd first_byte].
      destruct (x <? 128) eqn:E1.
      + cbn [app]. apply tr_stop; [assumption|]. apply N.ltb_lt in E1. unfold cont, ascii_lower, is_upper_ascii.
        destruct ((65 <=? x) && (x <=? 90)) eqn:E2.
        * replace (x + 32 <=? 191) with true by (symmetry; apply N.leb_le; apply andb_true_iff in E2; destruct E2 as [_ E2]; apply N.leb_le in E2; lia).
          replace (128 <=? x + 32) with false by (symmetry; apply N.leb_gt; apply andb_true_iff in E2; destruct E2 as [_ E2]; apply N.leb_le in E2; lia).
          reflexivity.
        * replace (128 <=? x) with false by (symmetry; apply N.leb_gt; lia). reflexivity.
      + destruct (Nat.eqb _ _); [|cbn [app]; apply tr_stop; assumption].
        destruct (encode_hd_noncont (to_lower r)) as [y [t [-> Hy]]]. cbn [app]. apply tr_stop; assumption.
  Qed.

  Lemma raws_lowsegs : forall l sel, raws (lowsegs sel l) = apply_low to_lower sel l.
  Proof.
    induction l as [|sg l IH]; intros sel; [destruct sel; reflexivity|].
    destruct sel as [|b sel]; [reflexivity|].
    cbn [lowsegs apply_low]. unfold raws in *. cbn [map concat]. rewrite IH. destruct b; [rewrite lowsg_snd|]; reflexivity.
  Qed.

  (* KEY: decoding the rewritten buffer gives the original segments, each either untouched or lower-cased in place *)
  Lemma segs_apply_low : forall l sel, is_segs l -> segs (apply_low to_lower sel l) = lowsegs sel l.
  Proof.
    induction l as [|[r raw] l IH]; intros sel Hs; [destruct sel; reflexivity|].
    destruct (is_segs_inv _ _ _ Hs) as [E Hl].
    destruct sel as [|b sel]; [cbn [apply_low lowsegs]; exact Hs|].
    cbn [apply_low lowsegs]. specialize (IH sel Hl).
    destruct (step_canon _ _ _ _ E) as [Hv [Hraw|[-> [x [-> Hx]]]]].
    - (* canonical encoding of a scalar value *)
      subst raw. destruct b.
      + pose proof (step_first_byte _ _ _ _ E) as [Hasc Hnasc].
        unfold lowseg, lowsg. cbn [fst snd].
        destruct (first_byte (encode r) <? 128) eqn:Hfb.
        * destruct (Hasc eq_refl) as [Hr1 Hr]. rewrite Hr1. cbn [first_byte].
          assert (Hal : ascii_lower r < 128) by (unfold ascii_lower, is_upper_ascii; destruct ((65 <=? r) && (r <=? 90)) eqn:E2; [apply andb_true_iff in E2; destruct E2 as [_ E2]; apply N.leb_le in E2|]; lia).
          cbn [app]. rewrite (segs_ascii _ _ Hal), IH. reflexivity.
        * destruct (Nat.eqb (rune_len (to_lower r)) (length (encode r))) eqn:Hw.
          -- apply Nat.eqb_eq in Hw.
             assert (Hvl : valid_rune (to_lower r) = true).
             { apply rune_len_valid. rewrite Hw. destruct (encode r) eqn:Ee; [exfalso; apply (encode_nonempty r); assumption|discriminate]. }
             rewrite (segs_encode _ _ Hvl), IH. reflexivity.
          -- rewrite (segs_encode _ _ Hv), IH. reflexivity.
      + cbn [snd]. rewrite (segs_encode _ _ Hv), IH. reflexivity.
    - (* a stray byte: untouched, and still undecodable whatever was rewritten behind it *)
      assert (HX : (if b then lowseg to_lower (RuneError, [x]) else snd (RuneError, [x])) = [x])
        by (destruct b; [rewrite lowseg_bad by assumption|]; reflexivity).
      assert (HY : (if b then lowsg (RuneError, [x]) else (RuneError, [x])) = (RuneError, [x])).
      { destruct b; [|reflexivity]. unfold lowsg. cbn [fst snd first_byte length].
        replace (x <? 128) with false by (symmetry; apply N.ltb_ge; lia). rewrite H_fffd. reflexivity. }
      rewrite HX, HY. cbn [app] in *.
      rewrite segs_step.
      rewrite (step_invalid_stable x (raws l) (apply_low to_lower sel l) Hx E (tail_rel_apply l sel Hl)).
      rewrite IH. reflexivity.
  Qed.

  (* same boundaries, and every rune either untouched or replaced by its lower case *)
  Definition seg_kept (sg sg' : seg) : Prop :=
    length (snd sg') = length (snd sg) /\ (fst sg' = fst sg \/ fst sg' = to_lower (fst sg)).

  Lemma lowsg_kept : forall s r raw rest, step s = Some (r, raw, rest) -> seg_kept (r, raw) (lowsg (r, raw)).
  Proof.
    intros s r raw rest E. unfold seg_kept, lowsg. cbn [fst snd].
    pose proof (step_first_byte _ _ _ _ E) as [Hasc _].
    destruct (first_byte raw <? 128) eqn:Hfb.
    - destruct (Hasc eq_refl) as [-> Hr]. cbn [fst snd first_byte length]. split; [reflexivity|].
      right. symmetry. apply H_ascii_lower. assumption.
    - destruct (Nat.eqb (rune_len (to_lower r)) (length raw)) eqn:Hw; cbn [fst snd]; [|split; [reflexivity|left; reflexivity]].
      apply Nat.eqb_eq in Hw. split; [|right; reflexivity].
      rewrite encode_length; [assumption|]. apply rune_len_valid. rewrite Hw.
      pose proof (step_app _ _ _ _ E) as [_ Hne]. destruct raw; [congruence|discriminate].
  Qed.

  Lemma lowsegs_kept : forall l sel, is_segs l -> Forall2 seg_kept l (lowsegs sel l).
  Proof.
    assert (Hrefl : forall l, Forall2 seg_kept l l).
    { induction l as [|sg l IH]; constructor; [split; [reflexivity|left; reflexivity]|assumption]. }
    induction l as [|[r raw] l IH]; intros sel Hs; [destruct sel; constructor|].
    destruct (is_segs_inv _ _ _ Hs) as [E Hl].
    destruct sel as [|b sel]; [apply Hrefl|].
    cbn [lowsegs]. constructor; [|apply IH; assumption].
    destruct b; [eapply lowsg_kept; eassumption | split; [reflexivity|left; reflexivity]].
  Qed.

  (* the loop of toLowerTryInplace (including the point where it is abandoned for bytes.Map) leaves such a buffer *)
  Lemma lower_mut_apply : forall l, is_segs l -> exists sel, fst (lower_mut to_lower l) = apply_low to_lower sel l.
  Proof.
    induction l as [|[r raw] l IH]; intros Hs; [exists []; reflexivity|].
    destruct (is_segs_inv _ _ _ Hs) as [E Hl]. destruct (IH Hl) as [sel Hsel].
    cbn [lower_mut].
    destruct (first_byte raw <? 128) eqn:Hfb.
    - exists (true :: sel). destruct (lower_mut to_lower l) as [m f]. cbn [fst] in *.
      cbn [apply_low]. unfold lowseg. cbn [fst snd]. rewrite Hfb, Hsel. reflexivity.
    - destruct (Nat.eqb (rune_len (to_lower r)) (length raw)) eqn:Hw.
      + exists (true :: sel). destruct (lower_mut to_lower l) as [m f]. cbn [fst] in *.
        cbn [apply_low]. unfold lowseg. cbn [fst snd]. rewrite Hfb, Hw, Hsel. reflexivity.
      + exists []. reflexivity.
  Qed.

  Theorem inplace_keeps_segments : forall s sel,
    Forall2 seg_kept (segs s) (segs (apply_low to_lower sel (segs s))) /\
    length (apply_low to_lower sel (segs s)) = length s.
  Proof.
    intros s sel. pose proof (is_segs_segs s) as Hs.
    rewrite (segs_apply_low _ sel Hs). split; [apply lowsegs_kept; assumption|].
    rewrite <- raws_lowsegs. rewrite <- (raws_segs s) at 2.
    pose proof (lowsegs_kept _ sel Hs) as HF. revert HF. generalize (lowsegs sel (segs s)). generalize (segs s).
    induction 1 as [|a b la lb [Hlen _] _ IH]; [reflexivity|].
    destruct a, b. rewrite !raws_cons, !app_length. cbn [snd] in Hlen. rewrite Hlen, IH. reflexivity.
  Qed.

  Theorem lower_full_buffer_keeps_segments : forall s,
    Forall2 seg_kept (segs s) (segs (snd (lower_full to_lower s))) /\
    length (snd (lower_full to_lower s)) = length s.
  Proof.
    intros s. destruct (lower_mut_apply (segs s) (is_segs_segs s)) as [sel Hsel].
    unfold lower_full. destruct (lower_mut to_lower (segs s)) as [m f]. cbn [fst snd] in *. subst m.
    apply inplace_keeps_segments.
  Qed.
End InPlace.

From C11 Require Import ProofsTables.
Lemma go_to_lower_fffd : go_to_lower RuneError = RuneError.
Proof. vm_compute. reflexivity. Qed.
Definition go_seg_kept := seg_kept go_to_lower.
Definition go_inplace_keeps_segments := inplace_keeps_segments go_to_lower go_to_lower_ascii go_to_lower_fffd.
Definition go_lower_full_buffer_keeps_segments :=
  lower_full_buffer_keeps_segments go_to_lower go_to_lower_ascii go_to_lower_fffd.
