(* C11 — the executable field walk used by the spec checker of the CDoc cases (CaseDefs.reach_list) only
   lists fields that [reach] (the relation the flattening theorem is about) reaches. *)
From Coq Require Import List Bool NArith Arith Lia.
From C11 Require Import Model ModelDoc CaseDefs ProofsLower.
Open Scope N_scope.

Fixpoint jsize (n : jval) : nat :=
  match n with
  | JLeaf _ => 1
  | JObj fs _ => S ((fix s (fs : list (list N * jval)) : nat :=
                       match fs with [] => 0 | (_, v) :: r => jsize v + s r end) fs)
  | JArr els _ => S ((fix s (els : list jval) : nat :=
                        match els with [] => 0 | e :: r => jsize e + s r end) els)
  end%nat.

Lemma jsize_field : forall fs enc k v, In (k, v) fs -> (jsize v < jsize (JObj fs enc))%nat.
Proof.
  intros fs enc k v H. cbn [jsize]. apply Nat.lt_succ_r.
  induction fs as [|[k0 v0] r IH]; [destruct H|]. destruct H as [H|H].
  - inversion H; subst. lia.
  - specialize (IH H). lia.
Qed.

Lemma jsize_elem : forall els enc e, In e els -> (jsize e < jsize (JArr els enc))%nat.
Proof.
  intros els enc e H. cbn [jsize]. apply Nat.lt_succ_r.
  induction els as [|e0 r IH]; [destruct H|]. destruct H as [H|H].
  - subst. lia.
  - specialize (IH H). lia.
Qed.

Definition go_list (m : mapping) (name : list N) : list (list N * jval) -> list (list N * option (list N)) :=
  fix go (fs : list (list N * jval)) : list (list N * option (list N)) :=
    match fs with
    | [] => []
    | (k, v) :: r =>
      let fname := join name k in
      (match fst (mlookup m fname), v with
       | TyNoop, _ => []
       | TyObject, JObj _ _ => reach_list m fname v
       | TyTags, JArr els _ =>
         flat_map (fun el => match el with
                             | JObj tfs _ =>
                               match dig tfs K_key with
                               | Some kn => [(fname ++ Dot :: jbytes kn,
                                              match dig tfs K_value with Some x => jvalue x | None => None end)]
                               | None => []
                               end
                             | _ => [] end) els
       | TyNested, JArr els _ =>
         (fix each (els : list jval) : list (list N * option (list N)) :=
            match els with [] => [] | e :: er => reach_list m fname e ++ each er end) els
       | _, _ => [(fname, jvalue v)]
       end) ++ go r
    end.

Lemma reach_list_obj : forall m name fs enc, reach_list m name (JObj fs enc) = go_list m name fs.
Proof. reflexivity. Qed.

Lemma each_in : forall m fname els f x,
  In (f, x) ((fix each (els : list jval) : list (list N * option (list N)) :=
                match els with [] => [] | e :: er => reach_list m fname e ++ each er end) els) ->
  exists e, In e els /\ In (f, x) (reach_list m fname e).
Proof.
  intros m fname. induction els as [|e0 er IH]; intros f x H; [destruct H|].
  apply in_app_or in H. destruct H as [H|H].
  - exists e0. split; [left; reflexivity|assumption].
  - destruct (IH _ _ H) as [e [He Hi]]. exists e. split; [right; assumption|assumption].
Qed.

Lemma reach_list_sound : forall m n name f x, In (f, x) (reach_list m name n) -> reach m name n f x.
Proof.
  intros m n. remember (jsize n) as sz eqn:Hsz. revert n Hsz.
  induction sz as [sz IH] using lt_wf_ind. intros n Hsz name f x H.
  destruct n as [v|fs enc|els enc]; try (cbn in H; contradiction).
  rewrite reach_list_obj in H.
  assert (Hsuf : forall fs0, incl fs0 fs -> In (f, x) (go_list m name fs0) -> reach m name (JObj fs enc) f x).
  { induction fs0 as [|[k v] r IHr]; intros Hincl Hin; [destruct Hin|].
    assert (Hkv : In (k, v) fs) by (apply Hincl; left; reflexivity).
    assert (Hr : incl r fs) by (intros y Hy; apply Hincl; right; assumption).
    cbn [go_list] in Hin. apply in_app_or in Hin. destruct Hin as [Hin|Hin]; [|apply IHr; assumption].
    pose proof (jsize_field fs enc k v Hkv) as Hlt.
    destruct (fst (mlookup m (join name k))) eqn:Hty; destruct v as [lv|fs' enc'|els' enc'];
      try (destruct Hin as [Hin|[]]; inversion Hin; subst f x;
           match type of Hkv with In (_, ?vv) _ =>
             apply (R_field m name fs enc k vv); [assumption|unfold leafy; rewrite Hty; exact I] end);
      try (destruct Hin).
    - (* object *)
      eapply R_object; [exact Hkv|exact Hty|].
      eapply (IH (jsize (JObj fs' enc'))); [subst sz; exact Hlt|reflexivity|exact Hin].
    - (* tags *)
      apply in_flat_map in Hin. destruct Hin as [el [Hel Hin]].
      destruct el as [lv|tfs tenc|tels tenc]; try destruct Hin.
      destruct (dig tfs K_key) as [kn|] eqn:Hk; [|destruct Hin].
      destruct Hin as [Hin|[]]. inversion Hin; subst f x.
      eapply R_tag; [exact Hkv|exact Hty|exact Hel|exact Hk].
    - (* nested *)
      apply each_in in Hin. destruct Hin as [e [He Hin]].
      eapply R_nested; [exact Hkv|exact Hty|exact He|].
      eapply (IH (jsize e)); [|reflexivity|exact Hin].
      subst sz. pose proof (jsize_elem els' enc' e He). lia. }
  apply (Hsuf fs); [apply incl_refl|assumption].
Qed.

Lemma reach_list_sound_top : forall m doc f x, In (f, x) (reach_list m [] doc) -> reach m [] doc f x.
Proof. intros m doc f x. exact (reach_list_sound m doc [] f x). Qed.
