(* C11 — UTF-8 layer: the decoder/encoder pair of Model.v (utf8.DecodeRune / utf8.AppendRune). *)
From Coq Require Import List Bool NArith ZArith Lia ZifyN ZifyBool ZifyNat.
From C11 Require Import Model.
Open Scope N_scope.
Ltac Zify.zify_post_hook ::= Z.div_mod_to_equations.

Ltac brk := repeat match goal with
  | |- context [if ?c then _ else _] => destruct c eqn:?; try lia
  end.

(* [segs] is the iteration of [step] *)
Lemma segs_step : forall s,
  segs s = match step s with None => [] | Some (r, raw, rest) => (r, raw) :: segs rest end.
Proof.
  intros [|b0 t0]; [reflexivity|]. cbn [segs step].
  destruct (b0 <? 128); [reflexivity|].
  destruct (lead_info b0) as [[[sz lo] hi]|]; [|reflexivity].
  destruct t0 as [|b1 t1]; [reflexivity|].
  destruct (negb ((lo <=? b1) && (b1 <=? hi))); [reflexivity|].
  destruct sz as [|[|[|sz]]]; try reflexivity;
  destruct t1 as [|b2 t2]; try reflexivity;
  destruct (negb (cont b2)); try reflexivity;
  try (destruct sz as [|sz]; try reflexivity);
  destruct t2 as [|b3 t3]; try reflexivity;
  destruct (negb (cont b3)); reflexivity.
Qed.

Lemma step_nil : forall s, step s = None -> s = [].
Proof.
  intros [|b0 t0]; [reflexivity|]. cbn [step].
  destruct (b0 <? 128); [discriminate|].
  destruct (lead_info b0) as [[[sz lo] hi]|]; [|discriminate].
  destruct t0 as [|b1 t1]; [discriminate|].
  destruct (negb ((lo <=? b1) && (b1 <=? hi))); [discriminate|].
  destruct sz as [|[|[|sz]]]; try discriminate;
  destruct t1 as [|b2 t2]; try discriminate;
  destruct (negb (cont b2)); try discriminate;
  try (destruct sz as [|sz]; try discriminate);
  destruct t2 as [|b3 t3]; try discriminate;
  destruct (negb (cont b3)); discriminate.
Qed.

(* what one decoding step can return *)
Inductive step_spec (s : list N) : N -> list N -> list N -> Prop :=
| SSAscii b t : s = b :: t -> b < 128 -> step_spec s b [b] t
| SSBad b t : s = b :: t -> 128 <= b -> step_spec s RuneError [b] t
| SS2 b0 b1 t : s = b0 :: b1 :: t -> 194 <= b0 <= 223 -> 128 <= b1 <= 191 ->
    step_spec s (r2 b0 b1) [b0; b1] t
| SS3 b0 b1 b2 t : s = b0 :: b1 :: b2 :: t -> 224 <= b0 <= 239 -> 128 <= b1 <= 191 -> 128 <= b2 <= 191 ->
    (b0 = 224 -> 160 <= b1) -> (b0 = 237 -> b1 <= 159) ->
    step_spec s (r3 b0 b1 b2) [b0; b1; b2] t
| SS4 b0 b1 b2 b3 t : s = b0 :: b1 :: b2 :: b3 :: t -> 240 <= b0 <= 244 -> 128 <= b1 <= 191 ->
    128 <= b2 <= 191 -> 128 <= b3 <= 191 -> (b0 = 240 -> 144 <= b1) -> (b0 = 244 -> b1 <= 143) ->
    step_spec s (r4 b0 b1 b2 b3) [b0; b1; b2; b3] t.

Lemma lead_info_spec : forall b0 sz lo hi, lead_info b0 = Some (sz, lo, hi) ->
  128 <= lo /\ hi <= 191 /\
  ((sz = 2%nat /\ 194 <= b0 <= 223 /\ lo = 128 /\ hi = 191) \/
   (sz = 3%nat /\ 224 <= b0 <= 239 /\ (b0 = 224 -> lo = 160) /\ (b0 = 237 -> hi = 159) /\
      (b0 <> 224 -> lo = 128) /\ (b0 <> 237 -> hi = 191)) \/
   (sz = 4%nat /\ 240 <= b0 <= 244 /\ (b0 = 240 -> lo = 144) /\ (b0 = 244 -> hi = 143) /\
      (b0 <> 240 -> lo = 128) /\ (b0 <> 244 -> hi = 191))).
Proof.
  intros b0 sz lo hi. unfold lead_info.
  brk; intros H; inversion H; subst; lia.
Qed.

Lemma step_spec_of : forall s r raw rest, step s = Some (r, raw, rest) -> step_spec s r raw rest.
Proof.
  intros [|b0 t0] r raw rest; [discriminate|]. cbn [step].
  destruct (b0 <? 128) eqn:Ha.
  { intros H; inversion H; subst. eapply SSAscii; [reflexivity|lia]. }
  assert (Hb0 : 128 <= b0) by lia.
  destruct (lead_info b0) as [[[sz lo] hi]|] eqn:Hl.
  2:{ intros H; inversion H; subst. eapply SSBad; [reflexivity|lia]. }
  apply lead_info_spec in Hl.
  destruct t0 as [|b1 t1].
  { intros H; inversion H; subst. eapply SSBad; [reflexivity|lia]. }
  destruct (negb ((lo <=? b1) && (b1 <=? hi))) eqn:Hc1.
  { intros H; inversion H; subst. eapply SSBad; [reflexivity|lia]. }
  unfold cont.
  destruct sz as [|[|[|sz]]].
  - lia.
  - lia.
  - intros H; inversion H; subst. eapply SS2; [reflexivity|lia|lia].
  - destruct t1 as [|b2 t2].
    { intros H; inversion H; subst. eapply SSBad; [reflexivity|lia]. }
    destruct (negb ((128 <=? b2) && (b2 <=? 191))) eqn:Hc2.
    { intros H; inversion H; subst. eapply SSBad; [reflexivity|lia]. }
    destruct sz as [|sz].
    + intros H; inversion H; subst. eapply SS3; [reflexivity|lia..].
    + destruct t2 as [|b3 t3].
      { intros H; inversion H; subst. eapply SSBad; [reflexivity|lia]. }
      destruct (negb ((128 <=? b3) && (b3 <=? 191))) eqn:Hc3.
      { intros H; inversion H; subst. eapply SSBad; [reflexivity|lia]. }
      intros H; inversion H; subst. eapply SS4; [reflexivity|lia..].
Qed.

Lemma step_app : forall s r raw rest, step s = Some (r, raw, rest) -> s = raw ++ rest /\ raw <> [].
Proof.
  intros s r raw rest H. apply step_spec_of in H.
  destruct H; subst; split; try reflexivity; discriminate.
Qed.

Lemma step_length : forall s r raw rest, step s = Some (r, raw, rest) -> (length rest < length s)%nat.
Proof.
  intros s r raw rest H. apply step_app in H. destruct H as [-> Hn].
  rewrite app_length. destruct raw; [congruence|]. simpl. lia.
Qed.

(* decoded runes are scalar values, and the consumed bytes are their canonical encoding unless the
   step reports an invalid byte *)
Lemma step_canon : forall s r raw rest, step s = Some (r, raw, rest) ->
  valid_rune r = true /\
  (raw = encode r \/ (r = RuneError /\ exists b, raw = [b] /\ 128 <= b)).
Proof.
  intros s r raw rest H. apply step_spec_of in H.
  destruct H; subst.
  - split; [unfold valid_rune, surrogate; lia|]. left. unfold encode. brk. reflexivity.
  - split; [reflexivity|]. right. split; [reflexivity|]. eauto.
  - unfold r2. split; [unfold valid_rune, surrogate; lia|]. left. unfold encode, surrogate.
    brk. f_equal; [lia|]. f_equal. lia.
  - unfold r3. split; [unfold valid_rune, surrogate; lia|]. left. unfold encode, surrogate.
    brk. f_equal; [lia|]. f_equal; [lia|]. f_equal. lia.
  - unfold r4. split; [unfold valid_rune, surrogate; lia|]. left. unfold encode, surrogate.
    brk. f_equal; [lia|]. f_equal; [lia|]. f_equal; [lia|]. f_equal. lia.
Qed.

Lemma step_first_byte : forall s r raw rest, step s = Some (r, raw, rest) ->
  (first_byte raw <? 128 = true -> raw = [r] /\ r < 128) /\
  (first_byte raw <? 128 = false -> 128 <= r).
Proof.
  intros s r raw rest H. apply step_spec_of in H.
  destruct H; subst; cbn [first_byte]; unfold RuneError, r2, r3, r4; split; intros; try split; try reflexivity; lia.
Qed.

(* decoding what the encoder wrote gives the rune back, whatever follows *)
Lemma step_encode : forall r t, valid_rune r = true -> step (encode r ++ t) = Some (r, encode r, t).
Proof.
  intros r t Hv. unfold valid_rune, surrogate in Hv. unfold encode, surrogate.
  destruct (r <? 128) eqn:H1.
  { cbn [app step]. rewrite H1. reflexivity. }
  destruct (r <? 2048) eqn:H2.
  { cbn [app step]. unfold lead_info, r2. brk. do 3 f_equal. lia. }
  destruct ((55296 <=? r) && (r <=? 57343) || (1114111 <? r)) eqn:H3; [lia|].
  destruct (r <? 65536) eqn:H4.
  { cbn [app step]. unfold lead_info, cont, r3. brk; cbn [negb]; brk; try lia; do 3 f_equal; lia. }
  cbn [app step]. unfold lead_info, cont, r4. brk; cbn [negb]; brk; try lia; do 3 f_equal; lia.
Qed.

Lemma encode_length : forall r, valid_rune r = true -> length (encode r) = rune_len r.
Proof.
  intros r Hv. unfold valid_rune, surrogate in Hv. unfold encode, rune_len, surrogate. brk; reflexivity.
Qed.

Lemma rune_len_valid : forall r, rune_len r <> 0%nat -> valid_rune r = true.
Proof. intros r. unfold rune_len, valid_rune, surrogate. brk; intros; try lia; congruence. Qed.

Lemma encode_ascii : forall r, r < 128 -> encode r = [r].
Proof. intros. unfold encode. brk. reflexivity. Qed.

Lemma encode_nonempty : forall r, encode r <> [].
Proof. intros r. unfold encode. brk; discriminate. Qed.

(* ---------------------------------------------------------------- lists of segments *)

Lemma raws_cons : forall r raw l, raws ((r, raw) :: l) = raw ++ raws l.
Proof. reflexivity. Qed.

Lemma raws_app : forall a b, raws (a ++ b) = raws a ++ raws b.
Proof. intros. unfold raws. rewrite map_app, concat_app. reflexivity. Qed.

(* induction over the decoding steps of a string *)
Lemma segs_ind (P : list N -> Prop) :
  P [] ->
  (forall s r raw rest, step s = Some (r, raw, rest) -> P rest -> P s) ->
  forall s, P s.
Proof.
  intros H0 Hs s. remember (length s) as n eqn:Hn. revert s Hn.
  induction n as [n IH] using lt_wf_ind. intros s Hn.
  destruct (step s) as [[[r raw] rest]|] eqn:E.
  - eapply Hs; [exact E|]. eapply IH; [|reflexivity]. subst. eapply step_length; eauto.
  - apply step_nil in E. subst. exact H0.
Qed.

Lemma raws_segs : forall s, raws (segs s) = s.
Proof.
  induction s as [|s r raw rest E IH] using segs_ind; [reflexivity|].
  rewrite segs_step, E, raws_cons, IH. symmetry. apply step_app in E. tauto.
Qed.

(* a list of segments that is the decoding of its own bytes *)
Definition is_segs (l : list seg) : Prop := segs (raws l) = l.

Lemma is_segs_segs : forall s, is_segs (segs s).
Proof. intros. unfold is_segs. rewrite raws_segs. reflexivity. Qed.

Lemma is_segs_inv : forall r raw l, is_segs ((r, raw) :: l) ->
  step (raw ++ raws l) = Some (r, raw, raws l) /\ is_segs l.
Proof.
  intros r raw l H. unfold is_segs in H. rewrite raws_cons, segs_step in H.
  destruct (step (raw ++ raws l)) as [[[r' raw'] rest']|] eqn:E; [|discriminate].
  injection H as Hr Hraw Hl. subst r' raw'.
  pose proof (step_app _ _ _ _ E) as [Ha _].
  apply app_inv_head in Ha. rewrite <- Ha in *. split; [reflexivity|]. unfold is_segs. assumption.
Qed.

Lemma segs_encode : forall r t, valid_rune r = true -> segs (encode r ++ t) = (r, encode r) :: segs t.
Proof. intros. rewrite segs_step, step_encode by assumption. reflexivity. Qed.

Lemma segs_ascii : forall b t, b < 128 -> segs (b :: t) = (b, [b]) :: segs t.
Proof. intros. cbn [segs]. brk. reflexivity. Qed.

(* all decoded runes are scalar values *)
Lemma is_segs_valid : forall l, is_segs l -> Forall (fun sg : seg => valid_rune (fst sg) = true) l.
Proof.
  induction l as [|[r raw] l IH]; intros H; constructor.
  - apply is_segs_inv in H. destruct H as [E _]. apply step_canon in E. tauto.
  - apply IH. apply is_segs_inv in H. tauto.
Qed.

(* re-encoding the decoded runes and decoding again gives the same runes *)
Lemma segs_concat_encode : forall (rs : list N) t, Forall (fun r => valid_rune r = true) rs ->
  segs (concat (map encode rs) ++ t) = map (fun r => (r, encode r)) rs ++ segs t.
Proof.
  induction rs as [|r rs IH]; intros t H; [reflexivity|].
  inversion H; subst. cbn [map concat]. rewrite <- app_assoc, segs_encode by assumption.
  rewrite IH by assumption. reflexivity.
Qed.

Lemma sanitize_segs : forall s, segs (sanitize s) = map (fun sg : seg => (fst sg, encode (fst sg))) (segs s).
Proof.
  intros s. unfold sanitize.
  rewrite <- (app_nil_r (concat _)).
  replace (map (fun sg : seg => encode (fst sg)) (segs s)) with (map encode (map fst (segs s)))
    by (rewrite map_map; reflexivity).
  rewrite segs_concat_encode.
  - cbn [segs]. rewrite app_nil_r, map_map. reflexivity.
  - pose proof (is_segs_valid _ (is_segs_segs s)) as H. rewrite Forall_map. exact H.
Qed.

(* valid UTF-8 = re-encoding changes nothing *)
Lemma valid_utf8_sanitize : forall s, valid_utf8 s = true -> sanitize s = s.
Proof.
  intros s H. unfold valid_utf8 in H. unfold sanitize.
  rewrite <- (raws_segs s) at 2. unfold raws. f_equal.
  apply map_ext_in. intros sg Hin. rewrite forallb_forall in H. specialize (H _ Hin).
  unfold seg_canon, list_eqb_N in H.
  assert (Hl : forall a b : list N, list_eqb N.eqb a b = true -> a = b).
  { induction a as [|x a IHa]; destruct b as [|y b]; cbn; intros; try discriminate; try reflexivity.
    apply andb_true_iff in H0. destruct H0 as [H1 H2]. apply N.eqb_eq in H1. f_equal; auto. }
  symmetry. apply Hl. exact H.
Qed.
