(* C11 — the legacy query side (ParseQuery): []rune conversion up front, keywordTokenBuilder /
   textTokenBuilder appending rune by rune with unicode.ToLower per rune. Same findability as for SeqQL;
   no hypothesis about U+E000 (it is an ordinary rune for this parser). *)
From Coq Require Import List Bool NArith ZArith Lia ZifyN ZifyBool ZifyNat.
From C11 Require Import Model ModelDoc ProofsUtf8 ProofsLower ProofsText ProofsPath.
Open Scope N_scope.

Section Legacy.
  Variables (is_letter is_number : N -> bool) (to_lower : N -> N).
  Hypothesis H_ascii_lower : forall c, c < 128 -> to_lower c = ascii_lower c.
  Hypothesis H_idem : forall r, to_lower (to_lower r) = to_lower r.
  Hypothesis H_class : forall c, c < 128 -> is_letter c || is_number c = is_alnum_ascii c.
  Hypothesis H_fffd : is_word_rune is_letter is_number RuneError = false.

  Notation is_word := (is_word_rune is_letter is_number).
  Notation words := (words_of is_letter is_number).
  Notation mlow := (map_lower to_lower).
  Notation lq_kw := (lq_kw to_lower).
  Notation lq_text := (lq_text is_letter is_number to_lower).
  Notation ltext_loop := (ltext_loop is_letter is_number to_lower).

  Lemma lq_kw_ci : forall s, lq_kw false s = [[TText (mlow s)]].
  Proof. reflexivity. Qed.

  Lemma lq_kw_cs : forall s, lq_kw true s = [[TText (sanitize s)]].
  Proof. reflexivity. Qed.

  (* the token lower_if produces for a byte string is the term of the legacy query made from it *)
  Lemma legacy_lower_if_query : forall c p, (cs c = false \/ valid_utf8 p = true) ->
    lq_kw (cs c) p = [[TText (fst (lower_if to_lower c p))]].
  Proof.
    intros c p Hv. unfold lower_if. destruct (cs c) eqn:Ecs.
    - destruct Hv as [Hv|Hv]; [discriminate|]. rewrite lq_kw_cs, valid_utf8_sanitize by assumption. reflexivity.
    - rewrite lq_kw_ci. fold (lower_ip to_lower p).
      rewrite (lower_ip_map_lower to_lower H_ascii_lower H_idem). reflexivity.
  Qed.

  Lemma legacy_kw_consistent : forall c fmax v,
    let p := indexed_part TyKeyword c fmax v in
    if skipped TyKeyword c fmax v then fst (kw_tokenize to_lower c fmax v) = []
    else exists t, fst (kw_tokenize to_lower c fmax v) = [t] /\
         ((cs c = false \/ valid_utf8 p = true) ->
          lq_kw (cs c) p = [[TText t]] /\
          query_finds (lq_kw (cs c) p) (fst (kw_tokenize to_lower c fmax v)) = true).
  Proof.
    intros c fmax v p. unfold skipped, kw_tokenize.
    destruct (Nat.ltb (limit_of (max_tok c) fmax) (length v) && negb (partial c)) eqn:E; [reflexivity|].
    subst p. unfold indexed_part.
    pose proof (legacy_lower_if_query c (firstn (limit_of (max_tok c) fmax) v)) as Hq.
    destruct (lower_if to_lower c (firstn (limit_of (max_tok c) fmax) v)) as [t m] eqn:El.
    exists t. split; [reflexivity|]. intros Hv. rewrite (Hq Hv). cbn [fst]. split; [reflexivity|].
    unfold query_finds. cbn. rewrite list_eqb_N_refl. reflexivity.
  Qed.

  Lemma legacy_path_consistent : forall c fmax v,
    let p := indexed_part TyPath c fmax v in
    let toks := fst (path_tokenize to_lower c fmax v) in
    if skipped TyPath c fmax v then toks = []
    else
      toks = map (ptok to_lower c) (path_prefixes [] p ++ [p])
      /\ (forall q, In q (path_prefixes [] p ++ [p]) -> (cs c = false \/ valid_utf8 q = true) ->
            lq_kw (cs c) q = [[TText (ptok to_lower c q)]] /\
            query_finds (lq_kw (cs c) q) toks = true).
  Proof.
    intros c fmax v p toks.
    pose proof (path_consistent to_lower H_ascii_lower H_idem c fmax v) as H. cbv zeta in H.
    subst p toks. destruct (skipped TyPath c fmax v); [exact H|].
    destruct H as [Ht _]. split; [exact Ht|].
    intros q Hin Hv. pose proof (legacy_lower_if_query c q Hv) as Hq.
    rewrite (lower_if_fst to_lower H_ascii_lower H_idem) in Hq. split; [exact Hq|].
    rewrite Ht, Hq. unfold query_finds. cbn [forallb]. rewrite andb_true_r. apply existsb_exists.
    exists (ptok to_lower c q). split; [apply in_map; assumption|]. cbn. apply list_eqb_N_refl.
  Qed.

  (* ---------------- text *)
  Definition wt (sens : bool) (w : list N) : list N := if sens then w else mlow w.
  Definition lowenc (sens : bool) (rs : list N) : list N :=
    concat (map (fun r => encode (lowr to_lower sens r)) rs).
  Definition enc (rs : list N) : list N := concat (map encode rs).

  Lemma segs_enc : forall rs, Forall (fun r => valid_rune r = true) rs ->
    segs (enc rs) = map (fun r => (r, encode r)) rs.
  Proof.
    intros rs H. pose proof (segs_concat_encode rs [] H) as E.
    rewrite !app_nil_r in E. exact E.
  Qed.

  Lemma mlow_enc : forall rs, Forall (fun r => valid_rune r = true) rs ->
    mlow (enc rs) = lowenc false rs.
  Proof.
    intros rs H. unfold map_lower. rewrite segs_enc by assumption.
    unfold lowenc. rewrite map_map. reflexivity.
  Qed.

  Lemma lowenc_wt : forall sens rs, Forall (fun r => valid_rune r = true) rs ->
    lowenc sens rs = wt sens (enc rs).
  Proof.
    intros sens rs H. destruct sens; cbn [wt].
    - reflexivity.
    - symmetry. apply mlow_enc. assumption.
  Qed.

  Lemma nonempty_concat_encode : forall (f : N -> N) rs,
    nonempty (concat (map (fun r => encode (f r)) rs)) = nonempty rs.
  Proof.
    intros f [|r rs]; [reflexivity|]. cbn. pose proof (encode_nonempty (f r)).
    destruct (encode (f r)); [congruence|reflexivity].
  Qed.

  Lemma ltext_loop_words : forall sens l rs, is_segs l ->
    Forall (fun r => valid_rune r = true) rs ->
    ltext_loop sens l (lowenc sens rs) = map (fun w => [TText (wt sens w)]) (words l (enc rs)).
  Proof.
    intros sens. induction l as [|[r raw] rest IH]; intros rs Hs Hrs.
    - cbn [ModelDoc.ltext_loop words_of]. unfold lowenc, enc.
      rewrite (nonempty_concat_encode (lowr to_lower sens)), (nonempty_concat_encode (fun r => r)).
      destruct (nonempty rs); [|reflexivity]. cbn [map].
      fold (lowenc sens rs). fold (enc rs). rewrite lowenc_wt by assumption. reflexivity.
    - pose proof (is_segs_inv _ _ _ Hs) as [E Hrest].
      cbn [ModelDoc.ltext_loop words_of].
      destruct (is_word r) eqn:Hwr.
      + pose proof (step_canon _ _ _ _ E) as [Hv [Hc|[Hc _]]].
        * specialize (IH (rs ++ [r]) Hrest).
          unfold lowenc, enc in IH. rewrite !map_app, !concat_app in IH. cbn [map concat] in IH.
          rewrite !app_nil_r in IH. rewrite Hc. apply IH.
          apply Forall_app. split; [assumption|]. constructor; [assumption|constructor].
        * subst r. rewrite H_fffd in Hwr. discriminate.
      + unfold lowenc at 1 2, enc at 1.
        rewrite (nonempty_concat_encode (lowr to_lower sens)), (nonempty_concat_encode (fun r => r)).
        specialize (IH [] Hrest (Forall_nil _)). unfold lowenc, enc in IH. cbn [map concat] in IH.
        destruct (nonempty rs); cbn [app map]; rewrite IH; [|reflexivity].
        fold (lowenc sens rs). fold (enc rs). rewrite lowenc_wt by assumption. reflexivity.
  Qed.

  Lemma words_wordrunes : forall rs cur,
    Forall (fun r => valid_rune r = true /\ is_word r = true) rs ->
    words (map (fun r => (r, encode r)) rs) cur =
    (if nonempty (cur ++ enc rs) then [cur ++ enc rs] else []).
  Proof.
    induction rs as [|r rs IH]; intros cur H.
    - cbn. unfold enc. cbn. rewrite app_nil_r. reflexivity.
    - inversion H as [|? ? [Hv Hw] Hrs]; subst. cbn [map words_of]. rewrite Hw.
      rewrite IH by assumption. unfold enc. cbn [map concat]. rewrite app_assoc. reflexivity.
  Qed.

  Lemma wt_word_token : forall c w, wt (cs c) w = word_token to_lower c w.
  Proof. reflexivity. Qed.

  (* TextTokenizer against the legacy text builder *)
  Lemma legacy_text_consistent : forall c fmax v, v <> [] ->
    let p := indexed_part TyText c fmax v in
    let toks := fst (text_tokenize is_letter is_number to_lower c fmax v) in
    if skipped TyText c fmax v then toks = []
    else
      toks = map (word_token to_lower c) (filter (sizeok c) (words (segs p) []))
      /\ (forall w, In w (words (segs p) []) ->
            lq_text (cs c) w = [[TText (word_token to_lower c w)]]
            /\ (sizeok c w = true -> query_finds (lq_text (cs c) w) toks = true))
      /\ (words (segs p) [] <> [] ->
            lq_text (cs c) p = map (fun w => [TText (word_token to_lower c w)]) (words (segs p) [])).
  Proof.
    intros c fmax v Hv p toks.
    pose proof (text_consistent is_letter is_number to_lower H_ascii_lower H_idem H_class H_fffd c fmax v Hv) as H.
    cbv zeta in H. subst p toks. destruct (skipped TyText c fmax v); [exact H|].
    destruct H as [Ht _]. split; [exact Ht|]. split.
    - intros w Hin.
      pose proof (words_wordy is_letter is_number H_fffd (segs (indexed_part TyText c fmax v)) []
                    (is_segs_segs _)) as Hw.
      assert (Hnil : wordy is_letter is_number []) by (exists []; split; [constructor|reflexivity]).
      specialize (Hw Hnil). rewrite Forall_forall in Hw. destruct (Hw _ Hin) as [[rs [Hrs Hwe]] Hne].
      assert (Hval : Forall (fun r => valid_rune r = true) rs).
      { eapply Forall_impl; [|exact Hrs]. cbn. tauto. }
      assert (Hq : lq_text (cs c) w = [[TText (word_token to_lower c w)]]).
      { unfold ModelDoc.lq_text.
        assert (Hsegs : segs w = map (fun r => (r, encode r)) rs).
        { rewrite Hwe. apply segs_enc. assumption. }
        pose proof (ltext_loop_words (cs c) (segs w) [] (is_segs_segs w) (Forall_nil _)) as Hl.
        unfold lowenc, enc in Hl. cbn [map concat] in Hl. rewrite Hl, Hsegs.
        rewrite words_wordrunes by assumption. cbn [app]. fold (enc rs) in Hwe. rewrite <- Hwe.
        destruct w; [congruence|]. reflexivity. }
      split; [exact Hq|]. intros Hsz. rewrite Hq, Ht. unfold query_finds. cbn [forallb].
      rewrite andb_true_r. apply existsb_exists. exists (word_token to_lower c w).
      split; [|apply lit_matches_single]. apply in_map. apply filter_In. split; assumption.
    - intros Hne. unfold ModelDoc.lq_text.
      pose proof (ltext_loop_words (cs c) (segs (indexed_part TyText c fmax v)) [] (is_segs_segs _) (Forall_nil _)) as Hl.
      unfold lowenc, enc in Hl. cbn [map concat] in Hl. rewrite Hl.
      destruct (words (segs (indexed_part TyText c fmax v)) []) eqn:Ew; [congruence|]. reflexivity.
  Qed.
End Legacy.
