(* C11 — the indexer's traversal (objects, tags, nested arrays, multi-type fields): every field the
   walk of the property reaches gets its tokens and its `_exists_` token in a meta of the document. *)
From Coq Require Import List Bool NArith ZArith Lia ZifyN ZifyBool ZifyNat.
From C11 Require Import Model ModelDoc ProofsUtf8 ProofsLower ProofsText ProofsPath.
Open Scope N_scope.

Lemma list_eqb_N_true : forall a b, list_eqb_N a b = true <-> a = b.
Proof. intros. split; [apply list_eqb_N_eq|intros ->; apply list_eqb_N_refl]. Qed.

Section Doc.
  Variables (is_letter is_number : N -> bool) (to_lower : N -> N).
  Notation tokenize_full := (tokenize_full is_letter is_number to_lower).
  Notation index_types := (index_types is_letter is_number to_lower).
  Notation dec := (dec is_letter is_number to_lower).
  Notation doc_metas := (doc_metas is_letter is_number to_lower).
  Notation tag_tokens := (tag_tokens is_letter is_number to_lower).
  Notation seen_by := (seen_by is_letter is_number to_lower).

  (* ---------------- index(): what lands under each title *)
  Lemma index_types_some : forall c key all v title ty mx v',
    In ((title, ty, mx), v') (seen_by c all v) ->
    (forall tok, In tok (fst (tokenize_full ty c mx v')) ->
                 In (title_of title key, tok) (index_types c all key (Some v))) /\
    In (K_EXISTS, title_of title key) (index_types c all key (Some v)).
  Proof.
    intros c key. induction all as [|[[t0 ty0] mx0] rest IH]; intros v title ty mx v' Hin; [destruct Hin|].
    cbn [ModelDoc.seen_by ModelDoc.index_types] in *.
    destruct (has_tokenizer ty0) eqn:Ht.
    - destruct (tokenize_full ty0 c mx0 v) as [toks vn] eqn:Etk. cbn [snd] in Hin.
      destruct Hin as [Heq|Hin].
      + inversion Heq; subst. rewrite Etk. cbn [fst]. split.
        * intros tok Htok. apply in_or_app. left. apply in_map. assumption.
        * apply in_or_app. right. left. reflexivity.
      + destruct (IH _ _ _ _ _ Hin) as [H1 H2]. split.
        * intros tok Htok. apply in_or_app. right. right. apply H1. assumption.
        * apply in_or_app. right. right. assumption.
    - apply IH. assumption.
  Qed.

  Lemma index_types_exists : forall c key all x title ty mx,
    In (title, ty, mx) all -> has_tokenizer ty = true ->
    In (K_EXISTS, title_of title key) (index_types c all key x).
  Proof.
    intros c key. induction all as [|[[t0 ty0] mx0] rest IH]; intros x title ty mx Hin Ht; [destruct Hin|].
    cbn [ModelDoc.index_types]. destruct Hin as [Heq|Hin].
    - inversion Heq; subst. rewrite Ht. destruct x as [v|].
      + destruct (tokenize_full ty c mx v). apply in_or_app. right. left. reflexivity.
      + left. reflexivity.
    - destruct (has_tokenizer ty0); [|eapply IH; eauto].
      destruct x as [v|].
      + destruct (tokenize_full ty0 c mx0 v). apply in_or_app. right. right. eapply IH; eauto.
      + right. eapply IH; eauto.
  Qed.

  (* the first title with a tokenizer sees the value itself *)
  Lemma seen_by_first : forall c all v mt v',
    hd_error (seen_by c all v) = Some (mt, v') -> v' = v.
  Proof.
    intros c. induction all as [|[[t0 ty0] mx0] rest IH]; intros v mt v' H; [discriminate|].
    cbn [ModelDoc.seen_by] in H. destruct (has_tokenizer ty0).
    - cbn in H. inversion H. reflexivity.
    - eapply IH; eauto.
  Qed.

  (* ---------------- decodeInternal *)
  Definition here (m : mapping) (c : icfg) (name : list N) (kv : list N * jval)
    : list token * list (list token) :=
    let (k, v) := kv in
    let fname := join name k in
    let mt := mlookup m fname in
    match fst mt, v with
    | TyNoop, _ => ([], [])
    | TyObject, JObj _ _ => dec m c fname v
    | TyTags, JArr els _ => (flat_map (tag_tokens m c fname) els, [])
    | TyNested, JArr els _ =>
      ([], (fix each (els : list jval) : list (list token) :=
              match els with
              | [] => []
              | e :: er =>
                let (t, ms) := dec m c fname e in
                (((K_ALL, []) :: t) :: ms) ++ each er
              end) els)
    | _, _ => (index_types c (snd mt) fname (jvalue v), [])
    end.

  Fixpoint go_spec (m : mapping) (c : icfg) (name : list N) (fs : list (list N * jval))
    : list token * list (list token) :=
    match fs with
    | [] => ([], [])
    | kv :: r =>
      let h := here m c name kv in
      let (t2, m2) := go_spec m c name r in (fst h ++ t2, snd h ++ m2)
    end.

  Lemma dec_obj : forall m c name fs enc, dec m c name (JObj fs enc) = go_spec m c name fs.
  Proof.
    intros m c name fs enc. induction fs as [|[k v] r IH]; [reflexivity|].
    simpl in IH. simpl. rewrite IH. reflexivity.
  Qed.

  Lemma go_spec_in : forall m c name fs kv, In kv fs ->
    incl (fst (here m c name kv)) (fst (go_spec m c name fs)) /\
    incl (snd (here m c name kv)) (snd (go_spec m c name fs)).
  Proof.
    intros m c name. induction fs as [|kv0 r IH]; intros kv Hin; [destruct Hin|].
    cbn [go_spec]. destruct (go_spec m c name r) as [t2 m2] eqn:E. cbn [fst snd].
    destruct Hin as [->|Hin].
    - split; apply incl_appl; apply incl_refl.
    - destruct (IH _ Hin) as [H1 H2]. cbn [fst snd] in *. split; apply incl_appr; assumption.
  Qed.

  Definition each_spec (m : mapping) (c : icfg) (fname : list N) : list jval -> list (list token) :=
    fix each (els : list jval) : list (list token) :=
      match els with
      | [] => []
      | e :: er => let (t, ms) := dec m c fname e in (((K_ALL, []) :: t) :: ms) ++ each er
      end.

  Lemma each_spec_in : forall m c fname els e, In e els ->
    In ((K_ALL, []) :: fst (dec m c fname e)) (each_spec m c fname els) /\
    incl (snd (dec m c fname e)) (each_spec m c fname els).
  Proof.
    intros m c fname. induction els as [|e0 er IH]; intros e Hin; [destruct Hin|].
    cbn [each_spec]. fold (each_spec m c fname er).
    destruct Hin as [->|Hin].
    - destruct (dec m c fname e) as [t ms]. cbn [fst snd]. split.
      + left. reflexivity.
      + intros x Hx. right. apply in_or_app. left. assumption.
    - destruct (IH _ Hin) as [H1 H2]. destruct (dec m c fname e0) as [t0 ms0].
      split.
      + apply in_or_app. right. assumption.
      + intros x Hx. apply in_or_app. right. apply H2. assumption.
  Qed.

  Lemma here_leafy : forall m c name k v, leafy m (join name k) v ->
    here m c name (k, v) = (index_types c (snd (mlookup m (join name k))) (join name k) (jvalue v), []).
  Proof.
    intros m c name k v H. unfold leafy in H. unfold here.
    destruct (fst (mlookup m (join name k))); destruct v; try reflexivity; destruct H.
  Qed.

  (* every reached field has all tokens index() makes for it in one meta: the current one or one of
     the metas created for nested elements *)
  Lemma dec_reach : forall m c name n f x, reach m name n f x ->
    exists meta, In meta (fst (dec m c name n) :: snd (dec m c name n)) /\
                 incl (index_types c (snd (mlookup m f)) f x) meta.
  Proof.
    intros m c name n f x H. induction H.
    - (* field *)
      rewrite dec_obj. destruct (go_spec_in m c name fs _ H) as [H1 _].
      rewrite here_leafy in H1 by assumption. cbn [fst] in H1.
      eexists. split; [left; reflexivity|]. exact H1.
    - (* object *)
      rewrite dec_obj. destruct (go_spec_in m c name fs _ H) as [H2 H3].
      unfold here in H2, H3. rewrite H0 in H2, H3.
      destruct IHreach as [meta [Hm Hi]]. destruct Hm as [<-|Hm].
      + eexists. split; [left; reflexivity|]. eapply incl_tran; eauto.
      + exists meta. split; [right; apply H3; assumption|assumption].
    - (* tag *)
      rewrite dec_obj. destruct (go_spec_in m c name fs _ H) as [H3 _].
      unfold here in H3. rewrite H0 in H3. cbn [fst] in H3.
      eexists. split; [left; reflexivity|].
      eapply incl_tran; [|exact H3].
      intros t Ht. apply in_flat_map. exists (JObj tfs tenc). split; [assumption|].
      unfold ModelDoc.tag_tokens. rewrite H2. exact Ht.
    - (* nested *)
      rewrite dec_obj. destruct (go_spec_in m c name fs _ H) as [_ H3].
      unfold here in H3. rewrite H0 in H3. cbn [snd] in H3. fold (each_spec m c (join name k) els) in H3.
      destruct (each_spec_in m c (join name k) els e H1) as [H4 H5].
      destruct IHreach as [meta [Hm Hi]]. destruct Hm as [<-|Hm].
      + exists ((K_ALL, []) :: fst (dec m c (join name k) e)). split.
        * right. apply H3. assumption.
        * apply incl_tl. assumption.
      + exists meta. split; [right; apply H3; apply H5; assumption|assumption].
  Qed.

  Lemma doc_metas_reach : forall m c doc f x, reach m [] doc f x ->
    exists meta, In meta (doc_metas m c doc) /\ incl (index_types c (snd (mlookup m f)) f x) meta.
  Proof.
    intros m c doc f x H. destruct (dec_reach m c [] doc f x H) as [meta [Hm Hi]].
    unfold ModelDoc.doc_metas. destruct (dec m c [] doc) as [t0 ms]. cbn [fst snd] in Hm.
    destruct Hm as [<-|Hm].
    - eexists. split; [left; reflexivity|]. apply incl_tl. assumption.
    - exists (meta ++ t0). split.
      + right. apply in_map_iff. exists meta. split; [reflexivity|assumption].
      + apply incl_appl. assumption.
  Qed.

  (* ---------------- findability carried from the tokenizer's output to the document's meta *)
  Lemma field_tokens_in : forall meta key tok, In (key, tok) meta -> In tok (field_tokens meta key).
  Proof.
    intros meta key tok H. unfold field_tokens. apply in_map_iff. exists (key, tok). split; [reflexivity|].
    apply filter_In. split; [assumption|]. cbn. apply list_eqb_N_refl.
  Qed.

  Lemma query_finds_mono : forall lits toks toks', incl toks toks' ->
    query_finds lits toks = true -> query_finds lits toks' = true.
  Proof.
    intros lits toks toks' Hi H. unfold query_finds in *. rewrite forallb_forall in *.
    intros l Hl. specialize (H l Hl). apply existsb_exists in H. destruct H as [t [Ht Hm]].
    apply existsb_exists. exists t. split; [apply Hi; assumption|assumption].
  Qed.

  (* The flattening theorem. A field the walk reaches (through objects, tag arrays, nested arrays; dotted
     names) has one meta of the document in which, for EVERY title of its mapping entry that has a
     tokenizer: `_exists_:<title>` is present, and every query that finds the value among the tokenizer's
     own tokens (tokenizer of that title's type and size, applied to the value as that tokenizer sees it)
     finds it among the meta's tokens under that title. *)
  Lemma flatten_findable : forall m c doc f x, reach m [] doc f x ->
    exists meta, In meta (doc_metas m c doc) /\
      (forall title ty mx, In (title, ty, mx) (snd (mlookup m f)) -> has_tokenizer ty = true ->
         In (K_EXISTS, title_of title f) meta /\ In (title_of title f) (field_tokens meta K_EXISTS)) /\
      (forall v, x = Some v ->
         forall title ty mx v', In ((title, ty, mx), v') (seen_by c (snd (mlookup m f)) v) ->
           incl (fst (tokenize_full ty c mx v')) (field_tokens meta (title_of title f)) /\
           (forall lits, query_finds lits (fst (tokenize_full ty c mx v')) = true ->
                         query_finds lits (field_tokens meta (title_of title f)) = true)).
  Proof.
    intros m c doc f x H. destruct (doc_metas_reach m c doc f x H) as [meta [Hm Hi]].
    exists meta. split; [assumption|]. split.
    - intros title ty mx Hin Ht.
      pose proof (index_types_exists c f _ x _ _ _ Hin Ht) as He. apply Hi in He.
      split; [assumption|]. apply field_tokens_in. assumption.
    - intros v -> title ty mx v' Hs.
      destruct (index_types_some c f _ v _ _ _ _ Hs) as [H1 _].
      assert (Hincl : incl (fst (tokenize_full ty c mx v')) (field_tokens meta (title_of title f))).
      { intros tok Htok. apply field_tokens_in. apply Hi. apply H1. assumption. }
      split; [assumption|]. intros lits Hq. eapply query_finds_mono; eauto.
  Qed.

  (* in case-sensitive mode no tokenizer touches the value: every title sees the value itself *)
  Lemma text_loop_cs_snd : forall c, cs c = true -> forall l cur hu ao,
    snd (text_loop is_letter is_number to_lower c l cur hu ao) = cur ++ raws l.
  Proof.
    intros c Hc.
    assert (He : forall cur hu ao, snd (text_emit to_lower c cur hu ao) = cur).
    { intros. unfold text_emit. rewrite Hc. cbn [negb andb].
      destruct (nonempty cur && Nat.leb (length cur) (N.to_nat (max_tok c))); reflexivity. }
    induction l as [|[r raw] rest IH]; intros cur hu ao.
    - cbn [text_loop]. rewrite Hc. cbn [negb andb]. rewrite app_nil_r.
      destruct (negb (nonempty cur) || Nat.ltb (N.to_nat (max_tok c)) (length cur)); reflexivity.
    - cbn [text_loop]. cbv zeta. rewrite raws_cons.
      destruct (first_byte raw <? 128).
      + destruct (is_text_token (first_byte raw)).
        * rewrite IH. rewrite <- app_assoc. reflexivity.
        * specialize (He cur (hu || is_upper_ascii (first_byte raw)) ao).
          destruct (text_emit to_lower c cur (hu || is_upper_ascii (first_byte raw)) ao) as [t mm].
          specialize (IH [] false true).
          destruct (text_loop is_letter is_number to_lower c rest [] false true) as [ts ms].
          cbn [snd] in *. subst. reflexivity.
      + destruct (is_letter r || is_number r).
        * rewrite IH. rewrite <- app_assoc. reflexivity.
        * specialize (He cur hu false).
          destruct (text_emit to_lower c cur hu false) as [t mm].
          specialize (IH [] false true).
          destruct (text_loop is_letter is_number to_lower c rest [] false true) as [ts ms].
          cbn [snd] in *. subst. reflexivity.
  Qed.

  Lemma tokenize_full_cs_snd : forall c, cs c = true -> forall ty mx v,
    snd (tokenize_full ty c mx v) = v.
  Proof.
    intros c Hc ty mx v. destruct ty; try reflexivity; cbn [ModelDoc.tokenize_full].
    - unfold kw_tokenize. destruct (_ && _); [reflexivity|]. unfold lower_if. rewrite Hc. cbn [snd].
      apply firstn_skipn.
    - unfold text_tokenize. destruct (_ && _); [reflexivity|]. destruct v as [|b t]; [reflexivity|].
      pose proof (text_loop_cs_snd c Hc (segs (firstn (limit_of (def_field c) mx) (b :: t))) [] false true) as H.
      destruct (text_loop is_letter is_number to_lower c _ [] false true) as [ts mm]. cbn [snd] in *.
      rewrite H. cbn [app]. rewrite raws_segs. apply firstn_skipn.
    - unfold path_tokenize. destruct (_ && _); [reflexivity|].
      rewrite (path_loop_cs to_lower c Hc). cbn [app]. unfold lower_if. rewrite Hc. cbn [snd].
      apply firstn_skipn.
  Qed.

  Lemma seen_by_cs : forall c, cs c = true -> forall all v mt v',
    In (mt, v') (seen_by c all v) -> v' = v.
  Proof.
    intros c Hc. induction all as [|[[t0 ty0] mx0] rest IH]; intros v mt v' H; [destruct H|].
    cbn [ModelDoc.seen_by] in H. destruct (has_tokenizer ty0).
    - destruct H as [Heq|H]; [inversion Heq; reflexivity|].
      rewrite (tokenize_full_cs_snd c Hc) in H. eapply IH; eauto.
    - eapply IH; eauto.
  Qed.
End Doc.
